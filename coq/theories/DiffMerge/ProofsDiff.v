(** What a delta produced by diffMap / diffArray contains, key by key. *)
From Coq Require Import List ZArith String Bool Arith Lia.
From Thunder Require Import Lib.Json DiffMerge.Model DiffMerge.ProofsBase DiffMerge.ProofsUnfold.
Import ListNotations.
Open Scope string_scope.
Open Scope list_scope.

Definition removed_entries (o n : list (string * json)) : list (string * json) :=
  flat_map (fun kv => if has_key (fst kv) n then [] else [(fst kv, mark_removed)]) o.

Definition changed_entries (o : list (string * json)) (subs : list (string * (json * (json -> option json)))) :=
  flat_map (fun e =>
              match e with
              | (k, (v, dv)) =>
                  match lookup k o with
                  | Some ov => opt_entry k (dv ov)
                  | None => [(k, mark_replaced v)]
                  end
              end) subs.

Lemma diff_map_eq o n subs :
  diff_map o n subs =
  if negb (json_eqb (get_key o) (get_key n)) then Some (mark_replaced (JObj n))
  else finish (removed_entries o n ++ changed_entries o subs).
Proof. reflexivity. Qed.

Lemma has_key_cons {A} k k' (v : A) t : has_key k ((k', v) :: t) = if String.eqb k k' then true else has_key k t.
Proof. unfold has_key. cbn [lookup]. destruct (String.eqb k k'); reflexivity. Qed.

Lemma lookup_removed k o n :
  lookup k (removed_entries o n) = if has_key k o && negb (has_key k n) then Some mark_removed else None.
Proof.
  unfold removed_entries. induction o as [|[k' v] t IH]; [reflexivity|].
  cbn [flat_map fst]. rewrite lookup_app, IH, has_key_cons.
  destruct (String.eqb k k') eqn:E.
  - apply String.eqb_eq in E. subst k'.
    destruct (has_key k n); cbn [lookup negb andb].
    + rewrite andb_false_r. reflexivity.
    + rewrite String.eqb_refl. reflexivity.
  - destruct (has_key k' n); cbn [lookup]; [reflexivity|]. rewrite E. reflexivity.
Qed.

Lemma lookup_opt_entry k k' o : lookup k (opt_entry k' o) = if String.eqb k k' then o else None.
Proof. destruct o; cbn [opt_entry lookup]; destruct (String.eqb k k'); reflexivity. Qed.

Lemma lookup_changed k o n :
  NoDup (map fst n) ->
  lookup k (changed_entries o (obj_subs n)) =
  match lookup k n with
  | None => None
  | Some nv => match lookup k o with Some ov => diff nv ov | None => Some (mark_replaced nv) end
  end.
Proof.
  unfold changed_entries, obj_subs. induction n as [|[k' nv'] t IH]; intros Hnd; [reflexivity|].
  inversion Hnd as [|? ? Hnotin Hnd']; subst.
  cbn [map flat_map fst snd]. rewrite lookup_app. cbn [lookup].
  destruct (String.eqb k k') eqn:E.
  - apply String.eqb_eq in E. subst k'.
    destruct (lookup k o) as [ov|].
    + rewrite lookup_opt_entry, String.eqb_refl.
      destruct (diff nv' ov); [reflexivity|].
      rewrite IH by assumption. rewrite (notin_lookup_none k t Hnotin). reflexivity.
    + cbn [lookup]. rewrite String.eqb_refl. reflexivity.
  - assert (Hskip : lookup k (match lookup k' o with
                              | Some ov => opt_entry k' (diff nv' ov)
                              | None => [(k', mark_replaced nv')]
                              end) = None).
    { destruct (lookup k' o); [rewrite lookup_opt_entry, E; reflexivity | cbn [lookup]; rewrite E; reflexivity]. }
    rewrite Hskip. apply IH. assumption.
Qed.

(** Combined view of the delta of two objects with equal keys. *)
Definition delta_at (o n : list (string * json)) (k : string) : option json :=
  match lookup k o, lookup k n with
  | Some _, None => Some mark_removed
  | Some ov, Some nv => diff nv ov
  | None, Some nv => Some (mark_replaced nv)
  | None, None => None
  end.

Lemma lookup_delta k o n :
  NoDup (map fst n) ->
  lookup k (removed_entries o n ++ changed_entries o (obj_subs n)) = delta_at o n k.
Proof.
  intros Hnd. rewrite lookup_app, lookup_removed, lookup_changed by assumption.
  unfold delta_at, has_key. destruct (lookup k o), (lookup k n); reflexivity.
Qed.

(** diff never emits the removal marker. *)
Lemma mark_replaced_not_removed v : is_removed (mark_replaced v) = false.
Proof. unfold mark_replaced. destruct (is_scalar v) eqn:E; [destruct v; try discriminate; reflexivity | reflexivity]. Qed.

Lemma finish_not_removed d x : finish d = Some x -> is_removed x = false.
Proof. destruct d; cbn [finish]; [discriminate | intros [= <-]; reflexivity]. Qed.

Lemma diff_not_removed new old d : diff new old = Some d -> is_removed d = false.
Proof.
  destruct new.
  1-4: cbn [diff]; destruct old; try (intros [= <-]; apply mark_replaced_not_removed);
    match goal with |- (if ?c then _ else _) = _ -> _ => destruct c; [discriminate | intros [= <-]; apply mark_replaced_not_removed] end.
  - rewrite diff_arr. destruct old; try (intros [= <-]; apply mark_replaced_not_removed).
    unfold diff_array. apply finish_not_removed.
  - rewrite diff_obj. destruct old; try (intros [= <-]; apply mark_replaced_not_removed).
    rewrite diff_map_eq. destruct (negb _); [intros [= <-]; apply mark_replaced_not_removed | apply finish_not_removed].
Qed.

(** Replacement deltas merge to the stripped new value, whatever the previous value. *)
Lemma merge_mark_replaced v prev : merge (mark_replaced v) prev = Some (strip v).
Proof.
  unfold mark_replaced. destruct (is_scalar v) eqn:E.
  - rewrite (strip_scalar v E). destruct v; try discriminate; reflexivity.
  - reflexivity.
Qed.

Lemma merge_replaced_mark_replaced v : merge_replaced (mark_replaced v) = Some (strip v).
Proof.
  unfold mark_replaced, merge_replaced. destruct (is_scalar v) eqn:E.
  - rewrite E. rewrite (strip_scalar v E). reflexivity.
  - reflexivity.
Qed.

Lemma merge_js_mark_replaced v orig : merge_js (mark_replaced v) orig = strip v.
Proof.
  unfold mark_replaced. destruct (is_scalar v) eqn:E.
  - rewrite (strip_scalar v E). destruct v; try discriminate; reflexivity.
  - reflexivity.
Qed.

(** With equal keys and well-formed objects, "__key" never appears in the delta. *)
Lemma scalar_eqb_diff_none a b : is_scalar a = true -> json_eqb a b = true -> diff b a = None.
Proof.
  intros Hs He. apply json_eqb_eq in He. subst b.
  destruct a; try discriminate; cbn [diff]; rewrite json_eqb_refl; reflexivity.
Qed.

Lemma delta_at_key o n :
  (forall kv, lookup key_name o = Some kv -> is_scalar kv = true) ->
  (forall kv, lookup key_name n = Some kv -> is_scalar kv = true) ->
  json_eqb (get_key o) (get_key n) = true ->
  delta_at o n key_name = None.
Proof.
  unfold delta_at, get_key. intros Ho Hn.
  destruct (lookup key_name o) as [ko|] eqn:Eo, (lookup key_name n) as [kn|] eqn:En; intros He.
  - apply scalar_eqb_diff_none; auto.
  - specialize (Ho ko eq_refl). apply json_eqb_eq in He. subst ko. discriminate.
  - specialize (Hn kn eq_refl). apply json_eqb_eq in He. subst kn. discriminate.
  - reflexivity.
Qed.
