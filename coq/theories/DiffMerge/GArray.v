(** Facts about vreorder indices and the element part of an array delta (shared by Go and JS merges). *)
From Coq Require Import List ZArith String Bool Arith Lia.
From Thunder Require Import Lib.Json DiffMerge.Model DiffMerge.ProofsBase DiffMerge.ProofsUnfold DiffMerge.ProofsArray
     DiffMerge.GModel DiffMerge.GBase DiffMerge.GUnfold DiffMerge.GDiff.
Import ListNotations.
Open Scope string_scope.
Open Scope list_scope.

Section S.
Context {A : Type} {O : atom_ops A} (L : atom_laws O) (strict : bool).
Notation val := (val A).
Notation wfs := (vwf_gen strict).


Lemma vtake_first_in k u i u' :
  vtake_first k u = Some (i, u') ->
  In i (map snd u) /\ (forall x, In x (map snd u') -> In x (map snd u)).
Proof.
  revert i u'. induction u as [|[k' i'] t IH]; cbn [vtake_first]; intros i u'; [discriminate|].
  destruct (veqb k k').
  - intros [= <- <-]. cbn [map snd]. split; [left; reflexivity | intros x Hx; right; exact Hx].
  - destruct (vtake_first k t) as [[j t']|] eqn:E; [|discriminate].
    intros [= <- <-]. destruct (IH j t' eq_refl) as [H1 H2]. cbn [map snd]. split.
    + right. exact H1.
    + intros x [Hx|Hx]; [left; exact Hx | right; apply H2; exact Hx].
Qed.

Lemma vreorder_go_length u n : List.length (vreorder_go u n) = List.length n.
Proof.
  revert u. induction n as [|x t IH]; intros u; cbn [vreorder_go]; [reflexivity|].
  destruct (vtake_first (vreorder_key x) u) as [[i u']|]; cbn [List.length]; rewrite IH; reflexivity.
Qed.

Lemma vreorder_go_bound b u n :
  (forall x, In x (map snd u) -> x < b) -> Forall (idx_ok b) (vreorder_go u n).
Proof.
  revert u. induction n as [|x t IH]; intros u Hu; cbn [vreorder_go]; [constructor|].
  destruct (vtake_first (vreorder_key x) u) as [[i u']|] eqn:E.
  - apply vtake_first_in in E as [H1 H2]. constructor; [cbn; apply Hu; exact H1|].
    apply IH. intros y Hy. apply Hu. apply H2. exact Hy.
  - constructor; [exact I | apply IH; exact Hu].
Qed.


Lemma vreorder_indices_length o n : List.length (vcompute_reorder_indices o n) = List.length n.
Proof. apply vreorder_go_length. Qed.

Lemma vreorder_indices_bound o n : Forall (idx_ok (List.length o)) (vcompute_reorder_indices o n).
Proof.
  apply vreorder_go_bound. intros x Hx. apply index_from_bound in Hx. rewrite map_length in Hx. exact Hx.
Qed.

Lemma vchoose_valid o n : List.length (vchoose o n) = List.length n /\ Forall (idx_ok (List.length o)) (vchoose o n).
Proof.
  unfold vchoose. destruct guide as [g|]; [|split; [apply vreorder_indices_length | apply vreorder_indices_bound]].
  destruct (g o n) as [idx|]; [|split; [apply vreorder_indices_length | apply vreorder_indices_bound]].
  destruct (Nat.eqb (List.length idx) (List.length n) && forallb (idx_in_range (List.length o)) idx) eqn:E;
    [|split; [apply vreorder_indices_length | apply vreorder_indices_bound]].
  apply andb_prop in E as [E1 E2]. apply Nat.eqb_eq in E1. split; [exact E1|].
  apply Forall_forall. intros [j|] Hin; cbn; [|exact I].
  rewrite forallb_forall in E2. specialize (E2 _ Hin). cbn in E2. apply Nat.ltb_lt in E2. exact E2.
Qed.

Lemma vchoose_length o n : List.length (vchoose o n) = List.length n.
Proof. apply vchoose_valid. Qed.

Lemma vchoose_bound o n : Forall (idx_ok (List.length o)) (vchoose o n).
Proof. apply vchoose_valid. Qed.

(** The old element the i-th new element is compared with. *)
Definition voldI (o : list val) (j : option nat) : val :=
  match j with Some j' => nth j' o VNull | None => VNull end.

Lemma vdiff_elems_cons o i v t j it :
  vdiff_elems o i (varr_subs (v :: t)) (j :: it) =
  vopt_entry (dec i) (vdiff v (voldI o j)) ++ vdiff_elems o (S i) (varr_subs t) it.
Proof. reflexivity. Qed.

Lemma vdiff_elems_keys o n : forall s idx k,
  In k (map fst (vdiff_elems o s (varr_subs n) idx)) -> exists i, k = dec i /\ s <= i < s + List.length n.
Proof.
  induction n as [|v t IH]; intros s idx k; [cbn; contradiction|].
  destruct idx as [|j it]; [cbn; contradiction|].
  rewrite vdiff_elems_cons, map_app. intros H. apply in_app_or in H as [H|H].
  - destruct (vdiff v (voldI o j)); cbn in H; [|contradiction]. destruct H as [<-|[]].
    exists s. cbn [List.length]. split; [reflexivity | lia].
  - apply IH in H as [i [-> Hi]]. exists i. cbn [List.length]. split; [reflexivity | lia].
Qed.

Lemma vlookup_diff_elems_dollar o n s idx : lookup dollar (vdiff_elems o s (varr_subs n) idx) = None.
Proof.
  apply notin_lookup_none. intros H. apply vdiff_elems_keys in H as [i [E _]].
  symmetry in E. apply dec_not_dollar in E. exact E.
Qed.

Lemma vlookup_diff_elems_below o n s idx i : i < s -> lookup (dec i) (vdiff_elems o s (varr_subs n) idx) = None.
Proof.
  intros Hlt. apply notin_lookup_none. intros H. apply vdiff_elems_keys in H as [i' [E Hi']].
  apply dec_inj in E. lia.
Qed.

Lemma vlookup_diff_elems o n : forall s idx i v j,
  nth_error n i = Some v -> nth_error idx i = Some j ->
  lookup (dec (s + i)) (vdiff_elems o s (varr_subs n) idx) = vdiff v (voldI o j).
Proof.
  induction n as [|v0 t IH]; intros s idx i v j Hn Hi; [destruct i; discriminate|].
  destruct idx as [|j0 it]; [destruct i; discriminate|].
  rewrite vdiff_elems_cons, lookup_app, vlookup_opt_entry, dec_eqb.
  destruct i as [|i'].
  - cbn in Hn, Hi. inversion Hn; inversion Hi; subst. rewrite Nat.add_0_r, Nat.eqb_refl.
    destruct (vdiff v (voldI o j)); [reflexivity|]. apply vlookup_diff_elems_below. lia.
  - cbn in Hn, Hi. destruct (Nat.eqb_spec (s + S i') s); [lia|].
    replace (s + S i') with (S s + i') by lia. apply IH; assumption.
Qed.



Lemma vnth_opt_map_strip j (o : list val) : j < List.length o -> nth_opt j (map vstrip o) = Some (vstrip (nth j o VNull)).
Proof.
  revert j. induction o as [|a t IH]; intros j Hj; [cbn in Hj; lia|].
  destruct j; cbn [map nth_opt nth]; [reflexivity|]. apply IH. cbn in Hj. lia.
Qed.

Lemma vreorder_spec o idx :
  Forall (idx_ok (List.length o)) idx ->
  vreorder (map vstrip o) idx = Some (map (fun j => vstrip (voldI o j)) idx).
Proof.
  induction idx as [|[j|] t IH]; intros H; [reflexivity| |]; inversion H; subst; cbn [vreorder map voldI];
    rewrite IH by assumption.
  - rewrite vnth_opt_map_strip by assumption. reflexivity.
  - reflexivity.
Qed.
End S.
