(** Closed witnesses (replayed on the code by corpus/C03/*.json): the round trip of the current diffMap off
    the strict domain, and the ways the two clients differ on ill-formed deltas. *)
From Coq Require Import List ZArith String Bool.
From Thunder Require Import Lib.Json DiffMerge.Model DiffMerge.GModel DiffMerge.GSer DiffMerge.GInst.
Import ListNotations.
Open Scope string_scope.
Open Scope list_scope.

Definition one : val satom := VAtom (SNum 0 (DInt 1)).
Definition nk_with : val satom := VObj [("__key", VNull); ("a", one)].
Definition nk_without : val satom := VObj [("a", one)].

Lemma nil_key_witness :
  (exists old new d, vwf (O := sops false) old = true /\ vwf (O := sops false) new = true
     /\ VDiff (O := sops false) old new = Some d
     /\ VMerge (O := wops false) (vmap ser (vstrip old)) (vmap ser d) = None)
  /\ (exists old new d r, vwf (O := sops false) old = true /\ vwf (O := sops false) new = true
     /\ VDiff (O := sops false) old new = Some d
     /\ VMerge (O := wops false) (vmap ser (vstrip old)) (vmap ser d) = Some r
     /\ VMergeJS (O := wops false) (vmap ser (vstrip old)) (vmap ser d) = r
     /\ ~ vjeq r (vmap ser (vstrip new))).
Proof.
  split.
  - exists nk_with, nk_without, (VObj [("__key", VArr [])]). repeat split; vm_compute; reflexivity.
  - exists nk_without, nk_with, (VObj [("__key", VArr [VNull])]),
           (VObj [("a", VAtom (WNum (DInt 1))); ("__key", VNull)]).
    split; [reflexivity|]. split; [reflexivity|]. split; [vm_compute; reflexivity|].
    split; [vm_compute; reflexivity|]. split; [vm_compute; reflexivity|].
    intros Hj. inversion Hj as [| | |l1 l2 Hl]; subst. specialize (Hl "__key"). cbn in Hl. inversion Hl.
Qed.

Definition w1 : val watom := VAtom (WNum (DInt 1)).

Lemma clients_differ_witness :
  (exists p d, VMerge (O := wops false) p d = None /\ VMergeJS (O := wops false) p d = p)
  /\ (exists p d r, VMerge (O := wops false) p d = Some VNull /\ VMergeJS (O := wops false) p d = r /\ r <> VNull)
  /\ (exists p d r, VMerge (O := wops false) p d = None /\ VMergeJS (O := wops false) p d = r)
  /\ (exists p d r, VMerge (O := wops false) p d = None /\ VMergeJS (O := wops false) p d = r).
Proof.
  split; [|split; [|split]].
  - exists (VObj [("a", w1)]), (VObj [("zz", VArr [])]). split; vm_compute; reflexivity.
  - exists w1, (VObj [("a", w1)]), (VObj [("a", w1)]). split; [vm_compute; reflexivity|]. split; [vm_compute; reflexivity | discriminate].
  - exists (VObj [("a", w1)]), (VObj [("a", VNull)]), (VObj [("a", VNull)]). split; vm_compute; reflexivity.
  - exists (VArr [w1]), (VObj [("$", VArr [VAtom (WNum (DInt 3))])]), (VArr [VNull]). split; vm_compute; reflexivity.
Qed.
