(** The two scalar domains the harness evaluates the generic model on, and the correspondence checks.

    [satom]: what diff.Diff sees on the server.  Numbers carry their Go type ([int64 1] and [float64 1] are
    different under Go's [==]); [[]byte] leaves (by their base64 text), and a named string type, are not in
    markReplaced's pass-through list; [[]byte] is not comparable.
    [watom]: what the client holds after encoding/json: bool, float64, string.
    [ser]: json.Marshal then json.Unmarshal into interface{}, on a leaf.
    Numbers are dyadic rationals in canonical form: an integer, or m / 2^k with m odd. *)
From Coq Require Import List ZArith String Ascii Bool Arith Lia.
From Thunder Require Import Lib.Json DiffMerge.Model DiffMerge.GModel DiffMerge.GSer.
Import ListNotations.
Open Scope string_scope.
Open Scope list_scope.

Inductive dyad := DInt (z : Z) | DFrac (m : Z) (k : positive).

Definition dyad_eqb (a b : dyad) : bool :=
  match a, b with
  | DInt x, DInt y => Z.eqb x y
  | DFrac m k, DFrac m' k' => Z.eqb m m' && Pos.eqb k k'
  | _, _ => false
  end.

Lemma dyad_eqb_eq a b : dyad_eqb a b = true <-> a = b.
Proof.
  destruct a, b; cbn; try (split; [discriminate | congruence]).
  - rewrite Z.eqb_eq. split; congruence.
  - rewrite andb_true_iff, Z.eqb_eq, Pos.eqb_eq. split; [intros [-> ->]; reflexivity | intros [= -> ->]; auto].
Qed.

(** [ty]: index into the harness's list of Go numeric types (int64, int, int32, ..., float32, float64). *)
Inductive satom :=
| SBool (b : bool)
| SNum (ty : nat) (q : dyad)
| SStr (s : string)
| SBytes (b64 : string)
| SNamed (s : string).

Definition satom_eqb (a b : satom) : bool :=
  match a, b with
  | SBool x, SBool y => Bool.eqb x y
  | SNum t q, SNum t' q' => Nat.eqb t t' && dyad_eqb q q'
  | SStr x, SStr y => String.eqb x y
  | SBytes x, SBytes y => String.eqb x y
  | SNamed x, SNamed y => String.eqb x y
  | _, _ => false
  end.

Lemma satom_eqb_eq a b : satom_eqb a b = true <-> a = b.
Proof.
  destruct a, b; cbn; try (split; [discriminate | congruence]).
  - rewrite Bool.eqb_true_iff. split; congruence.
  - rewrite andb_true_iff, Nat.eqb_eq, dyad_eqb_eq. split; [intros [-> ->]; reflexivity | intros [= -> ->]; auto].
  - rewrite String.eqb_eq. split; congruence.
  - rewrite String.eqb_eq. split; congruence.
  - rewrite String.eqb_eq. split; congruence.
Qed.

(** Go [int] is type 1 in the harness's list. *)
Definition ty_int : nat := 1.

(** Names of the Go numeric types, in the harness's order. *)
Definition num_types : list string :=
  ["int64"; "int"; "int32"; "int16"; "int8"; "uint"; "uint8"; "uint16"; "uint32"; "uint64"; "float32"; "float64"].
Definition ty_name (t : nat) : string := nth t num_types "<?>".

Definition smem (x : string) (l : list string) : bool := existsb (String.eqb x) l.

(** The pass-through lists of diff.markReplaced and merge.mergeReplaced as they stand in the tree; the harness
    extracts them from the sources (go/ast) on every run and hands them to the instances below. *)
Definition default_passthrough : list string :=
  ["bool"; "int"; "int8"; "int16"; "int32"; "int64"; "uint"; "uint8"; "uint16"; "uint32"; "uint64"; "float32"; "float64"; "string"].

Definition s_type (a : satom) : string :=
  match a with
  | SBool _ => "bool"
  | SNum t _ => ty_name t
  | SStr _ => "string"
  | SBytes _ => "[]byte"
  | SNamed _ => "<named>"
  end.

Inductive watom :=
| WBool (b : bool)
| WNum (q : dyad)
| WStr (s : string).

Definition watom_eqb (a b : watom) : bool :=
  match a, b with
  | WBool x, WBool y => Bool.eqb x y
  | WNum q, WNum q' => dyad_eqb q q'
  | WStr x, WStr y => String.eqb x y
  | _, _ => false
  end.

Lemma watom_eqb_eq a b : watom_eqb a b = true <-> a = b.
Proof.
  destruct a, b; cbn; try (split; [discriminate | congruence]).
  - rewrite Bool.eqb_true_iff. split; congruence.
  - rewrite dyad_eqb_eq. split; congruence.
  - rewrite String.eqb_eq. split; congruence.
Qed.

(** the Go type encoding/json gives a leaf when it decodes into interface{} *)
Definition w_type (a : watom) : string :=
  match a with WBool _ => "bool" | WNum _ => "float64" | WStr _ => "string" end.

(** * Following the implementation's index lists.

    [table]: for some pairs of lists (old, new) the index list the implementation was seen to use.  The model
    with [guide := table lookup] uses them where they are of the right length and in range, and its own choice
    elsewhere; the round-trip theorems hold for it like for every guide.  The harness fills the table only
    where the implementation's list differs from computeReorderIndices as modelled (never, on the tree as it
    is).  [matching_ok] is what the documentation of computeReorderIndices promises about ANY such list: an
    index is the position of an old element with the same reorder key, no position is used twice, and -1 is
    given only when every old position with that key is used. *)
Definition table := list (list (val satom) * list (val satom) * list (option nat)).

Fixpoint list_veqb (O : atom_ops satom) (a b : list (val satom)) : bool :=
  match a, b with
  | [], [] => true
  | x :: a', y :: b' => @veqb _ O x y && list_veqb O a' b'
  | _, _ => false
  end.

(** only [aeqb] matters here: structural equality of Go-typed values *)
Definition s_eq_ops : atom_ops satom := {|
  aeqb := satom_eqb; raw := fun _ => true; cmp := fun a => match a with SBytes _ => false | _ => true end;
  num := fun z => SNum ty_int (DInt z); as_num := fun _ => None; fix4 := false; keyable := fun _ => true; guide := None
|}.

Definition tlookup (t : table) (o n : list (val satom)) : option (list (option nat)) :=
  match find (fun e => list_veqb s_eq_ops (fst (fst e)) o && list_veqb s_eq_ops (snd (fst e)) n) t with
  | Some e => Some (snd e)
  | None => None
  end.

(** The server's domain: [dl] = the pass-through list of markReplaced, [fixed] = diffMap skips "__key" (fix-4),
    [fixed5] = []byte keys are usable (fix-5), [t] = index lists to follow. *)
Definition sopsL (dl : list string) (fixed fixed5 : bool) (t : table) : atom_ops satom := {|
  aeqb := satom_eqb;
  raw := fun a => smem (s_type a) dl || (match a with SBytes _ => smem "[]uint8" dl | _ => false end);
  cmp := fun a => match a with SBytes _ => false | _ => true end;
  num := fun z => SNum ty_int (DInt z);
  as_num := fun a => match a with SNum _ (DInt z) => Some z | _ => None end;
  fix4 := fixed;
  keyable := fun a => fixed5 || match a with SBytes _ => false | _ => true end;
  guide := match t with [] => None | _ => Some (tlookup t) end
|}.

(** The client's domain: [ml] = the pass-through list of mergeReplaced. *)
Definition wopsL (ml : list string) (fixed : bool) : atom_ops watom := {|
  aeqb := watom_eqb;
  raw := fun a => smem (w_type a) ml;
  cmp := fun _ => true;
  num := fun z => WNum (DInt z);
  as_num := fun a => match a with WNum (DInt z) => Some z | _ => None end;
  fix4 := fixed;
  keyable := fun _ => true;
  guide := None
|}.

Definition sops (fixed : bool) : atom_ops satom := sopsL default_passthrough fixed false [].
Definition sops5 (fixed : bool) : atom_ops satom := sopsL default_passthrough fixed true [].
Definition sops_g (fixed : bool) (t : table) : atom_ops satom := sopsL default_passthrough fixed false t.
Definition wops (fixed : bool) : atom_ops watom := wopsL default_passthrough fixed.

Lemma sopsL_laws dl fixed fixed5 t : atom_laws (sopsL dl fixed fixed5 t).
Proof. constructor; [exact satom_eqb_eq | reflexivity]. Qed.

Lemma wopsL_laws ml fixed : atom_laws (wopsL ml fixed).
Proof. constructor; [exact watom_eqb_eq | reflexivity]. Qed.

Lemma sops_laws fixed : atom_laws (sops fixed).
Proof. apply sopsL_laws. Qed.
Lemma sops5_laws fixed : atom_laws (sops5 fixed).
Proof. apply sopsL_laws. Qed.
Lemma sops_g_laws fixed t : atom_laws (sops_g fixed t).
Proof. apply sopsL_laws. Qed.
Lemma wops_laws fixed : atom_laws (wops fixed).
Proof. apply wopsL_laws. Qed.

(** encoding/json on a leaf. *)
Definition ser (a : satom) : watom :=
  match a with
  | SBool b => WBool b
  | SNum _ q => WNum q
  | SStr s => WStr s
  | SBytes b64 => WStr b64
  | SNamed s => WStr s
  end.

(** What the two pass-through lists must satisfy for [ser] to be a morphism (the premise of the serialisation
    theorems): whatever markReplaced sends raw arrives as a leaf that mergeReplaced passes through. *)
Definition json_type_of (go_type : string) : option string :=
  if String.eqb go_type "bool" then Some "bool"
  else if String.eqb go_type "string" then Some "string"
  else if smem go_type num_types then Some "float64"
  else if String.eqb go_type "[]byte" || String.eqb go_type "[]uint8" then Some "string"
  else None.

Definition lists_ok (dl ml : list string) : bool :=
  forallb (fun t => match json_type_of t with Some k => smem k ml | None => true end) dl
  && negb (smem "<?>" dl) && negb (smem "<named>" dl).

Lemma smem_in x l : smem x l = true <-> In x l.
Proof.
  unfold smem. rewrite existsb_exists. split.
  - intros [y [Hy He]]. apply String.eqb_eq in He. subst. exact Hy.
  - intros H. exists x. split; [exact H | apply String.eqb_refl].
Qed.

Lemma ty_name_num_types t : ty_name t = "<?>" \/ smem (ty_name t) num_types = true.
Proof.
  unfold ty_name. destruct (Nat.lt_ge_cases t (List.length num_types)) as [Hlt|Hge].
  - right. apply smem_in. apply nth_In. exact Hlt.
  - left. apply nth_overflow. exact Hge.
Qed.

Lemma ser_homL dl ml f1 f5 t f2 : lists_ok dl ml = true -> atom_hom (sopsL dl f1 f5 t) (wopsL ml f2) ser.
Proof.
  intros Hok. unfold lists_ok in Hok. apply andb_prop in Hok as [Hok Hn]. apply andb_prop in Hok as [Hok Hq].
  apply negb_true_iff in Hn. apply negb_true_iff in Hq. rewrite forallb_forall in Hok.
  constructor; [|intros [b|ty [z|m k]|s|s|s]; reflexivity].
  intros a. cbn [raw sopsL wopsL]. intros Hr. apply orb_true_iff in Hr as [Hr|Hr].
  - pose proof Hr as Hin. apply smem_in in Hin. specialize (Hok _ Hin).
    destruct a as [b|ty q|s|s|s]; cbn [s_type ser w_type] in *; try exact Hok.
    + destruct (ty_name_num_types ty) as [E|E].
      * rewrite E in Hr. congruence.
      * unfold json_type_of in Hok.
        destruct (String.eqb (ty_name ty) "bool") eqn:E1; [apply String.eqb_eq in E1; rewrite E1 in E; discriminate|].
        destruct (String.eqb (ty_name ty) "string") eqn:E2; [apply String.eqb_eq in E2; rewrite E2 in E; discriminate|].
        rewrite E in Hok. exact Hok.
    + congruence.
  - destruct a; try discriminate. apply smem_in in Hr. specialize (Hok _ Hr). exact Hok.
Qed.

Definition count_some (j : nat) (idx : list (option nat)) : nat :=
  List.length (filter (fun e => match e with Some j' => Nat.eqb j j' | None => false end) idx).

Definition matching_ok (o n : list (val satom)) (idx : list (option nat)) : bool :=
  let O := s_eq_ops in
  let ko := map (@vreorder_key _ O) o in
  Nat.eqb (List.length idx) (List.length n)
  && forallb (fun p => match p with
                       | (x, Some j) => Nat.ltb j (List.length o)
                                        && @veqb _ O (nth j ko VNull) (@vreorder_key _ O x)
                                        && Nat.eqb (count_some j idx) 1
                       | (x, None) => forallb (fun q => match q with
                                                        | (k, j) => negb (@veqb _ O k (@vreorder_key _ O x))
                                                                    || Nat.eqb (count_some j idx) 1
                                                        end) (index_from 0 ko)
                       end) (combine n idx).

(** * Correspondence with the implementation.

    [g_fixed]: what the harness's probe of diff.Diff found (is the "__key" pseudo-field ever diffed as a field?).
    [g_table]: index lists of the implementation that differ from the model's own choice (see above).
    Components 4-6: the delta after JSON, merge.Merge and merge.ts on it; 9: the implementation's index lists
    are matchings as documented; 10: the two pass-through lists satisfy the premise of the serialisation
    theorems ([lists_ok], [ser_homL]). *)
Record gcase := mk_gcase {
  g_lists : list string * list string;   (* pass-through lists of markReplaced and mergeReplaced, from the sources *)
  g_fixed : bool;
  g_table : table;
  g_old : val satom; g_new : val satom;
  g_delta : option (val watom);
  g_go : option (val watom);
  g_js : val watom
}.

Definition gcheck_case (c : gcase) : list nat :=
  let OS := sopsL (fst (g_lists c)) (g_fixed c) false (g_table c) in
  let OW := wopsL (snd (g_lists c)) (g_fixed c) in
  let d := @VDiff _ OS (g_old c) (g_new c) in
  (if forallb (fun e => matching_ok (fst (fst e)) (snd (fst e)) (snd e)) (g_table c) then [] else [9]) ++
  (if lists_ok (fst (g_lists c)) (snd (g_lists c)) then [] else [10]) ++
  (if @opt_veqb _ OW (option_map (fun x => vnorm (vmap ser x)) d) (g_delta c) then [] else [4]) ++
  match d with
  | None => []
  | Some d' =>
      let wd := vmap ser d' in
      let wp := vmap ser (vstrip (g_old c)) in
      (if @opt_veqb _ OW (option_map vnorm (@VMerge _ OW wp wd)) (g_go c) then [] else [5]) ++
      (if @veqb _ OW (vnorm (@VMergeJS _ OW wp wd)) (g_js c) then [] else [6])
  end.

Fixpoint gmismatches (_ : nat) (cs : list (nat * gcase)) : list (nat * list nat) :=
  match cs with
  | [] => []
  | (i, c) :: t => match gcheck_case c with
                   | [] => gmismatches 0 t
                   | l => (i, l) :: gmismatches 0 t
                   end
  end.

(** Arbitrary (previous value, delta) pairs fed to both merges.  Components 7 (merge.Merge: value, or
    [None] for an error or a panic) and 8 (merge.ts, when the harness could compare it). *)
Record fcase := mk_fcase {
  f_ml : list string;
  f_prev : val watom; f_delta : val watom;
  f_go : option (val watom);
  f_js : option (val watom)
}.

Definition fcheck_case (c : fcase) : list nat :=
  let OW := wopsL (f_ml c) false in
  (if @opt_veqb _ OW (option_map vnorm (@VMerge _ OW (f_prev c) (f_delta c))) (f_go c) then [] else [7]) ++
  match f_js c with
  | None => []
  | Some j => if @veqb _ OW (vnorm (@VMergeJS _ OW (f_prev c) (f_delta c))) j then [] else [8]
  end.

Fixpoint fmismatches (_ : nat) (cs : list (nat * fcase)) : list (nat * list nat) :=
  match cs with
  | [] => []
  | (i, c) :: t => match fcheck_case c with
                   | [] => fmismatches 0 t
                   | l => (i, l) :: fmismatches 0 t
                   end
  end.
