(** Exactness of the delta: StripKey is idempotent and removes every "__key"; a nil delta means exactly that
    the two values are equal (keys included); the delta of two objects names exactly the fields that changed. *)
From Coq Require Import List ZArith String Bool Arith Lia.
From Thunder Require Import Lib.Json DiffMerge.Model DiffMerge.ProofsBase DiffMerge.ProofsUnfold DiffMerge.ProofsArray DiffMerge.ProofsSelf
     DiffMerge.GModel DiffMerge.GBase DiffMerge.GUnfold DiffMerge.GDiff DiffMerge.GArray DiffMerge.GMergeGo DiffMerge.GArrayGo DiffMerge.GSelf.
Import ListNotations.
Open Scope string_scope.
Open Scope list_scope.

Section S.
Context {A : Type} {O : atom_ops A} (L : atom_laws O).
Notation val := (val A).

(** * StripKey *)
Lemma vstrip_fields_idem (l : list (string * val)) :
  Forall (fun kv => vstrip (vstrip (snd kv)) = vstrip (snd kv)) l ->
  vstrip_fields (vstrip_fields l) = vstrip_fields l.
Proof.
  induction 1 as [|[k v] t Hv Ht IH]; [reflexivity|]. cbn [vstrip_fields].
  destruct (String.eqb k key_name) eqn:E; [exact IH|].
  cbn [vstrip_fields]. rewrite E. cbn [snd] in Hv. rewrite Hv, IH. reflexivity.
Qed.

Theorem vstrip_idem : forall v : val, vstrip (vstrip v) = vstrip v.
Proof.
  induction v as [| a | l IH | l IH] using val_ind'; try reflexivity.
  - rewrite !vstrip_arr. f_equal. rewrite map_map. apply map_ext_in. intros x Hx.
    rewrite Forall_forall in IH. apply IH. exact Hx.
  - rewrite !vstrip_obj. f_equal. apply vstrip_fields_idem. exact IH.
Qed.

(** No object anywhere in the value has a "__key" field. *)
Fixpoint vno_key (j : val) : bool :=
  match j with
  | VArr l => forallb vno_key l
  | VObj l => negb (has_key key_name l)
              && (fix go (l : list (string * val)) := match l with [] => true | (_, v) :: t => vno_key v && go t end) l
  | _ => true
  end.

Fixpoint vno_key_fields (l : list (string * val)) : bool :=
  match l with [] => true | (_, v) :: t => vno_key v && vno_key_fields t end.

Lemma vno_key_obj l : vno_key (VObj l) = negb (has_key key_name l) && vno_key_fields l.
Proof. reflexivity. Qed.

Theorem vstrip_no_key : forall v : val, vno_key (vstrip v) = true.
Proof.
  induction v as [| a | l IH | l IH] using val_ind'; try reflexivity.
  - rewrite vstrip_arr. cbn [vno_key]. apply forallb_forall. intros x Hx. apply in_map_iff in Hx as [y [<- Hy]].
    rewrite Forall_forall in IH. apply IH. exact Hy.
  - rewrite vstrip_obj, vno_key_obj. apply andb_true_iff. split.
    + unfold has_key. rewrite vlookup_strip_fields, String.eqb_refl. reflexivity.
    + induction IH as [|[k v] t Hv Ht IHt]; [reflexivity|]. cbn [vstrip_fields].
      destruct (String.eqb k key_name); [exact IHt|]. cbn [vno_key_fields]. cbn [snd] in Hv. rewrite Hv. exact IHt.
Qed.

(** A value without keys is its own stripped form. *)
Theorem vstrip_fixed : forall v : val, vno_key v = true -> vstrip v = v.
Proof.
  induction v as [| a | l IH | l IH] using val_ind'; try reflexivity; intros Hn.
  - rewrite vstrip_arr. f_equal. cbn [vno_key] in Hn. rewrite forallb_forall in Hn.
    rewrite <- (map_id l) at 2. apply map_ext_in. intros x Hx. rewrite Forall_forall in IH. apply IH; auto.
  - rewrite vstrip_obj. f_equal. rewrite vno_key_obj in Hn. apply andb_prop in Hn as [Hk Hf].
    apply negb_true_iff in Hk. apply has_key_false in Hk.
    induction IH as [|[k v] t Hv Ht IHt]; [reflexivity|]. cbn [vstrip_fields].
    cbn [lookup] in Hk. destruct (String.eqb key_name k) eqn:E; [discriminate|].
    rewrite String.eqb_sym, E. cbn [vno_key_fields] in Hf. apply andb_prop in Hf as [Hf1 Hf2].
    cbn [snd] in Hv. rewrite (Hv Hf1), (IHt Hk Hf2). reflexivity.
Qed.

(** * A nil delta (with the index lists of diff.computeReorderIndices: [guide = None]) *)
Hypothesis Hguide : @guide A O = None.

Lemma vchoose_default (o n : list val) : vchoose o n = vcompute_reorder_indices o n.
Proof. unfold vchoose. rewrite Hguide. reflexivity. Qed.

Section Nil.
Variable strict : bool.
Notation wfs := (vwf_gen strict).

Lemma key_ok_vjeq (o n : list (string * val)) :
  key_ok strict o = true -> key_ok strict n = true ->
  orel vjeq (lookup key_name o) (lookup key_name n) -> vget_key o = vget_key n.
Proof.
  unfold key_ok, vget_key. intros Ho Hn Hr.
  destruct (lookup key_name o) as [ko|], (lookup key_name n) as [kn|]; inversion Hr; subst; [|reflexivity].
  destruct ko; try discriminate; match goal with H : vjeq _ _ |- _ => inversion H; subst; reflexivity end.
Qed.

Lemma vjeq_reorder_key (a b : val) : wfs a = true -> wfs b = true -> vjeq a b -> vreorder_key a = vreorder_key b.
Proof.
  intros Ha Hb Hj. inversion Hj; subst; try reflexivity.
  destruct (vwf_obj_inv strict l1 Ha) as [_ [Hk1 _]]. destruct (vwf_obj_inv strict l2 Hb) as [_ [Hk2 _]].
  cbn [vreorder_key]. apply key_ok_vjeq; auto.
Qed.

Lemma vreorder_same_keys : forall (o n : list val) s,
  map vreorder_key o = map vreorder_key n ->
  vreorder_go (index_from s (map vreorder_key o)) n = map Some (seq s (List.length n)).
Proof.
  induction o as [|x t IH]; intros n s Hk; destruct n as [|y n']; try discriminate; [reflexivity|].
  cbn [map] in Hk. inversion Hk as [[Hxy Ht]].
  cbn [map index_from vreorder_go vtake_first List.length seq]. rewrite <- Hxy, (veqb_refl L), (IH n' (S s) Ht).
  reflexivity.
Qed.

Lemma vdiff_elems_same o : forall t_o t_n pre,
  o = pre ++ t_o ->
  Forall2 (fun ov nv => vdiff nv ov = None) t_o t_n ->
  vdiff_elems o (List.length pre) (varr_subs t_n) (map Some (seq (List.length pre) (List.length t_n))) = [].
Proof.
  induction t_o as [|ov t_o' IH]; intros t_n pre Ho Hf; inversion Hf as [|? nv ? t_n' Hd Hf']; subst; [reflexivity|].
  cbn [List.length seq map]. rewrite vdiff_elems_cons. cbn [voldI].
  assert (Hn : nth (List.length pre) (pre ++ ov :: t_o') VNull = ov).
  { rewrite app_nth2 by lia. rewrite Nat.sub_diag. reflexivity. }
  rewrite Hn, Hd. cbn [vopt_entry app].
  specialize (IH t_n' (pre ++ [ov])). rewrite app_length in IH. cbn [List.length] in IH.
  rewrite Nat.add_1_r in IH. apply IH; [rewrite <- app_assoc; reflexivity | exact Hf'].
Qed.

Theorem vjeq_diff_none : forall new old : val, wfs old = true -> wfs new = true -> vjeq old new -> vdiff new old = None.
Proof.
  induction new as [| a | l IH | l IH] using val_ind'; intros old Hwo Hwn Hj.
  - inversion Hj; subst. reflexivity.
  - inversion Hj; subst. cbn [vdiff veqb]. rewrite (aeqb_refl L). reflexivity.
  - inversion Hj as [| |o ? Hf|]; subst. rewrite vdiff_arr. unfold vdiff_array. rewrite vchoose_default. unfold vcompute_reorder_indices.
    pose proof (vwf_arr_inv strict o Hwo) as Hwo'. pose proof (vwf_arr_inv strict l Hwn) as Hwn'.
    assert (Hkeys : map vreorder_key o = map vreorder_key l).
    { clear IH Hj Hwo Hwn. induction Hf as [|x y o' l' Hxy Hf' IHf]; [reflexivity|].
      inversion Hwo'; inversion Hwn'; subst. cbn [map]. f_equal; [apply vjeq_reorder_key; assumption | apply IHf; assumption]. }
    assert (Hlen : List.length o = List.length l) by (clear -Hf; induction Hf; cbn; auto).
    rewrite (vreorder_same_keys o l 0 Hkeys), map_length, seq_length, Hlen, Nat.eqb_refl, identity_is_identity.
    cbn [negb orb app].
    pose proof (vdiff_elems_same o o l [] eq_refl) as He. cbn [List.length] in He.
    rewrite He; [reflexivity|].
    clear He Hkeys Hlen Hj Hwo Hwn. induction Hf as [|x y o' l' Hxy Hf' IHf]; [constructor|].
    inversion Hwo'; inversion Hwn'; inversion IH; subst. constructor; [auto | apply IHf; assumption].
  - inversion Hj as [| | |o ? Hl]; subst. rewrite vdiff_obj, vdiff_map_eq.
    destruct (vwf_obj_inv strict o Hwo) as [Hndo [Hko Hwfo]]. destruct (vwf_obj_inv strict l Hwn) as [Hndn [Hkn Hwfn]].
    rewrite (key_ok_vjeq o l Hko Hkn (Hl key_name)), (veqb_refl L). cbn [negb].
    assert (R : vremoved_entries o l = []).
    { unfold vremoved_entries. apply flat_map_nil. intros [k v] Hin. cbn [fst].
      assert (Hh : has_key k l = true).
      { apply has_key_true. specialize (Hl k). rewrite (in_nodup_lookup k v o Hndo Hin) in Hl. inversion Hl; subst. eauto. }
      rewrite Hh, orb_true_r. reflexivity. }
    assert (Cn : vchanged_entries o (vobj_subs l) = []).
    { unfold vchanged_entries. apply flat_map_nil. intros [k [v dv]] Hin.
      unfold vobj_subs in Hin. apply in_map_iff in Hin as [[k' v'] [E Hin]]. cbn [fst snd] in E. inversion E; subst.
      destruct (skipped k); [reflexivity|].
      specialize (Hl k). rewrite (in_nodup_lookup k v l Hndn Hin) in Hl. inversion Hl as [|ov ? Hov]; subst.
      rewrite Forall_forall in IH. pose proof (IH (k, v) Hin ov) as Hd. cbn [snd] in Hd.
      rewrite Hd; [reflexivity | | | exact Hov].
      - apply (Hwfo k). symmetry. assumption.
      - apply (Hwfn k). apply in_nodup_lookup; assumption. }
    rewrite R, Cn. reflexivity.
Qed.

Lemma velems_nil_full o : forall (n : list val) idx s,
  List.length idx = List.length n ->
  (forall i v j, nth_error n i = Some v -> nth_error idx i = Some j -> vdiff v (voldI o j) = None -> vjeq (voldI o j) v) ->
  vdiff_elems o s (varr_subs n) idx = [] ->
  Forall2 vjeq (map (voldI o) idx) n.
Proof.
  induction n as [|v t IHn]; intros idx s Hlen Hrt E2.
  - destruct idx; [constructor | discriminate].
  - destruct idx as [|j it]; [discriminate|]. rewrite vdiff_elems_cons in E2.
    apply app_eq_nil in E2 as [E2a E2b]. cbn [map]. constructor.
    + apply (Hrt 0 v j eq_refl eq_refl). destruct (vdiff v (voldI o j)); [discriminate | reflexivity].
    + apply (IHn it (S s)); [cbn in Hlen; lia | | exact E2b].
      intros i v' j' Hn Hi. apply (Hrt (S i)); assumption.
Qed.
End Nil.

Notation wf1 := (vwf_gen true).

Theorem vdiff_none_vjeq : forall new old : val, wf1 old = true -> wf1 new = true -> vdiff new old = None -> vjeq old new.
Proof.
  induction new as [| a | l IH | l IH] using val_ind'; intros old Hwo Hwn Hd.
  - destruct old; try discriminate. constructor.
  - destruct old as [| b | |]; try discriminate. cbn [vdiff veqb] in Hd.
    destruct (aeqb b a) eqn:E; [|discriminate]. apply (aeqb_eq O L) in E. subst. constructor.
  - destruct old as [| | o |]; try discriminate. rewrite vdiff_arr in Hd. unfold vdiff_array in Hd.
    set (idx := vchoose o l) in *.
    assert (Hlen : List.length idx = List.length l) by apply vchoose_length.
    apply vfinish_nil_iff in Hd. apply app_eq_nil in Hd as [E1 E2].
    destruct (negb (Nat.eqb (List.length o) (List.length idx)) || negb (order_is_identity 0 idx)) eqn:Eoc; [discriminate|].
    apply orb_false_iff in Eoc as [H1 H2]. apply negb_false_iff in H1. apply negb_false_iff in H2. apply Nat.eqb_eq in H1.
    pose proof (vwf_arr_inv true o Hwo) as Hwo'.
    assert (Hf : Forall2 vjeq (map (voldI o) idx) l).
    { apply (velems_nil_full o l idx 0 Hlen); [|exact E2].
      intros i v j Hn _ Hdv. rewrite Forall_forall in IH. apply IH; [eapply nth_error_In; exact Hn | apply (vwf_oldI true); exact Hwo' | | exact Hdv].
      apply vwf_arr_inv in Hwn. rewrite Forall_forall in Hwn. apply Hwn. eapply nth_error_In; exact Hn. }
    rewrite (order_identity 0 idx H2), map_map, <- H1 in Hf. cbn [voldI] in Hf.
    rewrite (map_nth_seq (fun x => x) VNull o), map_id in Hf. constructor. exact Hf.
  - destruct old as [| | | o]; try discriminate. rewrite vdiff_obj, vdiff_map_eq in Hd.
    destruct (vwf_obj_inv true o Hwo) as [Hndo [Hko Hwfo]]. destruct (vwf_obj_inv true l Hwn) as [Hndn [Hkn Hwfn]].
    destruct (veqb (vget_key o) (vget_key l)) eqn:Ek; cbn [negb] in Hd; [|discriminate].
    apply vfinish_nil_iff in Hd.
    assert (Hdl : forall k, vdelta_at o l k = None).
    { intros k. rewrite <- (vlookup_delta k o l Hndn), Hd. reflexivity. }
    constructor. intros k. specialize (Hdl k). unfold vdelta_at in Hdl.
    destruct (skipped k) eqn:Es.
    + unfold skipped in Es. apply andb_prop in Es as [_ Es]. apply String.eqb_eq in Es. subst k.
      apply (veqb_eq L) in Ek. unfold vget_key, key_ok in *.
      destruct (lookup key_name o) as [ko|], (lookup key_name l) as [kn|].
      * subst. constructor. apply vjeq_refl.
      * subst ko. discriminate.
      * subst kn. discriminate.
      * constructor.
    + destruct (lookup k o) as [ov|] eqn:Eo, (lookup k l) as [nv|] eqn:En; try discriminate; constructor.
      rewrite Forall_forall in IH. apply (IH (k, nv)); [apply lookup_in; exact En | apply (Hwfo k); exact Eo | apply (Hwfn k); exact En | exact Hdl].
Qed.

(** "A nil diff indicates that the old and new objects are equal" (doc comment of diff.Diff), as an equivalence. *)
Theorem vdiff_none_iff : forall old new : val, wf1 old = true -> wf1 new = true -> (VDiff old new = None <-> vjeq old new).
Proof.
  intros old new Ho Hn. unfold VDiff. split; [apply vdiff_none_vjeq | apply (vjeq_diff_none true)]; assumption.
Qed.
End S.
