(** Every delta diff.Diff produces is well-formed ([vdwf]) for the stripped old value, whose object keys
    are unique; so the agreement of the two clients (GClients.v) applies to it. *)
From Coq Require Import List ZArith String Bool Arith Lia.
From Thunder Require Import Lib.Json DiffMerge.Model DiffMerge.ProofsBase DiffMerge.ProofsUnfold DiffMerge.ProofsArray DiffMerge.ProofsMergeGo
     DiffMerge.GModel DiffMerge.GBase DiffMerge.GUnfold DiffMerge.GDiff DiffMerge.GCompress DiffMerge.GArray DiffMerge.GMergeGo DiffMerge.GArrayGo
     DiffMerge.GClients.
Import ListNotations.
Open Scope string_scope.
Open Scope list_scope.

Section S.
Context {A : Type} {O : atom_ops A} (L : atom_laws O) (strict : bool).
Notation val := (val A).
Notation wfs := (vwf_gen strict).

Lemma vstrip_keys_ok : forall v : val, wfs v = true -> vkeys_ok (vstrip v) = true.
Proof.
  induction v as [| a | l IH | l IH] using val_ind'; intros Hw; try reflexivity.
  - rewrite vstrip_arr. cbn [vkeys_ok]. apply forallb_forall. intros x Hx. apply in_map_iff in Hx as [y [<- Hy]].
    rewrite Forall_forall in IH. apply IH; [exact Hy|]. apply vwf_arr_inv in Hw. rewrite Forall_forall in Hw. auto.
  - destruct (vwf_obj_inv strict l Hw) as [Hnd [_ Hwf]].
    rewrite vstrip_obj, vkeys_ok_obj. apply andb_true_iff. split.
    + apply nodup_keys_spec. apply vstrip_fields_nodup. exact Hnd.
    + assert (Hall : forall k v, In (k, v) l -> vkeys_ok (vstrip v) = true).
      { intros k v Hin. rewrite Forall_forall in IH. apply (IH (k, v) Hin). apply (Hwf k). apply in_nodup_lookup; assumption. }
      clear -Hall. induction l as [|[k v] t IHt]; [reflexivity|]. cbn [vstrip_fields].
      destruct (String.eqb k key_name).
      * apply IHt. intros k' v' Hin. apply (Hall k'). right. exact Hin.
      * cbn [vkeys_ok_fields]. rewrite (Hall k v (or_introl eq_refl)). apply IHt. intros k' v' Hin. apply (Hall k'). right. exact Hin.
Qed.

Lemma vdwf_mark_replaced (v p : val) : vdwf (vmark_replaced v) p = true.
Proof.
  unfold vmark_replaced. destruct (vis_scalar v) eqn:E.
  - destruct v; try discriminate. cbn [vdwf vis_repl]. exact E.
  - reflexivity.
Qed.

Lemma vis_repl_mark_replaced (v : val) : vis_repl (vmark_replaced v) = true.
Proof.
  unfold vmark_replaced. destruct (vis_scalar v) eqn:E; [destruct v; try discriminate; exact E | reflexivity].
Qed.

Lemma in_vdwf_subs k dv f (es : list (string * val)) : In (k, (dv, f)) (vdwf_subs es) -> In (k, dv) es /\ f = vdwf dv.
Proof.
  unfold vdwf_subs. intros H. apply in_map_iff in H as [[k' dv'] [E Hin]]. cbn [fst snd] in E. inversion E; subst. auto.
Qed.

Lemma vdiff_elems_in o n : forall s idx k dv,
  In (k, dv) (vdiff_elems o s (varr_subs n) idx) ->
  exists i v j, k = dec (s + i) /\ nth_error n i = Some v /\ nth_error idx i = Some j /\ vdiff v (voldI o j) = Some dv.
Proof.
  induction n as [|v t IH]; intros s idx k dv; [cbn; contradiction|].
  destruct idx as [|j it]; [cbn; contradiction|].
  rewrite vdiff_elems_cons. intros H. apply in_app_or in H as [H|H].
  - destruct (vdiff v (voldI o j)) as [dv'|] eqn:E; cbn in H; [|contradiction]. destruct H as [[= <- <-]|[]].
    exists 0, v, j. rewrite Nat.add_0_r. auto.
  - apply IH in H as [i [v' [j' [-> [H1 [H2 H3]]]]]]. exists (S i), v', j'. split; [f_equal; lia | auto].
Qed.

Lemma vdiff_elems_nodup o n : forall s idx, NoDup (map fst (vdiff_elems o s (varr_subs n) idx)).
Proof.
  induction n as [|v t IH]; intros s idx; [constructor|].
  destruct idx as [|j it]; [constructor|].
  rewrite vdiff_elems_cons, map_app. destruct (vdiff v (voldI o j)); cbn [vopt_entry map app fst]; [|apply IH].
  constructor; [|apply IH]. intros Hin. apply vdiff_elems_keys in Hin as [i [E Hi]]. apply dec_inj in E. lia.
Qed.

Definition DWF (old new : val) : Prop :=
  match vdiff new old with Some d => vdwf d (vstrip old) = true | None => True end.

Lemma dwf_replaced (old new : val) : vdiff new old = Some (vmark_replaced new) -> DWF old new.
Proof. intros H. unfold DWF. rewrite H. apply vdwf_mark_replaced. Qed.

Lemma dwf_leaf (old new : val) : (match new with VArr _ | VObj _ => False | _ => True end) -> DWF old new.
Proof.
  intros Hleaf. destruct new; try contradiction;
    (destruct old; try (apply dwf_replaced; reflexivity); unfold DWF; cbn [vdiff];
     match goal with |- context [veqb ?a ?b] => destruct (veqb a b) end; [exact I | apply vdwf_mark_replaced]).
Qed.

Lemma dwf_obj o n :
  fix4 || strict = true ->
  wfs (VObj o) = true -> wfs (VObj n) = true ->
  (forall k nv, lookup k n = Some nv -> forall old, wfs old = true -> DWF old nv) ->
  DWF (VObj o) (VObj n).
Proof.
  intros Hmode Hwo Hwn IH.
  destruct (vwf_obj_inv strict o Hwo) as [Hndo [Hko Hwfo]].
  destruct (vwf_obj_inv strict n Hwn) as [Hndn [Hkn Hwfn]].
  unfold DWF. rewrite vdiff_obj, vdiff_map_eq.
  destruct (veqb (vget_key o) (vget_key n)) eqn:Ek; cbn [negb]; [|apply vdwf_mark_replaced].
  set (d := vremoved_entries o n ++ vchanged_entries o (vobj_subs n)).
  assert (Hd : forall k, lookup k d = vdelta_at o n k) by (intros; apply vlookup_delta; assumption).
  assert (Hdk : vdelta_at o n key_name = None) by (apply (vdelta_at_key L strict); assumption).
  assert (Hnd : NoDup (map fst d)) by (apply vdelta_keys_nodup; assumption).
  destruct (vfinish d) as [dj|] eqn:Ef; [|exact I].
  assert (dj = VObj d) by (destruct d; cbn [vfinish] in Ef; [discriminate | inversion Ef; reflexivity]). subst dj.
  rewrite vstrip_obj, vdwf_obj. apply andb_true_iff. split; [apply nodup_keys_spec; exact Hnd|].
  apply forallb_forall. intros [k [dv f]] Hin. apply in_vdwf_subs in Hin as [Hin ->].
  apply (in_nodup_lookup k dv d Hnd) in Hin. rewrite Hd in Hin.
  cbn [dwf_obj_entry]. unfold has_key. rewrite vlookup_strip_fields.
  destruct (String.eqb k key_name) eqn:Ekk.
  { apply String.eqb_eq in Ekk. subst k. rewrite Hdk in Hin. discriminate. }
  unfold vdelta_at in Hin. rewrite (skipped_other k Ekk) in Hin.
  destruct (lookup k o) as [ov|] eqn:Eo, (lookup k n) as [nv|] eqn:En; cbn [option_map]; try discriminate.
  - rewrite (vdiff_not_removed _ _ _ Hin). specialize (IH k nv En ov (Hwfo _ _ Eo)). unfold DWF in IH. rewrite Hin in IH. exact IH.
  - inversion Hin; subst dv. reflexivity.
  - inversion Hin; subst dv. rewrite vmark_replaced_not_removed. apply vis_repl_mark_replaced.
Qed.

Lemma dwf_arr o n :
  wfs (VArr o) = true -> wfs (VArr n) = true ->
  (forall v, In v n -> forall old, wfs old = true -> DWF old v) ->
  DWF (VArr o) (VArr n).
Proof.
  intros Hwo Hwn IH. apply vwf_arr_inv in Hwo.
  unfold DWF. rewrite vdiff_arr. unfold vdiff_array.
  set (idx := vchoose o n).
  assert (Hlen : List.length idx = List.length n) by apply vchoose_length.
  assert (Hb : Forall (idx_ok (List.length o)) idx) by apply vchoose_bound.
  set (oc := negb (Nat.eqb (List.length o) (List.length idx)) || negb (order_is_identity 0 idx)).
  set (el := vdiff_elems o 0 (varr_subs n) idx).
  set (d := (if oc then [(dollar, VArr (vcompress idx))] else []) ++ el).
  destruct (vfinish d) as [dj|] eqn:Ef; [|exact I].
  assert (dj = VObj d) by (destruct d; cbn [vfinish] in Ef; [discriminate | inversion Ef; reflexivity]). subst dj.
  set (b := map (fun j => vstrip (voldI o j)) idx).
  assert (Hbase : vbase (map vstrip o) (lookup dollar d) = Some b).
  { unfold d. rewrite lookup_app. destruct oc eqn:Eoc.
    - cbn [lookup]. rewrite String.eqb_refl. cbn [vbase]. rewrite (vuncompress_compress L). apply vreorder_spec. exact Hb.
    - cbn [lookup]. unfold el. rewrite vlookup_diff_elems_dollar. cbn [vbase]. f_equal. unfold b.
      unfold oc in Eoc. apply orb_false_iff in Eoc as [H1 H2].
      apply negb_false_iff in H1. apply negb_false_iff in H2. apply Nat.eqb_eq in H1.
      rewrite (order_identity 0 idx H2), map_map, <- H1. cbn [voldI]. symmetry. apply (map_nth_seq vstrip VNull o). }
  rewrite vstrip_arr, vdwf_obj, Hbase. apply andb_true_iff. split.
  - apply nodup_keys_spec. unfold d. rewrite map_app. apply nodup_app.
    + destruct oc; cbn; constructor; [intros [] | constructor].
    + apply vdiff_elems_nodup.
    + intros k Hk Hel. destruct oc; cbn in Hk; [|contradiction]. destruct Hk as [<-|[]].
      apply vdiff_elems_keys in Hel as [i [E _]]. symmetry in E. apply dec_not_dollar in E. exact E.
  - apply forallb_forall. intros [k [dv f]] Hin. apply in_vdwf_subs in Hin as [Hin ->].
    cbn [dwf_arr_entry]. unfold d in Hin. apply in_app_or in Hin as [Hin|Hin].
    + destruct oc; cbn in Hin; [|contradiction]. destruct Hin as [[= <- <-]|[]]. reflexivity.
    + apply vdiff_elems_in in Hin as [i [v [j [-> [Hn [Hi Hdv]]]]]]. cbn [Nat.add].
      destruct (String.eqb (dec i) dollar) eqn:E.
      { apply String.eqb_eq in E. apply dec_not_dollar in E. contradiction. }
      cbn [orb]. rewrite (vdiff_not_removed _ _ _ Hdv). cbn [negb andb].
      assert (Hib : i < List.length b).
      { unfold b. rewrite map_length, Hlen. apply nth_error_Some. congruence. }
      rewrite (find_index_dec _ i Hib).
      assert (Hnb : nth i b VNull = vstrip (voldI o j)).
      { unfold b. apply nth_error_nth. rewrite nth_error_map, Hi. reflexivity. }
      rewrite Hnb.
      assert (Hd' : DWF (voldI o j) v).
      { apply IH; [eapply nth_error_In; exact Hn | apply vwf_oldI; exact Hwo]. }
      unfold DWF in Hd'. rewrite Hdv in Hd'. exact Hd'.
Qed.

Theorem vdiff_dwf_all :
  fix4 || strict = true ->
  forall new old : val, wfs old = true -> wfs new = true -> DWF old new.
Proof.
  intros Hmode.
  induction new as [| a | l IH | l IH] using val_ind'; intros old Hwo Hwn.
  1-2: apply dwf_leaf; exact I.
  - destruct old; try (apply dwf_replaced; rewrite vdiff_arr; reflexivity).
    apply dwf_arr; auto. intros v Hin old' Hwo'. rewrite Forall_forall in IH.
    apply IH; auto. apply vwf_arr_inv in Hwn. rewrite Forall_forall in Hwn. apply Hwn. exact Hin.
  - destruct old; try (apply dwf_replaced; rewrite vdiff_obj; reflexivity).
    apply dwf_obj; auto. intros k nv Hk old' Hwo'. rewrite Forall_forall in IH.
    apply (IH (k, nv)); auto.
    + apply lookup_in. exact Hk.
    + destruct (vwf_obj_inv strict l Hwn) as [_ [_ Hwf]]. apply (Hwf k). exact Hk.
Qed.
End S.
