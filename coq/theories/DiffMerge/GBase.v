(** Basic lemmas for the generic C03 proofs: structural and semantic equality of [val]. *)
From Coq Require Import List ZArith String Bool Arith Lia.
From Thunder Require Import Lib.Json DiffMerge.Model DiffMerge.ProofsBase DiffMerge.GModel.
Import ListNotations.
Open Scope string_scope.
Open Scope list_scope.

Section S.
  Context {A : Type} {O : atom_ops A} (L : atom_laws O).
  Notation val := (val A).

  Lemma aeqb_refl (a : A) : aeqb a a = true.
  Proof. apply (aeqb_eq O L). reflexivity. Qed.

  Lemma veqb_refl : forall a : val, veqb a a = true.
  Proof.
    induction a using val_ind'; simpl; auto using aeqb_refl.
    - induction H; simpl; auto. rewrite H, IHForall; auto.
    - induction H; simpl; auto. destruct x as [k v]; simpl in *.
      rewrite String.eqb_refl, H, IHForall; auto.
  Qed.

  Lemma veqb_eq : forall a b : val, veqb a b = true -> a = b.
  Proof.
    induction a using val_ind'; intros b'; destruct b'; simpl; try discriminate; intros He; auto.
    - apply (aeqb_eq O L) in He. congruence.
    - f_equal. revert l0 He. induction H; destruct l0; try discriminate; auto.
      intros He. apply andb_prop in He as [H1 H2]. f_equal; auto.
    - f_equal. revert l0 He. induction H; destruct l0; try discriminate; auto.
      + destruct x; discriminate.
      + destruct x as [k v], p as [k' v']. intros He.
        apply andb_prop in He as [Hkv Hrest]. apply andb_prop in Hkv as [Hk Hv].
        apply String.eqb_eq in Hk. simpl in H. f_equal; auto. f_equal; auto.
  Qed.

  Lemma veqb_spec (a b : val) : veqb a b = true <-> a = b.
  Proof. split; [apply veqb_eq | intros ->; apply veqb_refl]. Qed.

  Lemma vjeq_refl : forall j : val, vjeq j j.
  Proof.
    induction j using val_ind'; try constructor.
    - induction H; constructor; auto.
    - intros k. induction H as [|[k' v] l Hv Hl IH]; simpl.
      + constructor.
      + destruct (String.eqb k k'); [constructor; exact Hv | exact IH].
  Qed.
End S.
