(** Times of the row codec (C13), concretely -- executable model only.

    A time is its Unix nanoseconds (UTC instant, an unbounded integer).  This file gives the text forms
    thunder's Scanner / Valuer meet:

      t.Format("2006-01-02 15:04:05")          ([fmt_sec_c],  DATETIME through the text protocol / binlog)
      t.Format("2006-01-02 15:04:05.000000")   ([fmt_us_c],   DATETIME(6) through the text protocol)
      t.Format(time.RFC3339Nano)               ([fmt_rfc_c],  sql.NullString.Scan of a time.Time)
      mysql.parseDateTime(s, time.UTC)         ([parse_datetime], what mysql.NullTime.Scan -- called by
                                                Scanner.Scan for *time.Time -- does with []byte / string)

    parseDateTime (go-sql-driver/mysql utils.go) accepts the lengths 10, 19, 21..26, maps a prefix of
    "0000-00-00 00:00:00.0000000" to time.Time{} and otherwise calls time.Parse with the prefix of
    "2006-01-02 15:04:05.999999" of the same length.  [parse_datetime] follows time.Parse for these
    layouts chunk by chunk (format.go: stdLongYear = exactly four digits; stdZeroMonth / stdZeroDay /
    stdZeroMinute / stdZeroSecond = exactly two digits; stdHour = one or two digits; a blank in the layout
    matches a non-empty run of blanks; after the seconds an optional [.,]digits fraction of which nine
    digits count; nothing may follow; month 1..12, hour < 24, minute, second < 60, day within the month).

    The calendar is the proleptic Gregorian one (days <-> civil date by the era / day-of-era
    decomposition); the round trips are proved in TimeTextProofs.v for every integer. *)
From Coq Require Import List ZArith String Ascii Bool.
Import ListNotations.
Open Scope Z_scope.

(** * Digits *)
Definition digit_char (z : Z) : ascii :=
  match z with
  | 0 => "0" | 1 => "1" | 2 => "2" | 3 => "3" | 4 => "4"
  | 5 => "5" | 6 => "6" | 7 => "7" | 8 => "8" | 9 => "9" | _ => "?"
  end%char.

Definition digit_val (c : ascii) : option Z :=
  match c with
  | "0" => Some 0 | "1" => Some 1 | "2" => Some 2 | "3" => Some 3 | "4" => Some 4
  | "5" => Some 5 | "6" => Some 6 | "7" => Some 7 | "8" => Some 8 | "9" => Some 9 | _ => None
  end%char.

(** [k] decimal digits of [z] (least significant last) in front of [rest] *)
Fixpoint digits (k : nat) (z : Z) (rest : string) : string :=
  match k with
  | O => rest
  | S k' => digits k' (z / 10) (String (digit_char (z mod 10)) rest)
  end.

Definition pad2 (z : Z) (rest : string) : string := digits 2 z rest.
Definition pad4 (z : Z) (rest : string) : string := digits 4 z rest.
Definition pad6 (z : Z) (rest : string) : string := digits 6 z rest.

Fixpoint ndigits (fuel : nat) (z : Z) : nat :=
  match fuel with
  | O => 1%nat
  | S f => if z <? 10 then 1%nat else S (ndigits f (z / 10))
  end.

(** time.appendInt(b, year, 4): sign, then at least four digits *)
Definition pad_year (y : Z) (rest : string) : string :=
  let a := Z.abs y in
  let body := if a <=? 9999 then pad4 a rest else digits (ndigits 40 a) a rest in
  if y <? 0 then String "-" body else body.

(** * Calendar *)
Definition is_leap (y : Z) : bool := (y mod 4 =? 0) && (negb (y mod 100 =? 0) || (y mod 400 =? 0)).

Definition days_in (y m : Z) : Z :=
  match m with
  | 2 => if is_leap y then 29 else 28
  | 4 | 6 | 9 | 11 => 30
  | _ => 31
  end.

(** days since 1970-01-01 -> (year, month, day) *)
Definition civil_from_days (z : Z) : Z * Z * Z :=
  let z := z + 719468 in
  let era := z / 146097 in
  let doe := z mod 146097 in
  let yoe := (doe - doe / 1460 + doe / 36524 - doe / 146096) / 365 in
  let y := yoe + era * 400 in
  let doy := doe - (365 * yoe + yoe / 4 - yoe / 100) in
  let mp := (5 * doy + 2) / 153 in
  let d := doy - (153 * mp + 2) / 5 + 1 in
  let m := if mp <? 10 then mp + 3 else mp - 9 in
  (if m <=? 2 then y + 1 else y, m, d).

Definition days_from_civil (y m d : Z) : Z :=
  let y := if m <=? 2 then y - 1 else y in
  let era := y / 400 in
  let yoe := y mod 400 in
  let doy := (153 * (if 2 <? m then m - 3 else m + 9) + 2) / 5 + d - 1 in
  let doe := yoe * 365 + yoe / 4 - yoe / 100 + doy in
  era * 146097 + doe - 719468.

Definition ns_per_s : Z := 1000000000.

(** time.Date(y, m, d, hh, mi, ss, ns, time.UTC) as Unix nanoseconds *)
Definition unix_of (y m d hh mi ss ns : Z) : Z :=
  (days_from_civil y m d * 86400 + hh * 3600 + mi * 60 + ss) * ns_per_s + ns.

Record clock : Type := mk_clock { c_y : Z; c_m : Z; c_d : Z; c_hh : Z; c_mi : Z; c_ss : Z; c_ns : Z }.

(** t.Date(), t.Clock(), t.Nanosecond() of a UTC time *)
Definition clock_of (t : Z) : clock :=
  let sec := t / ns_per_s in
  let ns := t mod ns_per_s in
  let days := sec / 86400 in
  let sod := sec mod 86400 in
  let '(y, m, d) := civil_from_days days in
  mk_clock y m d (sod / 3600) (sod mod 3600 / 60) (sod mod 60) ns.

(** * Formatting *)
Definition fmt_time (c : clock) (rest : string) : string :=
  pad2 (c_hh c) (String ":" (pad2 (c_mi c) (String ":" (pad2 (c_ss c) rest)))).

Definition fmt_date (c : clock) (rest : string) : string :=
  pad_year (c_y c) (String "-" (pad2 (c_m c) (String "-" (pad2 (c_d c) rest)))).

Definition fmt_clock (sep : ascii) (c : clock) (rest : string) : string :=
  fmt_date c (String sep (fmt_time c rest)).

Definition fmt_sec_c (t : Z) : string := fmt_clock " " (clock_of t) "".

Definition fmt_us_c (t : Z) : string :=
  let c := clock_of t in fmt_clock " " c (String "." (pad6 (c_ns c / 1000) "")).

(** ".999999999": nothing for a whole second, else the nine digits without trailing zeros *)
Fixpoint trim_zeros (k : nat) (z : Z) : nat * Z :=
  match k with
  | O => (O, z)
  | S k' => if z mod 10 =? 0 then trim_zeros k' (z / 10) else (k, z)
  end.

Definition frac9 (ns : Z) (rest : string) : string :=
  if ns =? 0 then rest else let '(k, z) := trim_zeros 9 ns in String "." (digits k z rest).

Definition fmt_rfc_c (t : Z) : string :=
  let c := clock_of t in fmt_clock "T" c (frac9 (c_ns c) "Z").

(** * mysql.parseDateTime(s, time.UTC) *)
Definition obind {A B} (o : option A) (f : A -> option B) : option B :=
  match o with Some a => f a | None => None end.

(** time.getnum: one or two digits; [fixed] demands two *)
Definition getnum (fixed : bool) (s : string) : option (Z * string) :=
  match s with
  | String c1 r1 =>
      match digit_val c1 with
      | None => None
      | Some d1 =>
          match r1 with
          | String c2 r2 =>
              match digit_val c2 with
              | Some d2 => Some (10 * d1 + d2, r2)
              | None => if fixed then None else Some (d1, r1)
              end
          | EmptyString => if fixed then None else Some (d1, r1)
          end
      end
  | EmptyString => None
  end.

(** stdLongYear *)
Definition year4 (s : string) : option (Z * string) :=
  match s with
  | String a (String b (String c (String d r))) =>
      match digit_val a, digit_val b, digit_val c, digit_val d with
      | Some a, Some b, Some c, Some d => Some (1000 * a + 100 * b + 10 * c + d, r)
      | _, _, _, _ => None
      end
  | _ => None
  end.

Definition expect (c : ascii) (s : string) : option string :=
  match s with
  | String c' r => if Ascii.eqb c c' then Some r else None
  | EmptyString => None
  end.

Fixpoint cutspace (s : string) : string :=
  match s with
  | String c r => if Ascii.eqb c " " then cutspace r else s
  | EmptyString => s
  end.

(** time.skip on a blank of the layout: the value, if not exhausted, must start with a blank; all leading
    blanks go *)
Definition skip_blank (s : string) : option string :=
  match s with
  | String c r => if Ascii.eqb c " " then Some (cutspace r) else None
  | EmptyString => Some s
  end.

Fixpoint take_digits (s : string) : list Z * string :=
  match s with
  | String c r =>
      match digit_val c with
      | Some d => let '(ds, r') := take_digits r in (d :: ds, r')
      | None => ([], s)
      end
  | EmptyString => ([], s)
  end.

(** time.parseNanoseconds: at most nine digits count, scaled to nanoseconds *)
Fixpoint nanos_aux (k : nat) (ds : list Z) (acc : Z) : Z :=
  match k with
  | O => acc
  | S k' => match ds with
            | d :: ds' => nanos_aux k' ds' (acc * 10 + d)
            | [] => nanos_aux k' [] (acc * 10)
            end
  end.
Definition nanos (ds : list Z) : Z := nanos_aux 9 ds 0.

Definition comma_or_period (c : ascii) : bool := Ascii.eqb c "." || Ascii.eqb c ",".

(** the optional fraction after the seconds (stdFracSecond9, or the special case of stdZeroSecond) *)
Definition parse_frac (s : string) : Z * string :=
  match s with
  | String c r =>
      if comma_or_period c then
        match take_digits r with
        | ([], _) => (0, s)
        | (ds, r') => (nanos ds, r')
        end
      else (0, s)
  | EmptyString => (0, s)
  end.

Definition tzero_c : Z := -62135596800000000000.         (* time.Time{} *)

Definition zero_base : string := "0000-00-00 00:00:00.0000000".

Definition len_ok (n : nat) : bool :=
  Nat.eqb n 10 || Nat.eqb n 19 || (Nat.leb 21 n && Nat.leb n 26).

(** the validation at the end of time.Parse and time.Date *)
Definition finish (y mo d hh mi ss ns : Z) (rest : string) : option Z :=
  match rest with
  | EmptyString =>
      if (1 <=? mo) && (mo <=? 12) && (hh <? 24) && (mi <? 60) && (ss <? 60) && (1 <=? d) && (d <=? days_in y mo)
      then Some (unix_of y mo d hh mi ss ns) else None
  | _ => None
  end.

(** time.Parse with the layout prefix of the value's length; [date_only] = the length is 10 *)
Definition parse_fields (date_only : bool) (s : string) : option Z :=
  obind (year4 s) (fun '(y, s) =>
  obind (expect "-" s) (fun s =>
  obind (getnum true s) (fun '(mo, s) =>
  obind (expect "-" s) (fun s =>
  obind (getnum true s) (fun '(d, s) =>
  if date_only then finish y mo d 0 0 0 0 s
  else
    obind (skip_blank s) (fun s =>
    obind (getnum false s) (fun '(hh, s) =>
    obind (expect ":" s) (fun s =>
    obind (getnum true s) (fun '(mi, s) =>
    obind (expect ":" s) (fun s =>
    obind (getnum true s) (fun '(ss, s) =>
    let '(ns, s) := parse_frac s in
    finish y mo d hh mi ss ns s))))))))))).

Definition parse_datetime (s : string) : option Z :=
  let n := String.length s in
  if negb (len_ok n) then None
  else if String.eqb s (substring 0 n zero_base) then Some tzero_c
  else parse_fields (Nat.eqb n 10) s.

(** The calendar range in which the four-digit year of the text forms is the year itself. *)
Definition min_text_t : Z := -62167219200 * ns_per_s.            (* 0000-01-01 00:00:00 *)
Definition max_text_t : Z := 253402300800 * ns_per_s - 1.        (* 9999-12-31 23:59:59.999999999 *)
Definition text_range (t : Z) : bool := (min_text_t <=? t) && (t <=? max_text_t).

Close Scope Z_scope.
