(** The constant sets and dispatch tables of the row codec, extracted from the source of the tree under
    test (go/ast over internal/fields/sql.go and livesql/marshal.go, harness/cmd/c13/tables.go, on every
    run of the C13 check; a snapshot is Gen/FieldKinds.v), compared with what the model Sql/Codec.v does.

    What the model does is read off its functions on sample values ([plain], [kind_scan],
    [unsigned_at_own_width], [value_to_field], [field_to_value]), not restated: if the model or the
    source changes on one side only, [field_tables_agree] no longer computes to [true]. *)
From Coq Require Import List ZArith String Bool.
From Thunder Require Import Gen.FieldKinds Sql.Codec Sql.CodecProofs.
Import ListNotations.
Open Scope string_scope.

(** Go kinds and the model's base kinds ([Int] and [Uint] are 64 bits wide here). *)
Definition kind_base : list (string * base) :=
  [("Bool", BBool); ("Int", BInt 64); ("Int8", BInt 8); ("Int16", BInt 16); ("Int32", BInt 32); ("Int64", BInt 64);
   ("Uint", BUint 64); ("Uint8", BUint 8); ("Uint16", BUint 16); ("Uint32", BUint 32); ("Uint64", BUint 64);
   ("Float32", BF32); ("Float64", BF64); ("String", BStr)].

Open Scope Z_scope.
(** The reflect.Value accessor the model's final switch of Valuer.Value stands for, observed on samples:
    an unsigned kind is read with Uint() and converted with int64() (2^63 wraps to -2^63), a signed one
    with Int(). *)
Definition model_valuer_accessor (b : base) : string :=
  match b with
  | BBool => match plain b (GBool true) with DBool true => "Bool" | _ => "?" end
  | BInt _ | BUint _ =>
      match plain b (GInt (2 ^ 63)) with
      | DInt z => if z =? 2 ^ 63 then "Int" else if z =? - 2 ^ 63 then "Uint" else "?"
      | _ => "?"
      end
  | BF32 | BF64 => match plain b (GFloat 1) with DFloat 1 => "Float" | _ => "?" end
  | BStr => match plain b (GStr "x") with DStr "x" => "String" | _ => "?" end
  | _ => "-"      (* not in the switch: passed through *)
  end.

(** The database/sql Null type the model's final switch of Scanner.Scan stands for, observed on the text
    source "1": sql.NullBool reads true, NullInt64 the integer, NullFloat64 the float, NullString the text. *)
Definition model_scanner_null (b : base) : string :=
  match kind_scan toy_env b (SStr "1") with
  | Ok (GBool true) => "NullBool"
  | Ok (GInt 1) => "NullInt64"
  | Ok (GFloat 1) => "NullFloat64"
  | Ok (GStr "1") => "NullString"
  | _ => "-"
  end.

(** unsignedAtOwnWidth: an unsigned target reinterprets int8 / int16 / int32 sources at their own width
    (-1 becomes 2^w - 1), other targets and int64 sources are left alone. *)
Definition model_own_width (b : base) (w : Z) : bool :=
  match unsigned_at_own_width b (SInt w (-1)) with
  | SInt 64 z => z =? 2 ^ w - 1
  | _ => false
  end.
Close Scope Z_scope.

Definition go_int_types : list (string * Z) := [("int8", 8%Z); ("int16", 16%Z); ("int32", 32%Z); ("int64", 64%Z)].

(** livesql.valueToField / FieldToValue, observed on one value of each driver / protobuf kind. *)
Definition model_proto_of_value : list (string * string) :=
  let name (r : res pfield) : string :=
    match r with
    | Ok PNull => "Null" | Ok (PBool _) => "Bool" | Ok (PInt _) => "Int" | Ok (PUint _) => "Uint"
    | Ok (PStr _) => "String" | Ok (PBytes _) => "Bytes" | Ok (PFloat _) => "Float64" | Ok (PTime _) => "Time"
    | Err => "-"
    end in
  [("nil", name (value_to_field DNull)); ("int64", name (value_to_field (DInt 0))); ("float64", name (value_to_field (DFloat 0)));
   ("bool", name (value_to_field (DBool true))); ("[]byte", name (value_to_field (DBytes ""))); ("string", name (value_to_field (DStr "")));
   ("time.Time", name (value_to_field (DTime 0)))].

Definition model_value_of_proto : list (string * string) :=
  let getter (s : src) : string :=
    match s with
    | SNull => "" | SBool _ => "GetBool" | SInt 64 _ => "GetInt" | SUint64 _ => "GetUint" | SStr _ => "GetString_"
    | SBytes _ => "GetBytes" | SF64 _ => "GetFloat64" | STime _ => "GetTime" | _ => "-"
    end in
  [("Null", getter (field_to_value PNull)); ("Bool", getter (field_to_value (PBool true))); ("Int", getter (field_to_value (PInt 0)));
   ("Uint", getter (field_to_value (PUint 0))); ("String", getter (field_to_value (PStr ""))); ("Bytes", getter (field_to_value (PBytes "")));
   ("Float64", getter (field_to_value (PFloat 0))); ("Time", getter (field_to_value (PTime 0)))].

Definition tag_name (t : tag) : string :=
  match t with TNone => "" | TBinary => "binary" | TString => "string" | TJson => "json" | TImplicitNull => "implicitnull" end.

(** two association lists with the same keys (in any order) and the same values *)
Definition same_table (a b : list (string * string)) : bool :=
  Nat.eqb (List.length a) (List.length b) &&
  forallb (fun kv => match slookup (fst kv) b with Some v => String.eqb v (snd kv) | None => false end) a &&
  forallb (fun kv => match slookup (fst kv) a with Some v => String.eqb v (snd kv) | None => false end) b.

Definition same_set (a b : list string) : bool :=
  Nat.eqb (List.length a) (List.length b) &&
  forallb (fun x => existsb (String.eqb x) b) a && forallb (fun x => existsb (String.eqb x) a) b.

Record field_tables : Type := mk_field_tables {
  ft_valuer_nilable_kinds : list string;
  ft_valuer_tags : list string;
  ft_valuer_kinds : list (string * string);
  ft_scanner_tags : list string;
  ft_scanner_self_nil_kinds : list string;
  ft_scanner_kinds : list (string * string);
  ft_own_width_kinds : list string;
  ft_own_width_types : list string;
  ft_proto_of_value : list (string * string);
  ft_value_of_proto : list (string * string)
}.

Definition field_tables_check (x : field_tables) : bool :=
  (* Valuer.Value: the kinds of its final switch are the model's plain kinds, each read with the accessor the model stands for *)
  same_table (ft_valuer_kinds x) (map (fun kb => (fst kb, model_valuer_accessor (snd kb))) kind_base) &&
  (* Scanner.Scan: same kinds, each through the Null type the model stands for *)
  same_table (ft_scanner_kinds x) (map (fun kb => (fst kb, model_scanner_null (snd kb))) kind_base) &&
  (* tag switches: the model's tags, Valuer's in the model's order of precedence; Scanner has no implicitnull branch *)
  list_eqb String.eqb (ft_valuer_tags x) (map tag_name [TBinary; TString; TJson; TImplicitNull]) &&
  list_eqb String.eqb (ft_scanner_tags x) (map tag_name [TBinary; TString; TJson]) &&
  (* the nil check of Valuer covers pointers and slices (the model's FNil and GBytes None); a sql.Scanner column of
     slice kind is not handed NULL, one of any scalar or struct kind is *)
  existsb (String.eqb "Ptr") (ft_valuer_nilable_kinds x) && existsb (String.eqb "Slice") (ft_valuer_nilable_kinds x) &&
  existsb (String.eqb "Slice") (ft_scanner_self_nil_kinds x) &&
  negb (existsb (fun k => existsb (String.eqb k) (ft_scanner_self_nil_kinds x)) ["Struct"; "Array"; "Int8"; "String"; "Ptr"]) &&
  (* unsignedAtOwnWidth: exactly the unsigned kinds, exactly the narrow signed source types *)
  same_set (ft_own_width_kinds x) (map fst (List.filter (fun kb => model_own_width (snd kb) 8) kind_base)) &&
  same_set (ft_own_width_types x) (map fst (List.filter (fun tw => model_own_width (BUint 64) (snd tw)) go_int_types)) &&
  (* the protobuf form of driver values *)
  same_table (ft_proto_of_value x) model_proto_of_value &&
  same_table (ft_value_of_proto x) model_value_of_proto.

(** The snapshot committed with the theory (Gen/FieldKinds.v, written by the C13 harness with
    C13_WRITE_SNAPSHOT set): the model agrees with it.  Every run of the check extracts the tables afresh
    from the tree under test and evaluates [field_tables_check] on them (component 12). *)
Definition snapshot : field_tables :=
  mk_field_tables valuer_nilable_kinds valuer_tags valuer_kinds scanner_tags scanner_self_nil_kinds scanner_kinds
                  own_width_kinds own_width_types proto_of_value value_of_proto.

Theorem field_tables_agree : field_tables_check snapshot = true.
Proof. vm_compute. reflexivity. Qed.

Definition tables_mm (x : field_tables) (o : nat) (_ : list unit) : list (nat * list nat) :=
  if field_tables_check x then [] else [(o, [12%nat])].
