(** C07 correspondence runs with concrete times: the environment's time fields are the Gallina functions
    of Sql/TimeText.v (floats do not occur in these histories' tables beyond what the codec passes
    through); the parse table Go computed for the time texts of the shard is compared with the model's
    own mysql.parseDateTime (component 12). *)
From Coq Require Import List ZArith String.
From Thunder Require Import Sql.Codec Sql.CodecTime Sql.Live.
Import ListNotations.

Definition live_mismatches_ct (pt : list (string * option Z)) (cs : list (nat * lcase)) : list (nat * list nat) :=
  (if time_tables_ok [] pt then [] else [(match cs with (i, _) :: _ => i | [] => O end, [12%nat])]) ++
  live_mismatches (env_ct [] []) cs.
