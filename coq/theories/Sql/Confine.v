(** C12: confinement of everything a limited sqlgen.DB handle sends to the database.
    Definitions of the confinement predicates and the proofs about Sql/Model.v. *)
From Coq Require Import List ZArith String Ascii Bool Lia.
From Thunder Require Import Sql.Model.
Import ListNotations.
Open Scope string_scope.

(** * What a limit denotes *)

(** The limits a handle must enforce: the shard limit, and the dynamic limit when its callback rejects. *)
Definition enforced_limits (h : handle) : list filter :=
  (match h_shard h with Some l => [l] | None => [] end)
  ++ (match dyn_enforced h with Some l => [l] | None => [] end).

(** The column value a limit entry denotes for reads: the limit's Go value serialized by the column's
    Valuer (that is what a complying filter sends for it). *)
Definition read_value (t : table) (k : string) (v : goval) (d : dval) : Prop :=
  exists c, find_col (t_cols t) k = Some c /\ d = valuer (c_implicitnull c) v.

(** For writes the limit's Go value is compared with the serialized column value itself. *)
Definition write_value (v : goval) (d : dval) : Prop := go_eqb (go_of_dval d) v = true.

(** A pointer has one pointee: two pointer values with the same address hold the same value. *)
Definition ptr_ok (a b : goval) : Prop :=
  match a, b with GPtr p x, GPtr q y => p = q -> x = y | _, _ => True end.

Definition filter_ptrs_ok (f limit : filter) : Prop :=
  forall k v fv, In (k, v) limit -> lookup k f = Some fv -> ptr_ok fv v.

(** * Confinement of one statement to one limit (syntactic; this is what the harness oracle decides on
      the recorded statements) *)
Definition group_pins (k : string) (d : dval) (g : bgroup) : Prop :=
  Forall (fun tup => In (k, d) (combine (fst g) tup)) (snd g).

Definition where_pins (w : wclause) (k : string) (d : dval) : Prop :=
  match w with
  | WSimple l => In (k, d) l
  | WBatch gs => gs <> [] /\ Forall (group_pins k d) gs
  end.

Definition confined (t : table) (limit : filter) (s : stmt) : Prop :=
  forall k v, In (k, v) limit ->
    match s with
    | SSelect _ _ w _ => exists d, read_value t k v d /\ where_pins w k d
    | SCount _ w => exists d, read_value t k v d /\ In (k, d) w
    | SInsert _ cols rows | SUpsert _ cols rows =>
        Forall (fun row => exists d, write_value v d /\ In (k, d) (combine cols row)) rows
    | SUpdate _ cols vals w =>
        exists d, write_value v d /\ (In (k, d) w \/ In (k, d) (combine cols vals))
    | SDelete _ w => exists d, write_value v d /\ In (k, d) w
    end.

Definition event_confined (t : table) (limit : filter) (e : event) : Prop :=
  match e with EStmt s => confined t limit s | _ => True end.

(** * Basic lemmas *)
Lemma find_col_In : forall cols k c, find_col cols k = Some c -> In c cols /\ c_name c = k.
Proof.
  induction cols as [|c0 cols IH]; intros k c H; simpl in H; [discriminate|].
  destruct (String.eqb k (c_name c0)) eqn:E.
  - inversion H; subst. apply String.eqb_eq in E. split; [left; reflexivity|symmetry; exact E].
  - destruct (IH _ _ H) as [Hin Hn]. split; [right; exact Hin|exact Hn].
Qed.

Lemma where_in_order_In : forall cols f c fv,
  In c cols -> lookup (c_name c) f = Some fv ->
  In (c_name c, valuer (c_implicitnull c) fv) (where_in_order cols f).
Proof.
  induction cols as [|c0 cols IH]; intros f c fv Hin Hl; [contradiction|].
  simpl. destruct Hin as [->|Hin].
  - rewrite Hl. left; reflexivity.
  - destruct (lookup (c_name c0) f); [right|]; apply IH; assumption.
Qed.

Lemma where_in_order_inv : forall cols f k d,
  In (k, d) (where_in_order cols f) ->
  exists c fv, In c cols /\ c_name c = k /\ lookup k f = Some fv /\ d = valuer (c_implicitnull c) fv.
Proof.
  induction cols as [|c0 cols IH]; intros f k d H; simpl in H; [contradiction|].
  destruct (lookup (c_name c0) f) as [fv|] eqn:E.
  - destruct H as [H|H].
    + inversion H; subst. exists c0, fv. repeat split; auto. left; reflexivity.
    + destruct (IH _ _ _ H) as (c & fv' & Hin & Hn & Hl & Hd). exists c, fv'. repeat split; auto. right; exact Hin.
  - destruct (IH _ _ _ H) as (c & fv' & Hin & Hn & Hl & Hd). exists c, fv'. repeat split; auto. right; exact Hin.
Qed.

Lemma all_known_find : forall cols f k fv,
  all_known cols f = true -> lookup k f = Some fv -> exists c, find_col cols k = Some c.
Proof.
  intros cols f. induction f as [|[k0 v0] f IH]; intros k fv Hk Hl; simpl in *; [discriminate|].
  apply andb_prop in Hk. destruct Hk as [H0 Hk].
  destruct (String.eqb k k0) eqn:E.
  - apply String.eqb_eq in E. subst k0. destruct (find_col cols k) as [c|]; [exists c; reflexivity|discriminate].
  - eapply IH; eauto.
Qed.

Lemma ikind_eqb_eq : forall a b, ikind_eqb a b = true -> a = b.
Proof. destruct a, b; simpl; intros H; try reflexivity; discriminate. Qed.

Lemma gty_eqb_eq : forall a b, gty_eqb a b = true -> a = b.
Proof.
  induction a; destruct b; simpl; intros H; try discriminate; try reflexivity.
  - apply andb_prop in H. destruct H as [H1 H2]. apply ikind_eqb_eq in H1. apply String.eqb_eq in H2. subst; reflexivity.
  - apply String.eqb_eq in H. subst; reflexivity.
  - f_equal. apply IHa. exact H.
Qed.

Lemma dval_eqb_eq : forall a b, dval_eqb a b = true -> a = b.
Proof.
  intros x y; destruct x, y; simpl; intros H; try discriminate; try reflexivity;
    try (apply Z.eqb_eq in H; subst; reflexivity);
    try (apply String.eqb_eq in H; subst; reflexivity).
  apply Bool.eqb_prop in H. subst. reflexivity.
Qed.

(** Go's [==] implies the same serialized value, provided a pointer has one pointee. *)
Lemma go_eqb_valuer : forall a b i, go_eqb a b = true -> ptr_ok a b -> valuer i a = valuer i b.
Proof.
  intros a b i H Hp. destruct a, b; simpl in H; try discriminate; try reflexivity.
  - apply andb_prop in H. destruct H as [H H3]. apply andb_prop in H. destruct H as [H1 H2].
    apply ikind_eqb_eq in H1. apply String.eqb_eq in H2. apply Z.eqb_eq in H3. subst; reflexivity.
  - apply andb_prop in H. destruct H as [H1 H2]. apply String.eqb_eq in H1. apply String.eqb_eq in H2. subst; reflexivity.
  - apply Bool.eqb_prop in H. subst; reflexivity.
  - apply Z.eqb_eq in H. subst; reflexivity.
  - apply String.eqb_eq in H. subst; reflexivity.
  - destruct (type_of a) eqn:Ta; [|discriminate]. destruct (type_of b) eqn:Tb; [|discriminate].
    apply andb_prop in H. destruct H as [_ H]. apply Nat.eqb_eq in H. simpl in Hp. rewrite (Hp H). reflexivity.
  - apply andb_prop in H. destruct H as [_ H]. apply dval_eqb_eq in H. subst. reflexivity.
Qed.

Lemma check_filter_sound : forall f l,
  check_filter_against_limit f l = true ->
  forall k v, In (k, v) l -> exists fv, lookup k f = Some fv /\ go_eqb fv v = true.
Proof.
  intros f l. induction l as [|[k0 v0] l IH]; intros H k v Hin; [contradiction|].
  simpl in H. destruct (lookup k0 f) as [fv0|] eqn:E; [|discriminate].
  apply andb_prop in H. destruct H as [H1 H2].
  destruct Hin as [Hin|Hin].
  - inversion Hin; subst. exists fv0. split; assumption.
  - apply IH; assumption.
Qed.

Lemma check_values_sound : forall cvs l,
  check_column_values_against_limit cvs l = true ->
  forall k v, In (k, v) l -> exists d, lookup k cvs = Some d /\ write_value v d.
Proof.
  intros cvs l. induction l as [|[k0 v0] l IH]; intros H k v Hin; [contradiction|].
  simpl in H. destruct (lookup k0 cvs) as [d0|] eqn:E; [|discriminate].
  apply andb_prop in H. destruct H as [H1 H2].
  destruct Hin as [Hin|Hin].
  - inversion Hin; subst. exists d0. split; assumption.
  - apply IH; assumption.
Qed.

Lemma lookup_In : forall (A : Type) k (l : list (string * A)) v, lookup k l = Some v -> In (k, v) l.
Proof.
  intros A k l. induction l as [|[k0 v0] l IH]; intros v H; simpl in H; [discriminate|].
  destruct (String.eqb k k0) eqn:E.
  - apply String.eqb_eq in E. inversion H; subst. left; reflexivity.
  - right. apply IH. exact H.
Qed.

(** The checks of a handle imply the check against every enforced limit. *)
Lemma check_filter_limits_enforced : forall h f l,
  check_filter_limits h f = true -> In l (enforced_limits h) -> check_filter_against_limit f l = true.
Proof.
  intros h f l H Hin. unfold check_filter_limits in H. apply andb_prop in H. destruct H as [Hs Hd].
  unfold enforced_limits, dyn_enforced in Hin. apply in_app_or in Hin. destruct Hin as [Hin|Hin].
  - destruct (h_shard h) as [ls|]; simpl in Hin; [|contradiction]. destruct Hin as [<-|[]]. exact Hs.
  - destruct (h_dyn h) as [ld|]; simpl in Hin; [|contradiction].
    destruct (h_dyn_cb h) eqn:Ecb; simpl in Hin; [|contradiction].
    destruct (h_dyn_continue h) eqn:Ec; simpl in Hin; [contradiction|].
    destruct Hin as [<-|[]]. rewrite orb_false_r in Hd. exact Hd.
Qed.

Lemma check_values_limits_enforced : forall h cvs l,
  check_values_limits h cvs = true -> In l (enforced_limits h) -> check_column_values_against_limit cvs l = true.
Proof.
  intros h cvs l H Hin. unfold check_values_limits in H. apply andb_prop in H. destruct H as [Hs Hd].
  unfold enforced_limits, dyn_enforced in Hin. apply in_app_or in Hin. destruct Hin as [Hin|Hin].
  - destruct (h_shard h) as [ls|]; simpl in Hin; [|contradiction]. destruct Hin as [<-|[]]. exact Hs.
  - destruct (h_dyn h) as [ld|]; simpl in Hin; [|contradiction].
    destruct (h_dyn_cb h) eqn:Ecb; simpl in Hin; [|contradiction].
    destruct (h_dyn_continue h) eqn:Ec; simpl in Hin; [contradiction|].
    destruct Hin as [<-|[]]. rewrite orb_false_r in Hd. exact Hd.
Qed.

(** * Reads *)

(** A filter that passes the check puts, for every limit entry, the limit's own value in the WHERE. *)
Lemma passing_filter_pins : forall t f w l,
  make_where t f = Some w -> check_filter_against_limit f l = true -> filter_ptrs_ok f l ->
  forall k v, In (k, v) l -> exists d, read_value t k v d /\ In (k, d) w.
Proof.
  intros t f w l Hw Hc Hp k v Hin. unfold make_where in Hw.
  destruct (all_known (t_cols t) f) eqn:Ek; [|discriminate]. inversion Hw; subst w; clear Hw.
  destruct (check_filter_sound _ _ Hc _ _ Hin) as (fv & Hl & He).
  destruct (all_known_find _ _ _ _ Ek Hl) as [c Hc'].
  destruct (find_col_In _ _ _ Hc') as [Hcin Hcn].
  exists (valuer (c_implicitnull c) v). split.
  - exists c. split; [exact Hc'|reflexivity].
  - rewrite <- (go_eqb_valuer fv v (c_implicitnull c) He (Hp _ _ _ Hin Hl)).
    rewrite <- Hcn. apply where_in_order_In; [exact Hcin|rewrite Hcn; exact Hl].
Qed.

(** * makeBatchQuery keeps every filter's entries *)

Lemma In_insert_sorted : forall k x l, In x (insert_sorted k l) <-> x = k \/ In x l.
Proof.
  intros k x l. induction l as [|h t IH]; simpl.
  - intuition.
  - destruct (String.leb k h); simpl; [intuition|]. rewrite IH. intuition.
Qed.

Lemma In_sort_strings : forall x l, In x (sort_strings l) <-> In x l.
Proof.
  intros x l. induction l as [|h t IH]; simpl; [reflexivity|].
  rewrite In_insert_sorted, IH. intuition.
Qed.

Lemma In_insert_group : forall (A : Type) (g x : string * A) l, In x (insert_group g l) <-> x = g \/ In x l.
Proof.
  intros A g x l. induction l as [|h t IH]; simpl.
  - intuition.
  - destruct (String.leb (fst g) (fst h)); simpl; [intuition|]. rewrite IH. intuition.
Qed.

Lemma In_sort_groups : forall (A : Type) (x : string * A) l, In x (sort_groups l) <-> In x l.
Proof.
  intros A x l. induction l as [|h t IH]; simpl; [reflexivity|].
  rewrite In_insert_group, IH. intuition.
Qed.

(** ** Column names and the group key *)

(** The key of a group is its column names joined with ";": it identifies the column list as long as
    no name is empty or contains ";" (sqlgen's column names are identifiers). *)
Definition sep_tail (r : string) : Prop := r = "" \/ exists r', r = String ";"%char r'.

Lemma prefix_split : forall a b ra rb,
  no_semi a = true -> no_semi b = true -> sep_tail ra -> sep_tail rb ->
  a ++ ra = b ++ rb -> a = b /\ ra = rb.
Proof.
  induction a as [|c a IH]; intros b ra rb Ha Hb Hra Hrb H.
  - destruct b as [|c' b]; simpl in H.
    + split; [reflexivity|exact H].
    + exfalso. simpl in Hb. apply andb_prop in Hb. destruct Hb as [Hc _].
      destruct Hra as [->|[r' ->]]; [discriminate|]. inversion H; subst c'.
      rewrite Ascii.eqb_refl in Hc. discriminate.
  - destruct b as [|c' b]; simpl in H.
    + exfalso. simpl in Ha. apply andb_prop in Ha. destruct Ha as [Hc _].
      destruct Hrb as [->|[r' ->]]; [discriminate|]. inversion H; subst c.
      rewrite Ascii.eqb_refl in Hc. discriminate.
    + inversion H; subst c'. simpl in Ha, Hb. apply andb_prop in Ha. apply andb_prop in Hb.
      destruct Ha as [_ Ha]. destruct Hb as [_ Hb].
      destruct (IH b ra rb Ha Hb Hra Hrb H2) as [-> ->]. split; reflexivity.
Qed.

Lemma join_cons : forall x xs, join ";" (x :: xs) = x ++ match xs with [] => "" | _ => ";" ++ join ";" xs end.
Proof.
  intros x xs. unfold join. simpl. destruct xs; [|reflexivity].
  induction x; simpl; [reflexivity|]. f_equal. exact IHx.
Qed.

Lemma join_tail_sep : forall xs : list string, sep_tail (match xs with [] => "" | _ => ";" ++ join ";" xs end).
Proof. intros [|x xs]; [left; reflexivity|right; eexists; reflexivity]. Qed.

Lemma name_ok_parts : forall s, name_ok s = true -> no_semi s = true /\ s <> "".
Proof.
  intros s H. unfold name_ok in H. apply andb_prop in H. destruct H as [H1 H2]. split; [exact H1|].
  intros ->. discriminate.
Qed.

Lemma columns_key_inj : forall l1 l2,
  forallb name_ok l1 = true -> forallb name_ok l2 = true ->
  columns_key l1 = columns_key l2 -> l1 = l2.
Proof.
  unfold columns_key. induction l1 as [|x xs IH]; intros l2 H1 H2 H.
  - destruct l2 as [|y ys]; [reflexivity|]. exfalso.
    simpl in H2. apply andb_prop in H2. destruct H2 as [Hy _]. destruct (name_ok_parts _ Hy) as [_ Hne].
    rewrite join_cons in H. unfold join in H. simpl in H. destruct y; [apply Hne; reflexivity|discriminate].
  - destruct l2 as [|y ys].
    + exfalso. simpl in H1. apply andb_prop in H1. destruct H1 as [Hx _]. destruct (name_ok_parts _ Hx) as [_ Hne].
      rewrite join_cons in H. unfold join in H. simpl in H. destruct x; [apply Hne; reflexivity|discriminate].
    + simpl in H1, H2. apply andb_prop in H1. apply andb_prop in H2.
      destruct H1 as [Hx H1]. destruct H2 as [Hy H2].
      destruct (name_ok_parts _ Hx) as [Hxs _]. destruct (name_ok_parts _ Hy) as [Hys _].
      rewrite !join_cons in H.
      destruct (prefix_split _ _ _ _ Hxs Hys (join_tail_sep xs) (join_tail_sep ys) H) as [-> Ht].
      f_equal. destruct xs as [|x' xs'], ys as [|y' ys']; try reflexivity; try discriminate.
      apply IH; [exact H1|exact H2|].
      change (String ";"%char (join ";" (x' :: xs')) = String ";"%char (join ";" (y' :: ys'))) in Ht.
      injection Ht as Ht. exact Ht.
Qed.

(** ** The grouping loop *)

Definition from_filter (f : dfilter) (cols : list string) (tup : list dval) : Prop :=
  cols = extract_columns f /\ tup = extract_tuple DNull f cols.

(** Invariant: a group's key is the key of its columns, it has at least one tuple, and each tuple is the
    value tuple of one of the filters seen so far over exactly the group's columns. *)
Definition groups_inv (seen : list dfilter) (gs : list (string * bgroup)) : Prop :=
  forall key cols tups, In (key, (cols, tups)) gs ->
    key = columns_key cols /\ tups <> [] /\
    forall tup, In tup tups -> exists f, In f seen /\ from_filter f cols tup.

Definition filter_names_ok (f : dfilter) : Prop := forallb name_ok (map fst f) = true.

Lemma forallb_sort_strings : forall p l, forallb p l = true -> forallb p (sort_strings l) = true.
Proof.
  intros p l H. apply forallb_forall. intros x Hx. apply (proj1 (In_sort_strings _ _)) in Hx.
  rewrite forallb_forall in H. apply H. exact Hx.
Qed.

Lemma add_to_group_inv : forall seen gs f,
  groups_inv seen gs ->
  (forall key cols tups, In (key, (cols, tups)) gs -> forallb name_ok cols = true) ->
  filter_names_ok f ->
  groups_inv (f :: seen)
    (add_to_group (columns_key (extract_columns f)) (extract_columns f)
                  (extract_tuple DNull f (extract_columns f)) gs).
Proof.
  intros seen gs f. induction gs as [|[k [cs tups]] gs IH]; intros Hinv Hnames Hf.
  - simpl. intros key cols tups0 [H|[]]. inversion H; subst. split; [reflexivity|]. split; [discriminate|].
    intros tup [<-|[]]. exists f. split; [left; reflexivity|split; reflexivity].
  - simpl. destruct (String.eqb k (columns_key (extract_columns f))) eqn:E.
    + apply String.eqb_eq in E.
      intros key cols tups0 [H|H].
      * inversion H; subst key cols tups0; clear H.
        destruct (Hinv k cs tups (or_introl eq_refl)) as (Hk & Hne & Hall).
        assert (Hcs : cs = extract_columns f).
        { apply columns_key_inj.
          - apply (Hnames k cs tups). left; reflexivity.
          - unfold extract_columns. apply forallb_sort_strings. exact Hf.
          - rewrite <- Hk. exact E. }
        split; [exact Hk|]. split; [destruct tups; discriminate|].
        intros tup Hin. apply in_app_or in Hin. destruct Hin as [Hin|[<-|[]]].
        -- destruct (Hall _ Hin) as (f0 & Hf0 & Hff). exists f0. split; [right; exact Hf0|exact Hff].
        -- exists f. split; [left; reflexivity|]. split; [exact Hcs|]. rewrite Hcs. reflexivity.
      * destruct (Hinv key cols tups0 (or_intror H)) as (Hk & Hne & Hall).
        split; [exact Hk|]. split; [exact Hne|]. intros tup Hin.
        destruct (Hall _ Hin) as (f0 & Hf0 & Hff). exists f0. split; [right; exact Hf0|exact Hff].
    + intros key cols tups0 [H|H].
      * inversion H; subst key cols tups0; clear H.
        destruct (Hinv k cs tups (or_introl eq_refl)) as (Hk & Hne & Hall).
        split; [exact Hk|]. split; [exact Hne|]. intros tup Hin.
        destruct (Hall _ Hin) as (f0 & Hf0 & Hff). exists f0. split; [right; exact Hf0|exact Hff].
      * apply (IH (fun key cols tups H' => Hinv key cols tups (or_intror H'))
                  (fun key cols tups H' => Hnames key cols tups (or_intror H')) Hf).
        exact H.
Qed.

Lemma add_to_group_names : forall gs key cols (tup : list dval),
  (forall k cs tups, In (k, (cs, tups)) gs -> forallb name_ok cs = true) ->
  forallb name_ok cols = true ->
  forall k cs tups, In (k, (cs, tups)) (add_to_group key cols tup gs) -> forallb name_ok cs = true.
Proof.
  induction gs as [|[k0 [cs0 tups0]] gs IH]; intros key cols tup Hn Hc k cs tups H.
  - simpl in H. destruct H as [H|[]]. inversion H; subst. exact Hc.
  - simpl in H. destruct (String.eqb k0 key).
    + destruct H as [H|H].
      * inversion H; subst. apply (Hn k cs tups0). left; reflexivity.
      * apply (Hn k cs tups). right; exact H.
    + destruct H as [H|H].
      * inversion H; subst. apply (Hn k cs tups). left; reflexivity.
      * apply (IH key cols tup (fun k cs tups H' => Hn k cs tups (or_intror H')) Hc k cs tups H).
Qed.

Lemma add_to_group_nonempty : forall (A : Type) key cols (tup : A) gs, add_to_group key cols tup gs <> [].
Proof.
  intros A key cols tup gs. destruct gs as [|[k [cs tups]] gs]; simpl; [discriminate|].
  destruct (String.eqb k key); discriminate.
Qed.

Definition group_step (gs : list (string * bgroup)) (f : dfilter) : list (string * bgroup) :=
  let cols := extract_columns f in
  add_to_group (columns_key cols) cols (extract_tuple DNull f cols) gs.

Lemma group_filters_eq : forall fs, group_filters fs = fold_left group_step fs [].
Proof. reflexivity. Qed.

Lemma fold_group_inv : forall fs seen gs,
  groups_inv seen gs ->
  (forall key cols tups, In (key, (cols, tups)) gs -> forallb name_ok cols = true) ->
  Forall filter_names_ok fs ->
  groups_inv (rev fs ++ seen) (fold_left group_step fs gs).
Proof.
  induction fs as [|f fs IH]; intros seen gs Hinv Hn Hfs.
  - exact Hinv.
  - simpl. inversion Hfs as [|f' fs' Hf Hfs']; subst.
    rewrite <- app_assoc. simpl. apply IH.
    + apply add_to_group_inv; assumption.
    + unfold group_step. apply add_to_group_names; [exact Hn|].
      unfold extract_columns. apply forallb_sort_strings. exact Hf.
    + exact Hfs'.
Qed.

Lemma fold_group_nonempty : forall fs gs, gs <> [] -> fold_left group_step fs gs <> [].
Proof.
  induction fs as [|f fs IH]; intros gs H; [exact H|]. simpl. apply IH. apply add_to_group_nonempty.
Qed.

Lemma group_filters_nonempty : forall fs, fs <> [] -> group_filters fs <> [].
Proof.
  intros [|f fs] H; [contradiction|]. rewrite group_filters_eq. simpl.
  apply fold_group_nonempty. apply add_to_group_nonempty.
Qed.

Lemma group_filters_inv : forall fs, Forall filter_names_ok fs -> groups_inv fs (group_filters fs).
Proof.
  intros fs H. rewrite group_filters_eq.
  assert (G := fold_group_inv fs [] [] (fun _ _ _ F => match F with end) (fun _ _ _ F => match F with end) H).
  rewrite app_nil_r in G. intros key cols tups Hin.
  destruct (G key cols tups Hin) as (Hk & Hne & Hall). split; [exact Hk|]. split; [exact Hne|].
  intros tup Ht. destruct (Hall tup Ht) as (f & Hf & Hff). exists f. split; [|exact Hff].
  apply in_rev. exact Hf.
Qed.

Lemma lookup_in_extract : forall (f : dfilter) k d,
  lookup k f = Some d ->
  In (k, d) (combine (extract_columns f) (extract_tuple DNull f (extract_columns f))).
Proof.
  intros f k d H. unfold extract_tuple.
  assert (Hk : In k (extract_columns f)).
  { unfold extract_columns. apply (proj2 (In_sort_strings _ _)). apply lookup_In in H. apply (in_map fst) in H. exact H. }
  generalize dependent (extract_columns f). intros cols Hk.
  induction cols as [|c cols IH]; [contradiction|]. simpl. destruct Hk as [->|Hk].
  - left. rewrite H. reflexivity.
  - right. apply IH. exact Hk.
Qed.

(** Every group of the batched clause pins [k] to [d] when every filter does. *)
Lemma batch_groups_pin : forall fs gs k d,
  Forall filter_names_ok fs -> fs <> [] ->
  (forall f, In f fs -> lookup k f = Some d) ->
  make_batch_query fs = Some gs ->
  gs <> [] /\ Forall (group_pins k d) gs.
Proof.
  intros fs gs k d Hn Hne Hall H. unfold make_batch_query in H.
  match type of H with (if ?b then _ else _) = _ => destruct b end; [discriminate|]. inversion H; subst gs; clear H. split.
  - intros E. apply map_eq_nil in E.
    assert (Hg := group_filters_nonempty fs Hne).
    destruct (group_filters fs) as [|g gs'] eqn:Eg; [contradiction|].
    assert (In g (sort_groups (g :: gs'))) by (apply (proj2 (In_sort_groups _ _ _)); left; reflexivity).
    rewrite E in H. contradiction.
  - apply Forall_forall. intros g Hg. apply in_map_iff in Hg. destruct Hg as ([key [cols tups]] & <- & Hin).
    apply (proj1 (In_sort_groups _ _ _)) in Hin. destruct (group_filters_inv fs Hn key cols tups Hin) as (_ & _ & Hfrom).
    unfold group_pins. simpl. apply Forall_forall. intros tup Ht.
    destruct (Hfrom tup Ht) as (f & Hf & -> & ->). apply lookup_in_extract. apply Hall. exact Hf.
Qed.

(** * Writes *)

Lemma combine_fst_snd : forall (A B : Type) (l : list (A * B)), combine (map fst l) (map snd l) = l.
Proof. induction l as [|[a b] l IH]; simpl; [reflexivity|]. f_equal. exact IH. Qed.

Lemma passing_values_carry : forall h cvs l,
  check_values_limits h cvs = true -> In l (enforced_limits h) ->
  forall k v, In (k, v) l -> exists d, write_value v d /\ In (k, d) cvs.
Proof.
  intros h cvs l Hc Hl k v Hin.
  destruct (check_values_sound _ _ (check_values_limits_enforced _ _ _ Hc Hl) _ _ Hin) as (d & Hd & Hw).
  exists d. split; [exact Hw|apply lookup_In; exact Hd].
Qed.

(** Rows have one value per column (they are values of the table's struct type). *)
Definition row_ok (t : table) (r : grow) : Prop := List.length r = List.length (t_cols t).

Lemma pick_names : forall cols r keep,
  List.length r = List.length cols ->
  map fst (pick cols (unbuild cols r) keep) = map c_name (List.filter keep cols).
Proof.
  induction cols as [|c cols IH]; intros r keep Hlen; [reflexivity|].
  destruct r as [|v r]; [discriminate|]. simpl in Hlen. injection Hlen as Hlen.
  simpl. destruct (keep c); simpl; [f_equal|]; apply IH; exact Hlen.
Qed.

Definition op_rows_ok (t : table) (o : op) : Prop :=
  match o with
  | OInsertRows rs _ | OUpsertRows rs _ => Forall (row_ok t) rs
  | _ => True
  end.

Definition op_ptrs_ok (h : handle) (o : op) : Prop :=
  match o with
  | OQuery f _ | OCount f => forall l, In l (enforced_limits h) -> filter_ptrs_ok f l
  | _ => True
  end.

(** * The batched statement *)

Lemma lookup_where_in_order : forall cols f k c fv,
  find_col cols k = Some c -> lookup k f = Some fv ->
  lookup k (where_in_order cols f) = Some (valuer (c_implicitnull c) fv).
Proof.
  induction cols as [|c0 cols IH]; intros f k c fv Hc Hl; simpl in Hc; [discriminate|].
  simpl. destruct (String.eqb k (c_name c0)) eqn:E.
  - inversion Hc; subst c0. apply String.eqb_eq in E. subst k. rewrite Hl. simpl. rewrite String.eqb_refl. reflexivity.
  - destruct (lookup (c_name c0) f); [simpl; rewrite E|]; apply IH; assumption.
Qed.

Lemma where_in_order_names : forall cols f,
  forallb name_ok (map c_name cols) = true -> forallb name_ok (map fst (where_in_order cols f)) = true.
Proof.
  induction cols as [|c cols IH]; intros f H; [reflexivity|]. simpl in H. apply andb_prop in H. destruct H as [H1 H2].
  simpl. destruct (lookup (c_name c) f); simpl; [rewrite H1; simpl|]; apply IH; exact H2.
Qed.

(** Every filter of a batch passed the check on its own; then the combined statement is confined. *)
Lemma batch_stmt_confined : forall t fs l,
  table_ok t = true -> fs <> [] ->
  (forall f, In f fs -> exists w, make_where t f = Some w) ->
  (forall f, In f fs -> check_filter_against_limit f l = true) ->
  (forall f, In f fs -> filter_ptrs_ok f l) ->
  confined t l (batch_stmt t fs).
Proof.
  intros t fs l Ht Hne Hw Hc Hp k v Hin.
  (* the column of k, from any one filter *)
  destruct fs as [|f0 fs0] eqn:Efs; [contradiction|]. rewrite <- Efs in *.
  assert (Hf0 : In f0 fs) by (rewrite Efs; left; reflexivity).
  destruct (Hw _ Hf0) as [w0 Hw0]. unfold make_where in Hw0.
  destruct (all_known (t_cols t) f0) eqn:Ek; [|discriminate].
  destruct (check_filter_sound _ _ (Hc _ Hf0) _ _ Hin) as (fv0 & Hl0 & _).
  destruct (all_known_find _ _ _ _ Ek Hl0) as [c Hcol].
  set (d := valuer (c_implicitnull c) v).
  assert (Hall : forall df, In df (map (dfilter_of t) fs) -> lookup k df = Some d).
  { intros df Hdf. apply in_map_iff in Hdf. destruct Hdf as (f & <- & Hf).
    destruct (check_filter_sound _ _ (Hc _ Hf) _ _ Hin) as (fv & Hl & He).
    unfold dfilter_of. rewrite (lookup_where_in_order _ _ _ _ _ Hcol Hl).
    unfold d. rewrite (go_eqb_valuer fv v _ He (Hp _ Hf _ _ _ Hin Hl)). reflexivity. }
  assert (Hnames : Forall filter_names_ok (map (dfilter_of t) fs)).
  { apply Forall_forall. intros df Hdf. apply in_map_iff in Hdf. destruct Hdf as (f & <- & _).
    unfold filter_names_ok, dfilter_of. apply where_in_order_names. exact Ht. }
  assert (Hne' : map (dfilter_of t) fs <> []) by (rewrite Efs; discriminate).
  unfold batch_stmt. destruct (make_batch_query (map (dfilter_of t) fs)) as [gs|] eqn:Eb.
  - exists d. split; [exists c; split; [exact Hcol|reflexivity]|].
    simpl. exact (batch_groups_pin _ _ _ _ Hnames Hne' Hall Eb).
  - exfalso. unfold make_batch_query in Eb.
    match type of Eb with (if ?b then _ else _) = _ => destruct b eqn:Ee end; [|discriminate].
    apply existsb_exists in Ee. destruct Ee as (df & Hdf & Hempty).
    specialize (Hall _ Hdf). destruct df; [discriminate|discriminate].
Qed.

(** * Every DB method *)

Lemma run_chunks_confined : forall h l t (mk : list grow -> stmt) cvs_of cs ev out,
  In l (enforced_limits h) ->
  (forall ch, (forall r, In r ch -> check_values_limits h (cvs_of r) = true) -> In ch cs -> confined t l (mk ch)) ->
  run_chunks h mk cvs_of cs = (ev, out) -> Forall (event_confined t l) ev.
Proof.
  intros h l t mk cvs_of cs. induction cs as [|ch cs IH]; intros ev out Hl Hmk H; simpl in H.
  - inversion H; subst. constructor.
  - destruct (forallb (fun r => check_values_limits h (cvs_of r)) ch) eqn:E.
    + destruct (run_chunks h mk cvs_of cs) as [ev' out'] eqn:E'. inversion H; subst; clear H.
      constructor.
      * simpl. apply Hmk; [|left; reflexivity]. intros r Hr. rewrite forallb_forall in E. apply E. exact Hr.
      * eapply IH; [exact Hl| |reflexivity]. intros ch' Hch' Hin. apply Hmk; [exact Hch'|right; exact Hin].
    + inversion H; subst. constructor.
Qed.

Lemma in_own_tx_confined : forall t l c body,
  Forall (event_confined t l) (fst body) -> Forall (event_confined t l) (fst (in_own_tx c body)).
Proof.
  intros t l c [ev out] H. unfold in_own_tx. destruct (in_tx c); [exact H|].
  destruct out; simpl; constructor; try exact I; apply Forall_app; (split; [exact H|constructor; [exact I|constructor]]).
Qed.

Lemma In_firstn : forall (A : Type) n (l : list A) x, In x (firstn n l) -> In x l.
Proof.
  intros A n. induction n as [|n IH]; intros l x H; [contradiction|].
  destruct l as [|a l]; [contradiction|]. simpl in H. destruct H as [H|H]; [left; exact H|right; apply IH; exact H].
Qed.

Lemma In_skipn : forall (A : Type) n (l : list A) x, In x (skipn n l) -> In x l.
Proof.
  intros A n. induction n as [|n IH]; intros l x H; [exact H|].
  destruct l as [|a l]; [contradiction|]. simpl in H. right. apply IH. exact H.
Qed.

Lemma In_chunks_fuel : forall (A : Type) fuel n (l : list A) ch x,
  In ch (chunks_fuel fuel n l) -> In x ch -> In x l.
Proof.
  intros A fuel. induction fuel as [|fuel IH]; intros n l ch x Hch Hx.
  - destruct l; simpl in Hch; [contradiction|]. destruct Hch as [<-|[]]. exact Hx.
  - destruct l as [|a l]; simpl in Hch; [contradiction|]. destruct Hch as [<-|Hch].
    + apply (In_firstn _ n). exact Hx.
    + specialize (IH n _ ch x Hch Hx). apply (In_skipn _ n). exact IH.
Qed.

Lemma guarded_write_confined : forall h t l cvs s ev out,
  In l (enforced_limits h) ->
  (check_values_limits h cvs = true -> confined t l s) ->
  guarded_write h cvs s = (ev, out) -> Forall (event_confined t l) ev.
Proof.
  intros h t l cvs s ev out Hl Hs H. unfold guarded_write in H.
  destruct (check_values_limits h cvs) eqn:E; inversion H; subst; constructor; [|constructor].
  simpl. apply Hs. reflexivity.
Qed.

(** The rows of a passing chunk are all carried with the limit's values. *)
Lemma bulk_confined : forall h t l (keep : column -> bool) rows,
  In l (enforced_limits h) -> Forall (row_ok t) rows ->
  (forall r, In r rows -> check_values_limits h (pick (t_cols t) (unbuild (t_cols t) r) keep) = true) ->
  forall k v, In (k, v) l ->
  Forall (fun row => exists d, write_value v d /\ In (k, d) (combine (map c_name (List.filter keep (t_cols t))) row))
         (map (fun r => map snd (pick (t_cols t) (unbuild (t_cols t) r) keep)) rows).
Proof.
  intros h t l keep rows Hl Hok Hc k v Hin. apply Forall_forall. intros row Hrow.
  apply in_map_iff in Hrow. destruct Hrow as (r & <- & Hr).
  destruct (passing_values_carry _ _ _ (Hc _ Hr) Hl _ _ Hin) as (d & Hw & Hd).
  exists d. split; [exact Hw|].
  rewrite Forall_forall in Hok. rewrite <- (pick_names (t_cols t) r keep (Hok _ Hr)).
  rewrite combine_fst_snd. exact Hd.
Qed.

(** ** Main theorem for single calls: whatever a DB method of a limited handle sends is confined. *)
Theorem run_confined : forall h t c o ev out l,
  table_ok t = true -> op_ptrs_ok h o -> op_rows_ok t o ->
  run h t c o = (ev, out) -> In l (enforced_limits h) ->
  Forall (event_confined t l) ev.
Proof.
  intros h t c o ev out l Ht Hp Hr H Hl. destruct o as [f opts|f|r|rs n|r|rs n|r|r]; simpl in H.
  - (* Query *)
    destruct (make_where t f) as [w|] eqn:Ew; [|inversion H; constructor].
    destruct (check_filter_limits h f) eqn:Ec; [|inversion H; constructor].
    assert (Hc := check_filter_limits_enforced _ _ _ Ec Hl).
    assert (Hsimple : forall o', confined t l (SSelect (t_name t) (col_names t) (WSimple w) o')).
    { intros o' k v Hin. destruct (passing_filter_pins _ _ _ _ Ew Hc (Hp _ Hl) _ _ Hin) as (d & Hd & Hi).
      exists d. split; [exact Hd|exact Hi]. }
    destruct opts as [o'|].
    + inversion H; subst. constructor; [apply Hsimple|constructor].
    + destruct (negb (in_tx c) && batching c); inversion H; subst; (constructor; [|constructor]).
      * simpl. apply batch_stmt_confined; try assumption; try discriminate.
        -- intros f' [<-|[]]. exists w. exact Ew.
        -- intros f' [<-|[]]. exact Hc.
        -- intros f' [<-|[]]. apply Hp. exact Hl.
      * apply Hsimple.
  - (* Count *)
    destruct (make_where t f) as [w|] eqn:Ew; [|inversion H; constructor].
    destruct (check_filter_limits h f) eqn:Ec; [|inversion H; constructor].
    assert (Hc := check_filter_limits_enforced _ _ _ Ec Hl).
    inversion H; subst. constructor; [|constructor]. intros k v Hin.
    destruct (passing_filter_pins _ _ _ _ Ew Hc (Hp _ Hl) _ _ Hin) as (d & Hd & Hi).
    exists d. split; [exact Hd|exact Hi].
  - (* InsertRow *)
    eapply guarded_write_confined; [exact Hl| |exact H]. intros Hc k v Hin.
    destruct (passing_values_carry _ _ _ Hc Hl _ _ Hin) as (d & Hw & Hd).
    constructor; [|constructor]. exists d. split; [exact Hw|]. rewrite combine_fst_snd. exact Hd.
  - (* InsertRows *)
    simpl in Hr. destruct n as [|n].
    + match type of H with in_own_tx c ?b = _ => assert (G := in_own_tx_confined t l c b) end.
      rewrite H in G. apply G. destruct rs; constructor.
    + match type of H with in_own_tx c ?b = _ => assert (G := in_own_tx_confined t l c b) end.
      rewrite H in G. apply G.
      destruct (run_chunks h _ (insert_cvs t) (chunks (S n) rs)) as [ev' out'] eqn:E. simpl.
      eapply run_chunks_confined; [exact Hl| |exact E].
      intros ch Hch Hin k v Hkv. simpl.
      apply (bulk_confined h t l (fun c0 => negb (c_primary c0 && t_auto t)) ch Hl); [|exact Hch|exact Hkv].
      apply Forall_forall. intros r Hrin. rewrite Forall_forall in Hr. apply Hr.
      unfold chunks in Hin. eapply In_chunks_fuel; eauto.
  - (* UpsertRow *)
    destruct (t_auto t); [inversion H; constructor|].
    eapply guarded_write_confined; [exact Hl| |exact H]. intros Hc k v Hin.
    destruct (passing_values_carry _ _ _ Hc Hl _ _ Hin) as (d & Hw & Hd).
    constructor; [|constructor]. exists d. split; [exact Hw|]. rewrite combine_fst_snd. exact Hd.
  - (* UpsertRows *)
    simpl in Hr. destruct n as [|n].
    + match type of H with in_own_tx c ?b = _ => assert (G := in_own_tx_confined t l c b) end.
      rewrite H in G. apply G. destruct rs; constructor.
    + destruct (t_auto t).
      * match type of H with in_own_tx c ?b = _ => assert (G := in_own_tx_confined t l c b) end.
        rewrite H in G. apply G. destruct rs; constructor.
      * match type of H with in_own_tx c ?b = _ => assert (G := in_own_tx_confined t l c b) end.
        rewrite H in G. apply G.
        destruct (run_chunks h _ (upsert_cvs t) (chunks (S n) rs)) as [ev' out'] eqn:E. simpl.
        eapply run_chunks_confined; [exact Hl| |exact E].
        intros ch Hch Hin k v Hkv. simpl.
        assert (Hcols : col_names t = map c_name (List.filter (fun _ => true) (t_cols t))).
        { unfold col_names. f_equal. induction (t_cols t) as [|c0 cs IHc]; simpl; [reflexivity|]. f_equal. exact IHc. }
        rewrite Hcols.
        apply (bulk_confined h t l (fun _ => true) ch Hl); [|exact Hch|exact Hkv].
        apply Forall_forall. intros r Hrin. rewrite Forall_forall in Hr. apply Hr.
        unfold chunks in Hin. eapply In_chunks_fuel; eauto.
  - (* UpdateRow *)
    eapply guarded_write_confined; [exact Hl| |exact H]. intros Hc k v Hin.
    destruct (passing_values_carry _ _ _ Hc Hl _ _ Hin) as (d & Hw & Hd).
    exists d. split; [exact Hw|]. apply in_app_or in Hd. destruct Hd as [Hd|Hd]; [left; exact Hd|].
    right. rewrite combine_fst_snd. exact Hd.
  - (* DeleteRow *)
    eapply guarded_write_confined; [exact Hl| |exact H]. intros Hc k v Hin.
    destruct (passing_values_carry _ _ _ Hc Hl _ _ Hin) as (d & Hw & Hd).
    exists d. split; [exact Hw|exact Hd].
Qed.

(** * Non-complying calls *)

(** An unrestricted handle. *)
Definition no_limits : handle := mk_handle None None false false.

Lemma no_limits_filter : forall f, check_filter_limits no_limits f = true.
Proof. reflexivity. Qed.
Lemma no_limits_values : forall cvs, check_values_limits no_limits cvs = true.
Proof. reflexivity. Qed.

Lemma run_chunks_proceeds_same : forall h mk cvs_of cs ev,
  run_chunks h mk cvs_of cs = (ev, Proceeds) -> run_chunks no_limits mk cvs_of cs = (ev, Proceeds).
Proof.
  intros h mk cvs_of cs. induction cs as [|ch cs IH]; intros ev H; simpl in *; [exact H|].
  destruct (forallb (fun r => check_values_limits h (cvs_of r)) ch); [|discriminate].
  assert (E : forallb (fun r => check_values_limits no_limits (cvs_of r)) ch = true)
    by (apply forallb_forall; intros; reflexivity).
  rewrite E. destruct (run_chunks h mk cvs_of cs) as [ev' out'] eqn:E'. inversion H; subst.
  rewrite (IH ev' eq_refl). reflexivity.
Qed.

Lemma in_own_tx_proceeds : forall c body ev,
  in_own_tx c body = (ev, Proceeds) -> snd body = Proceeds.
Proof.
  intros c [ev0 out0] ev H. unfold in_own_tx in H. destruct (in_tx c); [inversion H; reflexivity|].
  destruct out0; inversion H; reflexivity.
Qed.

(** When a call on a limited handle proceeds, it sends exactly what the unrestricted handle would send:
    the checks only gate. *)
Lemma run_proceeds_same : forall h t c o ev,
  run h t c o = (ev, Proceeds) -> run no_limits t c o = (ev, Proceeds).
Proof.
  intros h t c o ev H. destruct o as [f opts|f|r|rs n|r|rs n|r|r]; simpl in *.
  - destruct (make_where t f); [|discriminate]. destruct (check_filter_limits h f); [exact H|discriminate].
  - destruct (make_where t f); [|discriminate]. destruct (check_filter_limits h f); [exact H|discriminate].
  - unfold guarded_write in *. destruct (check_values_limits h _); [exact H|discriminate].
  - destruct n as [|n]; [exact H|].
    destruct (run_chunks h _ (insert_cvs t) (chunks (S n) rs)) as [ev' out'] eqn:E.
    assert (out' = Proceeds) by (apply (in_own_tx_proceeds c (ev', out') ev H)). subst out'.
    rewrite (run_chunks_proceeds_same _ _ _ _ _ E). exact H.
  - destruct (t_auto t); [exact H|]. unfold guarded_write in *. destruct (check_values_limits h _); [exact H|discriminate].
  - destruct n as [|n]; [exact H|]. destruct (t_auto t); [exact H|].
    destruct (run_chunks h _ (upsert_cvs t) (chunks (S n) rs)) as [ev' out'] eqn:E.
    assert (out' = Proceeds) by (apply (in_own_tx_proceeds c (ev', out') ev H)). subst out'.
    rewrite (run_chunks_proceeds_same _ _ _ _ _ E). exact H.
  - unfold guarded_write in *. destruct (check_values_limits h _); [exact H|discriminate].
  - unfold guarded_write in *. destruct (check_values_limits h _); [exact H|discriminate].
Qed.

(** Operations that send one statement at most (everything but InsertRows / UpsertRows). *)
Definition single_statement (o : op) : Prop :=
  match o with OInsertRows _ _ | OUpsertRows _ _ => False | _ => True end.

Lemma single_not_proceeds_nothing : forall h t c o ev out,
  single_statement o -> run h t c o = (ev, out) -> out <> Proceeds -> ev = [].
Proof.
  intros h t c o ev out Hs H Hn. destruct o as [f opts|f|r|rs n|r|rs n|r|r]; simpl in *; try contradiction.
  - destruct (make_where t f); [|inversion H; reflexivity].
    destruct (check_filter_limits h f); [|inversion H; reflexivity].
    destruct opts; [|destruct (negb (in_tx c) && batching c)]; inversion H; subst; contradiction Hn; reflexivity.
  - destruct (make_where t f); [|inversion H; reflexivity].
    destruct (check_filter_limits h f); inversion H; subst; [contradiction Hn|]; reflexivity.
  - unfold guarded_write in H. destruct (check_values_limits h _); inversion H; subst; [contradiction Hn|]; reflexivity.
  - destruct (t_auto t); [inversion H; reflexivity|].
    unfold guarded_write in H. destruct (check_values_limits h _); inversion H; subst; [contradiction Hn|]; reflexivity.
  - unfold guarded_write in H. destruct (check_values_limits h _); inversion H; subst; [contradiction Hn|]; reflexivity.
  - unfold guarded_write in H. destruct (check_values_limits h _); inversion H; subst; [contradiction Hn|]; reflexivity.
Qed.

Lemma run_chunks_only_stmts : forall h mk cvs_of cs ev out,
  run_chunks h mk cvs_of cs = (ev, out) -> ~ In ECommit ev.
Proof.
  intros h mk cvs_of cs. induction cs as [|ch cs IH]; intros ev out H; simpl in H.
  - inversion H; subst. intros [].
  - destruct (forallb _ ch); [|inversion H; subst; intros []].
    destruct (run_chunks h mk cvs_of cs) as [ev' out'] eqn:E. inversion H; subst.
    intros [F|F]; [discriminate|]. exact (IH _ _ eq_refl F).
Qed.

Lemma in_own_tx_snd : forall c body, snd (in_own_tx c body) = snd body.
Proof. intros c [ev out]. unfold in_own_tx. destruct (in_tx c); [reflexivity|]. destruct out; reflexivity. Qed.

Lemma in_own_tx_no_commit : forall c body,
  ~ In ECommit (fst body) -> snd body <> Proceeds -> ~ In ECommit (fst (in_own_tx c body)).
Proof.
  intros c [ev out] Hev Hout. simpl in *. unfold in_own_tx. destruct (in_tx c); [exact Hev|].
  destruct out; [contradiction Hout; reflexivity| |]; simpl; intros [F|F]; try discriminate;
    apply in_app_or in F; destruct F as [F|[F|[]]]; try discriminate; exact (Hev F).
Qed.

(** ** A call that does not comply -- what it would send on an unrestricted handle is not confined to
       the limit -- does not proceed; if it is a single-statement method it sends nothing at all, and a
       bulk method never commits (what it sent before the offending chunk is confined by
       [run_confined], and the transaction it opened itself is rolled back). *)
Theorem noncomplying_rejected : forall h t c o l,
  table_ok t = true -> op_ptrs_ok h o -> op_rows_ok t o -> In l (enforced_limits h) ->
  ~ Forall (event_confined t l) (fst (run no_limits t c o)) ->
  snd (run h t c o) <> Proceeds
  /\ (single_statement o -> fst (run h t c o) = [])
  /\ ~ In ECommit (fst (run h t c o)).
Proof.
  intros h t c o l Ht Hp Hr Hl Hbad.
  destruct (run h t c o) as [ev out] eqn:E. simpl.
  assert (Hout : out <> Proceeds).
  { intros ->. apply Hbad. rewrite (run_proceeds_same _ _ _ _ _ E). simpl.
    eapply run_confined; eauto. }
  split; [exact Hout|]. split.
  - intros Hs. eapply single_not_proceeds_nothing; eauto.
  - assert (Hsingle : single_statement o -> ~ In ECommit ev).
    { intros Hs. rewrite (single_not_proceeds_nothing _ _ _ _ _ _ Hs E Hout). intros []. }
    destruct o as [f opts|f|r|rs n|r|rs n|r|r]; try (apply Hsingle; exact I); simpl in E.
    + assert (Hs : out = snd (run h t c (OInsertRows rs n))) by (simpl; rewrite E; reflexivity).
      replace ev with (fst (run h t c (OInsertRows rs n))) by (simpl; rewrite E; reflexivity).
      simpl. simpl in Hs. destruct n as [|n].
      * apply in_own_tx_no_commit; [destruct rs; intros []|]. rewrite in_own_tx_snd in Hs. rewrite <- Hs. exact Hout.
      * apply in_own_tx_no_commit.
        -- destruct (run_chunks h _ (insert_cvs t) (chunks (S n) rs)) as [ev' out'] eqn:E'. simpl.
           eapply run_chunks_only_stmts. exact E'.
        -- rewrite in_own_tx_snd in Hs. rewrite <- Hs. exact Hout.
    + assert (Hs : out = snd (run h t c (OUpsertRows rs n))) by (simpl; rewrite E; reflexivity).
      replace ev with (fst (run h t c (OUpsertRows rs n))) by (simpl; rewrite E; reflexivity).
      simpl. simpl in Hs. destruct n as [|n]; [|destruct (t_auto t)].
      * apply in_own_tx_no_commit; [destruct rs; intros []|]. rewrite in_own_tx_snd in Hs. rewrite <- Hs. exact Hout.
      * apply in_own_tx_no_commit; [destruct rs; intros []|]. rewrite in_own_tx_snd in Hs. rewrite <- Hs. exact Hout.
      * apply in_own_tx_no_commit.
        -- destruct (run_chunks h _ (upsert_cvs t) (chunks (S n) rs)) as [ev' out'] eqn:E'. simpl.
           eapply run_chunks_only_stmts. exact E'.
        -- rewrite in_own_tx_snd in Hs. rewrite <- Hs. exact Hout.
Qed.

(** * Concurrent batched queries *)

Lemma caller_proceeds : forall h t f,
  caller_outcome h t f = Proceeds ->
  (exists w, make_where t f = Some w) /\ check_filter_limits h f = true.
Proof.
  intros h t f H. unfold caller_outcome in H. destruct (make_where t f) as [w|]; [|discriminate].
  destruct (check_filter_limits h f); [|discriminate]. split; [exists w; reflexivity|reflexivity].
Qed.

Lemma outcome_is_proceeds_true : forall o, outcome_is_proceeds o = true -> o = Proceeds.
Proof. destruct o; simpl; intros; try discriminate; reflexivity. Qed.

(** Every statement the batch function sends for callers of a limited handle is confined: each caller
    was checked on its own before reaching the batch function, and the combined clause keeps each
    caller's restriction in every disjunct. *)
Theorem run_batched_confined : forall h t fs arrival l,
  table_ok t = true ->
  (forall f, In f fs -> filter_ptrs_ok f l) ->
  arrival_consistent h t fs arrival = true ->
  In l (enforced_limits h) ->
  Forall (event_confined t l) (fst (run_batched h t fs arrival)).
Proof.
  intros h t fs arrival l Ht Hp Hc Hl. simpl. apply Forall_forall. intros e He.
  apply in_map_iff in He. destruct He as (b & <- & Hb). simpl.
  unfold arrival_consistent in Hc. apply andb_prop in Hc. destruct Hc as [Hc Hne].
  apply andb_prop in Hc. destruct Hc as [Hall _].
  rewrite forallb_forall in Hall, Hne.
  assert (Hbi : forall i, In i b -> i < List.length fs /\ caller_outcome h t (nth_filter fs i) = Proceeds).
  { intros i Hi. assert (Hin : In i (List.concat arrival)) by (apply in_concat; exists b; split; assumption).
    specialize (Hall _ Hin). apply andb_prop in Hall. destruct Hall as [Hall _].
    apply andb_prop in Hall. destruct Hall as [Hlt Hpr]. split.
    - apply Nat.ltb_lt. exact Hlt.
    - apply outcome_is_proceeds_true. exact Hpr. }
  assert (Hf : forall f, In f (map (nth_filter fs) b) ->
               In f fs /\ (exists w, make_where t f = Some w) /\ check_filter_limits h f = true).
  { intros f Hf. apply in_map_iff in Hf. destruct Hf as (i & <- & Hi). destruct (Hbi _ Hi) as [Hlt Hpr].
    split; [apply nth_In; exact Hlt|]. apply caller_proceeds. exact Hpr. }
  apply batch_stmt_confined.
  - exact Ht.
  - specialize (Hne _ Hb). destruct b; [discriminate|]. discriminate.
  - intros f Hin. apply (Hf f Hin).
  - intros f Hin. destruct (Hf f Hin) as (_ & _ & Hchk). eapply check_filter_limits_enforced; eauto.
  - intros f Hin. apply Hp. apply (Hf f Hin).
Qed.

(** A batched caller whose own query is not confined is answered with an error and never reaches the
    batch function. *)
Theorem batched_noncomplying_rejected : forall h t fs arrival l i,
  table_ok t = true -> i < List.length fs ->
  filter_ptrs_ok (nth_filter fs i) l ->
  arrival_consistent h t fs arrival = true ->
  In l (enforced_limits h) ->
  ~ Forall (event_confined t l) (fst (run no_limits t (mk_ctx false false) (OQuery (nth_filter fs i) None))) ->
  nth i (snd (run_batched h t fs arrival)) Proceeds <> Proceeds /\ ~ In i (List.concat arrival).
Proof.
  intros h t fs arrival l i Ht Hlt Hp Hc Hl Hbad.
  assert (Hout : caller_outcome h t (nth_filter fs i) <> Proceeds).
  { intros Hpr. apply Hbad. destruct (caller_proceeds _ _ _ Hpr) as ([w Hw] & Hchk).
    simpl. rewrite Hw. simpl. constructor; [|constructor]. simpl.
    intros k v Hin.
    destruct (passing_filter_pins _ _ _ _ Hw (check_filter_limits_enforced _ _ _ Hchk Hl) Hp _ _ Hin) as (d & Hd & Hi).
    exists d. split; [exact Hd|exact Hi]. }
  split.
  - simpl. unfold nth_filter in Hout.
    rewrite <- (map_nth (caller_outcome h t) fs [] i) in Hout.
    rewrite (nth_indep _ _ Proceeds) in Hout; [exact Hout|]. rewrite map_length. exact Hlt.
  - intros Hin. unfold arrival_consistent in Hc. apply andb_prop in Hc. destruct Hc as [Hc _].
    apply andb_prop in Hc. destruct Hc as [Hall _]. rewrite forallb_forall in Hall.
    specialize (Hall _ Hin). apply andb_prop in Hall. destruct Hall as [Hall _].
    apply andb_prop in Hall. destruct Hall as [_ Hpr]. apply Hout. apply outcome_is_proceeds_true. exact Hpr.
Qed.

(** * What the syntactic predicate means: rows a confined SELECT can return lie in the shard *)

(** [d] is the limit's value [lv]: NULL for a NULL limit, SQL-equal otherwise. *)
Definition in_shard (d lv : dval) : Prop :=
  match lv with DNull => d = DNull | _ => sql_eq d lv = TT end.

Lemma tri_and_tt : forall a b, tri_and a b = TT -> a = TT /\ b = TT.
Proof. destruct a, b; simpl; intros H; try discriminate; split; reflexivity. Qed.

Lemma tri_or_tt : forall a b, tri_or a b = TT -> a = TT \/ b = TT.
Proof. destruct a, b; simpl; intros H; try discriminate; auto. Qed.

Lemma eval_atom_in_shard : forall r k d, eval_atom r (k, d) = TT -> in_shard (cell r k) d.
Proof.
  intros r k d H. unfold eval_atom in H. simpl in H. unfold in_shard. destruct d; try exact H.
  unfold sql_is in H. destruct (cell r k); try discriminate. reflexivity.
Qed.

Lemma conj_tt_atom : forall r l kd,
  fold_right (fun cv acc => tri_and (eval_atom r cv) acc) TT l = TT -> In kd l -> eval_atom r kd = TT.
Proof.
  intros r l kd. induction l as [|a l IH]; intros H Hin; [contradiction|]. simpl in H.
  apply tri_and_tt in H. destruct H as [H1 H2]. destruct Hin as [<-|Hin]; [exact H1|apply IH; assumption].
Qed.

Lemma sql_eq_tt_nonnull : forall a b, sql_eq a b = TT -> b <> DNull.
Proof. intros a b H ->. destruct a; discriminate. Qed.

Lemma eval_in_tt : forall c vals r, eval_in c vals r = TT -> exists v, In v vals /\ sql_eq (cell r c) v = TT.
Proof.
  intros c vals r. induction vals as [|v vals IH]; simpl; intros H; [discriminate|].
  apply tri_or_tt in H. destruct H as [H|H]; [exists v; split; [left; reflexivity|exact H]|].
  destruct (IH H) as (v' & Hin & Hv). exists v'. split; [right; exact Hin|exact Hv].
Qed.

Lemma group_tt_in_shard : forall g k d r, group_pins k d g -> eval_group g r = TT -> in_shard (cell r k) d.
Proof.
  intros [cs tups] k d r Hp H. unfold group_pins in Hp. simpl in Hp. unfold eval_group in H. simpl in H.
  rewrite Forall_forall in Hp.
  assert (Hmulti : fold_right (fun tup acc => tri_or (eval_tuple cs tup r) acc) TF tups = TT -> in_shard (cell r k) d).
  { clear H. induction tups as [|tup tups IH]; simpl; intros H; [discriminate|].
    apply tri_or_tt in H. destruct H as [H|H].
    - apply eval_atom_in_shard. eapply conj_tt_atom; [exact H|]. apply Hp. left; reflexivity.
    - apply IH; [|exact H]. intros x Hx. apply Hp. right; exact Hx. }
  destruct cs as [|c [|c2 cs]]; [apply Hmulti; exact H| |apply Hmulti; exact H].
  (* one column *)
  assert (Hfirst : forall tup, In tup tups -> k = c /\ hd DNull tup = d).
  { intros tup Ht. specialize (Hp _ Ht). destruct tup as [|x tup]; [contradiction|]. simpl in Hp.
    destruct Hp as [Hp|[]]. inversion Hp; subst. split; reflexivity. }
  apply tri_or_tt in H. destruct H as [H|H].
  - apply eval_in_tt in H. destruct H as (v & Hv & He). unfold non_null in Hv. apply filter_In in Hv.
    destruct Hv as [Hv _]. apply in_map_iff in Hv. destruct Hv as (tup & <- & Ht).
    destruct (Hfirst _ Ht) as [-> Hd]. rewrite Hd in He. unfold in_shard.
    assert (d <> DNull) by (eapply sql_eq_tt_nonnull; exact He). destruct d; try exact He. contradiction.
  - destruct (existsb is_null (map (hd DNull) tups)) eqn:E; [|discriminate].
    apply existsb_exists in E. destruct E as (x & Hx & Hnull). apply in_map_iff in Hx. destruct Hx as (tup & <- & Ht).
    destruct (Hfirst _ Ht) as [-> Hd]. rewrite Hd in Hnull. destruct d; try discriminate. simpl.
    unfold sql_is in H. destruct (cell r c); try discriminate. reflexivity.
Qed.

Theorem where_pins_sound : forall w k d r,
  where_pins w k d -> eval_wclause w r = TT -> in_shard (cell r k) d.
Proof.
  intros [l|gs] k d r Hp H; simpl in *.
  - apply eval_atom_in_shard. eapply conj_tt_atom; [exact H|exact Hp].
  - destruct Hp as [Hne Hall]. destruct gs as [|g0 gs0] eqn:Eg; [contradiction|]. rewrite <- Eg in *.
    assert (H' : eval_batch gs r = TT) by (rewrite Eg in *; exact H). clear H.
    unfold eval_batch in H'. clear Eg Hne. induction gs as [|g gs IH]; simpl in H'; [discriminate|].
    inversion Hall; subst. apply tri_or_tt in H'. destruct H' as [H'|H'].
    + eapply group_tt_in_shard; eauto.
    + apply IH; assumption.
Qed.

(** * UPDATE: when the limit column is a primary-key column, the WHERE clause itself is restricted *)
Theorem update_where_pins_pk : forall h t c r ev l k v,
  run h t c (OUpdateRow r) = (ev, Proceeds) -> In l (enforced_limits h) -> In (k, v) l ->
  In k (map fst (pk_cvs t r)) ->
  exists d, write_value v d /\ In (k, d) (pk_cvs t r).
Proof.
  intros h t c r ev l k v H Hl Hin Hk. simpl in H. unfold guarded_write in H.
  destruct (check_values_limits h (pk_cvs t r ++ nonpk_cvs t r)) eqn:E; [|discriminate].
  destruct (check_values_sound _ _ (check_values_limits_enforced _ _ _ E Hl) _ _ Hin) as (d & Hd & Hw).
  exists d. split; [exact Hw|]. apply lookup_In.
  clear - Hd Hk. induction (pk_cvs t r) as [|[k0 d0] w IH]; simpl in *; [contradiction|].
  destruct (String.eqb k k0) eqn:Ek; [exact Hd|]. destruct Hk as [Hk|Hk].
  - subst k0. rewrite String.eqb_refl in Ek. discriminate.
  - apply IH; assumption.
Qed.

(** * Reads and writes agree on what a limit value denotes *)
Theorem read_write_agree : forall i v d,
  write_value v d ->
  (i && is_zero v = false) ->
  match d with DInt z => (- 2 ^ 63 <= z < 2 ^ 63)%Z | _ => True end ->
  valuer i v = d.
Proof.
  intros i v d Hw Hz Hr. unfold write_value in Hw.
  destruct d; simpl in Hw; destruct v; simpl in Hw; try discriminate.
  - reflexivity.
  - apply andb_prop in Hw. destruct Hw as [Hw H3]. apply andb_prop in Hw. destruct Hw as [H1 H2].
    destruct k; try discriminate. destruct name; try discriminate. apply Z.eqb_eq in H3. subst.
    unfold valuer. rewrite Hz. simpl. f_equal. unfold wrap64.
    destruct (Z_lt_dec z0 0).
    + assert (E : ((z0 mod 2 ^ 64) = z0 + 2 ^ 64)%Z).
      { symmetry. apply Z.mod_unique with (q := (-1)%Z); lia. }
      rewrite E. destruct (z0 + 2 ^ 64 <? 2 ^ 63)%Z eqn:El; [apply Z.ltb_lt in El; lia|lia].
    + rewrite Z.mod_small by lia. destruct (z0 <? 2 ^ 63)%Z eqn:El; [reflexivity|apply Z.ltb_ge in El; lia].
  - apply Z.eqb_eq in Hw. subst. unfold valuer. rewrite Hz. reflexivity.
  - apply Bool.eqb_prop in Hw. subst. unfold valuer. rewrite Hz. reflexivity.
  - apply String.eqb_eq in Hw. subst. unfold valuer. simpl in Hz. rewrite andb_false_r. reflexivity.
  - apply andb_prop in Hw. destruct Hw as [H1 H2]. destruct name; try discriminate. apply String.eqb_eq in H2. subst.
    unfold valuer. rewrite Hz. reflexivity.
Qed.

(** * The boolean well-formedness checks evaluated on every generated case imply the hypotheses *)
Lemma goval_eqb_eq : forall a b, goval_eqb a b = true -> a = b.
Proof.
  induction a; intros b'; destruct b'; simpl; intros H; try discriminate; try reflexivity.
  - apply andb_prop in H. destruct H as [H H3]. apply andb_prop in H. destruct H as [H1 H2].
    apply ikind_eqb_eq in H1. apply String.eqb_eq in H2. apply Z.eqb_eq in H3. subst; reflexivity.
  - apply andb_prop in H. destruct H as [H1 H2]. apply String.eqb_eq in H1. apply String.eqb_eq in H2. subst; reflexivity.
  - apply Bool.eqb_prop in H. subst; reflexivity.
  - apply Z.eqb_eq in H. subst; reflexivity.
  - apply String.eqb_eq in H. subst; reflexivity.
  - apply andb_prop in H. destruct H as [H1 H2]. apply Nat.eqb_eq in H1. subst. f_equal. apply IHa. exact H2.
  - apply gty_eqb_eq in H. subst; reflexivity.
  - apply andb_prop in H. destruct H as [H H3]. apply andb_prop in H. destruct H as [H1 H2].
    apply String.eqb_eq in H1. apply dval_eqb_eq in H3. subst. f_equal. apply IHa. exact H2.
Qed.

Lemma ptr_okb_ok : forall a b, ptr_okb a b = true -> ptr_ok a b.
Proof.
  intros a b H. destruct a, b; simpl; try exact I. intros ->. simpl in H.
  rewrite Nat.eqb_refl in H. simpl in H. apply goval_eqb_eq. exact H.
Qed.

Lemma filter_ptrs_okb_ok : forall f l, filter_ptrs_okb f l = true -> filter_ptrs_ok f l.
Proof.
  intros f l H k v fv Hin Hl. unfold filter_ptrs_okb in H. rewrite forallb_forall in H.
  specialize (H _ Hin). simpl in H. rewrite Hl in H. apply ptr_okb_ok. exact H.
Qed.

Lemma enforced_in_handle_limits : forall h l, In l (enforced_limits h) -> In l (handle_limits h).
Proof.
  intros h l H. unfold enforced_limits, dyn_enforced in H. unfold handle_limits.
  apply in_app_or in H. apply in_or_app. destruct H as [H|H]; [left; exact H|right].
  destruct (h_dyn h); [|contradiction]. destruct (h_dyn_cb h && negb (h_dyn_continue h)); [exact H|contradiction].
Qed.

Lemma op_wfb_ok : forall h t o, op_wfb h t o = true -> table_ok t = true /\ op_ptrs_ok h o /\ op_rows_ok t o.
Proof.
  intros h t o H. unfold op_wfb in H. apply andb_prop in H. destruct H as [Ht H]. split; [exact Ht|].
  destruct o; simpl; split; try exact I.
  - intros l Hl. apply filter_ptrs_okb_ok. rewrite forallb_forall in H. apply H. apply enforced_in_handle_limits. exact Hl.
  - intros l Hl. apply filter_ptrs_okb_ok. rewrite forallb_forall in H. apply H. apply enforced_in_handle_limits. exact Hl.
  - apply Forall_forall. intros r Hr. rewrite forallb_forall in H. specialize (H _ Hr). apply Nat.eqb_eq. exact H.
  - apply Forall_forall. intros r Hr. rewrite forallb_forall in H. specialize (H _ Hr). apply Nat.eqb_eq. exact H.
Qed.

Lemma batched_wfb_ok : forall h t fs l, batched_wfb h t fs = true -> In l (enforced_limits h) ->
  table_ok t = true /\ forall f, In f fs -> filter_ptrs_ok f l.
Proof.
  intros h t fs l H Hl. unfold batched_wfb in H. apply andb_prop in H. destruct H as [Ht H]. split; [exact Ht|].
  intros f Hf. apply filter_ptrs_okb_ok. rewrite forallb_forall in H. specialize (H _ Hf).
  rewrite forallb_forall in H. apply H. apply enforced_in_handle_limits. exact Hl.
Qed.

(** * The theorems of Props/C12.v, with the boolean hypotheses *)
Lemma c12_confined_b : forall h t c o ev out l,
  op_wfb h t o = true -> run h t c o = (ev, out) -> In l (enforced_limits h) -> Forall (event_confined t l) ev.
Proof.
  intros h t c o ev out l Hwf. destruct (op_wfb_ok _ _ _ Hwf) as (Ht & Hp & Hr).
  exact (run_confined h t c o ev out l Ht Hp Hr).
Qed.

Lemma c12_noncomplying_b : forall h t c o l,
  op_wfb h t o = true -> In l (enforced_limits h) ->
  ~ Forall (event_confined t l) (fst (run no_limits t c o)) ->
  snd (run h t c o) <> Proceeds
  /\ (single_statement o -> fst (run h t c o) = [])
  /\ ~ In ECommit (fst (run h t c o)).
Proof.
  intros h t c o l Hwf. destruct (op_wfb_ok _ _ _ Hwf) as (Ht & Hp & Hr).
  exact (noncomplying_rejected h t c o l Ht Hp Hr).
Qed.

Lemma c12_batched_confined_b : forall h t fs arrival l,
  batched_wfb h t fs = true -> arrival_consistent h t fs arrival = true -> In l (enforced_limits h) ->
  Forall (event_confined t l) (fst (run_batched h t fs arrival)).
Proof.
  intros h t fs arrival l Hwf Ha Hl. destruct (batched_wfb_ok _ _ _ _ Hwf Hl) as (Ht & Hp).
  exact (run_batched_confined h t fs arrival l Ht Hp Ha Hl).
Qed.

Lemma c12_batched_noncomplying_b : forall h t fs arrival l i,
  batched_wfb h t fs = true -> i < List.length fs ->
  arrival_consistent h t fs arrival = true -> In l (enforced_limits h) ->
  ~ Forall (event_confined t l) (fst (run no_limits t (mk_ctx false false) (OQuery (nth_filter fs i) None))) ->
  nth i (snd (run_batched h t fs arrival)) Proceeds <> Proceeds /\ ~ In i (List.concat arrival).
Proof.
  intros h t fs arrival l i Hwf Hi Ha Hl. destruct (batched_wfb_ok _ _ _ _ Hwf Hl) as (Ht & Hp).
  apply (batched_noncomplying_rejected h t fs arrival l i Ht Hi); try assumption.
  apply Hp. apply nth_In. exact Hi.
Qed.

(** * Batches that mix several handles (they share one batch function) *)

(** A value tuple of the combined clause is justified by a caller of that invocation: it is that caller's
    own tuple, the caller passed the checks of its own handle, and the tuple pins every limit column of
    that handle. *)
Definition tuple_justified (t : table) (cs : list (handle * filter)) (b : list nat)
           (cols : list string) (tup : list dval) : Prop :=
  exists i, In i b /\
    caller_outcome (fst (nth_caller cs i)) t (snd (nth_caller cs i)) = Proceeds /\
    from_filter (dfilter_of t (snd (nth_caller cs i))) cols tup /\
    forall l, In l (enforced_limits (fst (nth_caller cs i))) ->
      forall k v, In (k, v) l -> exists d, read_value t k v d /\ In (k, d) (combine cols tup).

Definition callers_ptrs_ok (cs : list (handle * filter)) : Prop :=
  forall i l, In l (enforced_limits (fst (nth_caller cs i))) -> filter_ptrs_ok (snd (nth_caller cs i)) l.

Lemma nth_filter_snd : forall cs i, nth_filter (map snd cs) i = snd (nth_caller cs i).
Proof. intros cs i. unfold nth_filter, nth_caller. change (@nil (string * goval)) with (snd (unrestricted, @nil (string * goval))). apply map_nth. Qed.

Lemma arrival_multi_proceeds : forall t cs arrival b i,
  arrival_consistent_multi t cs arrival = true -> In b arrival -> In i b ->
  caller_outcome (fst (nth_caller cs i)) t (snd (nth_caller cs i)) = Proceeds.
Proof.
  intros t cs arrival b i Hc Hb Hi. unfold arrival_consistent_multi in Hc.
  apply andb_prop in Hc. destruct Hc as [Hc _]. apply andb_prop in Hc. destruct Hc as [Hall _].
  rewrite forallb_forall in Hall.
  assert (Hin : In i (List.concat arrival)) by (apply in_concat; exists b; split; assumption).
  specialize (Hall _ Hin). apply andb_prop in Hall. destruct Hall as [Hall _].
  apply andb_prop in Hall. destruct Hall as [_ Hpr]. apply outcome_is_proceeds_true. exact Hpr.
Qed.

Theorem run_batched_multi_justified : forall t cs arrival b,
  table_ok t = true -> callers_ptrs_ok cs ->
  arrival_consistent_multi t cs arrival = true -> In b arrival ->
  match make_batch_query (map (dfilter_of t) (map (nth_filter (map snd cs)) b)) with
  | Some gs => Forall (fun g => Forall (tuple_justified t cs b (fst g)) (snd g)) gs
  | None => exists i, In i b
              /\ caller_outcome (fst (nth_caller cs i)) t (snd (nth_caller cs i)) = Proceeds
              /\ dfilter_of t (snd (nth_caller cs i)) = []
  end.
Proof.
  intros t cs arrival b Ht Hp Hc Hb.
  set (dfs := map (dfilter_of t) (map (nth_filter (map snd cs)) b)).
  assert (Hdfs : forall df, In df dfs -> exists i, In i b /\ df = dfilter_of t (snd (nth_caller cs i))).
  { intros df Hdf. unfold dfs in Hdf. rewrite map_map in Hdf. apply in_map_iff in Hdf.
    destruct Hdf as (i & <- & Hi). exists i. split; [exact Hi|]. rewrite nth_filter_snd. reflexivity. }
  assert (Hnames : Forall filter_names_ok dfs).
  { apply Forall_forall. intros df Hdf. destruct (Hdfs _ Hdf) as (i & _ & ->).
    unfold filter_names_ok, dfilter_of. apply where_in_order_names. exact Ht. }
  destruct (make_batch_query dfs) as [gs|] eqn:Eb.
  - unfold make_batch_query in Eb.
    match type of Eb with (if ?c then _ else _) = _ => destruct c end; [discriminate|]. inversion Eb; subst gs; clear Eb.
    apply Forall_forall. intros g Hg. apply in_map_iff in Hg. destruct Hg as ([key [cols tups]] & <- & Hin).
    apply (proj1 (In_sort_groups _ _ _)) in Hin. destruct (group_filters_inv dfs Hnames key cols tups Hin) as (_ & _ & Hfrom).
    simpl. apply Forall_forall. intros tup Htup. destruct (Hfrom tup Htup) as (df & Hdf & Hff).
    destruct (Hdfs _ Hdf) as (i & Hi & ->). exists i. split; [exact Hi|].
    assert (Hpr := arrival_multi_proceeds _ _ _ _ _ Hc Hb Hi). split; [exact Hpr|]. split; [exact Hff|].
    intros l Hl k v Hkv. destruct (caller_proceeds _ _ _ Hpr) as ([w Hw] & Hchk).
    assert (Hcl := check_filter_limits_enforced _ _ _ Hchk Hl).
    destruct (check_filter_sound _ _ Hcl _ _ Hkv) as (fv & Hlk & He).
    unfold make_where in Hw. destruct (all_known (t_cols t) (snd (nth_caller cs i))) eqn:Ek; [|discriminate].
    destruct (all_known_find _ _ _ _ Ek Hlk) as [c Hcol].
    exists (valuer (c_implicitnull c) v). split; [exists c; split; [exact Hcol|reflexivity]|].
    destruct Hff as [-> ->]. apply lookup_in_extract. unfold dfilter_of.
    rewrite (lookup_where_in_order _ _ _ _ _ Hcol Hlk).
    rewrite (go_eqb_valuer fv v _ He (Hp i l Hl _ _ _ Hkv Hlk)). reflexivity.
  - unfold make_batch_query in Eb.
    match type of Eb with (if ?c then _ else _) = _ => destruct c eqn:Ee end; [|discriminate].
    apply existsb_exists in Ee. destruct Ee as (df & Hdf & Hempty). destruct (Hdfs _ Hdf) as (i & Hi & ->).
    exists i. split; [exact Hi|]. split; [exact (arrival_multi_proceeds _ _ _ _ _ Hc Hb Hi)|].
    destruct (dfilter_of t (snd (nth_caller cs i))); [reflexivity|discriminate].
Qed.

(** Callers that do not pass the check of their own handle are answered with an error and are in no
    invocation, whatever the other handles of the batch allow. *)
Theorem batched_multi_noncomplying_rejected : forall t cs arrival i l,
  table_ok t = true -> i < List.length cs ->
  filter_ptrs_ok (snd (nth_caller cs i)) l ->
  arrival_consistent_multi t cs arrival = true ->
  In l (enforced_limits (fst (nth_caller cs i))) ->
  ~ Forall (event_confined t l) (fst (run no_limits t (mk_ctx false false) (OQuery (snd (nth_caller cs i)) None))) ->
  nth i (snd (run_batched_multi t cs arrival)) Proceeds <> Proceeds /\ ~ In i (List.concat arrival).
Proof.
  intros t cs arrival i l Ht Hlt Hp Hc Hl Hbad.
  assert (Hout : caller_outcome (fst (nth_caller cs i)) t (snd (nth_caller cs i)) <> Proceeds).
  { intros Hpr. apply Hbad. destruct (caller_proceeds _ _ _ Hpr) as ([w Hw] & Hchk).
    simpl. rewrite Hw. simpl. constructor; [|constructor]. simpl. intros k v Hin.
    destruct (passing_filter_pins _ _ _ _ Hw (check_filter_limits_enforced _ _ _ Hchk Hl) Hp _ _ Hin) as (d & Hd & Hi).
    exists d. split; [exact Hd|exact Hi]. }
  split.
  - simpl. unfold nth_caller in Hout.
    rewrite <- (map_nth (fun hf => caller_outcome (fst hf) t (snd hf)) cs (unrestricted, []) i) in Hout.
    rewrite (nth_indep _ _ Proceeds) in Hout; [exact Hout|]. rewrite map_length. exact Hlt.
  - intros Hin. apply in_concat in Hin. destruct Hin as (b & Hb & Hi).
    apply Hout. exact (arrival_multi_proceeds _ _ _ _ _ Hc Hb Hi).
Qed.

Lemma batched_multi_wfb_ok : forall t cs, batched_multi_wfb t cs = true -> table_ok t = true /\ callers_ptrs_ok cs.
Proof.
  intros t cs H. unfold batched_multi_wfb in H. apply andb_prop in H. destruct H as [Ht H]. split; [exact Ht|].
  intros i l Hl. unfold nth_caller in *. destruct (Nat.ltb i (List.length cs)) eqn:E.
  - apply Nat.ltb_lt in E. rewrite forallb_forall in H. specialize (H _ (nth_In cs (unrestricted, []) E)).
    rewrite forallb_forall in H. apply filter_ptrs_okb_ok. apply H. apply enforced_in_handle_limits. exact Hl.
  - apply Nat.ltb_ge in E. rewrite nth_overflow in Hl by exact E. contradiction.
Qed.

Lemma c12_multi_justified_b : forall t cs arrival b,
  batched_multi_wfb t cs = true -> arrival_consistent_multi t cs arrival = true -> In b arrival ->
  match make_batch_query (map (dfilter_of t) (map (nth_filter (map snd cs)) b)) with
  | Some gs => Forall (fun g => Forall (tuple_justified t cs b (fst g)) (snd g)) gs
  | None => exists i, In i b
              /\ caller_outcome (fst (nth_caller cs i)) t (snd (nth_caller cs i)) = Proceeds
              /\ dfilter_of t (snd (nth_caller cs i)) = []
  end.
Proof. intros t cs arrival b H. destruct (batched_multi_wfb_ok _ _ H) as [Ht Hp]. apply run_batched_multi_justified; assumption. Qed.

Lemma c12_multi_noncomplying_b : forall t cs arrival i l,
  batched_multi_wfb t cs = true -> i < List.length cs ->
  arrival_consistent_multi t cs arrival = true ->
  In l (enforced_limits (fst (nth_caller cs i))) ->
  ~ Forall (event_confined t l) (fst (run no_limits t (mk_ctx false false) (OQuery (snd (nth_caller cs i)) None))) ->
  nth i (snd (run_batched_multi t cs arrival)) Proceeds <> Proceeds /\ ~ In i (List.concat arrival).
Proof.
  intros t cs arrival i l H Hi Ha Hl. destruct (batched_multi_wfb_ok _ _ H) as [Ht Hp].
  apply batched_multi_noncomplying_rejected; try assumption. apply Hp. exact Hl.
Qed.

(** * Several operations in one transaction of the caller *)
Theorem run_seq_confined : forall h t bt ops l,
  Forall (fun o => op_wfb h t o = true) ops -> In l (enforced_limits h) ->
  Forall (event_confined t l) (fst (run_seq h t bt ops)).
Proof.
  intros h t bt ops l Hwf Hl. simpl. induction ops as [|o ops IH]; [constructor|].
  inversion Hwf; subst. simpl. apply Forall_app. split.
  - destruct (run h t (mk_ctx true bt) o) as [ev out] eqn:E. simpl. eapply c12_confined_b; eauto.
  - apply IH. assumption.
Qed.

(** * SelectOptions: the filter part confines the statement whatever the free text evaluates to *)
Theorem where_pins_sound_with_free_text : forall w k d r (free_text : tri),
  where_pins w k d -> tri_and (eval_wclause w r) free_text = TT -> in_shard (cell r k) d.
Proof.
  intros w k d r x Hp H. apply tri_and_tt in H. destruct H as [H _]. eapply where_pins_sound; eauto.
Qed.

(** * A violation of the shard limit is rejected whatever the dynamic limit is and whatever its callback says *)
Lemma shard_violation_rejected : forall shard dyn cb cont t c o,
  op_wfb (mk_handle (Some shard) dyn cb cont) t o = true ->
  ~ Forall (event_confined t shard) (fst (run no_limits t c o)) ->
  snd (run (mk_handle (Some shard) dyn cb cont) t c o) <> Proceeds
  /\ (single_statement o -> fst (run (mk_handle (Some shard) dyn cb cont) t c o) = [])
  /\ ~ In ECommit (fst (run (mk_handle (Some shard) dyn cb cont) t c o)).
Proof.
  intros shard dyn cb cont t c o Hwf Hbad. apply (c12_noncomplying_b _ t c o shard Hwf); [|exact Hbad].
  unfold enforced_limits. simpl. left. reflexivity.
Qed.

(** The decision functions themselves: with a shard limit, the answer is "no" as soon as the shard check
    fails, for every dynamic limit, callback presence and callback answer. *)
Lemma shard_check_decides_filter : forall shard dyn cb cont f,
  check_filter_against_limit f shard = false ->
  check_filter_limits (mk_handle (Some shard) dyn cb cont) f = false.
Proof. intros. unfold check_filter_limits. simpl. rewrite H. reflexivity. Qed.

Lemma shard_check_decides_values : forall shard dyn cb cont cvs,
  check_column_values_against_limit cvs shard = false ->
  check_values_limits (mk_handle (Some shard) dyn cb cont) cvs = false.
Proof. intros. unfold check_values_limits. simpl. rewrite H. reflexivity. Qed.

Lemma shard_check_not_overridable : forall shard dyn cb cont,
  (forall f, check_filter_against_limit f shard = false ->
             check_filter_limits (mk_handle (Some shard) dyn cb cont) f = false)
  /\ (forall cvs, check_column_values_against_limit cvs shard = false ->
                 check_values_limits (mk_handle (Some shard) dyn cb cont) cvs = false).
Proof. intros; split; [apply shard_check_decides_filter|apply shard_check_decides_values]. Qed.
