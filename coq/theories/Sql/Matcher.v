(** sqlgen/matcher.go and the dispatch loop of the batch function (db.go), as data structures -- executable
    definitions only.

    Sql/Model.v states what the matcher decides ([matcher_matches]: caller f receives row r iff the coerced,
    hashed values agree on every column of f).  This file follows the code that computes it:
      internal/reflect.go  MakeHashable   ([]byte -> string per element; the slice becomes an array, so two keys
                                           are equal iff they have the same length and are == element by element)
      sqlgen/matcher.go    matcher.add / remove / match over  groups: map[columnsKey]*matcherGroup,
                           matcherGroup{columns, queriesByTuple: map[hashable tuple]set of ids}
      sqlgen/reflect.go    coerceMap, extractRow
      sqlgen/db.go         the loop that adds every item's filter under its index and appends each fetched row to
                           results[idx] for every idx the matcher returns.
    Go maps are association lists here: lookup by key equality ([String.eqb] for group keys, Go's == on the
    tuples for entries), insertion at the end; the order of iteration, which Go randomizes, only permutes what
    [matcher_match] returns.  Sql/MatcherProofs.v proves that the dispatch computes exactly [matcher_matches]. *)
From Coq Require Import List ZArith String Bool.
From Thunder Require Import Sql.Model.
Import ListNotations.
Open Scope string_scope.

Definition gmap := list (string * goval).          (* map[string]interface{} *)

Definition coerce_map (m : gmap) : gmap := map (fun kv => (fst kv, coerce (snd kv))) m.

(** extractRow: the struct's fields by column name. *)
Definition extract_row (t : table) (r : drow) : gmap :=
  map (fun c => (c_name c, field_value (c_ty c) (cell r (c_name c)))) (t_cols t).

Definition make_hashable (l : list goval) : list goval := map hashable l.

(** Equality of two hashable tuples as map keys: arrays of different length are different types. *)
Fixpoint tuple_eqb (a b : list goval) : bool :=
  match a, b with
  | [], [] => true
  | x :: a', y :: b' => go_eqb x y && tuple_eqb a' b'
  | _, _ => false
  end.

Record mgroup : Type := mk_mgroup { mg_cols : list string; mg_entries : list (list goval * list nat) }.
Definition matcher := list (string * mgroup).

(** extractValuesTuple reads m[column]: a missing key gives the nil interface. *)
Definition m_tuple (f : gmap) (cols : list string) : list goval := make_hashable (extract_tuple GNil f cols).

Fixpoint entries_add (tup : list goval) (id : nat) (es : list (list goval * list nat)) : list (list goval * list nat) :=
  match es with
  | [] => [(tup, [id])]
  | (k, ids) :: rest =>
      if tuple_eqb k tup
      then (k, if existsb (Nat.eqb id) ids then ids else (ids ++ [id])%list) :: rest
      else (k, ids) :: entries_add tup id rest
  end.

Fixpoint groups_add (key : string) (cols : list string) (tup : list goval) (id : nat) (m : matcher) : matcher :=
  match m with
  | [] => [(key, mk_mgroup cols [(tup, [id])])]
  | (k, g) :: rest =>
      if String.eqb k key
      then (k, mk_mgroup (mg_cols g) (entries_add tup id (mg_entries g))) :: rest
      else (k, g) :: groups_add key cols tup id rest
  end.

Definition matcher_add (m : matcher) (id : nat) (f : gmap) : matcher :=
  let cols := extract_columns f in
  groups_add (columns_key cols) cols (m_tuple f cols) id m.

Fixpoint entries_remove (tup : list goval) (id : nat) (es : list (list goval * list nat)) : list (list goval * list nat) :=
  match es with
  | [] => []
  | (k, ids) :: rest =>
      if tuple_eqb k tup
      then match List.filter (fun j => negb (Nat.eqb j id)) ids with
           | [] => rest                                   (* delete(g.queriesByTuple, tuple) *)
           | ids' => (k, ids') :: rest
           end
      else (k, ids) :: entries_remove tup id rest
  end.

Fixpoint groups_remove (key : string) (tup : list goval) (id : nat) (m : matcher) : matcher :=
  match m with
  | [] => []
  | (k, g) :: rest =>
      if String.eqb k key
      then match entries_remove tup id (mg_entries g) with
           | [] => rest                                   (* delete(m.groups, key) *)
           | es => (k, mk_mgroup (mg_cols g) es) :: rest
           end
      else (k, g) :: groups_remove key tup id rest
  end.

Definition matcher_remove (m : matcher) (id : nat) (f : gmap) : matcher :=
  let cols := extract_columns f in
  groups_remove (columns_key cols) (m_tuple f cols) id m.

Definition entries_lookup (tup : list goval) (es : list (list goval * list nat)) : list nat :=
  match find (fun e => tuple_eqb (fst e) tup) es with Some e => snd e | None => [] end.

(** match: for every group, the ids under the object's tuple on the group's columns. *)
Definition matcher_match (m : matcher) (o : gmap) : list nat :=
  List.concat (map (fun kg => entries_lookup (m_tuple o (mg_cols (snd kg))) (mg_entries (snd kg))) m).

(** The batch function: item i's coerced filter is added under id i ... *)
Fixpoint add_all (m : matcher) (i : nat) (fs : list filter) : matcher :=
  match fs with
  | [] => m
  | f :: rest => add_all (matcher_add m i (coerce_map f)) (S i) rest
  end.
Definition matcher_of (fs : list filter) : matcher := add_all [] 0 fs.

Fixpoint count_nat (x : nat) (l : list nat) : nat :=
  match l with [] => 0 | y :: t => (if Nat.eqb x y then 1 else 0) + count_nat x t end.

(** ... and every fetched row is appended to results[idx] once per idx the matcher returns. *)
Definition dispatch (t : table) (fs : list filter) (rows : list drow) : list (list drow) :=
  let m := matcher_of fs in
  let matched := map (fun r => (r, matcher_match m (coerce_map (extract_row t r)))) rows in
  map (fun i => flat_map (fun rm => repeat (fst rm) (count_nat i (snd rm))) matched) (seq 0 (List.length fs)).

(** One invocation of the batch function, computed through the matcher's data structures (with the row tester
    of C10-fix-2 when [fixed]). *)
Definition batched_results_struct (fixed : bool) (t : table) (fs : list filter) (contents : list drow) : list (list drow) :=
  let got := dispatch t fs (select_rows (batch_wclause t fs) contents) in
  if fixed then map (fun fr => List.filter (tester_test t (fst fr)) (snd fr)) (combine fs got) else got.
