(** Proofs about the concrete time text model (C13): calendar round trip for every day number, and
    mysql.parseDateTime after time.Format is the identity up to the precision the text form carries. *)
From Coq Require Import List ZArith String Ascii Bool Lia.
From Thunder Require Import Sql.TimeText.
Import ListNotations.
Open Scope Z_scope.

(** * A decidable property checked on a whole interval by computation *)
Fixpoint check_range (fuel : nat) (P : Z -> bool) (lo n : Z) : bool :=
  match fuel with
  | O => n <=? 0
  | S f => if n <=? 0 then true
           else if n =? 1 then P lo
           else let h := n / 2 in check_range f P lo h && check_range f P (lo + h) (n - h)
  end.

Lemma check_range_sound fuel P : forall lo n,
  check_range fuel P lo n = true -> forall i, lo <= i < lo + n -> P i = true.
Proof.
  induction fuel as [|f IH]; intros lo n H i Hi; cbn [check_range] in H.
  - apply Z.leb_le in H. lia.
  - destruct (n <=? 0) eqn:E0; [apply Z.leb_le in E0; lia|].
    destruct (n =? 1) eqn:E1.
    + apply Z.eqb_eq in E1. assert (i = lo) by lia. subst. exact H.
    + apply andb_prop in H as [H1 H2].
      destruct (Z_lt_ge_dec i (lo + n / 2)) as [Hl|Hg].
      * eapply IH; [exact H1|lia].
      * eapply IH; [exact H2|lia].
Qed.

(** * Calendar: the day-of-era computations are right on a whole era (146097 days, by computation) *)
Definition leap_adj (yoe m : Z) : Z := if m <=? 2 then yoe + 1 else yoe.

Definition doe_ok (doe : Z) : bool :=
  let yoe := (doe - doe / 1460 + doe / 36524 - doe / 146096) / 365 in
  let doy := doe - (365 * yoe + yoe / 4 - yoe / 100) in
  let mp := (5 * doy + 2) / 153 in
  let d := doy - (153 * mp + 2) / 5 + 1 in
  let m := if mp <? 10 then mp + 3 else mp - 9 in
  (0 <=? yoe) && (yoe <=? 399) && (0 <=? mp) && (mp <=? 11) && (1 <=? d) && (d <=? days_in (leap_adj yoe m) m) &&
  (yoe * 365 + yoe / 4 - yoe / 100 + ((153 * mp + 2) / 5 + d - 1) =? doe).

Lemma era_checked : check_range 20 doe_ok 0 146097 = true.
Proof. vm_cast_no_check (eq_refl true). Qed.

Lemma doe_ok_all doe : 0 <= doe < 146097 -> doe_ok doe = true.
Proof. intros H. eapply check_range_sound; [exact era_checked|lia]. Qed.

Lemma is_leap_era a e : is_leap (a + e * 400) = is_leap a.
Proof.
  unfold is_leap.
  replace (a + e * 400) with (a + (e * 100) * 4) at 1 by lia. rewrite Z_mod_plus_full.
  replace (a + e * 400) with (a + (e * 4) * 100) at 1 by lia. rewrite Z_mod_plus_full.
  rewrite Z_mod_plus_full. reflexivity.
Qed.

Lemma days_in_era a e m : days_in (a + e * 400) m = days_in a m.
Proof. unfold days_in. rewrite is_leap_era. reflexivity. Qed.

Theorem civil_roundtrip z y m d :
  civil_from_days z = (y, m, d) ->
  1 <= m <= 12 /\ 1 <= d <= days_in y m /\ days_from_civil y m d = z.
Proof.
  unfold civil_from_days. cbv zeta.
  set (z' := z + 719468). set (era := z' / 146097). set (doe := z' mod 146097).
  assert (Hdoe : 0 <= doe < 146097) by (apply Z.mod_pos_bound; lia).
  assert (Hz : z' = 146097 * era + doe) by (apply Z.div_mod; lia).
  pose proof (doe_ok_all doe Hdoe) as Hok. unfold doe_ok in Hok. cbv zeta in Hok.
  set (yoe := (doe - doe / 1460 + doe / 36524 - doe / 146096) / 365) in *.
  set (doy := doe - (365 * yoe + yoe / 4 - yoe / 100)) in *.
  set (mp := (5 * doy + 2) / 153) in *.
  set (dd := doy - (153 * mp + 2) / 5 + 1) in *.
  set (mm := if mp <? 10 then mp + 3 else mp - 9) in *.
  repeat (apply andb_prop in Hok as [Hok ?]).
  repeat match goal with H : (_ <=? _) = true |- _ => apply Z.leb_le in H | H : (_ =? _) = true |- _ => apply Z.eqb_eq in H end.
  intros Heq. inversion Heq as [[Hy Hm Hd]]. clear Heq.
  assert (Hmm : 1 <= mm <= 12 /\ (if 2 <? mm then mm - 3 else mm + 9) = mp).
  { unfold mm. destruct (mp <? 10) eqn:E; [apply Z.ltb_lt in E|apply Z.ltb_ge in E].
    - destruct (2 <? mp + 3) eqn:E2; [|apply Z.ltb_ge in E2]; lia.
    - destruct (2 <? mp - 9) eqn:E2; [apply Z.ltb_lt in E2|]; lia. }
  destruct Hmm as [Hmr Hmp].
  split; [exact Hmr|]. split.
  - unfold leap_adj in *. destruct (mm <=? 2).
    + replace (yoe + era * 400 + 1) with (yoe + 1 + era * 400) by lia. rewrite days_in_era. lia.
    + rewrite days_in_era. lia.
  - unfold days_from_civil. cbv zeta. rewrite Hmp.
    assert (Hy' : (if mm <=? 2 then (if mm <=? 2 then yoe + era * 400 + 1 else yoe + era * 400) - 1
                   else (if mm <=? 2 then yoe + era * 400 + 1 else yoe + era * 400)) = yoe + era * 400)
      by (destruct (mm <=? 2); lia).
    rewrite Hy'.
    assert (He : (yoe + era * 400) / 400 = era) by (symmetry; apply (Z.div_unique _ _ _ yoe); lia).
    assert (Hr : (yoe + era * 400) mod 400 = yoe) by (symmetry; apply (Z.mod_unique _ _ era); lia).
    rewrite He, Hr. unfold z' in Hz. lia.
Qed.

(** * Digits *)
Lemma digit_val_char z : 0 <= z <= 9 -> digit_val (digit_char z) = Some z.
Proof.
  intros H.
  assert (z = 0 \/ z = 1 \/ z = 2 \/ z = 3 \/ z = 4 \/ z = 5 \/ z = 6 \/ z = 7 \/ z = 8 \/ z = 9) as Hc by lia.
  repeat (destruct Hc as [->|Hc]; [reflexivity|]). subst. reflexivity.
Qed.

Lemma digit_char_not_blank z : 0 <= z <= 9 -> Ascii.eqb (digit_char z) " " = false.
Proof.
  intros H.
  assert (z = 0 \/ z = 1 \/ z = 2 \/ z = 3 \/ z = 4 \/ z = 5 \/ z = 6 \/ z = 7 \/ z = 8 \/ z = 9) as Hc by lia.
  repeat (destruct Hc as [->|Hc]; [reflexivity|]). subst. reflexivity.
Qed.

Lemma digit_char_zero z : 0 <= z <= 9 -> digit_char z = "0"%char -> z = 0.
Proof.
  intros H E. apply (f_equal digit_val) in E. rewrite digit_val_char in E by exact H. cbn in E. congruence.
Qed.

Lemma mod10 z : 0 <= z mod 10 <= 9.
Proof. pose proof (Z.mod_pos_bound z 10). lia. Qed.

Lemma pad2_eq z r : pad2 z r = String (digit_char (z / 10 mod 10)) (String (digit_char (z mod 10)) r).
Proof. reflexivity. Qed.

Lemma getnum_pad2 fixed z r : 0 <= z < 100 -> getnum fixed (pad2 z r) = Some (z, r).
Proof.
  intros H. rewrite pad2_eq. cbn [getnum].
  rewrite !digit_val_char by apply mod10. f_equal. f_equal. Z.div_mod_to_equations. lia.
Qed.

Lemma year4_pad4 y r : 0 <= y <= 9999 -> year4 (pad4 y r) = Some (y, r).
Proof.
  intros H. change (pad4 y r) with
    (String (digit_char (y / 10 / 10 / 10 mod 10)) (String (digit_char (y / 10 / 10 mod 10))
       (String (digit_char (y / 10 mod 10)) (String (digit_char (y mod 10)) r)))).
  cbn [year4]. rewrite !digit_val_char by apply mod10. f_equal. f_equal. Z.div_mod_to_equations. lia.
Qed.

Lemma expect_same c r : expect c (String c r) = Some r.
Proof. cbn. rewrite Ascii.eqb_refl. reflexivity. Qed.

Lemma skip_blank_pad2 z r : skip_blank (String " " (pad2 z r)) = Some (pad2 z r).
Proof.
  cbn [skip_blank]. rewrite Ascii.eqb_refl. rewrite pad2_eq. cbn [cutspace].
  rewrite digit_char_not_blank by apply mod10. reflexivity.
Qed.

Lemma take_digits_pad6 z : take_digits (pad6 z "") =
  ([z / 10 / 10 / 10 / 10 / 10 mod 10; z / 10 / 10 / 10 / 10 mod 10; z / 10 / 10 / 10 mod 10;
    z / 10 / 10 mod 10; z / 10 mod 10; z mod 10], ""%string).
Proof.
  change (pad6 z "") with
    (String (digit_char (z / 10 / 10 / 10 / 10 / 10 mod 10)) (String (digit_char (z / 10 / 10 / 10 / 10 mod 10))
      (String (digit_char (z / 10 / 10 / 10 mod 10)) (String (digit_char (z / 10 / 10 mod 10))
        (String (digit_char (z / 10 mod 10)) (String (digit_char (z mod 10)) ""%string)))))).
  cbn [take_digits]. rewrite !digit_val_char by apply mod10. reflexivity.
Qed.

Lemma parse_frac_empty : parse_frac "" = (0, ""%string).
Proof. reflexivity. Qed.

Lemma parse_frac_pad6 z : 0 <= z < 1000000 -> parse_frac (String "." (pad6 z "")) = (z * 1000, ""%string).
Proof.
  intros H. cbn [parse_frac]. change (comma_or_period ".") with true. cbv iota.
  rewrite take_digits_pad6. cbv iota beta. f_equal.
  unfold nanos. cbn [nanos_aux]. Z.div_mod_to_equations. lia.
Qed.

(** * The canonical text of a clock reading parses back to it *)
Definition canon (y mo d hh mi ss : Z) (frac : string) : string :=
  pad4 y (String "-" (pad2 mo (String "-" (pad2 d (String " " (pad2 hh (String ":" (pad2 mi (String ":" (pad2 ss frac)))))))))).

Lemma canon_not_zero y mo d hh mi ss frac z : 1 <= mo <= 12 ->
  canon y mo d hh mi ss frac <> String "0" (String "0" (String "0" (String "0" (String "-" (String "0" (String "0" z)))))).
Proof.
  intros Hm E. unfold canon in E.
  change (pad4 y ?r) with
    (String (digit_char (y / 10 / 10 / 10 mod 10)) (String (digit_char (y / 10 / 10 mod 10))
       (String (digit_char (y / 10 mod 10)) (String (digit_char (y mod 10)) r)))) in E.
  rewrite (pad2_eq mo) in E. injection E as _ _ _ _ E1 E2 _.
  apply digit_char_zero in E1; [|apply mod10]. apply digit_char_zero in E2; [|apply mod10].
  revert E1 E2. Z.div_mod_to_equations. lia.
Qed.

Lemma days_in_le31 y m : days_in y m <= 31.
Proof.
  unfold days_in.
  repeat match goal with |- context[match ?x with _ => _ end] => destruct x end; lia.
Qed.

Lemma canon_parse_fields y mo d hh mi ss frac ns :
  0 <= y <= 9999 -> 1 <= mo <= 12 -> 1 <= d <= days_in y mo -> 0 <= hh < 24 -> 0 <= mi < 60 -> 0 <= ss < 60 ->
  parse_frac frac = (ns, ""%string) ->
  parse_fields false (canon y mo d hh mi ss frac) = Some (unix_of y mo d hh mi ss ns).
Proof.
  intros Hy Hmo Hd Hh Hmi Hs Hf.
  assert (Hd31 : d <= 31).
  { pose proof (days_in_le31 y mo). lia. }
  unfold parse_fields, canon.
  rewrite year4_pad4 by exact Hy. cbn [obind]. rewrite expect_same. cbn [obind].
  rewrite getnum_pad2 by lia. cbn [obind]. rewrite expect_same. cbn [obind].
  rewrite getnum_pad2 by lia. cbn [obind]. rewrite skip_blank_pad2. cbn [obind].
  rewrite getnum_pad2 by lia. cbn [obind]. rewrite expect_same. cbn [obind].
  rewrite getnum_pad2 by lia. cbn [obind]. rewrite expect_same. cbn [obind].
  rewrite getnum_pad2 by lia. cbn [obind]. rewrite Hf. unfold finish.
  replace ((1 <=? mo) && (mo <=? 12) && (hh <? 24) && (mi <? 60) && (ss <? 60) && (1 <=? d) && (d <=? days_in y mo)) with true;
    [reflexivity|].
  symmetry. repeat (apply andb_true_intro; split); try apply Z.leb_le; try apply Z.ltb_lt; lia.
Qed.

Lemma canon_len_sec y mo d hh mi ss : String.length (canon y mo d hh mi ss "") = 19%nat.
Proof. reflexivity. Qed.

Lemma canon_len_us y mo d hh mi ss z : String.length (canon y mo d hh mi ss (String "." (pad6 z ""))) = 26%nat.
Proof. reflexivity. Qed.

Lemma canon_parse_sec y mo d hh mi ss :
  0 <= y <= 9999 -> 1 <= mo <= 12 -> 1 <= d <= days_in y mo -> 0 <= hh < 24 -> 0 <= mi < 60 -> 0 <= ss < 60 ->
  parse_datetime (canon y mo d hh mi ss "") = Some (unix_of y mo d hh mi ss 0).
Proof.
  intros Hy Hmo Hd Hh Hmi Hs. unfold parse_datetime. rewrite canon_len_sec.
  change (negb (len_ok 19)) with false. cbv iota zeta.
  change (substring 0 19 zero_base) with "0000-00-00 00:00:00"%string.
  destruct (String.eqb_spec (canon y mo d hh mi ss "") "0000-00-00 00:00:00") as [E|_].
  - exfalso. eapply canon_not_zero; [exact Hmo|exact E].
  - change (Nat.eqb 19 10) with false. apply canon_parse_fields; auto.
Qed.

Lemma canon_parse_us y mo d hh mi ss z :
  0 <= y <= 9999 -> 1 <= mo <= 12 -> 1 <= d <= days_in y mo -> 0 <= hh < 24 -> 0 <= mi < 60 -> 0 <= ss < 60 ->
  0 <= z < 1000000 ->
  parse_datetime (canon y mo d hh mi ss (String "." (pad6 z ""))) = Some (unix_of y mo d hh mi ss (z * 1000)).
Proof.
  intros Hy Hmo Hd Hh Hmi Hs Hz. unfold parse_datetime. rewrite canon_len_us.
  change (negb (len_ok 26)) with false. cbv iota zeta.
  change (substring 0 26 zero_base) with "0000-00-00 00:00:00.000000"%string.
  destruct (String.eqb_spec (canon y mo d hh mi ss (String "." (pad6 z ""))) "0000-00-00 00:00:00.000000") as [E|_].
  - exfalso. eapply canon_not_zero; [exact Hmo|exact E].
  - change (Nat.eqb 26 10) with false. apply canon_parse_fields; auto. apply parse_frac_pad6. exact Hz.
Qed.

(** * The clock reading of a time in the four-digit-year range *)
Lemma year_bounds y m d : 1 <= m <= 12 -> 1 <= d <= 31 ->
  -719528 <= days_from_civil y m d <= 2932896 -> 0 <= y <= 9999.
Proof.
  intros Hm Hd. unfold days_from_civil. cbv zeta.
  destruct (m <=? 2) eqn:E; [apply Z.leb_le in E|apply Z.leb_gt in E];
    (destruct (2 <? m) eqn:E2; [apply Z.ltb_lt in E2|apply Z.ltb_ge in E2]); try lia;
    intros H; Z.div_mod_to_equations; lia.
Qed.

Record clock_ok (c : clock) : Prop := {
  ok_y : 0 <= c_y c <= 9999; ok_m : 1 <= c_m c <= 12; ok_d : 1 <= c_d c <= days_in (c_y c) (c_m c);
  ok_hh : 0 <= c_hh c < 24; ok_mi : 0 <= c_mi c < 60; ok_ss : 0 <= c_ss c < 60; ok_ns : 0 <= c_ns c < ns_per_s
}.

Lemma clock_of_ok t : text_range t = true ->
  clock_ok (clock_of t) /\
  unix_of (c_y (clock_of t)) (c_m (clock_of t)) (c_d (clock_of t)) (c_hh (clock_of t)) (c_mi (clock_of t))
          (c_ss (clock_of t)) 0 = t - t mod ns_per_s /\
  c_ns (clock_of t) = t mod ns_per_s.
Proof.
  intros Hr. unfold text_range, min_text_t, max_text_t, ns_per_s in Hr.
  apply andb_prop in Hr as [H1 H2]. apply Z.leb_le in H1. apply Z.leb_le in H2.
  unfold clock_of. cbv zeta. unfold ns_per_s.
  set (sec := t / 1000000000). set (days := sec / 86400). set (sod := sec mod 86400).
  destruct (civil_from_days days) as [[y m] d] eqn:Hc.
  destruct (civil_roundtrip _ _ _ _ Hc) as (Hm & Hd & Hdays).
  cbn [c_y c_m c_d c_hh c_mi c_ss c_ns].
  assert (Hsod : 0 <= sod < 86400) by (apply Z.mod_pos_bound; lia).
  assert (Hsec : sec = 86400 * days + sod) by (apply Z.div_mod; lia).
  assert (Ht : t = 1000000000 * sec + t mod 1000000000) by (apply Z.div_mod; lia).
  assert (Hns : 0 <= t mod 1000000000 < 1000000000) by (apply Z.mod_pos_bound; lia).
  assert (Hdr : -719528 <= days <= 2932896) by lia.
  assert (Hy : 0 <= y <= 9999).
  { apply (year_bounds y m d); try lia. pose proof (days_in_le31 y m). lia. }
  split; [|split].
  - constructor; cbn [c_y c_m c_d c_hh c_mi c_ss c_ns]; try assumption; unfold ns_per_s;
      try (Z.div_mod_to_equations; lia).
  - unfold unix_of, ns_per_s. rewrite Hdays.
    replace (days * 86400 + sod / 3600 * 3600 + sod mod 3600 / 60 * 60 + sod mod 60) with sec; [lia|].
    rewrite Hsec. Z.div_mod_to_equations. lia.
  - reflexivity.
Qed.

Lemma pad_year_pad4 y r : 0 <= y <= 9999 -> pad_year y r = pad4 y r.
Proof.
  intros H. unfold pad_year. cbv zeta. rewrite Z.abs_eq by lia.
  destruct (y <=? 9999) eqn:E; [|apply Z.leb_gt in E; lia].
  destruct (y <? 0) eqn:E2; [apply Z.ltb_lt in E2; lia|]. reflexivity.
Qed.

Lemma fmt_sec_canon t : 0 <= c_y (clock_of t) <= 9999 ->
  fmt_sec_c t = canon (c_y (clock_of t)) (c_m (clock_of t)) (c_d (clock_of t)) (c_hh (clock_of t))
                      (c_mi (clock_of t)) (c_ss (clock_of t)) "".
Proof. intros H. unfold fmt_sec_c, fmt_clock, fmt_date, fmt_time, canon. rewrite pad_year_pad4 by exact H. reflexivity. Qed.

Lemma fmt_us_canon t : 0 <= c_y (clock_of t) <= 9999 ->
  fmt_us_c t = canon (c_y (clock_of t)) (c_m (clock_of t)) (c_d (clock_of t)) (c_hh (clock_of t))
                     (c_mi (clock_of t)) (c_ss (clock_of t)) (String "." (pad6 (c_ns (clock_of t) / 1000) "")).
Proof. intros H. unfold fmt_us_c, fmt_clock, fmt_date, fmt_time, canon. cbv zeta. rewrite pad_year_pad4 by exact H. reflexivity. Qed.

(** ** What the text forms carry: whole seconds, whole microseconds *)
Lemma unix_of_ns y m d hh mi ss ns : unix_of y m d hh mi ss ns = unix_of y m d hh mi ss 0 + ns.
Proof. unfold unix_of. lia. Qed.

Lemma us_arith U t : U = t - t mod 1000000000 -> U + t mod 1000000000 / 1000 * 1000 = t - t mod 1000.
Proof.
  intros Hu.
  assert (H : (t mod 1000000000) mod 1000 = t mod 1000).
  { rewrite <- (Znumtheory.Zmod_div_mod 1000 1000000000 t); try lia. exists 1000000; lia. }
  pose proof (Z.div_mod (t mod 1000000000) 1000). lia.
Qed.

Lemma parse_canon_sec c t : clock_ok c ->
  unix_of (c_y c) (c_m c) (c_d c) (c_hh c) (c_mi c) (c_ss c) 0 = t - t mod ns_per_s ->
  parse_datetime (canon (c_y c) (c_m c) (c_d c) (c_hh c) (c_mi c) (c_ss c) "") = Some (t - t mod 1000000000).
Proof.
  intros [] Hu. rewrite canon_parse_sec by assumption. f_equal. exact Hu.
Qed.

Lemma parse_canon_us c t : clock_ok c ->
  unix_of (c_y c) (c_m c) (c_d c) (c_hh c) (c_mi c) (c_ss c) 0 = t - t mod ns_per_s ->
  c_ns c = t mod ns_per_s ->
  parse_datetime (canon (c_y c) (c_m c) (c_d c) (c_hh c) (c_mi c) (c_ss c) (String "." (pad6 (c_ns c / 1000) "")))
  = Some (t - t mod 1000).
Proof.
  intros [] Hu Hn. rewrite canon_parse_us; try assumption.
  - f_equal. rewrite unix_of_ns, Hn. apply us_arith. exact Hu.
  - rewrite Hn. unfold ns_per_s.
    pose proof (Z.mod_pos_bound t 1000000000). split; [apply Z.div_pos; lia|apply Z.div_lt_upper_bound; lia].
Qed.

Theorem parse_fmt_sec t : text_range t = true ->
  parse_datetime (fmt_sec_c t) = Some (t - t mod 1000000000).
Proof.
  intros Hr. destruct (clock_of_ok t Hr) as (Hok & Hu & Hn).
  rewrite fmt_sec_canon by apply (ok_y _ Hok). apply parse_canon_sec; assumption.
Qed.

Theorem parse_fmt_us t : text_range t = true ->
  parse_datetime (fmt_us_c t) = Some (t - t mod 1000).
Proof.
  intros Hr. destruct (clock_of_ok t Hr) as (Hok & Hu & Hn).
  rewrite fmt_us_canon by apply (ok_y _ Hok). apply parse_canon_us; assumption.
Qed.

(** The laws the codec relies on: a time of microsecond (second) precision survives its text form. *)
Corollary parse_fmt_us_exact t : text_range t = true -> t mod 1000 = 0 -> parse_datetime (fmt_us_c t) = Some t.
Proof. intros Hr Hm. rewrite parse_fmt_us by exact Hr. rewrite Hm. f_equal. lia. Qed.

Corollary parse_fmt_sec_exact t : text_range t = true -> t mod 1000000000 = 0 -> parse_datetime (fmt_sec_c t) = Some t.
Proof. intros Hr Hm. rewrite parse_fmt_sec by exact Hr. rewrite Hm. f_equal. lia. Qed.

(** Any finer precision is lost, so the round trip holds for no other time. *)
Corollary parse_fmt_us_iff t : text_range t = true -> (parse_datetime (fmt_us_c t) = Some t <-> t mod 1000 = 0).
Proof.
  intros Hr. rewrite parse_fmt_us by exact Hr. split; intros H; [injection H as H; lia|rewrite H; f_equal; lia].
Qed.

Corollary parse_fmt_sec_iff t : text_range t = true ->
  (parse_datetime (fmt_sec_c t) = Some t <-> t mod 1000000000 = 0).
Proof.
  intros Hr. rewrite parse_fmt_sec by exact Hr. split; intros H; [injection H as H; lia|rewrite H; f_equal; lia].
Qed.

Close Scope Z_scope.
