(** Lemmas about the live SQL model (C07). *)
From Coq Require Import List ZArith String Bool Lia Arith.
From Thunder Require Import Sql.Codec Sql.CodecProofs Sql.Live.
Import ListNotations.
Open Scope list_scope.

(** * The row tester agrees with SQL WHERE *)

Definition shape (v : dval) : nat :=
  match v with
  | DNull => 0 | DInt _ => 1 | DFloat _ => 2 | DBool _ => 3 | DBytes _ => 4 | DStr _ => 5 | DTime _ => 6 | DOther => 7
  end.

Definition compatb (a b : dval) : bool :=
  negb (Nat.eqb (shape a) 7) && negb (Nat.eqb (shape b) 7) &&
  (Nat.eqb (shape a) 0 || Nat.eqb (shape b) 0 || Nat.eqb (shape a) (shape b)).

Lemma eq_cond cell v : compatb cell v = true -> dval_eqb v cell = sql_cond cell v.
Proof.
  destruct cell, v; cbn; intros H; try discriminate; try reflexivity.
  - rewrite Z.eqb_sym. destruct (z =? z0)%Z; reflexivity.
  - rewrite Z.eqb_sym. destruct (f =? f0)%Z; reflexivity.
  - destruct b, b0; reflexivity.
  - rewrite String.eqb_sym. destruct (s =? s0)%string; reflexivity.
  - rewrite String.eqb_sym. destruct (s =? s0)%string; reflexivity.
  - rewrite Z.eqb_sym. destruct (t =? t0)%Z; reflexivity.
Qed.

(** A filter value of the column's Go base type (pointer or not), or nil. *)
Definition dyn_based (e : env) (d : desc) (v : dyn) : bool :=
  match v with
  | DynNil => true
  | Dyn b ptr fv => base_eqb b (d_base d) && match fv with FNil => true | FVal g => gval_ok e b g end
  end.

Lemma valuer_compat e d cv v :
  desc_ok d = true -> fval_ok e d cv = true -> dyn_based e d v = true ->
  compatb (valuer d (dyn_of d cv)) (valuer d v) = true.
Proof.
  intros Hd Hc Hv.
  assert (Hcell : valuer d (dyn_of d cv) <> DOther) by (eapply valuer_not_other; eauto).
  destruct v as [|b ptr fv].
  - cbn [valuer]. destruct (valuer d (dyn_of d cv)); try reflexivity. congruence.
  - cbn [dyn_based] in Hv. apply andb_prop in Hv as [Hb Hg]. apply base_eqb_eq in Hb. subst b.
    destruct fv as [|g].
    + cbn [valuer]. destruct (valuer d (dyn_of d cv)); try reflexivity. congruence.
    + destruct d as [b dptr tg]. unfold dyn_of in *. cbn [d_base d_ptr fval_ok] in *.
      destruct cv as [|gc].
      * cbn [valuer].
        destruct b as [w|w| | | | | | |[]]; destruct g; try discriminate; destruct tg; try discriminate;
          cbn [valuer d_tag plain json_enc];
          repeat match goal with
                 | |- context[if ?q then _ else _] => destruct q
                 | |- context[match ?o with Some _ => _ | None => _ end] => destruct o
                 end; reflexivity.
      * destruct b as [w|w| | | | | | |[]]; destruct g; try discriminate; destruct gc; try discriminate;
          destruct tg; try discriminate;
          cbn [valuer d_tag plain json_enc];
          repeat match goal with
                 | |- context[if ?q then _ else _] => destruct q
                 | |- context[match ?o with Some _ => _ | None => _ end] => destruct o
                 end; reflexivity.
Qed.

Definition filter_based (e : env) (t : table) (f : filter) : bool :=
  forallb (fun nv => match find_col (fst nv) t with
                     | Some d => dyn_based e d (snd nv)
                     | None => true
                     end) f.

Lemma col_lookup_ok e t : forall x n d v,
  Forall2 (fun nd v => desc_ok (snd nd) = true /\ fval_ok e (snd nd) v = true) t x ->
  col_lookup n t x = Some (d, v) -> desc_ok d = true /\ fval_ok e d v = true.
Proof.
  induction t as [|[m dm] t IH]; intros x n d v HF H; inversion HF; subst; [discriminate|].
  cbn in H. destruct (String.eqb n m).
  - inversion H; subst. assumption.
  - eauto.
Qed.

Theorem tester_agrees_with_where e t f row :
  Forall2 (fun nd v => desc_ok (snd nd) = true /\ fval_ok e (snd nd) v = true) t row ->
  filter_based e t f = true ->
  tester t f (Some row) = sql_where t f row.
Proof.
  intros Hrow Hf. cbn [tester]. unfold test_row, sql_where.
  induction f as [|[n v] f IH]; [reflexivity|].
  cbn [filter_based forallb fst snd] in *. apply andb_prop in Hf as [Hv Hf].
  rewrite (IH Hf). f_equal.
  destruct (col_lookup n t row) as [[d cv]|] eqn:Hl; [|reflexivity].
  destruct (col_lookup_ok e t row n d cv Hrow Hl) as [Hd Hc].
  apply col_lookup_find in Hl. rewrite Hl in Hv.
  apply eq_cond. eapply valuer_compat; eauto.
Qed.

(** * Equality tests of the model are sound *)
Lemma gval_eqb_eq a b : gval_eqb a b = true -> a = b.
Proof.
  destruct a as [| | | |oa| |], b as [| | | |ob| |]; cbn; try discriminate; intros H;
    try (apply Z.eqb_eq in H; congruence);
    try (apply String.eqb_eq in H; congruence);
    try (apply Bool.eqb_prop in H; congruence).
  all: try (destruct oa; discriminate).
  destruct oa, ob; try discriminate; [apply String.eqb_eq in H; congruence | reflexivity].
Qed.

Lemma fval_eqb_eq a b : fval_eqb a b = true -> a = b.
Proof. destruct a, b; cbn; try discriminate; intros H; [reflexivity | apply gval_eqb_eq in H; congruence]. Qed.

Lemma row_eqb_eq a : forall b, row_eqb a b = true -> a = b.
Proof.
  unfold row_eqb. induction a as [|x a IH]; intros [|y b] H; try discriminate; [reflexivity|].
  cbn in H. apply andb_prop in H as [H1 H2]. apply fval_eqb_eq in H1. apply IH in H2. congruence.
Qed.

(** * A write that matches neither image leaves the query's result unchanged *)
Section LtsProofs.
  Variable schema : string -> table.

  Definition sel (q : qstate) (d : dbase) : list row :=
    select_by (fun f r => tst schema (q_table q) f (Some r)) (q_table q) (q_filter q) d.

  Definition not_affected (tbl : string) (f : filter) (w : write) : bool :=
    negb (String.eqb tbl (w_table w)) || negb (tst schema tbl f (w_before w) || tst schema tbl f (w_after w)).

  Lemma filter_remove_first (P : string * row -> bool) t r : forall d,
    P (t, r) = false -> List.filter P (remove_first t r d) = List.filter P d.
  Proof.
    induction d as [|[t' r'] d IH]; intros HP; [reflexivity|]. cbn [remove_first fst snd].
    destruct (String.eqb t' t && row_eqb r' r) eqn:E.
    - apply andb_prop in E as [E1 E2]. apply String.eqb_eq in E1. apply row_eqb_eq in E2. subst.
      cbn [List.filter]. rewrite HP. reflexivity.
    - cbn [List.filter]. rewrite IH by assumption. reflexivity.
  Qed.

  Lemma select_apply tbl f d w :
    not_affected tbl f w = true ->
    select_by (fun f r => tst schema tbl f (Some r)) tbl f (apply_write d w) =
    select_by (fun f r => tst schema tbl f (Some r)) tbl f d.
  Proof.
    intros H. unfold select_by, apply_write. f_equal. cbv beta zeta.
    set (P := fun x : string * row => String.eqb (fst x) tbl && tst schema tbl f (Some (snd x))).
    assert (HP : forall r, (w_before w = Some r \/ w_after w = Some r) -> P (w_table w, r) = false).
    { intros r Hr. unfold P. cbn [fst snd]. unfold not_affected in H.
      destruct (String.eqb_spec (w_table w) tbl) as [Heq|Hne]; [|reflexivity].
      rewrite Heq, String.eqb_refl in H. cbn [negb orb] in H. apply negb_true_iff in H.
      apply orb_false_iff in H as [Hb Ha]. destruct Hr as [Hr|Hr]; rewrite Hr in *; [rewrite Hb|rewrite Ha]; reflexivity. }
    clearbody P.
    assert (H1 : List.filter P (match w_before w with Some r => remove_first (w_table w) r d | None => d end) = List.filter P d).
    { destruct (w_before w) as [r|] eqn:Eb; [|reflexivity]. apply filter_remove_first. apply HP. left. reflexivity. }
    destruct (w_after w) as [r|] eqn:Ea.
    - rewrite filter_app. cbn [List.filter]. rewrite HP by (right; reflexivity). rewrite app_nil_r. exact H1.
    - exact H1.
  Qed.

  Lemma invalidates_spec q w :
    invalidates schema q (update_of w) = false -> not_affected (q_table q) (q_filter q) w = true.
  Proof.
    unfold invalidates, should_invalidate, update_of, not_affected, tst. cbn [r_table r_filter u_table u_err u_deltas existsb fst snd].
    destruct (String.eqb (q_table q) (w_table w)); cbn [negb orb]; [|reflexivity].
    rewrite orb_false_r. intros ->. reflexivity.
  Qed.

  Lemma invalidates_err_spec q w :
    invalidates schema q (mk_update (w_table w) [] true) = false -> not_affected (q_table q) (q_filter q) w = true.
  Proof.
    unfold invalidates, should_invalidate, not_affected. cbn [r_table u_table u_err].
    destruct (String.eqb (q_table q) (w_table w)); cbn [negb orb]; [discriminate|reflexivity].
  Qed.

  (** A write that changes the rows a query returns is matched by the tester on its before or after
      image, so the delivered update invalidates the query. *)
  Theorem write_changes_result_is_seen n tbl f d w :
    select_by (fun f r => tst schema tbl f (Some r)) tbl f (apply_write d w) <>
    select_by (fun f r => tst schema tbl f (Some r)) tbl f d ->
    should_invalidate (schema tbl) (mk_resource n tbl f) (update_of w) = true.
  Proof.
    intros Hne.
    destruct (should_invalidate (schema tbl) (mk_resource n tbl f) (update_of w)) eqn:E; [reflexivity|].
    exfalso. apply Hne. apply select_apply.
    exact (invalidates_spec (mk_q tbl f PDone false 0 []) w E).
  Qed.

  (** * Database snapshots *)
  Lemma firstn_snoc {A} (l : list A) : forall k x, nth_error l k = Some x -> firstn (S k) l = firstn k l ++ [x].
  Proof.
    induction l as [|y l IH]; intros [|k] x H; try discriminate; cbn in *.
    - inversion H; reflexivity.
    - rewrite (IH k x H). reflexivity.
  Qed.

  Lemma db_at_S s k w ok : nth_error (s_log s) k = Some (w, ok) -> db_at s (S k) = apply_write (db_at s k) w.
  Proof.
    intros H. unfold db_at. rewrite (firstn_snoc _ _ _ H), map_app, fold_left_app. reflexivity.
  Qed.

  Lemma db_at_commit i l dl qs c k : k <= List.length l ->
    db_at (mk_state i (l ++ [c]) dl qs) k = db_at (mk_state i l dl qs) k.
  Proof.
    intros Hk. unfold db_at. cbn [s_log s_init]. rewrite firstn_app.
    replace (k - List.length l) with 0 by lia. cbn [firstn]. rewrite app_nil_r. reflexivity.
  Qed.

  (** * The invariant *)
  Definition q_ok (s : state) (q : qstate) : Prop :=
    q_phase q = PDone -> q_invalid q = false ->
    q_read_at q <= List.length (s_log s) /\
    q_held q = sel q (db_at s (Nat.max (q_read_at q) (s_delivered s))).

  Definition inv (s : state) : Prop :=
    s_delivered s <= List.length (s_log s) /\ Forall (q_ok s) (s_queries s).

  Lemma Forall_update_nth {A} (P : A -> Prop) f : forall (l : list A) i,
    (forall x, P (f x)) -> Forall P l -> Forall P (update_nth i f l).
  Proof.
    induction l as [|x l IH]; intros [|i] Hf H; cbn; inversion H; subst; constructor; auto.
  Qed.

  Lemma inv_step fixed s l s' : fixed = true -> inv s -> step schema fixed s l = Some s' -> inv s'.
  Proof.
    intros -> [Hd Hq] Hs. destruct l as [i|i|i|w ok| |]; cbn [step] in Hs.
    - (* Register *)
      destruct (nth_error (s_queries s) i) as [q|]; [|discriminate].
      destruct (q_phase q); try discriminate. inversion Hs; subst; clear Hs. split; [exact Hd|].
      cbn [s_queries]. apply Forall_update_nth.
      + intros x Hp. discriminate.
      + eapply Forall_impl; [|exact Hq]. intros a Ha. exact Ha.
    - (* Read *)
      destruct (nth_error (s_queries s) i) as [q|]; [|discriminate].
      destruct (q_phase q); try discriminate. inversion Hs; subst; clear Hs. split; [exact Hd|].
      cbn [s_queries]. apply Forall_update_nth.
      + intros x _ _. cbn [q_read_at q_held s_log s_delivered]. split; [lia|].
        rewrite Nat.max_l by exact Hd. reflexivity.
      + eapply Forall_impl; [|exact Hq]. intros a Ha. exact Ha.
    - (* Rerun *)
      destruct (nth_error (s_queries s) i) as [q|]; [|discriminate].
      destruct (q_phase q); try discriminate. inversion Hs; subst; clear Hs. split; [exact Hd|].
      cbn [s_queries]. apply Forall_update_nth.
      + intros x Hp. discriminate.
      + eapply Forall_impl; [|exact Hq]. intros a Ha. exact Ha.
    - (* Commit *)
      inversion Hs; subst; clear Hs. destruct s as [ini log dl qs]. cbn [s_log s_delivered s_queries s_init] in *.
      split; cbn [s_log s_delivered s_queries]; [rewrite app_length; cbn [List.length]; lia|].
      eapply Forall_impl; [|exact Hq]. intros q Hok Hp Hi. destruct (Hok Hp Hi) as [Hr Hh].
      cbn [s_log s_delivered] in *. split; [rewrite app_length; cbn [List.length]; lia|].
      rewrite Hh. f_equal. symmetry. apply db_at_commit. lia.
    - (* Deliver *)
      destruct (nth_error (s_log s) (s_delivered s)) as [[w ok]|] eqn:Hn; [|discriminate].
      destruct ok; [|discriminate]. inversion Hs; subst; clear Hs.
      assert (Hlt : s_delivered s < List.length (s_log s)) by (apply nth_error_Some; congruence).
      split; [cbn; lia|]. cbn [s_queries]. apply Forall_forall. intros q' Hin.
      apply in_map_iff in Hin as (q & <- & Hin). rewrite Forall_forall in Hq. specialize (Hq q Hin).
      unfold process. destruct (registered q && invalidates schema q (update_of w)) eqn:E.
      + intros _ Hi. discriminate.
      + intros Hp Hi. destruct (Hq Hp Hi) as [Hr Hh]. cbn [s_log s_delivered]. split; [exact Hr|].
        assert (Hreg : registered q = true) by (unfold registered; rewrite Hp; reflexivity).
        rewrite Hreg in E. cbn [andb] in E. apply invalidates_spec in E.
        destruct (Nat.le_gt_cases (S (s_delivered s)) (q_read_at q)) as [Hle|Hgt].
        * rewrite Nat.max_l by lia. rewrite Nat.max_l in Hh by lia. exact Hh.
        * rewrite Nat.max_r by lia. rewrite Nat.max_r in Hh by lia. rewrite Hh.
          change (db_at {| s_init := s_init s; s_log := s_log s; s_delivered := S (s_delivered s);
                          s_queries := map (fun q0 => if registered q0 && invalidates schema q0 (update_of w)
                                                      then mk_q (q_table q0) (q_filter q0) (q_phase q0) true (q_read_at q0) (q_held q0)
                                                      else q0) (s_queries s) |} (S (s_delivered s)))
            with (db_at s (S (s_delivered s))).
          rewrite (db_at_S s _ w true Hn). unfold sel. symmetry. apply select_apply. exact E.
    - (* DeliverUndecodable, as repaired *)
      destruct (nth_error (s_log s) (s_delivered s)) as [[w ok]|] eqn:Hn; [|discriminate].
      destruct ok; [discriminate|]. inversion Hs; subst; clear Hs.
      assert (Hlt : s_delivered s < List.length (s_log s)) by (apply nth_error_Some; congruence).
      split; [cbn; lia|]. cbn [s_queries]. apply Forall_forall. intros q' Hin.
      apply in_map_iff in Hin as (q & <- & Hin). rewrite Forall_forall in Hq. specialize (Hq q Hin).
      unfold process. destruct (registered q && invalidates schema q (mk_update (w_table w) [] true)) eqn:E.
      + intros _ Hi. discriminate.
      + intros Hp Hi. destruct (Hq Hp Hi) as [Hr Hh]. cbn [s_log s_delivered]. split; [exact Hr|].
        assert (Hreg : registered q = true) by (unfold registered; rewrite Hp; reflexivity).
        rewrite Hreg in E. cbn [andb] in E. apply invalidates_err_spec in E.
        destruct (Nat.le_gt_cases (S (s_delivered s)) (q_read_at q)) as [Hle|Hgt].
        * rewrite Nat.max_l by lia. rewrite Nat.max_l in Hh by lia. exact Hh.
        * rewrite Nat.max_r by lia. rewrite Nat.max_r in Hh by lia. rewrite Hh.
          match goal with |- context[db_at ?s1 (S (s_delivered s))] => change (db_at s1 (S (s_delivered s))) with (db_at s (S (s_delivered s))) end.
          rewrite (db_at_S s _ w false Hn). unfold sel. symmetry. apply select_apply. exact E.
  Qed.

  Lemma inv_run : forall ls s s', inv s -> run schema true s ls = Some s' -> inv s'.
  Proof.
    induction ls as [|l ls IH]; intros s s' Hi Hr; cbn [run] in Hr.
    - inversion Hr; subst; exact Hi.
    - destruct (step schema true s l) as [s1|] eqn:Hs; [|discriminate].
      eapply IH; [|exact Hr]. eapply inv_step; eauto.
  Qed.

  Lemma inv_initial d qs : inv (initial d qs).
  Proof.
    split; [cbn; lia|]. cbn [initial s_queries]. apply Forall_forall. intros q Hin.
    apply in_map_iff in Hin as (tf & <- & _). intros Hp. discriminate.
  Qed.

  (** Once writes stop and everything has been delivered, every live query holds exactly what the
      database now returns for its filter -- for every interleaving. *)
  Theorem quiescent_current d qs ls s :
    run schema true (initial d qs) ls = Some s -> quiescent s = true ->
    Forall (fun q => q_held q = sel q (s_db s)) (s_queries s).
  Proof.
    intros Hr Hq. destruct (inv_run ls _ _ (inv_initial d qs) Hr) as [Hd Hok].
    unfold quiescent in Hq. apply andb_prop in Hq as [Hdel Hall]. apply Nat.eqb_eq in Hdel.
    rewrite forallb_forall in Hall. apply Forall_forall. intros q Hin.
    rewrite Forall_forall in Hok. specialize (Hok q Hin). specialize (Hall q Hin).
    destruct (q_phase q) eqn:Hp; try discriminate. apply negb_true_iff in Hall.
    destruct (Hok Hp Hall) as [Hrd Hh]. rewrite Hh. unfold s_db. rewrite Hdel.
    rewrite Nat.max_r by exact Hrd. reflexivity.
  Qed.

  (** An undecodable event invalidates every registered live query on its table (as repaired). *)
  Theorem undecodable_invalidates s s' w i q :
    nth_error (s_log s) (s_delivered s) = Some (w, false) ->
    step schema true s DeliverUndecodable = Some s' ->
    nth_error (s_queries s) i = Some q -> registered q = true -> q_table q = w_table w ->
    exists q', nth_error (s_queries s') i = Some q' /\ q_invalid q' = true.
  Proof.
    intros Hn Hs Hq Hreg Ht. cbn [step] in Hs. rewrite Hn in Hs. inversion Hs; subst; clear Hs.
    cbn [s_queries]. exists (process schema (mk_update (w_table w) [] true) q). split.
    - rewrite nth_error_map, Hq. reflexivity.
    - unfold process, invalidates, should_invalidate. cbn [r_table u_table u_err]. rewrite Hreg, Ht, String.eqb_refl.
      reflexivity.
  Qed.
End LtsProofs.

(** * The tester-based result is the SQL result (typed rows and filters) *)
Definition row_typed (e : env) (t : table) (r : row) : Prop :=
  Forall2 (fun nd v => desc_ok (snd nd) = true /\ fval_ok e (snd nd) v = true) t r.

Theorem select_tester_is_select_sql e (schema : string -> table) tbl f d :
  filter_based e (schema tbl) f = true ->
  Forall (fun x => fst x = tbl -> row_typed e (schema tbl) (snd x)) d ->
  select_by (fun f r => tst schema tbl f (Some r)) tbl f d =
  select_by (fun f r => sql_where (schema tbl) f r) tbl f d.
Proof.
  intros Hf Hd. unfold select_by. f_equal. apply filter_ext_in. intros x Hin.
  rewrite Forall_forall in Hd. specialize (Hd x Hin).
  destruct (String.eqb_spec (fst x) tbl) as [Heq|Hne]; [|reflexivity].
  cbn [andb]. unfold tst. apply (tester_agrees_with_where e); auto. exact (Hd Heq).
Qed.

(** * The code before C07-fix-1: an undecodable event is dropped and the live query stays stale *)
Definition toy_schema : string -> table := fun _ => [("id"%string, mk_desc (BInt 64) false TNone)].

Theorem undecodable_dropped_refuted :
  exists d qs ls s,
    run toy_schema false (initial d qs) ls = Some s /\ quiescent s = true /\
    exists q, In q (s_queries s) /\ q_held q <> sel toy_schema q (s_db s).
Proof.
  exists [], [("users"%string, [])],
         [Register 0; Read 0; Commit (mk_write "users" None (Some [FVal (GInt 1)])) false; DeliverUndecodable].
  eexists. split; [vm_compute; reflexivity|]. split; [vm_compute; reflexivity|].
  eexists. split; [left; reflexivity|]. vm_compute. discriminate.
Qed.

(** The same history on the repaired code is not quiescent until the query has re-run. *)
Example undecodable_repaired_not_quiescent :
  exists s, run toy_schema true (initial [] [("users"%string, [])])
              [Register 0; Read 0; Commit (mk_write "users" None (Some [FVal (GInt 1)])) false; DeliverUndecodable] = Some s
            /\ quiescent s = false.
Proof. eexists. split; vm_compute; reflexivity. Qed.

(** * A faithful rows event decodes to the write's images (link to the row codec, C13) *)
Definition faithful (e : env) (t : table) (cols : list string) (x : row) (brow : list src) : Prop :=
  exists row, row_repr e t x row /\ NoDup cols /\ List.length brow = List.length cols /\
              Forall2 (fun nd s => exists j, nth_error cols j = Some (fst nd) /\ nth_error brow j = Some s) t row.

Inductive event_of (e : env) (t : table) (cols : list string) : write -> ekind -> list (list src) -> Prop :=
| ev_write : forall tbl a ra, faithful e t cols a ra -> event_of e t cols (mk_write tbl None (Some a)) EWrite [ra]
| ev_delete : forall tbl b rb, faithful e t cols b rb -> event_of e t cols (mk_write tbl (Some b) None) EDelete [rb]
| ev_update : forall tbl a b ra rb, faithful e t cols b rb -> faithful e t cols a ra ->
    event_of e t cols (mk_write tbl (Some b) (Some a)) EUpdate [rb; ra].

Lemma faithful_image e t cols x brow : env_laws e -> faithful e t cols x brow ->
  parse_image e (t, fst (column_map t cols), snd (column_map t cols)) brow = Ok x.
Proof.
  intros L (row & Hr & Hnd & Hlen & HF). unfold parse_image. eapply parse_binlog_roundtrip; eauto.
Qed.

Theorem faithful_event_decodes fx e t cols w k rows :
  env_laws e -> event_of e t cols w k rows ->
  poll_loop_update fx e (t, fst (column_map t cols), snd (column_map t cols)) (w_table w) k rows = Some (update_of w).
Proof.
  intros L H. unfold poll_loop_update, update_of.
  destruct H; cbn [parse_rows_event parse_singles parse_pairs List.length Nat.even w_table w_before w_after];
    repeat (erewrite faithful_image by eauto; cbn [rbind]); reflexivity.
Qed.
