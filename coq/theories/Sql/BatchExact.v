(** C10: [filter_transparent] (Sql/ModelExact.v) is exactly the domain of the transparency theorem:
    sufficient ([batched_transparent_exact]), implied by the earlier hypothesis [filter_exactly_typed]
    ([exactly_typed_transparent]), and necessary ([transparency_necessary]: a filter outside it loses or
    gains a row in the company of an empty filter, on a one-row table computed by [witness_rows]). *)
From Coq Require Import List ZArith String Ascii Bool Lia.
From Thunder Require Import Sql.Model Sql.ModelExact Sql.Confine Sql.BatchProofs.
Import ListNotations.
Open Scope string_scope.

(** * Shapes *)
Lemma column_shape : forall c, column_ok c = true ->
  is_ptr_ty (base_ty (c_ty c)) = false
  /\ (c_ty c = base_ty (c_ty c) \/ (c_ty c = TyPtr (base_ty (c_ty c)) /\ c_implicitnull c = false)).
Proof.
  intros [n p i ty] H. unfold column_ok in H. cbn [c_ty c_implicitnull] in *.
  apply andb_prop in H. destruct H as [H1 H2].
  split; [destruct (is_ptr_ty (base_ty ty)); [discriminate|reflexivity]|].
  destruct ty; try (left; reflexivity). right. split; [reflexivity|].
  destruct i; [discriminate|reflexivity].
Qed.

Lemma rep_nonnull_class : forall c d, representable c d = true -> d <> DNull -> class_ok (base_ty (c_ty c)) d = true.
Proof.
  intros c d H Hd. unfold representable in H. destruct d; try contradiction;
    apply andb_prop in H; destruct H as [_ H]; exact H.
Qed.

Lemma coerce_field_base : forall c d, column_ok c = true -> d <> DNull ->
  coerce (field_value (c_ty c) d) = field_value (base_ty (c_ty c)) d.
Proof.
  intros c d Hc Hd. destruct (column_shape c Hc) as [Hb [E|[E _]]].
  - rewrite <- E in *. apply coerce_field. exact Hb.
  - rewrite E. cbn [base_ty field_value]. destruct d; try reflexivity. contradiction.
Qed.

(** * The two sets have their elements among the candidates *)
Lemma num_norm_int : forall z, (if ((4 * z) mod 4 =? 0)%Z then DInt (4 * z / 4) else DNull) = DInt z.
Proof.
  intros z. rewrite (Z.mul_comm 4 z), Z_mod_mult, Z.eqb_refl, Z.div_mul by lia. reflexivity.
Qed.

Lemma sql_eq_num_l : forall d w x,
  d <> DNull -> num_of d = Some x -> is_tt (sql_eq d w) = true -> num_of w = Some x.
Proof.
  intros d w x Hd Hn H.
  destruct d; try contradiction; cbn [num_of] in Hn; try discriminate; rewrite <- Hn; clear Hn;
    destruct w; cbn [sql_eq num_of text_of is_tt] in H |- *; try discriminate;
    match type of H with is_tt (if ?b then _ else _) = _ => destruct b eqn:E; [|discriminate] end;
    apply Z.eqb_eq in E; rewrite E; reflexivity.
Qed.

Lemma sql_eq_text_l : forall d w s,
  num_of d = None -> text_of d = Some s -> is_tt (sql_eq d w) = true -> text_of w = Some s.
Proof.
  intros d w s Hn Ht H.
  destruct d; cbn [num_of text_of] in Hn, Ht; try discriminate; rewrite <- Ht; clear Ht;
    destruct w; cbn [sql_eq num_of text_of is_tt] in H |- *; try discriminate;
    match type of H with is_tt (if ?b then _ else _) = _ => destruct b eqn:E; [|discriminate] end;
    apply String.eqb_eq in E; rewrite E; reflexivity.
Qed.

Lemma W_char : forall c v d,
  representable c d = true -> col_W c v d = true ->
  d = DNull \/ d = norm_value (base_ty (c_ty c)) (valuer (c_implicitnull c) v).
Proof.
  intros c v d Hr H. unfold col_W in H.
  destruct (dval_eqb d DNull) eqn:Ed; [left; apply dval_eqb_eq; exact Ed|]. right.
  assert (Hd : d <> DNull) by (intros ->; discriminate).
  assert (Hc := rep_nonnull_class c d Hr Hd).
  remember (valuer (c_implicitnull c) v) as w eqn:Ew. clear Ew.
  assert (Hw : atom_of d w = sql_eq d w \/ w = DNull) by (destruct w; [right; reflexivity|left; reflexivity..]).
  destruct Hw as [Hw|Hw].
  2:{ subst w. cbn [atom_of] in H. destruct d; discriminate. }
  rewrite Hw in H.
  destruct (base_ty (c_ty c)) as [k n|n| | | |bt']; destruct d as [|z|q|b|s|s]; cbn [class_ok] in Hc; try discriminate; cbn [norm_value].
  - rewrite (sql_eq_num_l (DInt z) w _ Hd eq_refl H). symmetry. apply num_norm_int.
  - rewrite (sql_eq_text_l (DStr s) w s eq_refl eq_refl H). reflexivity.
  - rewrite (sql_eq_num_l (DInt z) w _ Hd eq_refl H). symmetry. apply num_norm_int.
  - rewrite (sql_eq_num_l (DFloat q) w _ Hd eq_refl H). reflexivity.
  - rewrite (sql_eq_text_l (DBytes s) w s eq_refl eq_refl H). reflexivity.
Qed.

Lemma M_char : forall c v d,
  column_ok c = true -> representable c d = true -> d <> DNull -> col_M c v d = true ->
  d = unfield (base_ty (c_ty c)) (hashable (coerce v)).
Proof.
  intros c v d Hc Hr Hd H. unfold col_M in H. rewrite (coerce_field_base c d Hc Hd) in H.
  assert (Hcls := rep_nonnull_class c d Hr Hd).
  set (y := hashable (coerce v)) in *. clearbody y.
  destruct (base_ty (c_ty c)) as [k n|n| | | |bt']; destruct d; cbn [class_ok] in Hcls; try discriminate;
    cbn [field_value hashable] in H; destruct y; cbn [go_eqb] in H; try discriminate; cbn [unfield].
  - rewrite (wrap_kind_id _ _ Hcls) in H. apply andb_prop in H. destruct H as [_ H]. apply Z.eqb_eq in H. subst. reflexivity.
  - apply andb_prop in H. destruct H as [_ H]. apply String.eqb_eq in H. subst. reflexivity.
  - apply orb_prop in Hcls. destruct Hcls as [E|E]; apply Z.eqb_eq in E; subst; destruct b; cbn in H; try discriminate; reflexivity.
  - apply Z.eqb_eq in H. subst. reflexivity.
  - apply andb_prop in H. destruct H as [_ H]. apply String.eqb_eq in H. subst. reflexivity.
Qed.

Lemma cands_complete : forall c v d,
  column_ok c = true -> representable c d = true ->
  col_M c v d = true \/ col_W c v d = true -> In d (col_cands c v).
Proof.
  intros c v d Hc Hr H. unfold col_cands.
  destruct (dval_eqb d DNull) eqn:Ed; [left; symmetry; apply dval_eqb_eq; exact Ed|].
  assert (Hd : d <> DNull) by (intros ->; discriminate).
  destruct H as [H|H].
  - right; right; left. symmetry. apply M_char; assumption.
  - destruct (W_char c v d Hr H) as [E|E]; [contradiction|]. right; left. symmetry. exact E.
Qed.

(** * What the three booleans decide *)
Lemma forallb_false_exists : forall (A : Type) (p : A -> bool) l,
  forallb p l = false -> exists x, In x l /\ p x = false.
Proof.
  intros A p l. induction l as [|x l IH]; intros H; [discriminate|]. simpl in H.
  destruct (p x) eqn:E.
  - destruct (IH H) as (y & Hy & Hp). exists y. split; [right; exact Hy|exact Hp].
  - exists x. split; [left; reflexivity|exact E].
Qed.

Lemma forallb_false_intro : forall (A : Type) (p : A -> bool) l x, In x l -> p x = false -> forallb p l = false.
Proof.
  intros A p l x Hin Hp. destruct (forallb p l) eqn:E; [|reflexivity].
  rewrite forallb_forall in E. rewrite (E x Hin) in Hp. discriminate.
Qed.

Lemma existsb_false_all : forall (A : Type) (p : A -> bool) l x, existsb p l = false -> In x l -> p x = false.
Proof.
  intros A p l x H Hin. destruct (p x) eqn:E; [|reflexivity].
  assert (existsb p l = true) by (apply existsb_exists; exists x; split; assumption). congruence.
Qed.


(** * The development is generic in the matcher

    [MX] is the per-column predicate of the matcher and [mm] the row-level matcher; the code as it is has
    [col_M] / [matcher_matches], the repaired code (C10-fix-2) [col_Mf] / [matcher_matches_fixed].  All that is
    used: the matcher accepts a row only if Go's == on the coerced, hashed values does. *)
Definition conj_over (P : column -> goval -> dval -> bool) (t : table) (f : filter) (r : drow) : bool :=
  forallb (fun c => on_col f true (fun c v => P c v (cell r (c_name c))) c) (t_cols t).

Section Generic.
Variable MX : column -> goval -> dval -> bool.
Variable mm : table -> filter -> drow -> bool.
Hypothesis MX_sub : forall c v d, MX c v d = true -> col_M c v d = true.
Hypothesis mm_conj : forall t f r, mm t f r = conj_over MX t f r.

Lemma col_agrees_sound : forall c v d,
  column_ok c = true -> col_agrees_g MX c v = true -> representable c d = true -> MX c v d = col_W c v d.
Proof.
  intros c v d Hc H Hr. destruct (MX c v d) eqn:Em; destruct (col_W c v d) eqn:Ew; try reflexivity.
  - assert (Hin := cands_complete c v d Hc Hr (or_introl (MX_sub _ _ _ Em))).
    unfold col_agrees_g in H. rewrite forallb_forall in H. specialize (H d Hin). rewrite Hr, Em, Ew in H. discriminate.
  - assert (Hin := cands_complete c v d Hc Hr (or_intror Ew)).
    unfold col_agrees_g in H. rewrite forallb_forall in H. specialize (H d Hin). rewrite Hr, Em, Ew in H. discriminate.
Qed.

Lemma col_agrees_complete : forall c v,
  (forall d, representable c d = true -> MX c v d = col_W c v d) -> col_agrees_g MX c v = true.
Proof.
  intros c v H. unfold col_agrees_g. apply forallb_forall. intros d _.
  destruct (representable c d) eqn:Er; [|reflexivity]. rewrite (H d Er). cbn [negb orb]. apply eqb_reflx.
Qed.

Lemma col_agrees_false : forall c v, col_agrees_g MX c v = false ->
  exists d, In d (col_cands c v) /\ representable c d = true /\ MX c v d <> col_W c v d.
Proof.
  intros c v H. destruct (forallb_false_exists _ _ _ H) as (d & Hin & Hp). exists d. split; [exact Hin|].
  destruct (representable c d); [|discriminate]. split; [reflexivity|]. cbn [negb orb] in Hp.
  intros E. rewrite E, eqb_reflx in Hp. discriminate.
Qed.

Lemma col_w_empty_sound : forall c v d,
  column_ok c = true -> col_w_empty c v = true -> representable c d = true -> col_W c v d = false.
Proof.
  intros c v d Hc H Hr. destruct (col_W c v d) eqn:Ew; [|reflexivity].
  assert (Hin := cands_complete c v d Hc Hr (or_intror Ew)).
  unfold col_w_empty in H. rewrite forallb_forall in H. specialize (H d Hin). rewrite Hr, Ew in H. discriminate.
Qed.

Lemma col_m_empty_sound : forall c v d,
  column_ok c = true -> col_m_empty_g MX c v = true -> representable c d = true -> MX c v d = false.
Proof.
  intros c v d Hc H Hr. destruct (MX c v d) eqn:Em; [|reflexivity].
  assert (Hin := cands_complete c v d Hc Hr (or_introl (MX_sub _ _ _ Em))).
  unfold col_m_empty_g in H. rewrite forallb_forall in H. specialize (H d Hin). rewrite Hr, Em in H. discriminate.
Qed.

Lemma col_w_nonempty : forall c v, col_w_empty c v = false ->
  exists d, In d (col_cands c v) /\ representable c d = true /\ col_W c v d = true.
Proof.
  intros c v H. destruct (forallb_false_exists _ _ _ H) as (d & Hin & Hp). exists d. split; [exact Hin|].
  apply negb_false_iff in Hp. apply andb_prop in Hp. exact Hp.
Qed.

Lemma col_m_nonempty : forall c v, col_m_empty_g MX c v = false ->
  exists d, In d (col_cands c v) /\ representable c d = true /\ MX c v d = true.
Proof.
  intros c v H. destruct (forallb_false_exists _ _ _ H) as (d & Hin & Hp). exists d. split; [exact Hin|].
  apply negb_false_iff in Hp. apply andb_prop in Hp. exact Hp.
Qed.

(** * The matcher and the caller's WHERE clause as conjunctions over the table's columns *)

Lemma where_conj : forall t f r, is_tt (eval_simple (dfilter_of t f) r) = conj_over col_W t f r.
Proof.
  intros t f r. unfold conj_over, dfilter_of. induction (t_cols t) as [|c cols IH]; [reflexivity|].
  cbn [where_in_order forallb]. unfold on_col at 1. destruct (lookup (c_name c) f) as [v|].
  - cbn [eval_simple fold_right]. rewrite is_tt_and. rewrite eval_atom_value. f_equal. exact IH.
  - exact IH.
Qed.

Lemma rep_cell : forall t r c, row_representable t r = true -> In c (t_cols t) -> representable c (cell r (c_name c)) = true.
Proof. intros t r c H Hin. unfold row_representable in H. rewrite forallb_forall in H. apply H. exact Hin. Qed.

Lemma column_ok_in : forall t c, columns_ok t = true -> In c (t_cols t) -> column_ok c = true.
Proof. intros t c H Hin. unfold columns_ok in H. rewrite forallb_forall in H. apply H. exact Hin. Qed.

(** * Sufficiency *)
Lemma transparent_matcher_is_where : forall t f r,
  columns_ok t = true -> filter_transparent_g MX t f = true -> row_representable t r = true ->
  mm t f r = is_tt (eval_simple (dfilter_of t f) r).
Proof.
  intros t f r Hc Ht Hr. rewrite mm_conj, where_conj. unfold filter_transparent_g in Ht.
  apply andb_prop in Ht. destruct Ht as [_ Ht]. apply orb_prop in Ht. destruct Ht as [Ha|He].
  - unfold conj_over. rewrite forallb_forall in Ha.
    assert (G : forall l, (forall c, In c l -> In c (t_cols t)) ->
      forallb (fun c => on_col f true (fun c v => MX c v (cell r (c_name c))) c) l
      = forallb (fun c => on_col f true (fun c v => col_W c v (cell r (c_name c))) c) l).
    { induction l as [|c l IH]; intros Hl; [reflexivity|]. cbn [forallb]. f_equal.
      - assert (Hin := Hl c (or_introl eq_refl)). specialize (Ha c Hin). unfold on_col in *.
        destruct (lookup (c_name c) f) as [v|]; [|reflexivity].
        apply col_agrees_sound; [apply (column_ok_in t); assumption|exact Ha|apply (rep_cell t); assumption].
      - apply IH. intros c' Hc'. apply Hl. right; exact Hc'. }
    apply G. auto.
  - apply andb_prop in He. destruct He as [Hw Hm].
    apply existsb_exists in Hw. destruct Hw as (c1 & Hin1 & Hw).
    apply existsb_exists in Hm. destruct Hm as (c2 & Hin2 & Hm).
    unfold conj_over.
    rewrite (forallb_false_intro _ _ _ c2 Hin2), (forallb_false_intro _ _ _ c1 Hin1); [reflexivity| |].
    + unfold on_col in *. destruct (lookup (c_name c1) f) as [v|]; [|discriminate].
      apply col_w_empty_sound; [apply (column_ok_in t); assumption|exact Hw|apply (rep_cell t); assumption].
    + unfold on_col in *. destruct (lookup (c_name c2) f) as [v|]; [|discriminate].
      apply col_m_empty_sound; [apply (column_ok_in t); assumption|exact Hm|apply (rep_cell t); assumption].
Qed.

(** One caller among arbitrary companions (transparent or not). *)
Theorem batched_one_transparent : forall t fs f contents,
  table_ok t = true -> columns_ok t = true -> In f fs ->
  filter_transparent_g MX t f = true ->
  forallb (row_representable t) contents = true ->
  List.filter (mm t f) (select_rows (batch_wclause t fs) contents) = unbatched_result t f contents.
Proof.
  intros t fs f contents Ht Hc Hf Hty Hrep.
  unfold unbatched_result, select_rows.
  rewrite forallb_forall in Hrep.
  induction contents as [|r contents IH]; [reflexivity|].
  assert (Hr : row_representable t r = true) by (apply Hrep; left; reflexivity).
  assert (IH' := IH (fun x Hx => Hrep x (or_intror Hx))). clear IH.
  cbn [List.filter].
  assert (Hm := transparent_matcher_is_where t f r Hc Hty Hr).
  cbn [eval_wclause] in *.
  destruct (is_tt (eval_simple (dfilter_of t f) r)) eqn:Es.
  - rewrite (batch_clause_covers t fs f r Ht Hf (is_tt_true _ Es)). cbn [is_tt List.filter]. rewrite Hm. f_equal. exact IH'.
  - destruct (is_tt (eval_wclause (batch_wclause t fs) r)).
    + cbn [List.filter]. rewrite Hm. exact IH'.
    + exact IH'.
Qed.

Theorem batched_transparent_exact : forall t fs contents,
  table_ok t = true -> columns_ok t = true ->
  forallb (filter_transparent_g MX t) fs = true ->
  forallb (row_representable t) contents = true ->
  batched_results_g mm t fs contents = map (fun f => unbatched_result t f contents) fs.
Proof.
  intros t fs contents Ht Hc Hty Hrep. unfold batched_results_g. apply map_ext_in. intros f Hf.
  rewrite forallb_forall in Hty. apply batched_one_transparent; auto.
Qed.

Lemma nth_filter_transparent : forall t fs i,
  forallb (filter_transparent_g MX t) fs = true -> filter_transparent_g MX t (nth_filter fs i) = true.
Proof.
  intros t fs i H. unfold nth_filter. destruct (Nat.ltb i (List.length fs)) eqn:E.
  - apply Nat.ltb_lt in E. rewrite forallb_forall in H. apply H. apply nth_In. exact E.
  - apply Nat.ltb_ge in E. rewrite nth_overflow by exact E.
    unfold filter_transparent_g, filter_comparable. apply andb_true_intro. split.
    + apply forallb_forall. intros c _. reflexivity.
    + apply orb_true_intro. left. apply forallb_forall. intros c _. reflexivity.
Qed.

Theorem batched_transparent_exact_any_arrival : forall t fs arrival contents,
  table_ok t = true -> columns_ok t = true ->
  forallb (filter_transparent_g MX t) fs = true ->
  forallb (row_representable t) contents = true ->
  Forall (fun ir => snd ir = unbatched_result t (nth_filter fs (fst ir)) contents)
         (batched_by_arrival_g mm t fs arrival contents).
Proof.
  intros t fs arrival contents Ht Hc Hty Hrep. unfold batched_by_arrival_g.
  apply Forall_forall. intros [i rows] Hin. apply in_concat in Hin. destruct Hin as (l & Hl & Hin).
  apply in_map_iff in Hl. destruct Hl as (b & <- & Hb).
  rewrite (batched_transparent_exact t (map (nth_filter fs) b) contents Ht Hc) in Hin; [|
    apply forallb_forall; intros f Hf; apply in_map_iff in Hf; destruct Hf as (j & <- & _); apply nth_filter_transparent; exact Hty
    |exact Hrep].
  rewrite map_map in Hin. simpl.
  clear Hb. induction b as [|j b IH]; [contradiction|]. simpl in Hin. destruct Hin as [Hin|Hin].
  - inversion Hin; subst. reflexivity.
  - apply IH. exact Hin.
Qed.

(** * Necessity *)
Lemma default_rep : forall c, column_ok c = true -> representable c (default_cell c) = true.
Proof.
  intros c Hc. unfold default_cell.
  destruct (is_ptr_ty (c_ty c) || c_implicitnull c || is_bytes_ty (c_ty c)) eqn:E; [exact E|].
  apply orb_false_elim in E. destruct E as [E Hb]. apply orb_false_elim in E. destruct E as [Hp Hi].
  unfold representable. rewrite Hi.
  destruct (c_ty c) as [k n|n| | | |bt]; try discriminate; cbn [base_ty andb negb]; try reflexivity.
  destruct k; reflexivity.
Qed.

Lemma pick_cell_rep : forall P Q c v, column_ok c = true -> representable c (pick_cell P Q c v) = true.
Proof.
  intros P Q c v Hc. unfold pick_cell.
  destruct (find _ (col_cands c v)) as [d|] eqn:E1.
  - apply find_some in E1. destruct E1 as [_ E1]. apply andb_prop in E1. exact (proj1 E1).
  - destruct (find (fun d => representable c d && P c v d) (col_cands c v)) as [d|] eqn:E2.
    + apply find_some in E2. destruct E2 as [_ E2]. apply andb_prop in E2. exact (proj1 E2).
    + apply default_rep. exact Hc.
Qed.

Lemma cell_of_map : forall (g : column -> dval) l c,
  distinctb (map c_name l) = true -> In c l ->
  cell (map (fun c => (c_name c, g c)) l) (c_name c) = g c.
Proof.
  intros g l c. unfold cell. induction l as [|c' l IH]; intros Hd Hin; [contradiction|].
  cbn [map distinctb] in Hd. apply andb_prop in Hd. destruct Hd as [Hn Hd].
  cbn [map lookup]. destruct Hin as [->|Hin].
  - rewrite String.eqb_refl. reflexivity.
  - destruct (String.eqb (c_name c) (c_name c')) eqn:E.
    + apply String.eqb_eq in E. apply negb_true_iff in Hn.
      assert (existsb (String.eqb (c_name c')) (map c_name l) = true).
      { apply existsb_exists. exists (c_name c). split; [apply in_map; exact Hin|rewrite E; apply String.eqb_refl]. }
      congruence.
    + apply IH; assumption.
Qed.

Lemma cell_row_pick : forall P Q t f c, cols_distinct t = true -> In c (t_cols t) ->
  cell (row_pick P Q t f) (c_name c)
  = match lookup (c_name c) f with Some v => pick_cell P Q c v | None => default_cell c end.
Proof.
  intros P Q t f c Hd Hin. unfold row_pick.
  exact (cell_of_map (fun c => match lookup (c_name c) f with Some v => pick_cell P Q c v | None => default_cell c end)
                     (t_cols t) c Hd Hin).
Qed.

Lemma row_pick_rep : forall P Q t f,
  columns_ok t = true -> cols_distinct t = true -> row_representable t (row_pick P Q t f) = true.
Proof.
  intros P Q t f Hc Hd. unfold row_representable. apply forallb_forall. intros c Hin.
  rewrite (cell_row_pick P Q t f c Hd Hin).
  destruct (lookup (c_name c) f); [apply pick_cell_rep|apply default_rep]; apply (column_ok_in t); assumption.
Qed.

Lemma pick_cell_P : forall (P Q : column -> goval -> dval -> bool) c v,
  (exists d, In d (col_cands c v) /\ representable c d = true /\ P c v d = true) ->
  P c v (pick_cell P Q c v) = true.
Proof.
  intros P Q c v (d & Hin & Hr & Hp). unfold pick_cell.
  destruct (find _ (col_cands c v)) as [d1|] eqn:E1.
  - apply find_some in E1. destruct E1 as [_ E1]. apply andb_prop in E1. destruct E1 as [_ E1].
    apply andb_prop in E1. exact (proj1 E1).
  - destruct (find (fun d => representable c d && P c v d) (col_cands c v)) as [d2|] eqn:E2.
    + apply find_some in E2. destruct E2 as [_ E2]. apply andb_prop in E2. exact (proj2 E2).
    + assert (F := find_none _ _ E2 d Hin). cbv beta in F. rewrite Hr, Hp in F. discriminate.
Qed.

Lemma pick_cell_notQ : forall (P Q : column -> goval -> dval -> bool) c v d,
  In d (col_cands c v) -> representable c d = true -> P c v d = true -> Q c v d = false ->
  Q c v (pick_cell P Q c v) = false.
Proof.
  intros P Q c v d Hin Hr Hp Hq. unfold pick_cell.
  destruct (find (fun d => representable c d && (P c v d && negb (Q c v d))) (col_cands c v)) as [d1|] eqn:E1.
  - apply find_some in E1. destruct E1 as [_ E1]. apply andb_prop in E1. destruct E1 as [_ E1].
    apply andb_prop in E1. destruct E1 as [_ E1]. apply negb_true_iff in E1. exact E1.
  - assert (F := find_none _ _ E1 d Hin). cbv beta in F. rewrite Hr, Hp, Hq in F. discriminate.
Qed.

Lemma row_pick_P : forall P Q t f, cols_distinct t = true ->
  (forall c v, In c (t_cols t) -> lookup (c_name c) f = Some v ->
     exists d, In d (col_cands c v) /\ representable c d = true /\ P c v d = true) ->
  conj_over P t f (row_pick P Q t f) = true.
Proof.
  intros P Q t f Hd H. unfold conj_over. apply forallb_forall. intros c Hin. unfold on_col.
  destruct (lookup (c_name c) f) as [v|] eqn:E; [|reflexivity].
  rewrite (cell_row_pick P Q t f c Hd Hin), E. apply pick_cell_P. apply H; assumption.
Qed.

Lemma row_pick_notQ_elem : forall P Q t f c v d, cols_distinct t = true ->
  In c (t_cols t) -> lookup (c_name c) f = Some v ->
  In d (col_cands c v) -> representable c d = true -> P c v d = true -> Q c v d = false ->
  conj_over Q t f (row_pick P Q t f) = false.
Proof.
  intros P Q t f c v d Hd Hin E Hc Hr Hp Hq. unfold conj_over.
  apply (forallb_false_intro _ _ _ c Hin). unfold on_col. rewrite E.
  rewrite (cell_row_pick P Q t f c Hd Hin), E. apply (pick_cell_notQ P Q c v d); assumption.
Qed.

Lemma row_pick_notQ_empty : forall P Q t f c v, columns_ok t = true -> cols_distinct t = true ->
  In c (t_cols t) -> lookup (c_name c) f = Some v ->
  (forall d, representable c d = true -> Q c v d = false) ->
  conj_over Q t f (row_pick P Q t f) = false.
Proof.
  intros P Q t f c v Hc Hd Hin E H. unfold conj_over.
  apply (forallb_false_intro _ _ _ c Hin). unfold on_col. rewrite E.
  rewrite (cell_row_pick P Q t f c Hd Hin), E. apply H. apply pick_cell_rep. apply (column_ok_in t); assumption.
Qed.

Lemma on_col_false_some : forall (f : filter) (p : column -> goval -> bool) c,
  on_col f true p c = false -> exists v, lookup (c_name c) f = Some v /\ p c v = false.
Proof. intros f p c H. unfold on_col in H. destruct (lookup (c_name c) f) as [v|]; [exists v; auto|discriminate]. Qed.

Lemma on_col_true_some : forall (f : filter) (p : column -> goval -> bool) c,
  on_col f false p c = true -> exists v, lookup (c_name c) f = Some v /\ p c v = true.
Proof. intros f p c H. unfold on_col in H. destruct (lookup (c_name c) f) as [v|]; [exists v; auto|discriminate]. Qed.

Theorem witness_separates : forall t f,
  columns_ok t = true -> cols_distinct t = true ->
  filter_comparable t f = true -> filter_transparent_g MX t f = false ->
  exists r, In r (witness_rows_g MX t f) /\ row_representable t r = true
            /\ mm t f r <> is_tt (eval_simple (dfilter_of t f) r).
Proof.
  intros t f Hc Hd Hcmp Ht. unfold filter_transparent_g in Ht. rewrite Hcmp in Ht. cbn [andb] in Ht.
  apply orb_false_elim in Ht. destruct Ht as [Ha He].
  destruct (forallb_false_exists _ _ _ Ha) as (c0 & Hin0 & Ha0).
  destruct (on_col_false_some _ _ _ Ha0) as (v0 & E0 & Hag). clear Ha Ha0.
  destruct (col_agrees_false _ _ Hag) as (d0 & Hd0 & Hr0 & Hne). clear Hag.
  assert (nonM : existsb (on_col f false (col_m_empty_g MX)) (t_cols t) = false ->
          forall c v, In c (t_cols t) -> lookup (c_name c) f = Some v ->
            exists d, In d (col_cands c v) /\ representable c d = true /\ MX c v d = true).
  { intros Hm c v Hin E. assert (F := existsb_false_all _ _ _ c Hm Hin). unfold on_col in F. rewrite E in F.
    apply col_m_nonempty. exact F. }
  assert (nonW : existsb (on_col f false col_w_empty) (t_cols t) = false ->
          forall c v, In c (t_cols t) -> lookup (c_name c) f = Some v ->
            exists d, In d (col_cands c v) /\ representable c d = true /\ col_W c v d = true).
  { intros Hw c v Hin E. assert (F := existsb_false_all _ _ _ c Hw Hin). unfold on_col in F. rewrite E in F.
    apply col_w_nonempty. exact F. }
  assert (useM : conj_over MX t f (row_pick MX col_W t f) = true ->
                 conj_over col_W t f (row_pick MX col_W t f) = false ->
                 exists r, In r (witness_rows_g MX t f) /\ row_representable t r = true
                           /\ mm t f r <> is_tt (eval_simple (dfilter_of t f) r)).
  { intros H1 H2. exists (row_pick MX col_W t f). split; [left; reflexivity|]. split; [apply row_pick_rep; assumption|].
    rewrite mm_conj, where_conj, H1, H2. discriminate. }
  assert (useW : conj_over col_W t f (row_pick col_W MX t f) = true ->
                 conj_over MX t f (row_pick col_W MX t f) = false ->
                 exists r, In r (witness_rows_g MX t f) /\ row_representable t r = true
                           /\ mm t f r <> is_tt (eval_simple (dfilter_of t f) r)).
  { intros H1 H2. exists (row_pick col_W MX t f). split; [right; left; reflexivity|]. split; [apply row_pick_rep; assumption|].
    rewrite mm_conj, where_conj, H1, H2. discriminate. }
  destruct (existsb (on_col f false col_w_empty) (t_cols t)) eqn:Ew;
    destruct (existsb (on_col f false (col_m_empty_g MX)) (t_cols t)) eqn:Em.
  - discriminate.
  - (* some column selects nothing, the matcher accepts something in every column *)
    apply existsb_exists in Ew. destruct Ew as (c1 & Hin1 & Hw1). destruct (on_col_true_some _ _ _ Hw1) as (v1 & E1 & Hw).
    apply useM.
    + apply row_pick_P; [exact Hd|apply nonM; reflexivity].
    + apply (row_pick_notQ_empty MX col_W t f c1 v1 Hc Hd Hin1 E1).
      intros d Hr. apply col_w_empty_sound; [apply (column_ok_in t); assumption|exact Hw|exact Hr].
  - apply existsb_exists in Em. destruct Em as (c1 & Hin1 & Hm1). destruct (on_col_true_some _ _ _ Hm1) as (v1 & E1 & Hm).
    apply useW.
    + apply row_pick_P; [exact Hd|apply nonW; reflexivity].
    + apply (row_pick_notQ_empty col_W MX t f c1 v1 Hc Hd Hin1 E1).
      intros d Hr. apply col_m_empty_sound; [apply (column_ok_in t); assumption|exact Hm|exact Hr].
  - destruct (MX c0 v0 d0) eqn:M0; destruct (col_W c0 v0 d0) eqn:W0; try (exfalso; apply Hne; reflexivity).
    + apply useM.
      * apply row_pick_P; [exact Hd|apply nonM; reflexivity].
      * apply (row_pick_notQ_elem MX col_W t f c0 v0 d0); assumption.
    + apply useW.
      * apply row_pick_P; [exact Hd|apply nonW; reflexivity].
      * apply (row_pick_notQ_elem col_W MX t f c0 v0 d0); assumption.
Qed.

Lemma where_in_order_nil : forall cols, where_in_order cols [] = [].
Proof. induction cols as [|c cols IH]; [reflexivity|]. simpl. exact IH. Qed.

Lemma with_empty_filter_fetches_all : forall t f r, select_rows (batch_wclause t [f; []]) [r] = [r].
Proof.
  intros t f r. unfold batch_wclause, make_batch_query. cbn [map existsb].
  unfold dfilter_of at 2. rewrite where_in_order_nil. rewrite orb_true_r. reflexivity.
Qed.

(** A filter outside [filter_transparent], in the company of one empty filter, on a one-row table. *)
Theorem transparency_necessary : forall t f,
  columns_ok t = true -> cols_distinct t = true ->
  filter_comparable t f = true -> filter_transparent_g MX t f = false ->
  exists r, In r (witness_rows_g MX t f) /\ row_representable t r = true
            /\ hd [] (batched_results_g mm t [f; []] [r]) <> unbatched_result t f [r].
Proof.
  intros t f Hc Hd Hcmp Ht. destruct (witness_separates t f Hc Hd Hcmp Ht) as (r & Hin & Hr & Hne).
  exists r. split; [exact Hin|]. split; [exact Hr|].
  unfold batched_results_g. rewrite with_empty_filter_fetches_all. cbn [map hd List.filter].
  unfold unbatched_result, select_rows. cbn [List.filter eval_wclause].
  destruct (mm t f r); destruct (is_tt (eval_simple (dfilter_of t f) r));
    try discriminate; exfalso; apply Hne; reflexivity.
Qed.

Theorem transparency_exact : forall t f,
  table_ok t = true -> columns_ok t = true -> cols_distinct t = true -> filter_comparable t f = true ->
  (filter_transparent_g MX t f = true <->
   forall others contents, forallb (row_representable t) contents = true ->
     hd [] (batched_results_g mm t (f :: others) contents) = unbatched_result t f contents).
Proof.
  intros t f Ht Hc Hd Hcmp. split.
  - intros H others contents Hrep. unfold batched_results_g. cbn [map hd].
    apply batched_one_transparent; auto. left; reflexivity.
  - intros H. destruct (filter_transparent_g MX t f) eqn:E; [reflexivity|].
    destruct (transparency_necessary t f Hc Hd Hcmp E) as (r & _ & Hr & Hne).
    exfalso. apply Hne. apply H. cbn [forallb]. rewrite Hr. reflexivity.
Qed.

End Generic.

(** * The code as it is: [col_M] / [matcher_matches] *)
Lemma matcher_conj : forall t f r, matcher_matches t f r = conj_over col_M t f r.
Proof. reflexivity. Qed.

Lemma col_M_sub : forall c v d, col_M c v d = true -> col_M c v d = true.
Proof. auto. Qed.


Theorem cur_matcher_is_where : forall t f r,
  columns_ok t = true -> filter_transparent t f = true -> row_representable t r = true ->
  matcher_matches t f r = is_tt (eval_simple (dfilter_of t f) r).
Proof. exact (transparent_matcher_is_where col_M matcher_matches col_M_sub matcher_conj). Qed.

Theorem cur_one_transparent : forall t fs f contents,
  table_ok t = true -> columns_ok t = true -> In f fs ->
  filter_transparent t f = true ->
  forallb (row_representable t) contents = true ->
  List.filter (matcher_matches t f) (select_rows (batch_wclause t fs) contents) = unbatched_result t f contents.
Proof. exact (batched_one_transparent col_M matcher_matches col_M_sub matcher_conj). Qed.

Theorem cur_transparent_exact : forall t fs contents,
  table_ok t = true -> columns_ok t = true ->
  forallb (filter_transparent t) fs = true ->
  forallb (row_representable t) contents = true ->
  batched_results t fs contents = map (fun f => unbatched_result t f contents) fs.
Proof. exact (batched_transparent_exact col_M matcher_matches col_M_sub matcher_conj). Qed.

Theorem cur_transparent_exact_any_arrival : forall t fs arrival contents,
  table_ok t = true -> columns_ok t = true ->
  forallb (filter_transparent t) fs = true ->
  forallb (row_representable t) contents = true ->
  Forall (fun ir => snd ir = unbatched_result t (nth_filter fs (fst ir)) contents)
         (batched_by_arrival t fs arrival contents).
Proof. exact (batched_transparent_exact_any_arrival col_M matcher_matches col_M_sub matcher_conj). Qed.

Theorem cur_transparency_necessary : forall t f,
  columns_ok t = true -> cols_distinct t = true ->
  filter_comparable t f = true -> filter_transparent t f = false ->
  exists r, In r (witness_rows t f) /\ row_representable t r = true
            /\ hd [] (batched_results t [f; []] [r]) <> unbatched_result t f [r].
Proof. exact (transparency_necessary col_M matcher_matches col_M_sub matcher_conj). Qed.

Theorem cur_transparency_exact : forall t f,
  table_ok t = true -> columns_ok t = true -> cols_distinct t = true -> filter_comparable t f = true ->
  (filter_transparent t f = true <->
   forall others contents, forallb (row_representable t) contents = true ->
     hd [] (batched_results t (f :: others) contents) = unbatched_result t f contents).
Proof. exact (transparency_exact col_M matcher_matches col_M_sub matcher_conj). Qed.

(** * The earlier hypothesis implies the exact one *)
Lemma scalar_comparable : forall c v, scalar_typed (base_ty (c_ty c)) v = true -> comparable c (base_dval v) = true.
Proof.
  intros c v H. unfold comparable. destruct (base_ty (c_ty c)); destruct v; simpl in H; try discriminate; reflexivity.
Qed.

Lemma exactly_typed_comparable : forall c v,
  exactly_typed c v = true -> comparable c (valuer (c_implicitnull c) v) = true.
Proof.
  intros c v H. destruct (exactly_typed_shape _ _ H) as [fv Hc Hv _ _|a v' Hv _|v' Hv].
  - rewrite Hv. reflexivity.
  - rewrite (valuer_ptr_scalar _ _ (c_implicitnull c) a Hv).
    destruct (c_implicitnull c && is_zero v'); [reflexivity|apply scalar_comparable; exact Hv].
  - destruct (valuer_scalar _ _ (c_implicitnull c) Hv) as [E _]. rewrite E.
    destruct (c_implicitnull c && is_zero v'); [reflexivity|apply scalar_comparable; exact Hv].
Qed.

Theorem exactly_typed_transparent : forall t f,
  columns_ok t = true -> filter_exactly_typed t f = true -> filter_transparent t f = true.
Proof.
  intros t f Hc H. unfold filter_exactly_typed in H. rewrite forallb_forall in H.
  unfold filter_transparent, filter_transparent_g, filter_comparable. apply andb_true_intro. split.
  - apply forallb_forall. intros c Hin. specialize (H c Hin). unfold on_col.
    destruct (lookup (c_name c) f) as [v|]; [|reflexivity]. apply exactly_typed_comparable. exact H.
  - apply orb_true_intro. left. apply forallb_forall. intros c Hin. specialize (H c Hin). unfold on_col.
    destruct (lookup (c_name c) f) as [v|]; [|reflexivity]. apply (col_agrees_complete col_M). intros d Hr.
    exact (column_match c v d (column_ok_in t c Hc Hin) H Hr).
Qed.



(** * The repaired code (C10-fix-2): [col_Mf] / [matcher_matches_fixed] *)
Lemma forallb_andb : forall (A : Type) (p q : A -> bool) l,
  forallb p l && forallb q l = forallb (fun x => p x && q x) l.
Proof.
  intros A p q l. induction l as [|x l IH]; [reflexivity|]. cbn [forallb]. rewrite <- IH.
  destruct (p x), (q x), (forallb p l), (forallb q l); reflexivity.
Qed.

Lemma forallb_ext_all : forall (A : Type) (p q : A -> bool) l, (forall x, p x = q x) -> forallb p l = forallb q l.
Proof. intros A p q l H. induction l as [|x l IH]; [reflexivity|]. cbn [forallb]. rewrite H, IH. reflexivity. Qed.

Lemma fixed_conj : forall t f r, matcher_matches_fixed t f r = conj_over col_Mf t f r.
Proof.
  intros t f r. unfold matcher_matches_fixed, matcher_matches, tester_test, conj_over. rewrite forallb_andb.
  apply forallb_ext_all. intros c. unfold on_col. destruct (lookup (c_name c) f); reflexivity.
Qed.

Lemma col_Mf_sub : forall c v d, col_Mf c v d = true -> col_M c v d = true.
Proof. intros c v d H. unfold col_Mf in H. apply andb_prop in H. exact (proj1 H). Qed.

(** What a representable stored value serializes to after a round trip through the struct field. *)
Definition canon (bt : gty) (d : dval) : dval :=
  match bt, d with
  | TyBool, DInt z => DBool (negb (Z.eqb z 0))
  | _, _ => d
  end.

Lemma is_zero_field : forall bt d, is_bytes_ty bt = false -> class_ok bt d = true ->
  is_zero (field_value bt d) = dval_is_zero d.
Proof.
  intros bt d Hb H. destruct bt as [k n|n| | | |bt']; try discriminate; destruct d; cbn [class_ok] in H; try discriminate;
    cbn [field_value is_zero dval_is_zero]; try reflexivity.
  - rewrite (wrap_kind_id _ _ H). reflexivity.
  - apply negb_involutive.
Qed.

Lemma implicitnull_not_bytes : forall c, column_ok c = true -> c_implicitnull c = true -> is_bytes_ty (c_ty c) = false.
Proof.
  intros c H Hi. unfold column_ok in H. rewrite Hi in H. apply andb_prop in H. destruct H as [H _].
  cbn [andb] in H. apply negb_true_iff in H. apply orb_false_elim in H. exact (proj2 H).
Qed.

Lemma base_field : forall bt d, class_ok bt d = true -> base_dval (field_value bt d) = canon bt d.
Proof.
  intros bt d H. destruct bt as [k n|n| | | |bt']; destruct d; cbn [class_ok] in H; try discriminate;
    cbn [field_value base_dval canon]; try reflexivity.
  rewrite (wrap_kind_id _ _ H), (wrap64_id _ _ H). reflexivity.
Qed.

Lemma canon_null : forall bt, canon bt DNull = DNull.
Proof. destruct bt; reflexivity. Qed.

Lemma valuer_nonptr_field : forall bt i d, is_ptr_ty bt = false -> class_ok bt d = true ->
  valuer i (field_value bt d) = if i && is_zero (field_value bt d) then DNull else base_dval (field_value bt d).
Proof.
  intros bt i d Hb Hc. destruct bt as [k n|n| | | |bt']; try discriminate; destruct d; cbn [class_ok] in Hc; try discriminate; reflexivity.
Qed.

Lemma valuer_ptr_field : forall bt d a, valuer false (GPtr a (field_value bt d)) = base_dval (field_value bt d).
Proof. intros bt d a. destruct bt; destruct d; reflexivity. Qed.

Lemma valuer_field : forall c d, column_ok c = true -> representable c d = true ->
  valuer (c_implicitnull c) (field_value (c_ty c) d) = canon (base_ty (c_ty c)) d.
Proof.
  intros c d Hc Hr. destruct (column_shape c Hc) as [Hb Hs].
  destruct (dval_eqb d DNull) eqn:Ed.
  - apply dval_eqb_eq in Ed. subst d. rewrite canon_null. unfold representable in Hr.
    destruct Hs as [E|[E Hi]].
    + rewrite <- E in Hb. rewrite Hb in Hr. cbn [orb] in Hr.
      destruct (c_ty c) as [k n|n| | | |bt']; try discriminate; cbn [field_value valuer is_zero is_bytes_ty] in *;
        try (rewrite orb_false_r in Hr; rewrite Hr; cbn [andb]; try rewrite Z.eqb_refl; reflexivity);
        reflexivity.
    + rewrite E. reflexivity.
  - assert (Hd : d <> DNull) by (intros ->; discriminate).
    assert (Hcls := rep_nonnull_class c d Hr Hd).
    assert (Hnz : c_implicitnull c && dval_is_zero d = false).
    { unfold representable in Hr. destruct d; try contradiction; apply andb_prop in Hr; destruct Hr as [Hr _];
        apply negb_true_iff in Hr; exact Hr. }
    destruct Hs as [E|[E Hi]].
    + replace (field_value (c_ty c) d) with (field_value (base_ty (c_ty c)) d) by (rewrite <- E; reflexivity).
      rewrite (valuer_nonptr_field _ _ _ Hb Hcls).
      assert (Hz : c_implicitnull c && is_zero (field_value (base_ty (c_ty c)) d) = false).
      { destruct (c_implicitnull c) eqn:Ei; [|reflexivity]. cbn [andb] in *.
        assert (Hnb := implicitnull_not_bytes c Hc Ei). rewrite E in Hnb.
        rewrite (is_zero_field _ _ Hnb Hcls). exact Hnz. }
      rewrite Hz. apply base_field. exact Hcls.
    + rewrite E, Hi. cbn [field_value]. destruct d; try contradiction; rewrite valuer_ptr_field; apply base_field; exact Hcls.
Qed.

(** The tester is sound for SQL: a representable stored value it accepts is one the caller's own atom selects. *)
Lemma col_T_W : forall c v d, column_ok c = true -> representable c d = true -> col_T c v d = true -> col_W c v d = true.
Proof.
  intros c v d Hc Hr H. unfold col_T in H. rewrite (valuer_field c d Hc Hr) in H. apply dval_eqb_eq in H.
  unfold col_W. rewrite H.
  destruct (dval_eqb d DNull) eqn:Ed.
  - apply dval_eqb_eq in Ed. subst d. rewrite canon_null. reflexivity.
  - assert (Hd : d <> DNull) by (intros ->; discriminate).
    assert (Hcls := rep_nonnull_class c d Hr Hd).
    destruct (base_ty (c_ty c)) as [k n|n| | | |bt']; destruct d; cbn [class_ok] in Hcls; try discriminate;
      cbn [canon atom_of sql_eq num_of text_of is_tt]; try rewrite Z.eqb_refl; try rewrite String.eqb_refl; try reflexivity.
    apply orb_prop in Hcls. destruct Hcls as [E|E]; apply Z.eqb_eq in E; subst; reflexivity.
Qed.

(** Soundness of the repaired batch function, for EVERY filter (no hypothesis on the Go types of its values):
    a row handed to a caller is a row of the caller's own query. *)
Theorem fixed_matcher_implies_where : forall t f r,
  columns_ok t = true -> row_representable t r = true ->
  matcher_matches_fixed t f r = true -> is_tt (eval_simple (dfilter_of t f) r) = true.
Proof.
  intros t f r Hc Hr H. rewrite fixed_conj in H. rewrite where_conj. unfold conj_over in *.
  rewrite forallb_forall in H. apply forallb_forall. intros c Hin. specialize (H c Hin). unfold on_col in *.
  destruct (lookup (c_name c) f) as [v|]; [|reflexivity].
  unfold col_Mf in H. apply andb_prop in H. destruct H as [_ H].
  apply col_T_W; [apply (column_ok_in t); assumption|apply (rep_cell t); assumption|exact H].
Qed.

Theorem fixed_never_hands_foreign_rows : forall t fs f contents,
  table_ok t = true -> columns_ok t = true -> In f fs ->
  forallb (row_representable t) contents = true ->
  List.filter (matcher_matches_fixed t f) (select_rows (batch_wclause t fs) contents)
  = List.filter (matcher_matches_fixed t f) (unbatched_result t f contents).
Proof.
  intros t fs f contents Ht Hc Hf Hrep. unfold unbatched_result, select_rows.
  rewrite forallb_forall in Hrep.
  induction contents as [|r contents IH]; [reflexivity|].
  assert (Hr : row_representable t r = true) by (apply Hrep; left; reflexivity).
  assert (IH' := IH (fun x Hx => Hrep x (or_intror Hx))). clear IH.
  cbn [List.filter eval_wclause].
  destruct (is_tt (eval_simple (dfilter_of t f) r)) eqn:Es.
  - rewrite (batch_clause_covers t fs f r Ht Hf (is_tt_true _ Es)). cbn [is_tt List.filter]. rewrite IH'. reflexivity.
  - assert (Hm : matcher_matches_fixed t f r = false).
    { destruct (matcher_matches_fixed t f r) eqn:Em; [|reflexivity].
      rewrite (fixed_matcher_implies_where t f r Hc Hr Em) in Es. discriminate. }
    destruct (is_tt (eval_wclause (batch_wclause t fs) r)); [cbn [List.filter]; rewrite Hm|]; exact IH'.
Qed.

Lemma filter_sub : forall (A : Type) (p : A -> bool) l x, In x (List.filter p l) -> In x l.
Proof. intros A p l x H. apply filter_In in H. exact (proj1 H). Qed.

Corollary fixed_rows_are_own_rows : forall t fs f contents r,
  table_ok t = true -> columns_ok t = true -> In f fs ->
  forallb (row_representable t) contents = true ->
  In r (List.filter (matcher_matches_fixed t f) (select_rows (batch_wclause t fs) contents)) ->
  In r (unbatched_result t f contents).
Proof.
  intros t fs f contents r Ht Hc Hf Hrep Hin. rewrite (fixed_never_hands_foreign_rows t fs f contents Ht Hc Hf Hrep) in Hin.
  exact (filter_sub _ _ _ _ Hin).
Qed.

(** The exact domain of full transparency for the repaired code. *)
Theorem fix_one_transparent : forall t fs f contents,
  table_ok t = true -> columns_ok t = true -> In f fs ->
  filter_transparent_fixed t f = true ->
  forallb (row_representable t) contents = true ->
  List.filter (matcher_matches_fixed t f) (select_rows (batch_wclause t fs) contents) = unbatched_result t f contents.
Proof. exact (batched_one_transparent col_Mf matcher_matches_fixed col_Mf_sub fixed_conj). Qed.

Theorem fix_transparent_exact : forall t fs contents,
  table_ok t = true -> columns_ok t = true ->
  forallb (filter_transparent_fixed t) fs = true ->
  forallb (row_representable t) contents = true ->
  batched_results_fixed t fs contents = map (fun f => unbatched_result t f contents) fs.
Proof. exact (batched_transparent_exact col_Mf matcher_matches_fixed col_Mf_sub fixed_conj). Qed.

Theorem fix_transparency_necessary : forall t f,
  columns_ok t = true -> cols_distinct t = true ->
  filter_comparable t f = true -> filter_transparent_fixed t f = false ->
  exists r, In r (witness_rows_fixed t f) /\ row_representable t r = true
            /\ hd [] (batched_results_fixed t [f; []] [r]) <> unbatched_result t f [r].
Proof. exact (transparency_necessary col_Mf matcher_matches_fixed col_Mf_sub fixed_conj). Qed.

Theorem fix_transparency_exact : forall t f,
  table_ok t = true -> columns_ok t = true -> cols_distinct t = true -> filter_comparable t f = true ->
  (filter_transparent_fixed t f = true <->
   forall others contents, forallb (row_representable t) contents = true ->
     hd [] (batched_results_fixed t (f :: others) contents) = unbatched_result t f contents).
Proof. exact (transparency_exact col_Mf matcher_matches_fixed col_Mf_sub fixed_conj). Qed.

(** The repair takes nothing away from the filters of the earlier hypothesis: on an exactly typed filter the
    tester accepts whatever the matcher accepts. *)
Lemma scalar_W_T : forall bt v d,
  scalar_typed bt v = true -> class_ok bt d = true ->
  is_tt (sql_eq d (base_dval v)) = true -> canon bt d = base_dval v.
Proof.
  intros bt v d Ht Hc H.
  destruct bt as [k n|n| | | |bt']; destruct v; simpl in Ht; try discriminate;
    destruct d; cbn [class_ok] in Hc; try discriminate;
    cbn [sql_eq base_dval num_of text_of is_tt canon] in H |- *.
  - apply andb_prop in Ht. destruct Ht as [_ Hz]. rewrite (wrap64_id _ _ Hz) in *.
    rewrite eqb4 in H. destruct (z0 =? z)%Z eqn:E; [apply Z.eqb_eq in E; subst; reflexivity|discriminate].
  - destruct (String.eqb s0 s) eqn:E; [apply String.eqb_eq in E; subst; reflexivity|discriminate].
  - apply orb_prop in Hc. destruct Hc as [E|E]; apply Z.eqb_eq in E; subst; destruct b; try discriminate; reflexivity.
  - destruct (q0 =? q)%Z eqn:E; [apply Z.eqb_eq in E; subst; reflexivity|discriminate].
  - destruct (String.eqb s0 s) eqn:E; [apply String.eqb_eq in E; subst; reflexivity|discriminate].
Qed.

Lemma dval_eqb_refl : forall d, dval_eqb d d = true.
Proof. destruct d; cbn [dval_eqb]; try reflexivity; try apply Z.eqb_refl; try apply String.eqb_refl. destruct b; reflexivity. Qed.

Lemma exactly_typed_W_T : forall c v d,
  column_ok c = true -> exactly_typed c v = true -> representable c d = true ->
  col_W c v d = true -> col_T c v d = true.
Proof.
  intros c v d Hc Ht Hr Hw. unfold col_T. rewrite (valuer_field c d Hc Hr).
  unfold col_W in Hw.
  destruct (dval_eqb d DNull) eqn:Ed.
  - apply dval_eqb_eq in Ed. subst d. rewrite canon_null.
    destruct (valuer (c_implicitnull c) v); try reflexivity; discriminate.
  - assert (Hd : d <> DNull) by (intros ->; discriminate).
    assert (Hcls := rep_nonnull_class c d Hr Hd).
    assert (Hsc : forall v', scalar_typed (base_ty (c_ty c)) v' = true ->
              is_tt (atom_of d (base_dval v')) = true -> dval_eqb (base_dval v') (canon (base_ty (c_ty c)) d) = true).
    { intros v' Hv Ha. change (atom_of d (base_dval v')) with (atom_value d (base_dval v')) in Ha.
      rewrite atom_nonnull in Ha by (eapply base_dval_nonnull; exact Hv).
      rewrite (scalar_W_T _ _ _ Hv Hcls Ha). apply dval_eqb_refl. }
    destruct (exactly_typed_shape _ _ Ht) as [fv Hco Hv _ _|a v' Hv Hz|v' Hv].
    + rewrite Hv in Hw. cbn [atom_of] in Hw. destruct d; discriminate.
    + rewrite (valuer_ptr_scalar _ _ (c_implicitnull c) a Hv), Hz in *. apply Hsc; assumption.
    + destruct (valuer_scalar _ _ (c_implicitnull c) Hv) as [E _]. rewrite E in *.
      destruct (c_implicitnull c && is_zero v').
      * cbn [atom_of] in Hw. destruct d; discriminate.
      * apply Hsc; assumption.
Qed.

Theorem fix_keeps_exactly_typed : forall t f r,
  columns_ok t = true -> filter_exactly_typed t f = true -> row_representable t r = true ->
  matcher_matches_fixed t f r = matcher_matches t f r.
Proof.
  intros t f r Hc Ht Hr. unfold matcher_matches_fixed.
  destruct (matcher_matches t f r) eqn:Em; [|reflexivity]. cbn [andb].
  assert (Hw := Em). rewrite (matcher_is_where t f r Hc Ht Hr), where_conj in Hw.
  unfold tester_test. unfold conj_over in Hw. rewrite forallb_forall in Hw. apply forallb_forall. intros c Hin.
  specialize (Hw c Hin). unfold on_col in Hw. unfold filter_exactly_typed in Ht. rewrite forallb_forall in Ht. specialize (Ht c Hin).
  destruct (lookup (c_name c) f) as [v|]; [|reflexivity].
  apply (exactly_typed_W_T c v _ (column_ok_in t c Hc Hin) Ht (rep_cell t r c Hr Hin) Hw).
Qed.

Theorem exactly_typed_transparent_fixed : forall t f,
  columns_ok t = true -> filter_exactly_typed t f = true -> filter_transparent_fixed t f = true.
Proof.
  intros t f Hc H. unfold filter_exactly_typed in H. rewrite forallb_forall in H.
  unfold filter_transparent_fixed, filter_transparent_g, filter_comparable. apply andb_true_intro. split.
  - apply forallb_forall. intros c Hin. specialize (H c Hin). unfold on_col.
    destruct (lookup (c_name c) f) as [v|]; [|reflexivity]. apply exactly_typed_comparable. exact H.
  - apply orb_true_intro. left. apply forallb_forall. intros c Hin. specialize (H c Hin). unfold on_col.
    destruct (lookup (c_name c) f) as [v|]; [|reflexivity]. apply (col_agrees_complete col_Mf). intros d Hr.
    assert (Hok := column_ok_in t c Hc Hin).
    assert (Hm : col_M c v d = col_W c v d) by exact (column_match c v d Hok H Hr).
    unfold col_Mf. rewrite Hm. destruct (col_W c v d) eqn:Ew; [|reflexivity].
    rewrite (exactly_typed_W_T c v d Hok H Hr Ew). reflexivity.
Qed.
