(** C12: proofs about Sql/Methods.v -- every exported method of sqlgen.DB is confined, the generated table of
    methods is covered by the model, handles derived by With* calls never lose a limit. *)
From Coq Require Import List ZArith String Bool Lia.
From Thunder Require Import Sql.Model Sql.Confine Sql.Methods Gen.DbMethods.
Import ListNotations.
Open Scope string_scope.

Definition xevent_confined (t : table) (l : filter) (e : xevent) : Prop :=
  match e with XEv e => event_confined t l e | XExplain s => confined t l s end.

Lemma Forall_map_XEv : forall t l ev, Forall (event_confined t l) ev -> Forall (xevent_confined t l) (map XEv ev).
Proof. intros t l ev H. induction H; constructor; assumption. Qed.

Lemma Forall_explain : forall t l ev, Forall (event_confined t l) ev ->
  Forall (xevent_confined t l) (flat_map (fun e => match e with EStmt s => [XExplain s; XEv e] | _ => [XEv e] end) ev).
Proof.
  intros t l ev H. induction H as [|e ev He _ IH]; [constructor|]. cbn [flat_map].
  destruct e; cbn [app]; repeat constructor; try assumption; exact He.
Qed.

Lemma base_query_confined : forall x t c f o l,
  op_wfb (x_h x) t (OQuery f (stmt_opts o)) = true -> In l (enforced_limits (x_h x)) ->
  Forall (xevent_confined t l) (fst (base_query x t c f o)).
Proof.
  intros x t c f o l Hwf Hl. unfold base_query. cbn [fst].
  assert (H := c12_confined_b (x_h x) t c (OQuery f (stmt_opts o)) _ _ l Hwf (surjective_pairing _) Hl).
  destruct (x_explain x && _ && _); [apply Forall_explain|apply Forall_map_XEv]; exact H.
Qed.

(** Whatever any exported method of a limited handle sends to the database is confined to every enforced
    limit -- the EXPLAIN of a statement included. *)
Theorem run_call_confined : forall x t c cl l,
  call_wfb x t cl = true -> In l (enforced_limits (x_h x)) ->
  Forall (xevent_confined t l) (fst (run_call x t c cl)).
Proof.
  intros x t c cl l Hwf Hl. unfold call_wfb in Hwf.
  destruct cl; cbn [op_of_call] in Hwf; cbn [run_call];
    try (apply base_query_confined; assumption);
    try (unfold lift; cbn [fst]; apply Forall_map_XEv;
         eapply c12_confined_b; [exact Hwf|apply surjective_pairing|exact Hl]);
    try (cbn [fst]; constructor).
  destruct (in_tx c); cbn [fst]; repeat constructor.
Qed.

(** A row-level call that does not comply is refused; a single-statement method sends nothing at all (no
    EXPLAIN either), a bulk method never commits. *)
Theorem run_call_noncomplying : forall x t c cl o l,
  op_of_call cl = Some o -> op_wfb (x_h x) t o = true -> In l (enforced_limits (x_h x)) ->
  ~ Forall (event_confined t l) (fst (run no_limits t c o)) ->
  snd (run_call x t c cl) <> 0
  /\ (single_statement o -> fst (run_call x t c cl) = [])
  /\ ~ In (XEv ECommit) (fst (run_call x t c cl)).
Proof.
  intros x t c cl o l Ho Hwf Hl Hn.
  destruct (c12_noncomplying_b (x_h x) t c o l Hwf Hl Hn) as (H1 & H2 & H3).
  assert (Hcode : code_of (snd (run (x_h x) t c o)) <> 0) by (destruct (snd (run (x_h x) t c o)); [contradiction|discriminate..]).
  assert (Hlift : snd (lift (run (x_h x) t c o)) <> 0
                  /\ (single_statement o -> fst (lift (run (x_h x) t c o)) = [])
                  /\ ~ In (XEv ECommit) (fst (lift (run (x_h x) t c o)))).
  { unfold lift. cbn [fst snd]. split; [exact Hcode|]. split.
    - intros Hs. rewrite (H2 Hs). reflexivity.
    - intros Hin. apply in_map_iff in Hin. destruct Hin as (e & He & Hin). inversion He; subst. exact (H3 Hin). }
  assert (Hbq : forall f co, o = OQuery f (stmt_opts co) ->
                  snd (base_query x t c f co) <> 0
                  /\ (single_statement o -> fst (base_query x t c f co) = [])
                  /\ ~ In (XEv ECommit) (fst (base_query x t c f co))).
  { intros f co ->. unfold base_query. cbn [fst snd]. rewrite (H2 I). split; [exact Hcode|].
    split; [intros _|]; destruct (x_explain x && _ && _); cbn; auto. }
  destruct cl; cbn [op_of_call] in Ho; try discriminate; inversion Ho; subst o; clear Ho; cbn [run_call];
    try exact Hlift; try (apply Hbq; reflexivity).
Qed.

(** ** The table of access kinds is what [run_call] does *)
Lemma run_chunks_events : forall h mk cvs_of cs,
  Forall (fun e => exists ch, e = EStmt (mk ch)) (fst (run_chunks h mk cvs_of cs)).
Proof.
  intros h mk cvs_of cs. induction cs as [|ch cs IH]; [constructor|]. cbn [run_chunks].
  destruct (forallb _ ch); [|constructor].
  destruct (run_chunks h mk cvs_of cs) as [ev out]. cbn [fst] in *. constructor; [exists ch; reflexivity|exact IH].
Qed.

Lemma in_own_tx_allowed : forall a c body,
  (let '(_, _, tx) := a in tx = true) ->
  forallb (xevent_allowed a) (map XEv (fst body)) = true ->
  forallb (xevent_allowed a) (map XEv (fst (in_own_tx c body))) = true.
Proof.
  intros [[q w] tx] c [ev out] Htx H. subst tx. unfold in_own_tx. destruct (in_tx c); [exact H|].
  cbn [fst] in H.
  destruct out; cbn [fst map forallb xevent_allowed]; rewrite map_app, forallb_app, H; reflexivity.
Qed.

Lemma chunks_allowed : forall q h mk cvs_of cs,
  (forall ch, stmt_is_read (mk ch) = false) ->
  forallb (xevent_allowed (q, true, true)) (map XEv (fst (run_chunks h mk cvs_of cs))) = true.
Proof.
  intros q h mk cvs_of cs Hmk. assert (H := run_chunks_events h mk cvs_of cs).
  induction H as [|e ev (ch & ->) _ IH]; [reflexivity|]. cbn [map forallb xevent_allowed]. rewrite (Hmk ch). exact IH.
Qed.

Lemma guarded_write_allowed : forall q tx h cvs s,
  stmt_is_read s = false ->
  forallb (xevent_allowed (q, true, tx)) (map XEv (fst (guarded_write h cvs s))) = true.
Proof.
  intros q tx h cvs s Hs. unfold guarded_write. destruct (check_values_limits h cvs); [|reflexivity].
  cbn [fst map forallb xevent_allowed]. rewrite Hs. reflexivity.
Qed.

Lemma query_events_read : forall h t c f o,
  Forall (fun e => exists s, e = EStmt s /\ stmt_is_read s = true) (fst (run h t c (OQuery f o))).
Proof.
  intros h t c f o. cbn [run]. destruct (make_where t f); [|constructor].
  destruct (check_filter_limits h f); [|constructor].
  destruct o; [repeat constructor; eexists; split; reflexivity|].
  destruct (negb (in_tx c) && batching c); repeat constructor; eexists; (split; [reflexivity|]); [|reflexivity].
  unfold batch_stmt. destruct (make_batch_query _); reflexivity.
Qed.

Lemma base_query_allowed : forall w tx x t c f o,
  forallb (xevent_allowed (true, w, tx)) (fst (base_query x t c f o)) = true.
Proof.
  intros w tx x t c f o. unfold base_query. cbn [fst].
  assert (H := query_events_read (x_h x) t c f (stmt_opts o)).
  destruct (x_explain x && _ && _).
  - induction H as [|e ev (s & -> & Hs) _ IH]; [reflexivity|].
    cbn [flat_map app forallb xevent_allowed]. rewrite Hs. exact IH.
  - induction H as [|e ev (s & -> & Hs) _ IH]; [reflexivity|].
    cbn [map forallb xevent_allowed]. rewrite Hs. exact IH.
Qed.

Theorem method_access_sound : forall x t c cl,
  forallb (xevent_allowed (access_of (call_name cl))) (fst (run_call x t c cl)) = true.
Proof.
  intros x t c cl.
  destruct cl; cbn [call_name run_call]; unfold access_of; cbn [lookup method_access String.eqb Ascii.eqb Bool.eqb];
    try apply base_query_allowed; try reflexivity; unfold lift; cbn [fst run].
  - (* Count *)
    destruct (make_where t f); [|reflexivity]. destruct (check_filter_limits (x_h x) f); reflexivity.
  - apply guarded_write_allowed. reflexivity.
  - apply guarded_write_allowed. reflexivity.
  - (* InsertRows *)
    destruct chunk.
    + apply (in_own_tx_allowed (false, true, true)); [reflexivity|]. destruct rs; reflexivity.
    + apply (in_own_tx_allowed (false, true, true)); [reflexivity|]. apply chunks_allowed. reflexivity.
  - apply guarded_write_allowed. reflexivity.
  - destruct (t_auto t); [reflexivity|]. apply guarded_write_allowed. reflexivity.
  - destruct chunk.
    + apply (in_own_tx_allowed (false, true, true)); [reflexivity|]. destruct rs; reflexivity.
    + destruct (t_auto t).
      * apply (in_own_tx_allowed (false, true, true)); [reflexivity|]. destruct rs; reflexivity.
      * apply (in_own_tx_allowed (false, true, true)); [reflexivity|]. apply chunks_allowed. reflexivity.
  - destruct (in_tx c); reflexivity.
Qed.

(** ** Every exported method found in the source that can reach the database is in the model *)
Lemma access_eqb_eq : forall a b, access_eqb a b = true -> a = b.
Proof.
  intros [[a1 a2] a3] [[b1 b2] b3] H. unfold access_eqb in H.
  apply andb_prop in H. destruct H as [H H3]. apply andb_prop in H. destruct H as [H1 H2].
  apply eqb_prop in H1. apply eqb_prop in H2. apply eqb_prop in H3. subst. reflexivity.
Qed.

Lemma call_of_name : forall m, In m all_call_names -> exists cl, call_name cl = m.
Proof.
  intros m H. cbv [all_call_names method_access map fst] in H.
  repeat (destruct H as [<-|H];
          [first [exists (CBaseQuery [] None); reflexivity | exists (CCount []); reflexivity
                 | exists (CDeleteRow []); reflexivity | exists (CFullScanQuery [] None); reflexivity
                 | exists CHasTx; reflexivity | exists (CInsertRow []); reflexivity
                 | exists (CInsertRows [] 0); reflexivity | exists (CQuery [] None); reflexivity
                 | exists CQueryExecer; reflexivity | exists (CQueryRow [] None); reflexivity
                 | exists (CUpdateRow []); reflexivity | exists (CUpsertRow []); reflexivity
                 | exists (CUpsertRows [] 0); reflexivity | exists (CWithDynamicLimit None false false); reflexivity
                 | exists CWithExistingTx; reflexivity | exists CWithPanicOnNoIndex; reflexivity
                 | exists (CWithShardLimit []); reflexivity | exists CWithTx; reflexivity]|]).
  contradiction.
Qed.

Lemma name_of_call : forall cl, In (call_name cl) all_call_names.
Proof. intros cl. destruct cl; cbv [call_name all_call_names method_access map fst In]; repeat first [left; reflexivity | right]. Qed.

(** For ANY extracted table the evaluator accepts ([methods_covered], evaluated on the run's own extraction):
    every extracted method that can reach the database is a constructor of [call] with that kind of access, so
    the confinement theorem speaks about it; every constructor of [call] is an extracted method; and the methods
    left over reach no database call at all. *)
Theorem covered_table_is_modelled : forall gen,
  methods_covered gen = true ->
  (forall m a, In (m, a) gen -> a <> (false, false, false) ->
     (exists cl, call_name cl = m) /\ access_of m = a)
  /\ (forall cl, In (call_name cl) (map fst gen))
  /\ (forall m, In m (methods_without_access gen) -> In (m, (false, false, false)) gen).
Proof.
  intros gen H. unfold methods_covered in H. apply andb_prop in H. destruct H as [Ha Hb].
  rewrite forallb_forall in Ha. rewrite forallb_forall in Hb. split; [|split].
  - intros m a Hin Hne. specialize (Ha (m, a) Hin). cbn [fst snd] in Ha.
    destruct (lookup m method_access) as [a'|] eqn:E.
    + apply access_eqb_eq in Ha. subst a'. split.
      * apply call_of_name. unfold all_call_names. apply in_map_iff. exists (m, a). split; [reflexivity|apply lookup_In; exact E].
      * unfold access_of. rewrite E. reflexivity.
    + unfold no_access in Ha. apply access_eqb_eq in Ha. contradiction.
  - intros cl. specialize (Hb _ (name_of_call cl)). apply existsb_exists in Hb. destruct Hb as (x & Hx & Ex).
    apply String.eqb_eq in Ex. subst x. exact Hx.
  - intros m Hin. unfold methods_without_access in Hin. apply in_map_iff in Hin. destruct Hin as ([m' a] & <- & Hf).
    apply filter_In in Hf. destruct Hf as [Hin Hp]. cbn [fst snd] in *.
    destruct (lookup m' method_access); [discriminate|]. unfold no_access in Hp. apply access_eqb_eq in Hp. subst a. exact Hin.
Qed.

(** The snapshot of the table committed with the model (Gen/DbMethods.v, refreshed with tools/gensqlmethods) is
    covered; every run checks its own extraction. *)
Theorem snapshot_methods_covered : methods_covered db_methods = true /\ db_methods_problem = false.
Proof. split; vm_compute; reflexivity. Qed.

(** ** Handles derived by With* calls never lose a limit *)
Definition xwf (x : xhandle) : Prop := x_has_dyn x = false -> h_dyn (x_h x) = None.

Lemma apply_step_keeps : forall x s x', xwf x -> apply_step x s = Some x' ->
  xwf x' /\ incl (enforced_limits (x_h x)) (enforced_limits (x_h x'))
  /\ (forall l, h_shard (x_h x) = Some l -> h_shard (x_h x') = Some l).
Proof.
  intros x s x' Hwf H. destruct s as [l|d cb cont|]; cbn [apply_step] in H.
  - unfold with_shard_limit in H. destruct (h_shard (x_h x)) eqn:Es; [discriminate|]. inversion H; subst x'; clear H.
    cbn [x_h x_has_dyn]. split; [exact Hwf|]. split; [|intros l0 Hl0; discriminate].
    unfold enforced_limits, dyn_enforced. cbn [h_shard h_dyn h_dyn_cb h_dyn_continue]. rewrite Es.
    intros y Hy. right. exact Hy.
  - unfold with_dynamic_limit in H. destruct (x_has_dyn x) eqn:Ed; [discriminate|]. inversion H; subst x'; clear H.
    cbn [x_h x_has_dyn]. split; [intros F; discriminate|]. split; [|intros l0 Hl0; exact Hl0].
    unfold enforced_limits, dyn_enforced. cbn [h_shard h_dyn h_dyn_cb h_dyn_continue]. rewrite (Hwf Ed).
    intros y Hy. rewrite app_nil_r in Hy. apply in_or_app. left. exact Hy.
  - unfold with_panic_on_no_index in H. destruct (x_explain x); [discriminate|]. inversion H; subst x'; clear H.
    cbn [x_h x_has_dyn]. split; [exact Hwf|]. split; [apply incl_refl|auto].
Qed.

Theorem derive_keeps_limits : forall steps x, xwf x ->
  xwf (fst (derive x steps))
  /\ incl (enforced_limits (x_h x)) (enforced_limits (x_h (fst (derive x steps))))
  /\ (forall l, h_shard (x_h x) = Some l -> h_shard (x_h (fst (derive x steps))) = Some l).
Proof.
  induction steps as [|s steps IH]; intros x Hwf; cbn [derive].
  - split; [exact Hwf|]. split; [apply incl_refl|auto].
  - destruct (apply_step x s) as [x'|] eqn:E.
    + destruct (apply_step_keeps x s x' Hwf E) as (Hwf' & Hi & Hs).
      destruct (IH x' Hwf') as (Hw2 & Hi2 & Hs2). destruct (derive x' steps) as [y r]. cbn [fst] in *.
      split; [exact Hw2|]. split; [eapply incl_tran; eassumption|]. intros l Hl. apply Hs2. apply Hs. exact Hl.
    + destruct (IH x Hwf) as (Hw2 & Hi2 & Hs2). destruct (derive x steps) as [y r]. cbn [fst] in *. auto.
Qed.

(** A step that is accepted adds its limit. *)
Lemma shard_step_adds : forall x l x', with_shard_limit x l = Some x' -> In l (enforced_limits (x_h x')).
Proof.
  intros x l x' H. unfold with_shard_limit in H. destruct (h_shard (x_h x)); [discriminate|]. inversion H; subst.
  unfold enforced_limits. cbn [x_h h_shard]. left. reflexivity.
Qed.

Lemma dyn_step_adds : forall x l x', with_dynamic_limit x (Some l) true false = Some x' -> In l (enforced_limits (x_h x')).
Proof.
  intros x l x' H. unfold with_dynamic_limit in H. destruct (x_has_dyn x); [discriminate|]. inversion H; subst.
  unfold enforced_limits, dyn_enforced. cbn [x_h h_dyn h_dyn_cb h_dyn_continue andb negb]. apply in_or_app. right. left. reflexivity.
Qed.

(** Every call on every handle derived from a limited handle stays confined to the limits of the original. *)
Theorem derived_call_confined : forall x steps t c cl l,
  xwf x -> call_wfb (fst (derive x steps)) t cl = true -> In l (enforced_limits (x_h x)) ->
  Forall (xevent_confined t l) (fst (run_call (fst (derive x steps)) t c cl)).
Proof.
  intros x steps t c cl l Hwf Hc Hl. apply run_call_confined; [exact Hc|].
  destruct (derive_keeps_limits steps x Hwf) as (_ & Hi & _). apply Hi. exact Hl.
Qed.

Theorem derive_keeps_limits_only : forall steps x, xwf x ->
  incl (enforced_limits (x_h x)) (enforced_limits (x_h (fst (derive x steps))))
  /\ (forall l, h_shard (x_h x) = Some l -> h_shard (x_h (fst (derive x steps))) = Some l).
Proof. intros steps x H. exact (proj2 (derive_keeps_limits steps x H)). Qed.

