(** The row codec with concrete times (C13): the time fields of [env] are the Gallina functions of
    Sql/TimeText.v, so the only hypotheses left on the environment concern floats (strconv). *)
From Coq Require Import List ZArith String Bool Lia.
From Thunder Require Import Sql.TimeText Sql.TimeTextProofs Sql.Codec Sql.CodecProofs.
Import ListNotations.
Open Scope Z_scope.

(** [e] with its time fields replaced by the concrete text forms. *)
Definition time_env (e : env) : env :=
  mk_env (fmt64 e) (fmt32 e) (fmt6 e) (parsef e) (round32 e) fmt_sec_c fmt_us_c fmt_rfc_c parse_datetime.

(** What is still assumed of strconv: ParseFloat after FormatFloat(f,'g',-1,64) is the identity, and
    after FormatFloat(f,'g',-1,32) it rounds back to the float32. *)
Record float_laws (e : env) : Prop := {
  fl_f64 : forall f, parsef e (fmt64 e f) = Some f;
  fl_f32 : forall f, round32 e f = f -> exists f', parsef e (fmt32 e f) = Some f' /\ round32 e f' = f
}.

Lemma env_laws_float e : env_laws e -> float_laws e.
Proof. intros [A B _ _]. constructor; assumption. Qed.

Theorem time_env_laws e : float_laws e -> env_laws (time_env e).
Proof.
  intros [A B]. constructor; cbn [time_env fmt64 fmt32 parsef round32 fmt_us fmt_sec parse_t].
  - exact A.
  - exact B.
  - intros t Hr Hm. apply parse_fmt_us_exact; assumption.
  - intros t Hr Hm. apply parse_fmt_sec_exact; assumption.
Qed.

(** Row codec round trips with no hypothesis about times. *)
Theorem scan_roundtrip_ct e d x c p s :
  float_laws e -> desc_ok d = true -> fval_ok (time_env e) d x = true -> col_matches d c p = true ->
  repr (time_env e) c p (valuer d (dyn_of d x)) = Some s ->
  scanner (time_env e) d s = Ok x.
Proof. intros L. apply scan_roundtrip. apply time_env_laws. exact L. Qed.

Theorem build_unbuild_ct e t x row :
  float_laws e -> row_repr (time_env e) t x row -> build (time_env e) t row = Ok x.
Proof. intros L. apply build_unbuild. apply time_env_laws. exact L. Qed.

Theorem parse_binlog_roundtrip_ct e t x row cols brow :
  float_laws e -> row_repr (time_env e) t x row -> NoDup cols -> List.length brow = List.length cols ->
  Forall2 (fun nd s => exists j, nth_error cols j = Some (fst nd) /\ nth_error brow j = Some s) t row ->
  parse_binlog_row (time_env e) t (fst (column_map t cols)) (snd (column_map t cols)) brow = Ok x.
Proof. intros L. apply parse_binlog_roundtrip. apply time_env_laws. exact L. Qed.

(** ** Which precision of a time survives

    A time column read back from text (text protocol: []byte; binlog decoder: string) gives the instant
    the text denotes: the rendering at microsecond precision loses exactly [t mod 1000] nanoseconds, the
    rendering at second precision exactly [t mod 10^9]; so the struct comes back equal iff the time had
    no finer precision than the column. *)
Definition time_desc (d : desc) : bool :=
  match d_base d, d_tag d with BTime, (TNone | TImplicitNull) => true | _, _ => false end.

Lemma scan_time_text e d txt t : time_desc d = true -> parse_datetime txt = Some t ->
  scanner (time_env e) d (SBytes txt) = Ok (FVal (GTime t)) /\
  scanner (time_env e) d (SStr txt) = Ok (FVal (GTime t)).
Proof.
  intros Hd Hp. destruct d as [b ptr tg]. unfold time_desc in Hd. cbn [d_base d_tag] in Hd.
  destruct b; try discriminate.
  split; unfold scanner, scanner_gen, scan_valid_gen; cbn [d_base d_tag time_env parse_t rbind];
    rewrite Hp; reflexivity.
Qed.

Theorem time_text_precision e d t : time_desc d = true -> text_range t = true ->
  scanner (time_env e) d (SBytes (fmt_us_c t)) = Ok (FVal (GTime (t - t mod 1000))) /\
  scanner (time_env e) d (SStr (fmt_sec_c t)) = Ok (FVal (GTime (t - t mod 1000000000))) /\
  (scanner (time_env e) d (SBytes (fmt_us_c t)) = Ok (FVal (GTime t)) <-> t mod 1000 = 0) /\
  (scanner (time_env e) d (SStr (fmt_sec_c t)) = Ok (FVal (GTime t)) <-> t mod 1000000000 = 0).
Proof.
  intros Hd Hr.
  destruct (scan_time_text e d _ _ Hd (parse_fmt_us t Hr)) as [Hus _].
  destruct (scan_time_text e d _ _ Hd (parse_fmt_sec t Hr)) as [_ Hsec].
  repeat split; try assumption.
  - rewrite Hus. intros H. injection H as H. lia.
  - intros H. rewrite Hus. do 3 f_equal. lia.
  - rewrite Hsec. intros H. injection H as H. lia.
  - intros H. rewrite Hsec. do 3 f_equal. lia.
Qed.

(** Outside the years 0000 .. 9999 the text form is not even read back: time.Format prints five digits
    (or a sign), mysql.parseDateTime wants a length it knows. *)
Theorem time_text_out_of_range_refuted :
  text_range (max_text_t + 1) = false /\ (max_text_t + 1) mod 1000000000 = 0 /\
  parse_datetime (fmt_sec_c (max_text_t + 1)) = None /\
  text_range (min_text_t - 1000000000) = false /\ parse_datetime (fmt_sec_c (min_text_t - 1000000000)) = None.
Proof. vm_compute. repeat split; reflexivity. Qed.

(** A floats-only toy environment for the examples. *)
Lemma toy_float_laws : float_laws toy_env.
Proof. apply env_laws_float. exact toy_env_laws. Qed.

(** * Correspondence runs: floats from Go's tables, times concrete; the time tables Go computed
    (formatting of every time of the shard, mysql.NullTime.Scan of every string of the shard, failures
    included) are compared with the model's own functions. *)
Definition opt_Z_eqb (a b : option Z) : bool :=
  match a, b with Some x, Some y => Z.eqb x y | None, None => true | _, _ => false end.

Definition time_tables_ok (tt : list (Z * ttab_entry)) (pt : list (string * option Z)) : bool :=
  forallb (fun tx => String.eqb (fmt_sec_c (fst tx)) (t_sec (snd tx)) &&
                     String.eqb (fmt_us_c (fst tx)) (t_us (snd tx)) &&
                     String.eqb (fmt_rfc_c (fst tx)) (t_rfc (snd tx))) tt &&
  forallb (fun so => opt_Z_eqb (parse_datetime (fst so)) (snd so)) pt.

Definition env_ct (ft : list (Z * ftab_entry)) (pf : list (string * option Z)) : env :=
  time_env (env_of_tables ft pf [] []).

Definition mismatches_ct5 (fix5 : bool) (ft : list (Z * ftab_entry)) (pf : list (string * option Z))
           (tt : list (Z * ttab_entry)) (pt : list (string * option Z))
           (o : nat) (cs : list (nat * case)) : list (nat * list nat) :=
  (if time_tables_ok tt pt then [] else [(match cs with (i, _) :: _ => i | [] => o end, [9%nat])]) ++
  mismatches_sparse_gen fix5 (env_ct ft pf) cs.

Definition mismatches_ct := mismatches_ct5 false.

(** the entries of the tables the model disagrees with (for diagnosis) *)
Definition time_table_diffs (tt : list (Z * ttab_entry)) (pt : list (string * option Z))
  : list Z * list (string * option Z * option Z) :=
  (map fst (List.filter (fun tx => negb (String.eqb (fmt_sec_c (fst tx)) (t_sec (snd tx)) &&
                     String.eqb (fmt_us_c (fst tx)) (t_us (snd tx)) &&
                     String.eqb (fmt_rfc_c (fst tx)) (t_rfc (snd tx)))) tt),
   map (fun so => (fst so, parse_datetime (fst so), snd so))
       (List.filter (fun so => negb (opt_Z_eqb (parse_datetime (fst so)) (snd so))) pt)).

Close Scope Z_scope.
