(** Live SQL (C07), second transition system: transactions, multi-row events, the queue between
    RunPollLoop and the tracker, table versions / cached column maps and schema changes.

    Sql/Live.v's system delivers one single-row event per commit, decoded by an oracle.  Here
      - a commit is a transaction: a list of rows events, each carrying a list of row changes
        (insert = (None, Some a), delete = (Some b, None), update / upsert / delete+insert of the same key
        = (Some b, Some a)); the database changes atomically, the binlog gets, per event, the table-map
        item MySQL sends before it and the rows item; other binlog content (XID, query events, events of
        other databases or unknown tables) is [INoise];
      - [Poll] is one iteration of RunPollLoop (binlog.go l.367-430): a table-map item with a new id
        forgets the table's cached column map; a rows item is decoded with the cached map, built -- on a
        miss -- from the columns MySQL has for the table at that moment; the result goes into updateCh;
      - [Apply] is the goroutine that takes updateCh's head and calls dbTracker.processBinlog;
      - [Alter] changes a table's version (its TableID and column list).
    Decoding is abstract: with the column list of the event's own version a well-formed event gives its
    row changes (theorem [faithful_rows_event_decodes], from the row codec C13) and a malformed one an
    error; with any other column list the outcome is whatever the label says (an error or arbitrary
    deltas) -- "we might return garbage data and miss invalidations" (binlog.go l.413). *)
From Coq Require Import List ZArith String Bool Arith.
From Thunder Require Import Sql.Codec Sql.Live.
Import ListNotations.
Open Scope string_scope.
Open Scope list_scope.

Record bevent : Type := mk_bevent {
  be_table : string;
  be_version : nat;              (* the version (TableID) of the table it was written under *)
  be_deltas : list delta;        (* the row changes it carries, in order *)
  be_ok : bool                   (* well-formed: decodable by the column map of its own version *)
}.

Inductive item : Type :=
| IMap (tbl : string) (id : nat)      (* TableMapEvent *)
| IRows (ev : bevent)                 (* rows event of a registered table of our database *)
| INoise.                             (* anything RunPollLoop skips *)

Definition tdelta : Type := (string * delta)%type.

Definition item_deltas (it : item) : list tdelta :=
  match it with
  | IRows ev => map (fun d => (be_table ev, d)) (be_deltas ev)
  | _ => []
  end.

Definition write_of (td : tdelta) : write := mk_write (fst td) (fst (snd td)) (snd (snd td)).

Definition apply_delta (db : dbase) (td : tdelta) : dbase := apply_write db (write_of td).

Fixpoint nlookup (k : string) (l : list (string * nat)) : option nat :=
  match l with
  | [] => None
  | (k', v) :: t => if String.eqb k k' then Some v else nlookup k t
  end.

Record tstate : Type := mk_tstate {
  t_init : dbase;
  t_stream : list item;                  (* the binlog so far *)
  t_cur : list (string * nat);           (* MySQL: the current version of each table (0 when absent) *)
  t_polled : nat;                        (* items RunPollLoop has taken *)
  t_versions : list (string * nat);      (* Binlog.tableVersions *)
  t_cmaps : list (string * nat);         (* Binlog.columnMaps: the version whose column list the cached map was built from *)
  t_queue : list (option update);        (* updateCh, one entry per polled item not yet applied (None: nothing to apply) *)
  t_queries : list qstate
}.

Definition cur_version (s : tstate) (tbl : string) : nat :=
  match nlookup tbl (t_cur s) with Some v => v | None => O end.

Definition tdb_at (s : tstate) (k : nat) : dbase :=
  fold_left apply_delta (flat_map item_deltas (firstn k (t_stream s))) (t_init s).

Definition t_db (s : tstate) : dbase := tdb_at s (List.length (t_stream s)).

Definition t_applied (s : tstate) : nat := t_polled s - List.length (t_queue s).

(** One event of a transaction: table, row changes, well-formed. *)
Definition txevent : Type := (string * list delta * bool)%type.

Inductive tlabel : Type :=
| TRegister (q : nat) | TReadQ (q : nat) | TRerun (q : nat)
| TCommit (tx : list txevent)
| TNoise
| TAlter (tbl : string)
| TPoll (g : option (list delta))     (* [g]: what decoding with a foreign column list yields (None = an error) *)
| TApply.

Section Lts2.
  Variable schema : string -> table.                     (* sqlgen.Schema.ByName *)
  Variable layout : string -> nat -> list string.        (* MySQL's column list of each version of each table *)
  Variable safe : bool.   (* schema changes only happen while RunPollLoop has read the whole binlog (what livesql asks for) *)

  Definition same_layout (tbl : string) (a b : nat) : bool :=
    list_eqb String.eqb (layout tbl a) (layout tbl b).

  (** parseBinlogRowsEvent with the column map built from version [vc]'s column list. *)
  Definition decode (vc : nat) (ev : bevent) (g : option (list delta)) : update :=
    if same_layout (be_table ev) vc (be_version ev) then
      if be_ok ev then mk_update (be_table ev) (be_deltas ev) false
      else mk_update (be_table ev) [] true
    else match g with
         | None => mk_update (be_table ev) [] true
         | Some ds => mk_update (be_table ev) ds false
         end.

  Definition emit (s : tstate) (e : txevent) : list item :=
    let '(tbl, ds, ok) := e in
    [IMap tbl (cur_version s tbl); IRows (mk_bevent tbl (cur_version s tbl) ds ok)].

  Definition with_queries (s : tstate) (qs : list qstate) : tstate :=
    mk_tstate (t_init s) (t_stream s) (t_cur s) (t_polled s) (t_versions s) (t_cmaps s) (t_queue s) qs.

  Definition tsel (q : qstate) (d : dbase) : list row :=
    select_by (fun f r => tst schema (q_table q) f (Some r)) (q_table q) (q_filter q) d.

  Definition tstep (s : tstate) (l : tlabel) : option tstate :=
    match l with
    | TRegister i =>
        match nth_error (t_queries s) i with
        | Some q => match q_phase q with
                    | PIdle => Some (with_queries s (update_nth i (fun q => mk_q (q_table q) (q_filter q) PRegistered false 0 []) (t_queries s)))
                    | _ => None
                    end
        | None => None
        end
    | TReadQ i =>
        match nth_error (t_queries s) i with
        | Some q => match q_phase q with
                    | PRegistered =>
                        Some (with_queries s
                                (update_nth i (fun q => mk_q (q_table q) (q_filter q) PDone (q_invalid q)
                                                          (List.length (t_stream s)) (tsel q (t_db s)))
                                            (t_queries s)))
                    | _ => None
                    end
        | None => None
        end
    | TRerun i =>
        match nth_error (t_queries s) i with
        | Some q => match q_phase q with
                    | PIdle => None
                    | _ =>   (* a completed run is re-run, a run that has registered but not read yet is abandoned (the
                                rerunner cancels a computation whose dependency was invalidated at any point) *)
                        Some (with_queries s (update_nth i (fun q => mk_q (q_table q) (q_filter q) PIdle false 0 []) (t_queries s)))
                    end
        | None => None
        end
    | TCommit tx =>
        Some (mk_tstate (t_init s) (t_stream s ++ flat_map (emit s) tx) (t_cur s) (t_polled s)
                        (t_versions s) (t_cmaps s) (t_queue s) (t_queries s))
    | TNoise =>
        Some (mk_tstate (t_init s) (t_stream s ++ [INoise]) (t_cur s) (t_polled s)
                        (t_versions s) (t_cmaps s) (t_queue s) (t_queries s))
    | TAlter tbl =>
        if safe && negb (Nat.eqb (t_polled s) (List.length (t_stream s))) then None
        else Some (mk_tstate (t_init s) (t_stream s) ((tbl, S (cur_version s tbl)) :: t_cur s) (t_polled s)
                             (t_versions s) (t_cmaps s) (t_queue s) (t_queries s))
    | TPoll g =>
        match nth_error (t_stream s) (t_polled s) with
        | None => None
        | Some INoise =>
            Some (mk_tstate (t_init s) (t_stream s) (t_cur s) (S (t_polled s))
                            (t_versions s) (t_cmaps s) (t_queue s ++ [None]) (t_queries s))
        | Some (IMap tbl id) =>
            let same := match nlookup tbl (t_versions s) with Some v => Nat.eqb v id | None => false end in
            Some (mk_tstate (t_init s) (t_stream s) (t_cur s) (S (t_polled s))
                            (if same then t_versions s else (tbl, id) :: t_versions s)
                            (if same then t_cmaps s else List.filter (fun kv => negb (String.eqb (fst kv) tbl)) (t_cmaps s))
                            (t_queue s ++ [None]) (t_queries s))
        | Some (IRows ev) =>
            let tbl := be_table ev in
            let '(vc, cm) := match nlookup tbl (t_cmaps s) with
                             | Some v => (v, t_cmaps s)
                             | None => (cur_version s tbl, (tbl, cur_version s tbl) :: t_cmaps s)
                             end in
            Some (mk_tstate (t_init s) (t_stream s) (t_cur s) (S (t_polled s))
                            (t_versions s) cm (t_queue s ++ [Some (decode vc ev g)]) (t_queries s))
        end
    | TApply =>
        match t_queue s with
        | [] => None
        | None :: qu =>
            Some (mk_tstate (t_init s) (t_stream s) (t_cur s) (t_polled s) (t_versions s) (t_cmaps s) qu (t_queries s))
        | Some u :: qu =>
            Some (mk_tstate (t_init s) (t_stream s) (t_cur s) (t_polled s) (t_versions s) (t_cmaps s) qu
                            (map (process schema u) (t_queries s)))
        end
    end.

  Fixpoint trun (s : tstate) (ls : list tlabel) : option tstate :=
    match ls with
    | [] => Some s
    | l :: ls' => match tstep s l with Some s' => trun s' ls' | None => None end
    end.

  (** the whole binlog read and applied, every live query has completed a run whose registration stands *)
  Definition tquiescent (s : tstate) : bool :=
    Nat.eqb (t_polled s) (List.length (t_stream s)) &&
    match t_queue s with [] => true | _ => false end &&
    forallb (fun q => match q_phase q with PDone => negb (q_invalid q) | _ => false end) (t_queries s).
End Lts2.

Definition tinitial (d : dbase) (qs : list (string * filter)) : tstate :=
  mk_tstate d [] [] 0 [] [] [] (map (fun tf => mk_q (fst tf) (snd tf) PIdle false 0 []) qs).
