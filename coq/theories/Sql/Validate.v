(** Column registration (C13): sqlgen's buildDescriptor (sqlgen/reflect.go l.150-215: `implicitnull` is
    refused on a pointer column) and fields.Descriptor.ValidateSQLType (internal/fields/descriptor.go
    l.46-76: Valuer.Value on the zero value -- a fresh non-nil pointer for a pointer column -- must give
    a driver.Value, and Scanner.Scan must take that value back).  Executable model only. *)
From Coq Require Import List ZArith String Bool.
From Thunder Require Import Sql.Codec.
Import ListNotations.

(** Descriptor.ValidateSQLType *)
Definition validate_sql_type (e : env) (d : desc) : bool :=
  let x := Dyn (d_base d) (d_ptr d) (FVal (zero_of (d_base d))) in
  match valuer d x with
  | DOther => false                                   (* driver.IsValue fails *)
  | v => match proto_src v with
         | Some s => match scanner e d s with Ok _ => true | Err => false end
         | None => false
         end
  end.

(** Schema.RegisterType for one column *)
Definition register_ok (e : env) (d : desc) : bool :=
  negb (tag_eqb (d_tag d) TImplicitNull && d_ptr d) && validate_sql_type e d.

(** The (base, tag) combinations whose Valuer / Scanner branches the model represents: a json tag only on
    integers and booleans (other json payloads are oracle-only, see Codec.v), no binary / string tag on
    time.Time. *)
Definition tag_modelled (d : desc) : bool :=
  match d_tag d, d_base d with
  | TJson, (BInt _ | BUint _ | BBool) => true
  | TJson, BCustom (CValuer | CNull | CUuid | CTri) => true     (* the type's own Valuer / Scanner comes before the tags *)
  | TJson, _ => false
  | (TBinary | TString), BTime => false     (* time.Time is an encoding.BinaryMarshaler / TextMarshaler itself: the tagged
                                               forms do not scan back and sqlgen refuses such a column; the model's
                                               Valuer has no branch for them *)
  | _, _ => true
  end.

Definition desc_eqb (a b : desc) : bool :=
  base_eqb (d_base a) (d_base b) && Bool.eqb (d_ptr a) (d_ptr b) && tag_eqb (d_tag a) (d_tag b).

(** Correspondence: registration verdicts of generated one-column struct types. *)
Definition validate_mm (e : env) (o : nat) (obs : list (desc * bool)) : list (nat * list nat) :=
  if forallb (fun db => negb (tag_modelled (fst db)) || Bool.eqb (register_ok e (fst db)) (snd db)) obs
  then [] else [(o, [13%nat])].

Definition validate_diffs (e : env) (obs : list (desc * bool)) : list (desc * bool) :=
  List.filter (fun db => tag_modelled (fst db) && negb (Bool.eqb (register_ok e (fst db)) (snd db))) obs.
