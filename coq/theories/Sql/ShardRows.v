(** C12 composed with C10: the rows a batched caller of a limited handle RECEIVES lie in its shard.

    C12's theorems speak of the statements sent; C10's of the rows handed back.  A combined statement of a
    batch that mixes handles fetches rows of several shards, so confinement of the statement says nothing
    about what one caller gets: that is the matcher's business.  For a caller whose filter passed the limit
    check of its own handle and lies in the exact domain of the transparency theorem ([filter_transparent]),
    the rows handed back are the rows of its own query, and those satisfy the limit. *)
From Coq Require Import List ZArith String Bool.
From Thunder Require Import Sql.Model Sql.ModelExact Sql.Confine Sql.BatchProofs Sql.BatchExact.
Import ListNotations.
Open Scope string_scope.

Lemma in_combine_map : forall (A B : Type) (g : A -> B) b i y, In (i, y) (combine b (map g b)) -> y = g i /\ In i b.
Proof.
  intros A B g b i y. induction b as [|j b IH]; intros H; [contradiction|]. cbn [map combine] in H.
  destruct H as [H|H].
  - inversion H; subst. split; [reflexivity|left; reflexivity].
  - destruct (IH H) as [E Hin]. split; [exact E|right; exact Hin].
Qed.

(** One caller of any invocation, whatever the others are. *)
Lemma batched_by_arrival_one : forall t fs arrival contents i rows,
  table_ok t = true -> columns_ok t = true ->
  filter_transparent t (nth_filter fs i) = true ->
  forallb (row_representable t) contents = true ->
  In (i, rows) (batched_by_arrival t fs arrival contents) ->
  rows = unbatched_result t (nth_filter fs i) contents.
Proof.
  intros t fs arrival contents i rows Ht Hc Htr Hrep Hin. unfold batched_by_arrival in Hin.
  apply in_concat in Hin. destruct Hin as (l & Hl & Hin). apply in_map_iff in Hl. destruct Hl as (b & <- & Hb).
  unfold batched_results in Hin. rewrite map_map in Hin.
  destruct (in_combine_map _ _ _ _ _ _ Hin) as [-> Hib].
  apply cur_one_transparent; auto. apply in_map. exact Hib.
Qed.

Theorem batched_rows_in_shard : forall h t fs arrival contents i rows l k v,
  table_ok t = true -> columns_ok t = true ->
  filter_transparent t (nth_filter fs i) = true ->
  forallb (row_representable t) contents = true ->
  In (i, rows) (batched_by_arrival t fs arrival contents) ->
  caller_outcome h t (nth_filter fs i) = Proceeds ->
  filter_ptrs_okb (nth_filter fs i) l = true ->
  In l (enforced_limits h) -> In (k, v) l ->
  exists d, read_value t k v d /\ Forall (fun r => in_shard (cell r k) d) rows.
Proof.
  intros h t fs arrival contents i rows l k v Ht Hc Htr Hrep Hin Hout Hptr Hl Hkv.
  rewrite (batched_by_arrival_one t fs arrival contents i rows Ht Hc Htr Hrep Hin).
  destruct (caller_proceeds _ _ _ Hout) as [[w Hw] Hchk].
  assert (Hcl := check_filter_limits_enforced _ _ _ Hchk Hl).
  destruct (passing_filter_pins t _ w l Hw Hcl (filter_ptrs_okb_ok _ _ Hptr) k v Hkv) as (d & Hrd & Hd).
  exists d. split; [exact Hrd|].
  assert (Ew : w = dfilter_of t (nth_filter fs i)).
  { unfold make_where in Hw. destruct (all_known (t_cols t) (nth_filter fs i)); [|discriminate]. inversion Hw. reflexivity. }
  subst w. unfold unbatched_result, select_rows. apply Forall_forall. intros r Hr.
  apply filter_In in Hr. destruct Hr as [_ Hr].
  apply (where_pins_sound (WSimple (dfilter_of t (nth_filter fs i))) k d r); [exact Hd|apply is_tt_true; exact Hr].
Qed.

(** The same for the repaired batch function (C10-fix-2), for EVERY filter: no hypothesis on the Go types of
    the filter values is left, because the repaired function never hands a caller a row its own query does not
    select ([fixed_never_hands_foreign_rows]). *)
Theorem fixed_batched_rows_in_shard : forall h t fs arrival contents i rows l k v,
  table_ok t = true -> columns_ok t = true ->
  forallb (row_representable t) contents = true ->
  In (i, rows) (batched_by_arrival_g matcher_matches_fixed t fs arrival contents) ->
  caller_outcome h t (nth_filter fs i) = Proceeds ->
  filter_ptrs_okb (nth_filter fs i) l = true ->
  In l (enforced_limits h) -> In (k, v) l ->
  exists d, read_value t k v d /\ Forall (fun r => in_shard (cell r k) d) rows.
Proof.
  intros h t fs arrival contents i rows l k v Ht Hc Hrep Hin Hout Hptr Hl Hkv.
  unfold batched_by_arrival_g in Hin.
  apply in_concat in Hin. destruct Hin as (bl & Hbl & Hin). apply in_map_iff in Hbl. destruct Hbl as (b & <- & Hb).
  unfold batched_results_g in Hin. rewrite map_map in Hin.
  destruct (in_combine_map _ _ _ _ _ _ Hin) as [-> Hib].
  destruct (caller_proceeds _ _ _ Hout) as [[w Hw] Hchk].
  assert (Hcl := check_filter_limits_enforced _ _ _ Hchk Hl).
  destruct (passing_filter_pins t _ w l Hw Hcl (filter_ptrs_okb_ok _ _ Hptr) k v Hkv) as (d & Hrd & Hd).
  exists d. split; [exact Hrd|].
  assert (Ew : w = dfilter_of t (nth_filter fs i)).
  { unfold make_where in Hw. destruct (all_known (t_cols t) (nth_filter fs i)); [|discriminate]. inversion Hw. reflexivity. }
  subst w. apply Forall_forall. intros r Hr.
  assert (Hown := fixed_rows_are_own_rows t (map (nth_filter fs) b) (nth_filter fs i) contents r Ht Hc (in_map _ _ _ Hib) Hrep Hr).
  unfold unbatched_result, select_rows in Hown. apply filter_In in Hown. destruct Hown as [_ Hown].
  apply (where_pins_sound (WSimple (dfilter_of t (nth_filter fs i))) k d r); [exact Hd|apply is_tt_true; exact Hown].
Qed.
