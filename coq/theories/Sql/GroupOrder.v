(** The order of the OR-ed groups of a combined (batched) statement is irrelevant, and the evaluator's
    order-insensitive comparison ([batch_stmt_matches], Sql/ModelCheck.v) accepts exactly the statements of
    the permutations of the model's groups. *)
From Coq Require Import List ZArith String Ascii Bool Permutation.
From Thunder Require Import Sql.Model Sql.Confine Sql.ModelCheck.
Import ListNotations.
Open Scope string_scope.

(** * Semantics and confinement do not depend on the order *)
Lemma tri_or_swap : forall a b c, tri_or a (tri_or b c) = tri_or b (tri_or a c).
Proof. destruct a, b, c; reflexivity. Qed.

Theorem eval_batch_perm : forall gs gs' r, Permutation gs gs' -> eval_batch gs r = eval_batch gs' r.
Proof.
  intros gs gs' r H. unfold eval_batch. induction H; cbn [fold_right].
  - reflexivity.
  - rewrite IHPermutation. reflexivity.
  - apply tri_or_swap.
  - rewrite IHPermutation1. exact IHPermutation2.
Qed.

Theorem eval_wclause_perm : forall gs gs' r, Permutation gs gs' -> eval_wclause (WBatch gs) r = eval_wclause (WBatch gs') r.
Proof.
  intros gs gs' r H. cbn [eval_wclause].
  destruct gs as [|g gs0]; [apply Permutation_nil in H; subst; reflexivity|].
  destruct gs' as [|g' gs0']; [apply Permutation_sym, Permutation_nil in H; discriminate|].
  exact (eval_batch_perm _ _ r H).
Qed.

Theorem select_rows_perm : forall gs gs' contents, Permutation gs gs' ->
  select_rows (WBatch gs) contents = select_rows (WBatch gs') contents.
Proof.
  intros gs gs' contents H. unfold select_rows. induction contents as [|r contents IH]; [reflexivity|].
  cbn [List.filter]. rewrite (eval_wclause_perm gs gs' r H), IH. reflexivity.
Qed.

Theorem where_pins_perm : forall gs gs' k d, Permutation gs gs' -> where_pins (WBatch gs) k d -> where_pins (WBatch gs') k d.
Proof.
  intros gs gs' k d H [Hne Hall]. split.
  - intros E. subst gs'. apply Permutation_sym, Permutation_nil in H. contradiction.
  - exact (Permutation_Forall H Hall).
Qed.

Theorem confined_perm : forall t l tbl cols gs gs' o, Permutation gs gs' ->
  confined t l (SSelect tbl cols (WBatch gs) o) -> confined t l (SSelect tbl cols (WBatch gs') o).
Proof.
  intros t l tbl cols gs gs' o H Hc k v Hin. destruct (Hc k v Hin) as (d & Hr & Hp).
  exists d. split; [exact Hr|exact (where_pins_perm gs gs' k d H Hp)].
Qed.

(** * What the evaluator accepts *)
Lemma sapp_nil_r : forall s : string, s ++ "" = s.
Proof. induction s as [|c s IH]; [reflexivity|]. cbn [append]. rewrite IH. reflexivity. Qed.

Lemma sapp_assoc : forall a b c : string, (a ++ b) ++ c = a ++ (b ++ c).
Proof. induction a as [|x a IH]; intros b c; [reflexivity|]. cbn [append]. rewrite IH. reflexivity. Qed.

Lemma strip_prefix_spec : forall p s r, strip_prefix p s = Some r -> s = p ++ r.
Proof.
  induction p as [|a p IH]; intros s r H; cbn [strip_prefix] in H.
  - inversion H. reflexivity.
  - destruct s as [|b s]; [discriminate|]. destruct (Ascii.eqb a b) eqn:E; [|discriminate].
    apply Ascii.eqb_eq in E. subst b. cbn [append]. rewrite (IH s r H). reflexivity.
Qed.

Lemma strip_args_spec : forall p a r, strip_args p a = Some r -> a = (p ++ r)%list.
Proof.
  induction p as [|x p IH]; intros a r H; cbn [strip_args] in H.
  - inversion H. reflexivity.
  - destruct a as [|y a]; [discriminate|]. destruct (dval_eqb x y) eqn:E; [|discriminate].
    apply dval_eqb_eq in E. subst y. cbn [app]. rewrite (IH a r H). reflexivity.
Qed.

Lemma take_group_spec : forall gs text args rest t a,
  take_group gs text args = Some (rest, t, a) ->
  exists g, Permutation gs (g :: rest)
            /\ ((t = "" /\ text = group_text g) \/ (t <> "" /\ text = group_text g ++ " OR " ++ t))
            /\ args = (group_args g ++ a)%list.
Proof.
  induction gs as [|g gs IH]; intros text args rest t a H; [discriminate|].
  cbn [take_group] in H.
  assert (Hnext : match take_group gs text args with Some (r, t0, a0) => Some (g :: r, t0, a0) | None => None end = Some (rest, t, a) ->
          exists g0, Permutation (g :: gs) (g0 :: rest)
            /\ ((t = "" /\ text = group_text g0) \/ (t <> "" /\ text = group_text g0 ++ " OR " ++ t))
            /\ args = (group_args g0 ++ a)%list).
  { intros Hn. destruct (take_group gs text args) as [[[r t0] a0]|] eqn:E; [|discriminate].
    inversion Hn; subst. destruct (IH _ _ _ _ _ E) as (g0 & Hp & Ht & Ha).
    exists g0. split; [|split; assumption].
    apply Permutation_trans with (g :: g0 :: r); [constructor; exact Hp|apply perm_swap]. }
  destruct (strip_prefix (group_text g) text) as [text'|] eqn:Et; [|exact (Hnext H)].
  destruct (strip_args (group_args g) args) as [args'|] eqn:Ea; [|exact (Hnext H)].
  apply strip_prefix_spec in Et. apply strip_args_spec in Ea.
  destruct text' as [|c text'].
  - inversion H; subst. exists g. split; [apply Permutation_refl|]. split; [left; split; [reflexivity|]|reflexivity].
    rewrite sapp_nil_r. reflexivity.
  - destruct (strip_prefix " OR " (String c text')) as [t''|] eqn:Eo; [|exact (Hnext H)].
    destruct (String.eqb t'' "") eqn:Ee; [exact (Hnext H)|].
    inversion H; subst. apply strip_prefix_spec in Eo. exists g. split; [apply Permutation_refl|].
    split; [right; split|reflexivity].
    + intros E. subst t. discriminate.
    + rewrite Eo. reflexivity.
Qed.

Lemma batch_text_cons : forall g gs, gs <> [] -> batch_text (g :: gs) = group_text g ++ " OR " ++ batch_text gs.
Proof. intros g gs H. unfold batch_text, join. cbn [map String.concat]. destruct gs; [contradiction|reflexivity]. Qed.

Lemma batch_text_one : forall g, batch_text [g] = group_text g.
Proof. reflexivity. Qed.

Lemma match_groups_spec : forall fuel gs text args,
  match_groups fuel gs text args = true ->
  exists gs', Permutation gs gs' /\ text = batch_text gs' /\ args = batch_args gs'.
Proof.
  induction fuel as [|fuel IH]; intros gs text args H.
  - destruct gs; [|discriminate]. cbn [match_groups] in H. apply andb_prop in H. destruct H as [Ht Ha].
    apply String.eqb_eq in Ht. destruct args; [|discriminate]. exists []. repeat split; [constructor|exact Ht].
  - destruct gs as [|g0 gs0].
    + cbn [match_groups] in H. apply andb_prop in H. destruct H as [Ht Ha].
      apply String.eqb_eq in Ht. destruct args; [|discriminate]. exists []. repeat split; [constructor|exact Ht].
    + cbn [match_groups] in H.
      destruct (take_group (g0 :: gs0) text args) as [[[rest t] a]|] eqn:E; [|discriminate].
      apply andb_prop in H. destruct H as [Hne Hrec].
      destruct (take_group_spec _ _ _ _ _ _ E) as (g & Hp & Ht & Ha).
      destruct (IH rest t a Hrec) as (rest' & Hp' & Ht' & Ha').
      exists (g :: rest'). split; [apply Permutation_trans with (g :: rest); [exact Hp|constructor; exact Hp']|].
      split.
      * destruct rest as [|r1 rest1].
        -- apply Permutation_nil in Hp'. subst rest'. cbn [batch_text join map String.concat] in Ht'.
           destruct Ht as [[_ Ht]|[Hn _]]; [rewrite batch_text_one; exact Ht|contradiction].
        -- assert (Hr' : rest' <> []) by (intros F; subst rest'; apply Permutation_sym, Permutation_nil in Hp'; discriminate).
           rewrite (batch_text_cons g rest' Hr'). apply negb_true_iff in Hne.
           destruct Ht as [[Ht0 _]|[_ Ht]]; [subst t; discriminate|]. rewrite <- Ht'. exact Ht.
      * unfold batch_args in *. cbn [map List.concat]. rewrite <- Ha'. exact Ha.
Qed.

(** A combined statement the evaluator accepts for the model's groups [gs] is the statement of a permutation of
    them: same rows selected ([select_rows_perm]), same confinement ([confined_perm]). *)
Theorem batch_stmt_matches_sound : forall tbl cols gs text args,
  batch_stmt_matches tbl cols gs text args = true ->
  exists gs', Permutation gs gs'
              /\ text = sql_text (SSelect tbl cols (WBatch gs') None)
              /\ args = sql_args (SSelect tbl cols (WBatch gs') None).
Proof.
  intros tbl cols gs text args H. unfold batch_stmt_matches in H.
  destruct gs as [|g gs0].
  - apply andb_prop in H. destruct H as [Ht Ha]. apply String.eqb_eq in Ht. destruct args; [|discriminate].
    exists []. split; [constructor|]. split; [|reflexivity].
    subst text. cbn [sql_text select_where wclause_text batch_text join map String.concat fst String.eqb].
    rewrite !sapp_nil_r. reflexivity.
  - destruct (strip_prefix _ text) as [rest|] eqn:E; [|discriminate].
    apply andb_prop in H. destruct H as [Hne H]. apply negb_true_iff in Hne.
    apply strip_prefix_spec in E. destruct (match_groups_spec _ _ _ _ H) as (gs' & Hp & Ht & Ha).
    exists gs'. split; [exact Hp|]. split.
    + subst text rest. cbn [sql_text select_where wclause_text fst]. rewrite Hne.
      rewrite !sapp_assoc. cbn [append]. rewrite !sapp_nil_r. reflexivity.
    + cbn [sql_args select_where wclause_args snd]. exact Ha.
Qed.
