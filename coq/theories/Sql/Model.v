(** sqlgen's statement generation, limit checks and DB methods (C12), and the batched fetch (C10)
    -- executable model only, no proofs.

    Follows, function by function:
      sqlgen/mysql.go    SimpleWhere.ToSQL (16-34), countQuery/SelectQuery/InsertQuery/BatchInsertQuery/
                         UpsertQuery/BatchUpsertQuery/UpdateQuery/DeleteQuery .ToSQL
      sqlgen/reflect.go  IncludeFilter (37-54), makeWhere (351-379), MakeSelectQuery (435-456),
                         MakeInsertRow .. MakeDeleteRow (544-778), unbuildStruct (255-269),
                         coerce/coerceMap (794-812), extractRow (864-873)
      sqlgen/db.go       checkFilterAgainstLimit(s) (170-206), checkColumnValuesAgainstLimit(s) (208-253),
                         BaseQuery (315-349), Count (364-387), InsertRow .. DeleteRow (454-655),
                         the batch function (62-126)
      sqlgen/batch.go    makeBatchQuery;  sqlgen/matcher.go  add / match;  internal/reflect.go MakeHashable
      internal/fields/sql.go  Valuer.Value restricted to columns without binary/string/json tags and
                         values that do not implement driver.Valuer (those belong to C13's Sql/Codec.v)
      database/sql/driver  DefaultParameterConverter on the argument kinds below.

    Go values ([goval]) carry their dynamic type, because Go's [==] on interface values (used by the
    limit checks and by the matcher's map lookup) compares dynamic types first. Floats are quarter
    units ([GFloat q] is q/4: exact, no NaN), pointers carry an address so that pointer identity can
    be expressed. *)
From Coq Require Import List ZArith String Ascii Bool DecimalString.
Import ListNotations.
Open Scope string_scope.

(** * Driver values (database/sql/driver.Value) *)
Inductive dval : Type :=
| DNull | DInt (z : Z) | DFloat (q : Z) | DBool (b : bool) | DBytes (s : string) | DStr (s : string).
(* time.Time values do not occur in this model (C13's Sql/Codec.v has them). *)

Definition dval_eqb (a b : dval) : bool :=
  match a, b with
  | DNull, DNull => true
  | DInt x, DInt y => Z.eqb x y
  | DFloat x, DFloat y => Z.eqb x y
  | DBool x, DBool y => Bool.eqb x y
  | DBytes x, DBytes y => String.eqb x y
  | DStr x, DStr y => String.eqb x y
  | _, _ => false
  end.

(** * Go values *)
Inductive ikind : Type := KI | KI8 | KI16 | KI32 | KI64 | KU | KU8 | KU16 | KU32 | KU64.

Definition ikind_eqb (a b : ikind) : bool :=
  match a, b with
  | KI, KI | KI8, KI8 | KI16, KI16 | KI32, KI32 | KI64, KI64
  | KU, KU | KU8, KU8 | KU16, KU16 | KU32, KU32 | KU64, KU64 => true
  | _, _ => false
  end.

(** Go types of the values that occur: integers and strings may be named types ("" = predeclared). *)
Inductive gty : Type :=
| TyInt (k : ikind) (name : string) | TyStr (name : string) | TyBool | TyFloat | TyBytes | TyPtr (t : gty).

Fixpoint gty_eqb (a b : gty) : bool :=
  match a, b with
  | TyInt k n, TyInt k' n' => ikind_eqb k k' && String.eqb n n'
  | TyStr n, TyStr n' => String.eqb n n'
  | TyBool, TyBool | TyFloat, TyFloat | TyBytes, TyBytes => true
  | TyPtr x, TyPtr y => gty_eqb x y
  | _, _ => false
  end.

Inductive goval : Type :=
| GNil                                   (* the nil interface *)
| GInt (k : ikind) (name : string) (z : Z)
| GStr (name : string) (s : string)
| GBool (b : bool)
| GFloat (q : Z)
| GBytes (s : string)                    (* a non-nil []byte *)
| GNilBytes                              (* []byte(nil) *)
| GPtr (addr : nat) (v : goval)          (* non-nil pointer; [addr] identifies the pointee *)
| GNilPtr (t : gty)                      (* nil pointer of type *t *)
| GCustom (name : string) (under : goval) (ser : dval).
   (* a value of the named scalar type [name] (underlying value [under]) that implements driver.Valuer;
      [ser] is what its Value() returns -- a function of type and value, carried for convenience *)

Fixpoint type_of (v : goval) : option gty :=
  match v with
  | GNil => None
  | GInt k n _ => Some (TyInt k n)
  | GStr n _ => Some (TyStr n)
  | GBool _ => Some TyBool
  | GFloat _ => Some TyFloat
  | GBytes _ | GNilBytes => Some TyBytes
  | GPtr _ v => match type_of v with Some t => Some (TyPtr t) | None => None end
  | GNilPtr t => Some (TyPtr t)
  | GCustom n u _ => match type_of u with
                     | Some (TyInt k _) => Some (TyInt k n)
                     | Some (TyStr _) => Some (TyStr n)
                     | x => x
                     end
  end.

(** Equality of a query's value and a limit's value (limitValuesEqual in db.go, after C12-fix-1): Go's
    [a == b] on interface values -- dynamic types first, then values; pointers by address -- and
    reflect.DeepEqual for the types [==] cannot compare, of which []byte is the one that occurs (a nil
    slice and an empty one are different).  The same function is Go's map-key equality in the matcher,
    where []byte never occurs (MakeHashable turns it into a string first). *)
Definition scalar_eqb (a b : goval) : bool :=
  match a, b with
  | GInt k n x, GInt k' n' y => ikind_eqb k k' && String.eqb n n' && Z.eqb x y
  | GStr n x, GStr n' y => String.eqb n n' && String.eqb x y
  | GBool x, GBool y => Bool.eqb x y
  | GFloat x, GFloat y => Z.eqb x y
  | _, _ => false
  end.

Definition go_eqb (a b : goval) : bool :=
  match a, b with
  | GNil, GNil => true
  | GCustom n u s, GCustom n' u' s' => String.eqb n n' && scalar_eqb u u' && dval_eqb s s'
  | GInt k n x, GInt k' n' y => ikind_eqb k k' && String.eqb n n' && Z.eqb x y
  | GStr n x, GStr n' y => String.eqb n n' && String.eqb x y
  | GBool x, GBool y => Bool.eqb x y
  | GFloat x, GFloat y => Z.eqb x y
  | GBytes x, GBytes y => String.eqb x y
  | GNilBytes, GNilBytes => true
  | GPtr p x, GPtr q y =>
      match type_of x, type_of y with
      | Some t, Some u => gty_eqb t u && Nat.eqb p q
      | _, _ => false
      end
  | GNilPtr t, GNilPtr u => gty_eqb t u
  | _, _ => false
  end.

(** * Tables *)
Record column : Type := mk_col {
  c_name : string; c_primary : bool; c_implicitnull : bool; c_ty : gty }.

Record table : Type := mk_table {
  t_name : string; t_auto : bool (* PrimaryKeyType = AutoIncrement *); t_cols : list column }.

Fixpoint lookup {A : Type} (k : string) (l : list (string * A)) : option A :=
  match l with
  | [] => None
  | (k', v) :: t => if String.eqb k k' then Some v else lookup k t
  end.

Fixpoint find_col (cols : list column) (k : string) : option column :=
  match cols with
  | [] => None
  | c :: t => if String.eqb k (c_name c) then Some c else find_col t k
  end.

(** * fields.Valuer *)
Definition wrap64 (z : Z) : Z :=
  let m := (z mod 2 ^ 64)%Z in if (m <? 2 ^ 63)%Z then m else (m - 2 ^ 64)%Z.

Definition is_unsigned (k : ikind) : bool :=
  match k with KU | KU8 | KU16 | KU32 | KU64 => true | _ => false end.

(** [isZero] of internal/fields/reflect.go on a (non-nil-interface) value. *)
Definition is_zero (v : goval) : bool :=
  match v with
  | GNil => true
  | GInt _ _ z => Z.eqb z 0
  | GStr _ s => String.eqb s ""
  | GBool b => negb b
  | GFloat q => Z.eqb q 0
  | GBytes _ => false     (* a non-nil slice is not zero, even when empty *)
  | GNilBytes => true
  | GPtr _ _ => false
  | GNilPtr _ => true
  | GCustom _ u _ => match u with
                     | GInt _ _ z => Z.eqb z 0 | GStr _ x => String.eqb x "" | GBool b => negb b | GFloat q => Z.eqb q 0
                     | _ => false
                     end
  end.

Definition base_dval (v : goval) : dval :=
  match v with
  | GInt _ _ z => DInt (wrap64 z)
  | GStr _ s => DStr s
  | GBool b => DBool b
  | GFloat q => DFloat q
  | GBytes s => DBytes s
  | GCustom _ _ ser => ser
  | _ => DNull
  end.

(** [Valuer{descriptor of column c, v}.Value()]: never fails on these values.
    A non-nil pointer handed in for a column whose type is not a pointer stands for the value it points to
    (internal/fields/sql.go, 3e2535a): it is dereferenced before anything else, so a pointer to the zero
    value of an implicitnull column is NULL like the zero value itself.  For a pointer column the pointee is
    serialized as it is; sqlgen refuses implicitnull on pointer fields, so [implicitnull] is false there and
    the same line covers both. *)
Definition valuer (implicitnull : bool) (v : goval) : dval :=
  match v with
  | GNil | GNilPtr _ | GNilBytes => DNull      (* a nil slice serializes to NULL *)
  | GPtr _ (GCustom _ _ ser) => ser
  | GPtr _ v' => if implicitnull && is_zero v' then DNull else base_dval v'
  | GCustom _ _ ser => ser                         (* driver.Valuer is consulted before the tags *)
  | _ => if implicitnull && is_zero v then DNull else base_dval v
  end.

(** database/sql/driver.DefaultParameterConverter (arguments that bypass fields.Valuer). *)
Definition default_conv (v : goval) : dval :=
  match v with
  | GNil | GNilPtr _ | GNilBytes => DNull      (* go-sql-driver sends a nil []byte as NULL *)
  | GPtr _ v' => base_dval v'
  | _ => base_dval v
  end.

(** A driver value seen as a Go interface value (what [valuesV != v] compares in
    checkColumnValuesAgainstLimit). *)
Definition go_of_dval (d : dval) : goval :=
  match d with
  | DNull => GNil
  | DInt z => GInt KI64 "" z
  | DFloat q => GFloat q
  | DBool b => GBool b
  | DBytes s => GBytes s
  | DStr s => GStr "" s
  end.

(** * Filters and WHERE clauses *)
Definition filter := list (string * goval).   (* a Go map: keys are unique *)

Definition keys {A : Type} (l : list (string * A)) : list string := map fst l.

(** makeWhere: look every filter column up, run the Valuer, order by the column's position in the
    struct.  None = "unknown column". *)
Fixpoint where_in_order (cols : list column) (f : filter) : list (string * dval) :=
  match cols with
  | [] => []
  | c :: t =>
      match lookup (c_name c) f with
      | Some v => (c_name c, valuer (c_implicitnull c) v) :: where_in_order t f
      | None => where_in_order t f
      end
  end.

Definition all_known (cols : list column) (f : filter) : bool :=
  forallb (fun kv => match find_col cols (fst kv) with Some _ => true | None => false end) f.

Definition make_where (t : table) (f : filter) : option (list (string * dval)) :=
  if all_known (t_cols t) f then Some (where_in_order (t_cols t) f) else None.

Definition join (sep : string) (l : list string) : string := String.concat sep l.

Definition simple_where_text (w : list (string * dval)) : string :=
  join " AND " (map (fun cv => match snd cv with
                               | DNull => fst cv ++ " IS ?"
                               | _ => fst cv ++ " = ?"
                               end) w).

(** * Statements *)
Record select_opts : Type := mk_opts {
  o_where : string;          (* free text, opaque to the model *)
  o_values : list dval; o_order : string; o_limit : nat; o_for_update : bool;
  o_force_index : list string; o_use_index : list string }.

(** One group of makeBatchQuery: the (sorted) column set and one value tuple per filter. *)
Definition bgroup := (list string * list (list dval))%type.

Inductive wclause : Type :=
| WSimple (w : list (string * dval))
| WBatch (gs : list bgroup).

Inductive stmt : Type :=
| SSelect (tbl : string) (cols : list string) (w : wclause) (o : option select_opts)
| SCount (tbl : string) (w : list (string * dval))
| SInsert (tbl : string) (cols : list string) (rows : list (list dval))
| SUpsert (tbl : string) (cols : list string) (rows : list (list dval))
| SUpdate (tbl : string) (cols : list string) (vals : list dval) (w : list (string * dval))
| SDelete (tbl : string) (w : list (string * dval)).

Definition qmarks (n : nat) : string := join ", " (repeat "?" n).

Definition is_null (d : dval) : bool := match d with DNull => true | _ => false end.
Definition non_null (l : list dval) : list dval := List.filter (fun d => negb (is_null d)) l.

(** makeBatchQuery's text for one group, as repaired (C10-fix-1): NULL values are written
    [c IS NULL] and take no argument. *)
Definition tuple_conj_text (cs : list string) (tup : list dval) : string :=
  join " AND " (map (fun cv => if is_null (snd cv) then fst cv ++ " IS NULL" else fst cv ++ "=?") (combine cs tup)).

Definition group_text (g : bgroup) : string :=
  match fst g with
  | [c] =>
      let firsts := map (hd DNull) (snd g) in
      let nn := non_null firsts in
      (match nn with [] => "" | _ => c ++ " IN (" ++ qmarks (List.length nn) ++ ")" end)
      ++ (if existsb is_null firsts
          then (match nn with [] => "" | _ => " OR " end) ++ c ++ " IS NULL"
          else "")
  | cs => join " OR " (map (fun tup =>
              match cs with
              | _ :: _ :: _ => "(" ++ tuple_conj_text cs tup ++ ")"
              | _ => tuple_conj_text cs tup
              end) (snd g))
  end.

Definition group_args (g : bgroup) : list dval :=
  match fst g with
  | [c] => non_null (map (hd DNull) (snd g))
  | cs => List.concat (map (fun tup => non_null (map snd (combine cs tup))) (snd g))
  end.

Definition batch_text (gs : list bgroup) : string := join " OR " (map group_text gs).
Definition batch_args (gs : list bgroup) : list dval := List.concat (map group_args gs).

(** The same before the repair: every value is an argument, [IN (?, ..)] / [c=?] only. *)
Definition group_text_orig (g : bgroup) : string :=
  match fst g with
  | [c] => c ++ " IN (" ++ qmarks (List.length (snd g)) ++ ")"
  | cs => join " OR " (map (fun _ : list dval =>
              match cs with
              | _ :: _ :: _ => "(" ++ join " AND " (map (fun c => c ++ "=?") cs) ++ ")"
              | _ => join " AND " (map (fun c => c ++ "=?") cs)
              end) (snd g))
  end.
Definition batch_text_orig (gs : list bgroup) : string := join " OR " (map group_text_orig gs).
Definition batch_args_orig (gs : list bgroup) : list dval := List.concat (map (fun g => List.concat (snd g)) gs).

Definition wclause_text (w : wclause) : string :=
  match w with WSimple l => simple_where_text l | WBatch gs => batch_text gs end.
Definition wclause_args (w : wclause) : list dval :=
  match w with WSimple l => map snd l | WBatch gs => batch_args gs end.

Definition nat_text (n : nat) : string := NilEmpty.string_of_uint (Nat.to_uint n).

(** IncludeFilter followed by SelectQuery.ToSQL. *)
Definition select_where (w : wclause) (o : option select_opts) : string * list dval :=
  let ft := wclause_text w in
  let fa := wclause_args w in
  match o with
  | None => (ft, fa)
  | Some o =>
      if String.eqb ft "" then (o_where o, o_values o)
      else if String.eqb (o_where o) "" then (ft, fa)
      else ("(" ++ ft ++ ") AND (" ++ o_where o ++ ")", (fa ++ o_values o)%list)
  end.

Definition tuple_text (n : nat) : string := "(" ++ qmarks n ++ ")".

Definition on_dup_text (cols : list string) : string :=
  " ON DUPLICATE KEY UPDATE " ++ join ", " (map (fun c => c ++ "=VALUES(" ++ c ++ ")") cols).

Definition sql_text (s : stmt) : string :=
  match s with
  | SSelect t cols w o =>
      let wt := fst (select_where w o) in
      "SELECT " ++ join ", " cols ++ " FROM " ++ t
      ++ match o with
         | None => ""
         | Some o =>
             match o_force_index o, o_use_index o with
             | _ :: _, _ => " FORCE INDEX(" ++ join "," (o_force_index o) ++ ")"
             | [], _ :: _ => " USE INDEX(" ++ join "," (o_use_index o) ++ ")"
             | [], [] => ""
             end
         end
      ++ (if String.eqb wt "" then "" else " WHERE " ++ wt)
      ++ match o with
         | None => ""
         | Some o =>
             (if String.eqb (o_order o) "" then "" else " ORDER BY " ++ o_order o)
             ++ (match o_limit o with O => "" | n => " LIMIT " ++ nat_text n end)
             ++ (if o_for_update o then " FOR UPDATE" else "")
         end
  | SCount t w =>
      "SELECT COUNT(*) FROM " ++ t
      ++ (match w with [] => "" | _ => " WHERE " ++ simple_where_text w end)
  | SInsert t cols rows =>
      "INSERT INTO " ++ t
      ++ (match cols with
          | [] => ""
          | _ => " (" ++ join ", " cols ++ ") VALUES "
                 ++ join ", " (map (fun _ : list dval => tuple_text (List.length cols)) rows)
          end)
  | SUpsert t cols rows =>
      "INSERT INTO " ++ t
      ++ (match cols with
          | [] => ""
          | _ => " (" ++ join ", " cols ++ ") VALUES "
                 ++ join ", " (map (fun _ : list dval => tuple_text (List.length cols)) rows)
          end)
      ++ on_dup_text cols
  | SUpdate t cols vals w =>
      "UPDATE " ++ t
      ++ (match cols with [] => "" | _ => " SET " ++ join ", " (map (fun c => c ++ " = ?") cols) end)
      ++ (match w with [] => "" | _ => " WHERE " ++ simple_where_text w end)
  | SDelete t w =>
      "DELETE FROM " ++ t ++ (match w with [] => "" | _ => " WHERE " ++ simple_where_text w end)
  end.

Definition sql_args (s : stmt) : list dval :=
  match s with
  | SSelect _ _ w o => snd (select_where w o)
  | SCount _ w => map snd w
  | SInsert _ _ rows | SUpsert _ _ rows => List.concat rows
  | SUpdate _ _ vals w => (vals ++ map snd w)%list
  | SDelete _ w => map snd w
  end.

(** * Limit checks *)
Fixpoint check_filter_against_limit (f limit : filter) : bool :=
  match limit with
  | [] => true
  | (k, v) :: rest =>
      match lookup k f with
      | None => false
      | Some fv => go_eqb fv v && check_filter_against_limit f rest
      end
  end.

Fixpoint check_column_values_against_limit (cvs : list (string * dval)) (limit : filter) : bool :=
  match limit with
  | [] => true
  | (k, v) :: rest =>
      match lookup k cvs with
      | None => false
      | Some dv => go_eqb (go_of_dval dv) v && check_column_values_against_limit cvs rest
      end
  end.

(** A DB handle: the shard limit (WithShardLimit) and the dynamic limit (WithDynamicLimit):
    [h_dyn] is what GetLimitFilter returns for the table (None = nil filter or no dynamic limit),
    [h_dyn_cb] whether ShouldContinueOnError is set (without it db.go ignores the dynamic limit),
    [h_dyn_continue] what that callback answers. *)
Record handle : Type := mk_handle {
  h_shard : option filter; h_dyn : option filter; h_dyn_cb : bool; h_dyn_continue : bool }.

Definition dyn_enforced (h : handle) : option filter :=
  match h_dyn h with
  | Some l => if h_dyn_cb h && negb (h_dyn_continue h) then Some l else None
  | None => None
  end.

Definition check_filter_limits (h : handle) (f : filter) : bool :=
  (match h_shard h with Some l => check_filter_against_limit f l | None => true end)
  && (match h_dyn h with
      | Some l => if h_dyn_cb h then check_filter_against_limit f l || h_dyn_continue h else true
      | None => true
      end).

Definition check_values_limits (h : handle) (cvs : list (string * dval)) : bool :=
  (match h_shard h with Some l => check_column_values_against_limit cvs l | None => true end)
  && (match h_dyn h with
      | Some l => if h_dyn_cb h then check_column_values_against_limit cvs l || h_dyn_continue h else true
      | None => true
      end).

(** * Rows and the Make*Row builders *)
Definition grow := list goval.   (* one Go struct value: a field value per column, in struct order *)

(** unbuildStruct *)
Fixpoint unbuild (cols : list column) (r : grow) : list dval :=
  match cols, r with
  | c :: ct, v :: vt => valuer (c_implicitnull c) v :: unbuild ct vt
  | _, _ => []
  end.

Definition insert_columns (t : table) : list column :=
  List.filter (fun c => negb (c_primary c && t_auto t)) (t_cols t).

Fixpoint pick (cols : list column) (vals : list dval) (keep : column -> bool) : list (string * dval) :=
  match cols, vals with
  | c :: ct, v :: vt => if keep c then (c_name c, v) :: pick ct vt keep else pick ct vt keep
  | _, _ => []
  end.

Definition insert_cvs (t : table) (r : grow) : list (string * dval) :=
  pick (t_cols t) (unbuild (t_cols t) r) (fun c => negb (c_primary c && t_auto t)).
Definition upsert_cvs (t : table) (r : grow) : list (string * dval) :=
  pick (t_cols t) (unbuild (t_cols t) r) (fun _ => true).
Definition pk_cvs (t : table) (r : grow) : list (string * dval) :=
  pick (t_cols t) (unbuild (t_cols t) r) c_primary.
Definition nonpk_cvs (t : table) (r : grow) : list (string * dval) :=
  pick (t_cols t) (unbuild (t_cols t) r) (fun c => negb (c_primary c)).

(** * Operations, events, outcomes *)
Inductive event : Type := EBegin | EStmt (s : stmt) | ECommit | ERollback.

Inductive outcome : Type :=
| Proceeds      (* every check passed; what the database answers is outside the model *)
| Rejected      (* a limit check failed: "check failed for db with ..." *)
| BadInput.     (* rejected before the limit check: unknown column, upsert on an auto-increment table,
                   empty chunk *)

Record ctx : Type := mk_ctx { in_tx : bool; batching : bool }.

Inductive op : Type :=
| OQuery (f : filter) (o : option select_opts)     (* Query, QueryRow, FullScanQuery *)
| OCount (f : filter)
| OInsertRow (r : grow)
| OInsertRows (rs : list grow) (chunk : nat)
| OUpsertRow (r : grow)
| OUpsertRows (rs : list grow) (chunk : nat)
| OUpdateRow (r : grow)
| ODeleteRow (r : grow).

Definition col_names (t : table) : list string := map c_name (t_cols t).

(** * makeBatchQuery *)
Fixpoint insert_sorted (k : string) (l : list string) : list string :=
  match l with
  | [] => [k]
  | h :: t => if String.leb k h then k :: l else h :: insert_sorted k t
  end.
Definition sort_strings (l : list string) : list string := fold_right insert_sorted [] l.

Definition columns_key (cols : list string) : string := join ";" cols.

Definition list_string_eqb (a b : list string) : bool :=
  (fix go (a b : list string) : bool :=
     match a, b with
     | [], [] => true
     | x :: a', y :: b' => String.eqb x y && go a' b'
     | _, _ => false
     end) a b.

(** Add a tuple to the group with this key (created at the end if absent). *)
Fixpoint add_to_group {A : Type} (key : string) (cols : list string) (tup : A)
         (gs : list (string * (list string * list A))) : list (string * (list string * list A)) :=
  match gs with
  | [] => [(key, (cols, [tup]))]
  | (k, (cs, tups)) :: rest =>
      if String.eqb k key then (k, (cs, (tups ++ [tup])%list)) :: rest
      else (k, (cs, tups)) :: add_to_group key cols tup rest
  end.

Fixpoint insert_group {A : Type} (g : string * A) (l : list (string * A)) : list (string * A) :=
  match l with
  | [] => [g]
  | h :: t => if String.leb (fst g) (fst h) then g :: l else h :: insert_group g t
  end.
Definition sort_groups {A : Type} (l : list (string * A)) : list (string * A) := fold_right insert_group [] l.

(** A filter whose values are already what is sent to the driver. *)
Definition dfilter := list (string * dval).

Definition extract_columns {A : Type} (f : list (string * A)) : list string := sort_strings (map fst f).

Definition extract_tuple {A : Type} (dflt : A) (f : list (string * A)) (cols : list string) : list A :=
  map (fun c => match lookup c f with Some v => v | None => dflt end) cols.

Definition group_filters (fs : list dfilter) : list (string * bgroup) :=
  fold_left (fun gs f =>
               let cols := extract_columns f in
               add_to_group (columns_key cols) cols (extract_tuple DNull f cols) gs) fs [].

(** makeBatchQuery: None = some filter is empty (the clause is empty: the whole table is fetched). *)
Definition make_batch_query (fs : list dfilter) : option (list bgroup) :=
  if existsb (fun f => match f with [] => true | _ => false end) fs then None
  else Some (map snd (sort_groups (group_filters fs))).

(** * SQL semantics of WHERE (three-valued) -- the specification of MySQL the model trusts *)
Inductive tri : Type := TT | TF | TU.

Definition tri_and (a b : tri) : tri :=
  match a, b with TF, _ | _, TF => TF | TT, TT => TT | _, _ => TU end.
Definition tri_or (a b : tri) : tri :=
  match a, b with TT, _ | _, TT => TT | TF, TF => TF | _, _ => TU end.

Definition num_of (d : dval) : option Z :=   (* numbers in quarter units *)
  match d with
  | DInt z => Some (4 * z)%Z
  | DFloat q => Some q
  | DBool b => Some (if b then 4 else 0)%Z
  | _ => None
  end.
Definition text_of (d : dval) : option string :=
  match d with DStr s | DBytes s => Some s | _ => None end.

(** [a = b] in SQL: UNKNOWN if either is NULL; numbers numerically, texts bytewise (binary collation).
    A number against a text is outside the model's domain (MySQL converts the text's numeric prefix);
    the theorems that depend on it assume well-typed filters. *)
Definition sql_eq (a b : dval) : tri :=
  match a, b with
  | DNull, _ | _, DNull => TU
  | _, _ =>
      match num_of a, num_of b with
      | Some x, Some y => if Z.eqb x y then TT else TF
      | _, _ =>
          match text_of a, text_of b with
          | Some x, Some y => if String.eqb x y then TT else TF
          | _, _ => TF
          end
      end
  end.

Definition sql_is (a b : dval) : tri :=   (* [a IS ?] with argument b; sqlgen only sends NULL *)
  match b with
  | DNull => match a with DNull => TT | _ => TF end
  | _ => TU
  end.

Definition drow := list (string * dval).     (* a stored row by column name *)
Definition cell (r : drow) (c : string) : dval := match lookup c r with Some v => v | None => DNull end.


Definition eval_in (c : string) (vals : list dval) (r : drow) : tri :=
  fold_right (fun v acc => tri_or (sql_eq (cell r c) v) acc) TF vals.

Definition eval_atom (r : drow) (cv : string * dval) : tri :=
  match snd cv with
  | DNull => sql_is (cell r (fst cv)) DNull
  | v => sql_eq (cell r (fst cv)) v
  end.

Definition eval_simple (w : list (string * dval)) (r : drow) : tri :=
  fold_right (fun cv acc => tri_and (eval_atom r cv) acc) TT w.

Definition eval_tuple (cs : list string) (tup : list dval) (r : drow) : tri :=
  fold_right (fun cv acc => tri_and (eval_atom r cv) acc) TT (combine cs tup).

Definition eval_group (g : bgroup) (r : drow) : tri :=
  match fst g with
  | [c] =>
      let firsts := map (hd DNull) (snd g) in
      tri_or (eval_in c (non_null firsts) r)
             (if existsb is_null firsts then sql_is (cell r c) DNull else TF)
  | cs => fold_right (fun tup acc => tri_or (eval_tuple cs tup r) acc) TF (snd g)
  end.

(** Before the repair: [c IN (.., NULL, ..)] and [c=NULL]. *)
Definition eval_tuple_orig (cs : list string) (tup : list dval) (r : drow) : tri :=
  fold_right (fun cv acc => tri_and (sql_eq (cell r (fst cv)) (snd cv)) acc) TT (combine cs tup).
Definition eval_group_orig (g : bgroup) (r : drow) : tri :=
  match fst g with
  | [c] => eval_in c (List.concat (snd g)) r
  | cs => fold_right (fun tup acc => tri_or (eval_tuple_orig cs tup r) acc) TF (snd g)
  end.
Definition eval_batch_orig (gs : list bgroup) (r : drow) : tri :=
  fold_right (fun g acc => tri_or (eval_group_orig g r) acc) TF gs.

Definition eval_batch (gs : list bgroup) (r : drow) : tri :=
  fold_right (fun g acc => tri_or (eval_group g r) acc) TF gs.

Definition eval_wclause (w : wclause) (r : drow) : tri :=
  match w with
  | WSimple l => eval_simple l r
  | WBatch [] => TT              (* empty clause: no WHERE *)
  | WBatch gs => eval_batch gs r
  end.

Definition is_tt (t : tri) : bool := match t with TT => true | _ => false end.

Definition select_rows (w : wclause) (contents : list drow) : list drow :=
  List.filter (fun r => is_tt (eval_wclause w r)) contents.

(** * The DB methods (sqlgen/db.go) *)

(** Chunks of InsertRows / UpsertRows: [chunk] rows at a time (fuel = number of rows). *)
Fixpoint chunks_fuel {A : Type} (fuel n : nat) (l : list A) : list (list A) :=
  match fuel, l with
  | _, [] => []
  | O, _ => [l]
  | S fuel', _ => firstn n l :: chunks_fuel fuel' n (skipn n l)
  end.
Definition chunks {A : Type} (n : nat) (l : list A) : list (list A) := chunks_fuel (List.length l) n l.

(** One statement guarded by a value check. *)
Definition guarded_write (h : handle) (cvs : list (string * dval)) (s : stmt) : list event * outcome :=
  if check_values_limits h cvs then ([EStmt s], Proceeds) else ([], Rejected).

(** The loop of InsertRows / UpsertRows over the chunks, inside the transaction. *)
Fixpoint run_chunks (h : handle) (mk : list grow -> stmt) (cvs_of : grow -> list (string * dval))
         (cs : list (list grow)) : list event * outcome :=
  match cs with
  | [] => ([], Proceeds)
  | c :: rest =>
      if forallb (fun r => check_values_limits h (cvs_of r)) c then
        let (ev, out) := run_chunks h mk cvs_of rest in (EStmt (mk c) :: ev, out)
      else ([], Rejected)
  end.

Definition in_own_tx (c : ctx) (body : list event * outcome) : list event * outcome :=
  if in_tx c then body
  else match body with
       | (ev, Proceeds) => (EBegin :: (ev ++ [ECommit])%list, Proceeds)
       | (ev, out) => (EBegin :: (ev ++ [ERollback])%list, out)
       end.

(** The statement a batch of filters is fetched with (the batch function of NewDB, as repaired:
    values go through the column's Valuer first). *)
Definition dfilter_of (t : table) (f : filter) : dfilter := where_in_order (t_cols t) f.

Definition batch_stmt (t : table) (fs : list filter) : stmt :=
  match make_batch_query (map (dfilter_of t) fs) with
  | Some gs => SSelect (t_name t) (col_names t) (WBatch gs) None
  | None => SSelect (t_name t) (col_names t) (WBatch []) None
  end.

Definition run (h : handle) (t : table) (c : ctx) (o : op) : list event * outcome :=
  match o with
  | OQuery f opts =>
      match make_where t f with
      | None => ([], BadInput)
      | Some w =>
          if check_filter_limits h f then
            match opts with
            | None => if negb (in_tx c) && batching c
                      then ([EStmt (batch_stmt t [f])], Proceeds)     (* a batch of one *)
                      else ([EStmt (SSelect (t_name t) (col_names t) (WSimple w) None)], Proceeds)
            | Some _ => ([EStmt (SSelect (t_name t) (col_names t) (WSimple w) opts)], Proceeds)
            end
          else ([], Rejected)
      end
  | OCount f =>
      match make_where t f with
      | None => ([], BadInput)
      | Some w => if check_filter_limits h f then ([EStmt (SCount (t_name t) w)], Proceeds) else ([], Rejected)
      end
  | OInsertRow r =>
      let cvs := insert_cvs t r in
      guarded_write h cvs (SInsert (t_name t) (map fst cvs) [map snd cvs])
  | OUpsertRow r =>
      if t_auto t then ([], BadInput)
      else let cvs := upsert_cvs t r in
           guarded_write h cvs (SUpsert (t_name t) (map fst cvs) [map snd cvs])
  | OUpdateRow r =>
      let w := pk_cvs t r in
      let s := nonpk_cvs t r in
      guarded_write h (w ++ s)%list (SUpdate (t_name t) (map fst s) (map snd s) w)
  | ODeleteRow r =>
      let w := pk_cvs t r in
      guarded_write h w (SDelete (t_name t) w)
  | OInsertRows rs n =>
      match n with
      | O => in_own_tx c (match rs with [] => ([], Proceeds) | _ => ([], BadInput) end)
      | _ => in_own_tx c (run_chunks h
                 (fun ch => SInsert (t_name t) (map c_name (insert_columns t)) (map (fun r => map snd (insert_cvs t r)) ch))
                 (insert_cvs t) (chunks n rs))
      end
  | OUpsertRows rs n =>
      match n with
      | O => in_own_tx c (match rs with [] => ([], Proceeds) | _ => ([], BadInput) end)
      | _ => if t_auto t
             then in_own_tx c (match rs with [] => ([], Proceeds) | _ => ([], BadInput) end)
             else in_own_tx c (run_chunks h
                 (fun ch => SUpsert (t_name t) (col_names t) (map (fun r => map snd (upsert_cvs t r)) ch))
                 (upsert_cvs t) (chunks n rs))
      end
  end.

(** Concurrent Query calls under batch.WithBatching on one handle: every caller is checked on its own
    before batch.Func.Invoke; [arrival] lists, per invocation of the batch function, the callers it
    combined, in the order they reached it (decided by the Go scheduler, observed by the harness).
    Callers that do not pass are answered without reaching the batch. *)
Definition caller_outcome (h : handle) (t : table) (f : filter) : outcome :=
  match make_where t f with
  | None => BadInput
  | Some _ => if check_filter_limits h f then Proceeds else Rejected
  end.

Definition nth_filter (fs : list filter) (i : nat) : filter := nth i fs [].

Definition run_batched (h : handle) (t : table) (fs : list filter) (arrival : list (list nat))
  : list event * list outcome :=
  (map (fun b => EStmt (batch_stmt t (map (nth_filter fs) b))) arrival,
   map (caller_outcome h t) fs).

(** [arrival] is consistent with the checks: exactly the callers that pass reach the batch function. *)
Definition outcome_is_proceeds (o : outcome) : bool := match o with Proceeds => true | _ => false end.

Fixpoint count_occ_nat (l : list nat) (x : nat) : nat :=
  match l with [] => O | y :: t => (if Nat.eqb x y then 1 else 0) + count_occ_nat t x end.

Definition arrival_consistent (h : handle) (t : table) (fs : list filter) (arrival : list (list nat)) : bool :=
  let all := List.concat arrival in
  forallb (fun i => Nat.ltb i (List.length fs) && outcome_is_proceeds (caller_outcome h t (nth_filter fs i))
                    && Nat.eqb (count_occ_nat all i) 1) all
  && forallb (fun i => negb (outcome_is_proceeds (caller_outcome h t (nth_filter fs i)))
                       || Nat.eqb (count_occ_nat all i) 1) (seq 0 (List.length fs))
  && forallb (fun b => match b with [] => false | _ => true end) arrival.

(** * Well-formedness of inputs (boolean; evaluated on every generated case, hypotheses of the theorems) *)

(** Column names are identifiers: not empty, no ";" (makeBatchQuery joins them with ";" to key a group). *)
Fixpoint no_semi (s : string) : bool :=
  match s with
  | EmptyString => true
  | String c s' => negb (Ascii.eqb c ";"%char) && no_semi s'
  end.
Definition name_ok (s : string) : bool := no_semi s && negb (String.eqb s "").
Definition table_ok (t : table) : bool := forallb name_ok (map c_name (t_cols t)).

(** Structural equality of Go values. *)
Fixpoint goval_eqb (a b : goval) : bool :=
  match a, b with
  | GNil, GNil => true
  | GInt k n x, GInt k' n' y => ikind_eqb k k' && String.eqb n n' && Z.eqb x y
  | GStr n x, GStr n' y => String.eqb n n' && String.eqb x y
  | GBool x, GBool y => Bool.eqb x y
  | GFloat x, GFloat y => Z.eqb x y
  | GBytes x, GBytes y => String.eqb x y
  | GNilBytes, GNilBytes => true
  | GPtr p x, GPtr q y => Nat.eqb p q && goval_eqb x y
  | GNilPtr t, GNilPtr u => gty_eqb t u
  | GCustom n u s, GCustom n' u' s' => String.eqb n n' && goval_eqb u u' && dval_eqb s s'
  | _, _ => false
  end.

(** A pointer has one pointee: equal addresses hold equal values. *)
Definition ptr_okb (a b : goval) : bool :=
  match a, b with
  | GPtr p x, GPtr q y => negb (Nat.eqb p q) || goval_eqb x y
  | _, _ => true
  end.

Definition filter_ptrs_okb (f limit : filter) : bool :=
  forallb (fun kv => match lookup (fst kv) f with Some fv => ptr_okb fv (snd kv) | None => true end) limit.

Definition handle_limits (h : handle) : list filter :=
  (match h_shard h with Some l => [l] | None => [] end) ++ (match h_dyn h with Some l => [l] | None => [] end).

Definition row_okb (t : table) (r : grow) : bool := Nat.eqb (List.length r) (List.length (t_cols t)).

Definition op_wfb (h : handle) (t : table) (o : op) : bool :=
  table_ok t &&
  match o with
  | OQuery f _ | OCount f => forallb (filter_ptrs_okb f) (handle_limits h)
  | OInsertRows rs _ | OUpsertRows rs _ => forallb (row_okb t) rs
  | _ => true
  end.

Definition batched_wfb (h : handle) (t : table) (fs : list filter) : bool :=
  table_ok t && forallb (fun f => forallb (filter_ptrs_okb f) (handle_limits h)) fs.

(** * C10: the batched fetch and the matcher *)

(** ** What Scanner.Scan leaves in a struct field of type [ty] for a stored value *)
Definition wrap_kind (k : ikind) (z : Z) : Z :=
  let s (w : Z) := let m := (z mod 2 ^ w)%Z in if (m <? 2 ^ (w - 1))%Z then m else (m - 2 ^ w)%Z in
  let u (w : Z) := (z mod 2 ^ w)%Z in
  match k with
  | KI | KI64 => s 64%Z | KI8 => s 8%Z | KI16 => s 16%Z | KI32 => s 32%Z
  | KU | KU64 => u 64%Z | KU8 => u 8%Z | KU16 => u 16%Z | KU32 => u 32%Z
  end.

Fixpoint field_value (ty : gty) (d : dval) : goval :=
  match ty with
  | TyPtr t' => match d with DNull => GNilPtr t' | _ => GPtr 0 (field_value t' d) end
  | TyInt k n => match d with
                 | DInt z => GInt k n (wrap_kind k z)
                 | DBool b => GInt k n (if b then 1 else 0)
                 | _ => GInt k n 0
                 end
  | TyStr n => match d with DStr s | DBytes s => GStr n s | _ => GStr n "" end
  | TyBool => match d with DBool b => GBool b | DInt z => GBool (negb (Z.eqb z 0)) | _ => GBool false end
  | TyFloat => match d with DFloat q => GFloat q | DInt z => GFloat (4 * z) | _ => GFloat 0 end
  | TyBytes => match d with DBytes s | DStr s => GBytes s | _ => GNilBytes end
  end.

(** coerce (sqlgen/reflect.go): nil pointers become nil, pointers are dereferenced once. *)
Definition coerce (v : goval) : goval :=
  match v with GNilPtr _ => GNil | GPtr _ v' => v' | _ => v end.

(** internal.MakeHashable on one element: []byte becomes string. *)
Definition hashable (v : goval) : goval :=
  match v with GBytes s => GStr "" s | GNilBytes => GStr "" "" | _ => v end.

(** The matcher: caller [f] receives a fetched row when, for every column of its filter, the coerced
    filter value and the coerced struct field are equal as Go interface values (map lookup on the tuple).
    The conjunction is taken over the table's columns that the filter mentions; for filters whose columns
    are all known (the others were refused before) that is the conjunction over the filter's keys. *)
Definition matcher_matches (t : table) (f : filter) (r : drow) : bool :=
  forallb (fun c => match lookup (c_name c) f with
                    | Some fv => go_eqb (hashable (coerce fv))
                                        (hashable (coerce (field_value (c_ty c) (cell r (c_name c)))))
                    | None => true
                    end) (t_cols t).

Definition batch_wclause (t : table) (fs : list filter) : wclause :=
  match make_batch_query (map (dfilter_of t) fs) with Some gs => WBatch gs | None => WBatch [] end.

(** One invocation of the batch function on callers [fs]: rows fetched by the combined statement, handed
    to each caller the matcher associates them with. *)
Definition batched_results (t : table) (fs : list filter) (contents : list drow) : list (list drow) :=
  let fetched := select_rows (batch_wclause t fs) contents in
  map (fun f => List.filter (matcher_matches t f) fetched) fs.

(** The same query on its own. *)
Definition unbatched_result (t : table) (f : filter) (contents : list drow) : list drow :=
  select_rows (WSimple (dfilter_of t f)) contents.

(** Before C10-fix-1: raw filter values went to the driver through database/sql's default converter and
    NULLs were compared with [=] / [IN]. *)
Definition raw_dfilter (f : filter) : dfilter := map (fun kv => (fst kv, default_conv (snd kv))) f.

Definition batched_results_orig (t : table) (fs : list filter) (contents : list drow) : list (list drow) :=
  let fetched := match make_batch_query (map raw_dfilter fs) with
                 | Some gs => List.filter (fun r => is_tt (eval_batch_orig gs r)) contents
                 | None => contents
                 end in
  map (fun f => List.filter (matcher_matches t f) fetched) fs.

(** ** Domain of the transparency theorem *)
Definition base_ty (ty : gty) : gty := match ty with TyPtr t => t | _ => ty end.
Definition is_ptr_ty (ty : gty) : bool := match ty with TyPtr _ => true | _ => false end.
Definition is_bytes_ty (ty : gty) : bool := match ty with TyBytes => true | _ => false end.

Definition kind_in_range (k : ikind) (z : Z) : bool :=
  let r (lo hi : Z) := (lo <=? z)%Z && (z <? hi)%Z in
  match k with
  | KI | KI64 => r (- 2 ^ 63)%Z (2 ^ 63)%Z
  | KI8 => r (-128)%Z 128%Z | KI16 => r (-32768)%Z 32768%Z | KI32 => r (- 2 ^ 31)%Z (2 ^ 31)%Z
  | KU | KU64 => r 0%Z (2 ^ 63)%Z      (* unsigned values above 2^63-1 are outside the model *)
  | KU8 => r 0%Z 256%Z | KU16 => r 0%Z 65536%Z | KU32 => r 0%Z (2 ^ 32)%Z
  end.

Definition scalar_typed (bt : gty) (v : goval) : bool :=
  match bt, v with
  | TyInt k n, GInt k' n' z => ikind_eqb k k' && String.eqb n n' && kind_in_range k z
  | TyStr n, GStr n' _ => String.eqb n n'
  | TyBool, GBool _ => true
  | TyFloat, GFloat _ => true
  | TyBytes, GBytes s => negb (String.eqb s "")
  | _, _ => false
  end.

(** The filter value has exactly the Go type of the column's struct field (or is a pointer to it, or nil
    for a pointer column).  Everything else is the recorded defect class [c10-batch-matcher-go-type]:
    the matcher compares Go interface values, so int(10) never equals the int64 field holding 10.
    The class also holds the values on which MakeHashable conflates NULL and '': nil or empty []byte
    filter values, and nil on a []byte column (a NULL []byte scans into a nil slice, hashed as ""). *)
Definition exactly_typed (c : column) (fv : goval) : bool :=
  match fv with
  | GNil | GNilPtr _ => negb (c_implicitnull c) && negb (is_bytes_ty (base_ty (c_ty c)))
  | GPtr _ v => scalar_typed (base_ty (c_ty c)) v && negb (c_implicitnull c && is_zero v)
  | v => scalar_typed (base_ty (c_ty c)) v
  end.

Definition filter_exactly_typed (t : table) (f : filter) : bool :=
  forallb (fun c => match lookup (c_name c) f with Some fv => exactly_typed c fv | None => true end) (t_cols t).

Definition dval_is_zero (d : dval) : bool :=
  match d with
  | DInt z => Z.eqb z 0 | DFloat q => Z.eqb q 0 | DStr s | DBytes s => String.eqb s "" | DBool b => negb b | DNull => true
  end.

(** A stored value the column's struct field represents faithfully: of the column's class and range,
    NULL only in pointer or implicitnull columns, no zero value in an implicitnull column (sqlgen writes
    NULL for it). *)
Definition representable (c : column) (d : dval) : bool :=
  match d with
  | DNull => is_ptr_ty (c_ty c) || c_implicitnull c || is_bytes_ty (c_ty c)
  | _ => negb (c_implicitnull c && dval_is_zero d)
         && match base_ty (c_ty c), d with
            | TyInt k _, DInt z => kind_in_range k z
            | TyStr _, DStr _ => true
            | TyBool, DInt z => Z.eqb z 0 || Z.eqb z 1
            | TyFloat, DFloat _ => true
            | TyBytes, DBytes _ => true
            | _, _ => false
            end
  end.

Definition row_representable (t : table) (r : drow) : bool :=
  forallb (fun c => representable c (cell r (c_name c))) (t_cols t).

(** Column descriptors sqlgen accepts: implicitnull is refused on pointer fields, pointers are one level. *)
(** (implicitnull on a []byte column is pointless -- a nil slice is NULL already -- and not modelled.) *)
Definition column_ok (c : column) : bool :=
  negb (c_implicitnull c && (is_ptr_ty (c_ty c) || is_bytes_ty (c_ty c)))
  && negb (is_ptr_ty (base_ty (c_ty c))).
Definition columns_ok (t : table) : bool := forallb column_ok (t_cols t).

Definition filter_known (t : table) (f : filter) : bool := all_known (t_cols t) f.

(** * Batches that mix several handles *)

(** WithShardLimit / WithDynamicLimit copy the DB struct, so every handle derived from one DB shares its
    batch function: concurrent callers on different handles (an unrestricted one and a restricted one, or
    two shard limits) under one batching context end up in the same combined statement.  Each caller is
    still checked against its own handle before it reaches the batch function. *)
Definition run_batched_multi (t : table) (cs : list (handle * filter)) (arrival : list (list nat))
  : list event * list outcome :=
  (map (fun b => EStmt (batch_stmt t (map (nth_filter (map snd cs)) b))) arrival,
   map (fun hf => caller_outcome (fst hf) t (snd hf)) cs).

Definition unrestricted : handle := mk_handle None None false false.

Definition nth_caller (cs : list (handle * filter)) (i : nat) : handle * filter := nth i cs (unrestricted, []).

Definition arrival_consistent_multi (t : table) (cs : list (handle * filter)) (arrival : list (list nat)) : bool :=
  let all := List.concat arrival in
  let ok i := outcome_is_proceeds (caller_outcome (fst (nth_caller cs i)) t (snd (nth_caller cs i))) in
  forallb (fun i => Nat.ltb i (List.length cs) && ok i && Nat.eqb (count_occ_nat all i) 1) all
  && forallb (fun i => negb (ok i) || Nat.eqb (count_occ_nat all i) 1) (seq 0 (List.length cs))
  && forallb (fun b => match b with [] => false | _ => true end) arrival.

Definition batched_multi_wfb (t : table) (cs : list (handle * filter)) : bool :=
  table_ok t && forallb (fun hf => forallb (filter_ptrs_okb (snd hf)) (handle_limits (fst hf))) cs.

(** * Several operations inside one transaction of the caller *)
Definition run_seq (h : handle) (t : table) (batching_on : bool) (ops : list op) : list event * list outcome :=
  (List.concat (map (fun o => fst (run h t (mk_ctx true batching_on) o)) ops),
   map (fun o => snd (run h t (mk_ctx true batching_on) o)) ops).

(** * C10-fix-2: the batch function asks the row tester before it hands a row to a query

    (proposed repair, patches/C10-fix-2.patch.)  The matcher's Go equality is coarser than SQL in places: a
    pointer to "" equals the "" a NULL scans into, an empty []byte is hashed like a nil one.  The repaired
    batch function builds the row tester of every query (Schema.MakeTester: both sides serialized by the
    column's Valuer, compared by driverValuesEqual) and hands a row the matcher associates with a query to
    that query only if its tester accepts the row.  driverValuesEqual on the driver values of this model
    (nil, int64, float64, bool, []byte, string) is equality of kind and value: [dval_eqb]. *)
Definition tester_test (t : table) (f : filter) (r : drow) : bool :=
  forallb (fun c => match lookup (c_name c) f with
                    | Some fv => dval_eqb (valuer (c_implicitnull c) fv)
                                          (valuer (c_implicitnull c) (field_value (c_ty c) (cell r (c_name c))))
                    | None => true
                    end) (t_cols t).

Definition matcher_matches_fixed (t : table) (f : filter) (r : drow) : bool :=
  matcher_matches t f r && tester_test t f r.

Definition batched_results_fixed (t : table) (fs : list filter) (contents : list drow) : list (list drow) :=
  let fetched := select_rows (batch_wclause t fs) contents in
  map (fun f => List.filter (matcher_matches_fixed t f) fetched) fs.
