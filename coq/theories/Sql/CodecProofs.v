(** Lemmas about the row codec model (C13). *)
From Coq Require Import List ZArith String Ascii Bool Lia ZifyBool DecimalString DecimalZ DecimalPos Decimal.
From Thunder Require Import Sql.TimeText Sql.Codec.
Import ListNotations.
Open Scope list_scope.
Open Scope Z_scope.

Ltac Zify.zify_post_hook ::= Z.div_mod_to_equations.

(** * Decimal text *)

Lemma to_uint_nonnil p : Pos.to_uint p <> Nil.
Proof.
  intros H. pose proof (DecimalPos.Unsigned.of_to p) as Hof. rewrite H in Hof. discriminate.
Qed.

Lemma parse_print_N z : 0 <= z -> parse_N (print_Z z) = Some z.
Proof.
  intros Hz. unfold parse_N, print_Z. destruct z as [|p|p]; try lia.
  - reflexivity.
  - cbn [Z.to_int NilZero.string_of_int].
    rewrite NilZero.usu by apply to_uint_nonnil.
    cbn [option_map]. f_equal. unfold Z.of_uint.
    rewrite DecimalPos.Unsigned.of_to. reflexivity.
Qed.

Lemma print_neg p : print_Z (Z.neg p) = String "-" (print_Z (Z.pos p)).
Proof. reflexivity. Qed.

Lemma string_of_uint_no_sign d : forall c s, NilEmpty.string_of_uint d = String c s -> c <> "-"%char /\ c <> "+"%char.
Proof.
  destruct d; cbn; intros c s H; try discriminate; inversion H; subst; split; discriminate.
Qed.

Lemma print_nonneg_head z : 0 <= z -> exists c s, print_Z z = String c s /\ c <> "-"%char /\ c <> "+"%char.
Proof.
  intros Hz. destruct z as [|p|p]; try lia.
  - exists "0"%char, EmptyString. repeat split; discriminate.
  - unfold print_Z. cbn [Z.to_int NilZero.string_of_int].
    destruct (Pos.to_uint p) eqn:E; try (now apply to_uint_nonnil in E);
      cbn; eexists _, _; (split; [reflexivity | split; discriminate]).
Qed.

Lemma parse_go_int_print z : parse_go_int (print_Z z) = Some z.
Proof.
  destruct z as [|p|p].
  - reflexivity.
  - destruct (print_nonneg_head (Z.pos p)) as (c & s & E & Hm & Hp); [lia|].
    unfold parse_go_int. rewrite E.
    assert (Hgo : parse_N (String c s) = Some (Z.pos p)) by (rewrite <- E; apply parse_print_N; lia).
    destruct c as [[] [] [] [] [] [] [] []]; try exact Hgo; exfalso; auto.
  - rewrite print_neg. cbn [parse_go_int]. rewrite parse_print_N by lia. reflexivity.
Qed.

Lemma parse_int64_print z : in_int64 z = true -> parse_int64 (print_Z z) = Ok z.
Proof. intros H. unfold parse_int64. rewrite parse_go_int_print, H. reflexivity. Qed.

(** * Two's complement *)

Lemma width_cases w : width_ok w = true -> w = 8 \/ w = 16 \/ w = 32 \/ w = 64.
Proof. unfold width_ok. rewrite !orb_true_iff, !Z.eqb_eq. tauto. Qed.

Ltac widths H :=
  apply width_cases in H; destruct H as [H | [H | [H | H]]]; subst.

Ltac pows :=
  change (2 ^ 8) with 256 in *; change (2 ^ 16) with 65536 in *; change (2 ^ 32) with 4294967296 in *;
  change (2 ^ 64) with 18446744073709551616 in *; change (2 ^ 63) with 9223372036854775808 in *;
  change (2 ^ (8 - 1)) with 128 in *; change (2 ^ (16 - 1)) with 32768 in *;
  change (2 ^ (32 - 1)) with 2147483648 in *; change (2 ^ (64 - 1)) with 9223372036854775808 in *;
  change (2 ^ 24) with 16777216 in *; change (2 ^ (24 - 1)) with 8388608 in *.

Ltac brk :=
  repeat match goal with
         | |- context[if ?a <? ?b then _ else _] => destruct (Z.ltb_spec a b)
         | H : context[if ?a <? ?b then _ else _] |- _ => destruct (Z.ltb_spec a b)
         end.

Lemma wrap_s_id w z : width_ok w = true -> - 2 ^ (w - 1) <= z < 2 ^ (w - 1) -> wrap_s w z = z.
Proof. intros Hw Hz. unfold wrap_s. widths Hw; pows; brk; lia. Qed.

Lemma colwidth_cases w : colwidth_ok w = true -> width_ok w = true \/ w = 24.
Proof. unfold colwidth_ok. rewrite orb_true_iff, Z.eqb_eq. tauto. Qed.

Lemma wrap_s_id_col w z : colwidth_ok w = true -> - 2 ^ (w - 1) <= z < 2 ^ (w - 1) -> wrap_s w z = z.
Proof.
  intros Hw Hz. destruct (colwidth_cases w Hw) as [H|H]; [apply wrap_s_id; assumption|].
  subst. unfold wrap_s. pows. brk; lia.
Qed.

Lemma wrap_u_id w z : width_ok w = true -> 0 <= z < 2 ^ w -> wrap_u w z = z.
Proof. intros Hw Hz. unfold wrap_u. apply Z.mod_small. exact Hz. Qed.

Lemma wrap_u_wrap_s w z : width_ok w = true -> 0 <= z < 2 ^ w -> wrap_u w (wrap_s w z) = z.
Proof. intros Hw Hz. unfold wrap_u, wrap_s. widths Hw; pows; brk; lia. Qed.

Lemma uint_back w z : width_ok w = true -> 0 <= z < 2 ^ w -> wrap_u w (wrap_s 64 z) = z.
Proof. intros Hw Hz. unfold wrap_u, wrap_s. widths Hw; pows; brk; lia. Qed.

Lemma wrap_s64_in_int64 z : in_int64 (wrap_s 64 z) = true.
Proof. unfold in_int64, min_int64, max_int64, wrap_s. pows. brk; lia. Qed.

Lemma wrap_s64_nonneg z : 0 <= z < 2 ^ 64 -> 0 <= wrap_s 64 z -> wrap_s 64 z = z.
Proof. unfold wrap_s. pows. brk; lia. Qed.

(** * Laws of the environment (what strconv / time / mysql.parseDateTime guarantee) *)
Record env_laws (e : env) : Prop := {
  law_f64 : forall f, parsef e (fmt64 e f) = Some f;
  law_f32 : forall f, round32 e f = f -> exists f', parsef e (fmt32 e f) = Some f' /\ round32 e f' = f;
  law_tus : forall t, text_range t = true -> t mod 1000 = 0 -> parse_t e (fmt_us e t) = Some t;
  law_tsec : forall t, text_range t = true -> t mod 1000000000 = 0 -> parse_t e (fmt_sec e t) = Some t
}.

Local Opaque print_Z wrap_s wrap_u Z.pow parse_int64.

Lemma in_kind_int64 b z : (match b with BInt w | BUint w => width_ok w | _ => false end) = true ->
  in_kind b z = true -> match b with BInt _ => in_int64 z = true | _ => 0 <= z < 2 ^ 64 end.
Proof.
  Local Transparent Z.pow.
  destruct b; try discriminate; intros Hw Hk; unfold in_kind, in_int64, min_int64, max_int64 in *;
    widths Hw; pows; lia.
  Local Opaque Z.pow.
Qed.

Ltac inv H := inversion H; subst; clear H.

(** ** Integers *)
Lemma int_rt e w z c p s :
  width_ok w = true -> in_kind (BInt w) z = true ->
  col_matches (mk_desc (BInt w) false TNone) c p = true ->
  repr e c p (DInt z) = Some s -> kind_scan e (BInt w) s = Ok (GInt z).
Proof.
  intros Hw Hk Hc Hr.
  assert (H64 : in_int64 z = true) by (apply (in_kind_int64 (BInt w)); assumption).
  assert (Hid : wrap_s w z = z).
  { apply wrap_s_id; [assumption|]. unfold in_kind in Hk. lia. }
  unfold kind_scan, kind_scan_gen.
  destruct p; cbn [repr proto_src] in Hr.
  4: { inv Hr. cbn [scan_int64 rbind]. rewrite Hid. reflexivity. }
  all: destruct (storable c (DInt z)) eqn:Hs; cbn [negb] in Hr; try discriminate;
    destruct c as [cw u| | | | |m]; cbn [storable] in Hs; try discriminate; cbn [col_matches d_base] in Hc.
  all: try (inv Hr; cbn [scan_int64 rbind]; rewrite ?parse_int64_print by assumption; cbn [rbind]; rewrite ?Hid; reflexivity).
  (* binlog, integer column *)
  apply andb_prop in Hc as [Hc Hu]. apply andb_prop in Hc as [Hcw _]. destruct u; [discriminate|].
  inv Hr. cbn [scan_int64 rbind].
  rewrite (wrap_s_id_col cw z) by (assumption || lia). rewrite Hid. reflexivity.
Qed.

Lemma uint_rt e w z c p s :
  width_ok w = true -> in_kind (BUint w) z = true ->
  col_matches (mk_desc (BUint w) false TNone) c p = true ->
  repr e c p (DInt (wrap_s 64 z)) = Some s -> kind_scan e (BUint w) s = Ok (GInt z).
Proof.
  intros Hw Hk Hc Hr.
  assert (Hz : 0 <= z < 2 ^ w) by (unfold in_kind in Hk; lia).
  assert (H64 : 0 <= z < 2 ^ 64) by (apply (in_kind_int64 (BUint w)); assumption).
  pose proof (wrap_s64_in_int64 z) as Hin.
  pose proof (uint_back w z Hw Hz) as Hback.
  unfold kind_scan, kind_scan_gen.
  destruct p; cbn [repr proto_src] in Hr.
  4: { inv Hr. cbn [unsigned_at_own_width]. change (64 <? 64) with false. cbn [scan_int64 rbind].
       rewrite Hback. reflexivity. }
  all: destruct (storable c (DInt (wrap_s 64 z))) eqn:Hs; cbn [negb] in Hr; try discriminate;
    destruct c as [cw u| | | | |m]; cbn [storable] in Hs; try discriminate; cbn [col_matches d_base] in Hc.
  all: try (inv Hr; cbn [unsigned_at_own_width scan_int64 rbind]; rewrite ?parse_int64_print by assumption;
            cbn [rbind]; rewrite ?Hback; reflexivity).
  - (* prepared statements, integer column *)
    inv Hr. cbn [unsigned_at_own_width]. change (64 <? 64) with false. cbn [scan_int64 rbind].
    rewrite Hback. reflexivity.
  - (* binlog, integer column *)
    apply andb_prop in Hc as [Hc Hu]. apply andb_prop in Hc as [Hcw H24]. destruct u; [|discriminate].
    assert (Hn24 : (cw =? 24) = false) by (destruct (cw =? 24); [discriminate|reflexivity]).
    rewrite Hn24 in Hr.
    assert (Hcw' : width_ok cw = true) by (destruct (colwidth_cases cw Hcw) as [H|H]; [exact H|subst; discriminate]).
    clear Hcw. rename Hcw' into Hcw.
    assert (Hsame : wrap_s 64 z = z) by (apply wrap_s64_nonneg; lia).
    rewrite Hsame in *. inv Hr. cbn [unsigned_at_own_width].
    destruct (cw <? 64) eqn:Hlt; cbn [scan_int64 rbind].
    + rewrite wrap_u_wrap_s by (assumption || lia). rewrite Hback. reflexivity.
    + assert (cw = 64) by (widths Hcw; lia). subst. rewrite Hsame, Hback. reflexivity.
Qed.

(** ** Booleans *)
Lemma bool_rt e b c p s :
  col_matches (mk_desc BBool false TNone) c p = true ->
  repr e c p (DBool b) = Some s -> kind_scan e BBool s = Ok (GBool b).
Proof.
  Local Transparent print_Z.
  intros Hc Hr. unfold kind_scan, kind_scan_gen.
  destruct p; cbn [repr proto_src] in Hr.
  4: { inv Hr. reflexivity. }
  all: destruct c as [cw u| | | | |m]; cbn [storable negb] in Hr; try discriminate;
    inv Hr; destruct b; reflexivity.
  Local Opaque print_Z.
Qed.

(** ** Floats *)
Lemma f64_rt e f c p s : env_laws e ->
  col_matches (mk_desc BF64 false TNone) c p = true ->
  repr e c p (DFloat f) = Some s -> kind_scan e BF64 s = Ok (GFloat f).
Proof.
  intros L Hc Hr. unfold kind_scan, kind_scan_gen.
  destruct p; cbn [repr proto_src] in Hr.
  4: { inv Hr. reflexivity. }
  all: destruct c as [cw u| | | | |m]; cbn [storable negb] in Hr; try discriminate;
    cbn [col_matches d_base] in Hc; try discriminate; inv Hr; cbn [scan_float rbind of_opt];
    rewrite ?(law_f64 e L); reflexivity.
Qed.

Lemma f32_rt e f c p s : env_laws e -> round32 e f = f ->
  repr e c p (DFloat f) = Some s -> kind_scan e BF32 s = Ok (GFloat f).
Proof.
  intros L Hf Hr. unfold kind_scan, kind_scan_gen.
  destruct p; cbn [repr proto_src] in Hr.
  4: { inv Hr. cbn [scan_float rbind]. rewrite Hf. reflexivity. }
  all: destruct c as [cw u| | | | |m]; cbn [storable negb] in Hr; try discriminate;
    try (inv Hr; cbn [scan_float rbind of_opt]; rewrite ?(law_f64 e L); cbn [rbind of_opt]; rewrite Hf; reflexivity).
  all: try match type of Hr with
           | (if exact6 _ _ then _ else _) = _ =>
               unfold exact6 in Hr; destruct (parsef e (fmt6 e f)) as [f6|] eqn:Hp6; [|discriminate];
               destruct (round32 e f6 =? f) eqn:H6; [|discriminate]; apply Z.eqb_eq in H6; injection Hr as <-;
               cbn [scan_float of_opt rbind]; rewrite Hp6; cbn [of_opt rbind]; rewrite H6; reflexivity
           end.
  all: destruct (round32 e f =? f); try discriminate; inv Hr; cbn [scan_float];
    destruct (law_f32 e L f Hf) as (f' & Hp & Hr'); rewrite Hp; cbn [of_opt rbind]; rewrite Hr'; reflexivity.
Qed.

(** ** Text and bytes *)
Lemma text_src e c p v t s :
  (v = DStr t \/ v = DBytes t) -> repr e c p v = Some s ->
  s = SBytes t \/ s = SStr t /\ (p = PProto /\ v = DStr t \/ p = PBinlog /\ c = ColVarchar).
Proof.
  intros Hv Hr.
  destruct p; cbn [repr proto_src] in Hr.
  4: { destruct Hv; subst; inv Hr; auto. }
  all: destruct Hv; subst; destruct c as [cw u| | | | |m]; cbn [storable negb] in Hr; try discriminate; inv Hr; auto.
Qed.

Lemma text_as_bytes e c p v t s :
  (v = DStr t \/ v = DBytes t) -> repr e c p v = Some s -> as_bytes s = Some t.
Proof.
  intros Hv Hr. destruct (text_src e c p v t s Hv Hr) as [-> | [-> _]]; reflexivity.
Qed.

Lemma null_src e c p s : repr e c p DNull = Some s -> s = SNull.
Proof.
  destruct p; cbn [repr proto_src storable negb]; intros H; inv H; reflexivity.
Qed.

Lemma nonnull_src e c p v s : v <> DNull -> repr e c p v = Some s -> s <> SNull.
Proof.
  intros Hv Hr Hs. subst.
  destruct p; cbn [repr proto_src] in Hr.
  4: { destruct v; try discriminate; congruence. }
  all: destruct (storable c v); cbn [negb] in Hr; try discriminate;
    destruct v; try congruence; try discriminate;
    destruct c as [cw u| | | | |m]; try discriminate;
    repeat match goal with
           | H : context[if ?b then _ else _] |- _ => destruct b
           | H : context[match ?b with _ => _ end] |- _ => destruct b
           end; discriminate.
Qed.

(** ** Times *)
Lemma time_rt e t c p s d : env_laws e -> d_base d = BTime ->
  repr e c p (DTime t) = Some s -> scan_valid e d s = Ok (GTime t).
Proof.
  intros L Hd Hr. unfold scan_valid, scan_valid_gen. rewrite Hd.
  destruct p; cbn [repr proto_src] in Hr.
  4: { inv Hr. reflexivity. }
  all: destruct c as [cw u| | | | |m]; cbn [storable negb] in Hr; try discriminate;
    destruct (text_range t) eqn:Htr; cbn [negb] in Hr; try discriminate;
    try destruct m;
    match type of Hr with
    | (if ?b then _ else _) = _ => destruct b eqn:Hm; try discriminate
    end; apply Z.eqb_eq in Hm; inv Hr;
    rewrite ?(law_tus e L) by assumption; rewrite ?(law_tsec e L) by assumption; reflexivity.
Qed.

Lemma str_rt e t c p s :
  repr e c p (DStr t) = Some s -> kind_scan e BStr s = Ok (GStr t).
Proof.
  intros Hr. destruct (text_src e c p (DStr t) t s (or_introl eq_refl) Hr) as [-> | [-> _]]; reflexivity.
Qed.

Definition plain_base (b : base) : bool :=
  match b with BInt _ | BUint _ | BF32 | BF64 | BBool | BStr => true | _ => false end.

Lemma plain_rt e b ptr tg g c p s : env_laws e ->
  plain_base b = true -> desc_ok (mk_desc b ptr tg) = true -> gval_ok e b g = true ->
  col_matches (mk_desc b ptr tg) c p = true ->
  repr e c p (plain b g) = Some s -> kind_scan e b s = Ok g.
Proof.
  intros L Hb Hd Hg Hc Hr.
  destruct b; try discriminate; destruct g; try discriminate; cbn [plain] in Hr.
  - eapply int_rt; eauto. destruct tg; try discriminate; apply andb_prop in Hd as [Hd _]; exact Hd.
  - eapply uint_rt; eauto. destruct tg; try discriminate; apply andb_prop in Hd as [Hd _]; exact Hd.
  - eapply f32_rt; eauto. apply Z.eqb_eq. exact Hg.
  - eapply f64_rt; eauto.
  - eapply bool_rt; eauto.
  - eapply str_rt; eauto.
Qed.

(** ** JSON-tagged integers and booleans *)
Lemma print_pos_shape p : exists c s, print_Z (Z.pos p) = String c s /\
  In c ["0";"1";"2";"3";"4";"5";"6";"7";"8";"9"]%char.
Proof.
  Local Transparent print_Z.
  unfold print_Z. cbn [Z.to_int NilZero.string_of_int].
  destruct (Pos.to_uint p) eqn:E; try (now apply to_uint_nonnil in E);
    cbn [NilZero.string_of_uint NilEmpty.string_of_uint]; eexists _, _; (split; [reflexivity|]); cbn; tauto.
  Local Opaque print_Z.
Qed.

Lemma json_int_rt b z : in_kind b z = true -> (match b with BInt _ | BUint _ => true | _ => false end) = true ->
  json_dec b (print_Z z) = Ok (GInt z).
Proof.
  intros Hk Hb. unfold json_dec.
  destruct z as [|p|p].
  - Local Transparent print_Z. cbn -[in_kind]. Local Opaque print_Z.
    rewrite Hk. destruct b; try discriminate; reflexivity.
  - destruct (print_pos_shape p) as (c & s & E & Hin).
    assert (Hp : parse_N (String c s) = Some (Z.pos p)) by (rewrite <- E; apply parse_print_N; lia).
    assert (Hpr : print_Z (Z.pos p) = String c s) by exact E.
    rewrite E.
    cbn in Hin.
    destruct Hin as [<-|[<-|[<-|[<-|[<-|[<-|[<-|[<-|[<-|[<-|[]]]]]]]]]]];
      cbn [String.eqb Ascii.eqb Bool.eqb]; rewrite Hp; rewrite Hpr, String.eqb_refl, Hk; cbn [andb];
      destruct b; try discriminate; reflexivity.
  - rewrite print_neg.
    cbn [String.eqb Ascii.eqb Bool.eqb]. rewrite parse_print_N by lia. rewrite String.eqb_refl.
    change (- Z.pos p) with (Z.neg p). rewrite Hk. cbn [andb].
    destruct b; try discriminate; reflexivity.
Qed.

Lemma json_rt e b ptr g : desc_ok (mk_desc b ptr TJson) = true -> gval_ok e b g = true ->
  (match b with BCustom _ => false | _ => true end) = true ->
  exists t, json_enc g = DBytes t /\ json_dec b t = Ok g.
Proof.
  intros Hd Hg Hnc. destruct b as [w|w| | | | | | |[]]; try discriminate; destruct g; try discriminate; cbn [json_enc].
  - eexists; split; [reflexivity|]. apply json_int_rt; auto.
  - eexists; split; [reflexivity|]. apply json_int_rt; auto.
  - destruct b; eexists; split; reflexivity.
Qed.

(** ** Scanner.Scan after Valuer.Value *)
(** Types that are their own sql.Scanner take the short cut at the top of Scanner.Scan. *)
Definition self_scanning (b : base) : bool :=
  match b with BCustom (CValuer | CNull | CUuid | CTri) => true | _ => false end.

Lemma scanner_nonnull e d s : self_scanning (d_base d) = false -> s <> SNull ->
  scanner e d s = rbind (scan_valid e d s) (fun g => Ok (FVal g)).
Proof.
  intros Hb Hs. unfold scanner, scanner_gen.
  destruct (d_base d) as [| | | | | | | |[]]; try discriminate; destruct s; try congruence; reflexivity.
Qed.

Lemma scan_valid_plain e d s : plain_base (d_base d) = true ->
  (d_tag d = TNone \/ d_tag d = TImplicitNull) -> scan_valid e d s = kind_scan e (d_base d) s.
Proof.
  intros Hb Ht. unfold scan_valid, scan_valid_gen.
  destruct (d_base d); try discriminate; destruct Ht as [-> | ->]; reflexivity.
Qed.

Lemma is_zero_zero e b g : (match b with BCustom _ => false | _ => true end) = true ->
  gval_ok e b g = true -> is_zero g = true -> g = zero_of b.
Proof.
  destruct b, g; try discriminate; cbn; intros _ _ H;
    try (apply Z.eqb_eq in H; subst; reflexivity);
    try (apply String.eqb_eq in H; subst; reflexivity);
    repeat match goal with x : bool |- _ => destruct x | x : option _ |- _ => destruct x end;
    try discriminate; reflexivity.
Qed.

Lemma plain_nonnull e b g : plain_base b = true -> gval_ok e b g = true -> plain b g <> DNull.
Proof. destruct b; try discriminate; destruct g; try discriminate. Qed.

(** The plain path: tag none, or implicitnull with a non-zero value / pointer. *)
Lemma scanner_plain e b ptr tg g c p s : env_laws e ->
  plain_base b = true -> desc_ok (mk_desc b ptr tg) = true -> (tg = TNone \/ tg = TImplicitNull) ->
  gval_ok e b g = true -> col_matches (mk_desc b ptr tg) c p = true ->
  repr e c p (plain b g) = Some s -> scanner e (mk_desc b ptr tg) s = Ok (FVal g).
Proof.
  intros L Hb Hd Ht Hg Hc Hr.
  rewrite scanner_nonnull.
  - rewrite scan_valid_plain by (cbn [d_base d_tag]; assumption). cbn [d_base].
    erewrite plain_rt; eauto. reflexivity.
  - cbn [d_base]. destruct b; try discriminate; reflexivity.
  - eapply nonnull_src; [|exact Hr]. eapply plain_nonnull; eauto.
Qed.

(** What NULL is scanned into: the zero value (nil for a pointer), except for a non-pointer type that is
    its own sql.Scanner and gives NULL a meaning of its own. *)
Definition null_image (d : desc) : fval :=
  if d_ptr d then FNil
  else match d_base d with BCustom CTri => FVal (GInt 2) | b => FVal (zero_of b) end.

Lemma scanner_null_image e d : scanner e d SNull = Ok (null_image d).
Proof.
  unfold scanner, scanner_gen, null_image. destruct (d_base d) as [| | | | | | | |[]]; destruct (d_ptr d); reflexivity.
Qed.

Lemma scanner_null e d : (d_ptr d = true \/ d_base d <> BCustom CTri) -> scanner e d SNull = Ok (zero_field d).
Proof.
  intros H. rewrite scanner_null_image. unfold null_image, zero_field.
  destruct (d_ptr d); [reflexivity|]. destruct H as [H|H]; [discriminate|].
  destruct (d_base d) as [| | | | | | | |[]]; try reflexivity. congruence.
Qed.

Lemma take_pad_id n : forall s, String.length s = n -> take_pad n s = s.
Proof.
  induction n as [|n IH]; intros [|c s] H; cbn in *; try discriminate; [reflexivity|].
  rewrite IH by congruence. reflexivity.
Qed.

Lemma fit16_id s : String.length s = 16%nat -> fit16 s = s.
Proof. apply take_pad_id. Qed.

(** The tri-state type: "unanswered" is written as NULL and NULL is read as "unanswered" (not as the zero
    value "no"); 0 and 1 travel as integers. *)
Lemma tri_rt e ptr tg z c p s :
  gval_ok e (BCustom CTri) (GInt z) = true ->
  negb (ptr && Z.eqb z 2) = true ->
  col_matches (mk_desc (BCustom CTri) ptr tg) c p = true ->
  repr e c p (valuer (mk_desc (BCustom CTri) ptr tg) (Dyn (BCustom CTri) ptr (FVal (GInt z)))) = Some s ->
  scanner e (mk_desc (BCustom CTri) ptr tg) s = Ok (FVal (GInt z)).
Proof.
  intros Hg Hnp Hc Hr. cbn [gval_ok] in Hg. apply andb_prop in Hg as [H0 H2].
  apply Z.leb_le in H0. apply Z.leb_le in H2. cbn [valuer d_tag] in Hr.
  assert (Hz : z = 0 \/ z = 1 \/ z = 2) by lia.
  destruct Hz as [-> | [-> | ->]]; cbn [Z.eqb Pos.eqb] in Hr.
  3: { apply null_src in Hr. subst. destruct ptr; [discriminate Hnp|reflexivity]. }
  all: assert (P0 : print_Z 0 = "0"%string) by (vm_compute; reflexivity);
       assert (P1 : print_Z 1 = "1"%string) by (vm_compute; reflexivity).
  all: destruct p; cbn [repr proto_src] in Hr; try (inv Hr; reflexivity).
  all: match type of Hr with (if negb ?b then _ else _) = _ => destruct b eqn:Hst; cbn [negb] in Hr; [|discriminate] end.
  all: destruct c as [cw u| | | | |m]; try discriminate; try (inv Hr; unfold scanner, scanner_gen; cbn [d_base d_ptr scan_tri rbind]; rewrite ?P0, ?P1; reflexivity).
  all: cbn [col_matches d_base] in Hc; repeat (apply andb_prop in Hc as [Hc ?]); (destruct u; [discriminate|]).
  all: cbn [storable] in Hst; apply andb_prop in Hst as [Hlo Hhi]; apply Z.leb_le in Hlo; apply Z.ltb_lt in Hhi.
  all: inv Hr; unfold scanner, scanner_gen; cbn [d_base d_ptr scan_tri rbind].
  all: rewrite wrap_s_id_col by (try assumption; lia).
  all: destruct (cw =? 24); reflexivity.
Qed.

Theorem scan_roundtrip e d x c p s :
  env_laws e -> desc_ok d = true -> fval_ok e d x = true -> col_matches d c p = true ->
  repr e c p (valuer d (dyn_of d x)) = Some s -> scanner e d s = Ok x.
Proof.
  intros L Hd Hx Hc Hr.
  destruct d as [b ptr tg]. destruct x as [|g].
  - (* nil pointer *)
    cbn [fval_ok d_ptr] in Hx. subst ptr. cbn [valuer dyn_of d_base d_ptr] in Hr.
    apply null_src in Hr. subst. rewrite scanner_null by (left; reflexivity). reflexivity.
  - cbn [fval_ok d_base d_ptr] in Hx. apply andb_prop in Hx as [Hx Hnp]. unfold dyn_of in Hr. cbn [d_base d_ptr] in Hr.
    destruct b as [w|w| | | | | | |cu].
    (* plain kinds *)
    1-6: destruct g; try discriminate;
      destruct tg; try discriminate;
      cbn [valuer d_tag plain] in Hr;
      try (eapply scanner_plain; eauto; fail).
    (* string tag on a string *)
    all: try match goal with
             | |- scanner _ {| d_base := BStr; d_ptr := _; d_tag := TString |} _ = _ =>
                 pose proof (text_as_bytes e c p _ _ s (or_introl eq_refl) Hr) as Hb;
                 rewrite scanner_nonnull;
                 [ unfold scan_valid, scan_valid_gen; cbn [d_base d_tag]; rewrite Hb; reflexivity
                 | reflexivity
                 | eapply nonnull_src; [|exact Hr]; discriminate ]
             end.
    (* json / implicitnull on plain kinds *)
    all: try match type of Hr with
             | repr _ _ _ (json_enc ?g) = _ =>
                 destruct (json_rt e _ ptr g Hd Hx eq_refl) as (t & Hj & Hdec); rewrite Hj in Hr;
                 pose proof (text_as_bytes e c p _ t s (or_intror eq_refl) Hr) as Hb;
                 rewrite scanner_nonnull;
                 [ unfold scan_valid, scan_valid_gen; cbn [d_base d_tag]; rewrite Hb, Hdec; reflexivity
                 | reflexivity
                 | eapply nonnull_src; [|exact Hr]; discriminate ]
             end.
    all: try match type of Hr with
             | repr _ _ _ (if negb ?q && is_zero ?g then _ else _) = _ =>
                 assert (Hp : q = false) by (destruct q; [|reflexivity]; apply andb_prop in Hd as [_ Hd']; discriminate); subst q;
                 cbn [negb andb] in Hr; destruct (is_zero g) eqn:Hz;
                 [ apply null_src in Hr; subst; rewrite scanner_null by (right; discriminate); unfold zero_field; cbn [d_ptr d_base];
                   erewrite <- is_zero_zero by eauto; reflexivity
                 | eapply scanner_plain; eauto ]
             end.
    + (* []byte and *[]byte *)
      destruct g as [| | | |o| |]; try discriminate.
      destruct o as [t|].
      * assert (Hv : valuer (mk_desc BBytes ptr tg) (Dyn BBytes ptr (FVal (GBytes (Some t)))) = DBytes t)
          by (destruct tg; try discriminate; try reflexivity; destruct ptr; reflexivity).
        rewrite Hv in Hr.
        pose proof (text_as_bytes e c p _ t s (or_intror eq_refl) Hr) as Hb.
        rewrite scanner_nonnull; [| reflexivity | eapply nonnull_src; [|exact Hr]; discriminate].
        unfold scan_valid, scan_valid_gen. cbn [d_base]. rewrite Hb. reflexivity.
      * (* a nil slice: only in a non-pointer field *)
        assert (Hp : ptr = false) by (destruct ptr; [discriminate|reflexivity]). subst ptr.
        cbn [valuer] in Hr. apply null_src in Hr. subst. rewrite scanner_null by (right; discriminate). reflexivity.
    + (* time *)
      destruct g; try discriminate.
      destruct tg; try discriminate; cbn [valuer d_tag plain] in Hr.
      * rewrite scanner_nonnull; [| reflexivity | eapply nonnull_src; [|exact Hr]; discriminate].
        erewrite time_rt; eauto. reflexivity.
      * assert (Hp : ptr = false) by (destruct ptr; [discriminate|reflexivity]). subst ptr.
        cbn [negb andb] in Hr. destruct (is_zero (GTime t)) eqn:Hz.
        -- apply null_src in Hr. subst. rewrite scanner_null by (right; discriminate). unfold zero_field. cbn [d_ptr d_base].
           erewrite <- (is_zero_zero e BTime) by eauto. reflexivity.
        -- cbn [plain] in Hr.
           rewrite scanner_nonnull; [| reflexivity | eapply nonnull_src; [|exact Hr]; discriminate].
           erewrite time_rt; eauto. reflexivity.
    + (* custom types; a type that is its own Valuer / Scanner is written and read by itself whatever tag it carries *)
      destruct cu.
      * (* Valuer / Scanner *)
        destruct g as [| | | |o| |pl]; try discriminate.
        assert (Hv : valuer (mk_desc (BCustom CValuer) ptr tg) (Dyn (BCustom CValuer) ptr (FVal (GCust pl))) = DBytes pl)
          by reflexivity.
        rewrite Hv in Hr.
        destruct (text_src e c p _ pl s (or_intror eq_refl) Hr) as [-> | [-> _]]; reflexivity.
      * (* Marshal / Unmarshal, binary tag *)
        destruct tg; try discriminate; destruct g as [| | | |o| |pl]; try discriminate; cbn [valuer d_tag] in Hr.
        destruct (text_src e c p _ (enc_bin pl) s (or_intror eq_refl) Hr) as [-> | [-> [[-> Hbad] | [-> ->]]]];
          [reflexivity | discriminate | discriminate].
      * (* TextMarshaler, string tag *)
        destruct tg; try discriminate; destruct g as [| | | |o| |pl]; try discriminate; cbn [valuer d_tag] in Hr.
        destruct (text_src e c p _ (enc_text pl) s (or_intror eq_refl) Hr) as [-> | [-> _]]; reflexivity.
      * (* sql.NullString *)
        destruct g as [| | | |o| |pl]; try discriminate.
        destruct o as [t|].
        -- assert (Hv : valuer (mk_desc (BCustom CNull) ptr tg) (Dyn (BCustom CNull) ptr (FVal (GBytes (Some t)))) = DStr t)
             by reflexivity.
           rewrite Hv in Hr.
           destruct (text_src e c p _ t s (or_introl eq_refl) Hr) as [-> | [-> _]]; reflexivity.
        -- assert (Hv : valuer (mk_desc (BCustom CNull) ptr tg) (Dyn (BCustom CNull) ptr (FVal (GBytes None))) = DNull)
             by reflexivity.
           rewrite Hv in Hr.
           apply null_src in Hr. subst. destruct ptr; [discriminate Hnp|reflexivity].
      * (* [16]byte *)
        destruct g as [| | | |o| |pl]; try discriminate.
        assert (Hv : valuer (mk_desc (BCustom CUuid) ptr tg) (Dyn (BCustom CUuid) ptr (FVal (GCust pl))) = DBytes pl)
          by reflexivity.
        rewrite Hv in Hr.
        assert (Hfit : fit16 pl = pl) by (apply fit16_id; apply Nat.eqb_eq; exact Hx).
        destruct (text_src e c p _ pl s (or_intror eq_refl) Hr) as [-> | [-> _]];
          unfold scanner, scanner_gen; cbn [d_base]; rewrite Hfit; reflexivity.
      * (* tri-state: 2 <-> NULL, handed to the type's own Scan *)
        destruct g as [z| | | | | |]; try discriminate.
        eapply tri_rt; eauto.
Qed.

(** ** Interface before tag, on both sides

    Valuer.Value asks for driver.Valuer before it looks at the tags, Scanner.Scan asks for sql.Scanner
    before it looks at the tags: for a column whose type is its own Valuer and Scanner neither side's
    result depends on the tag the column carries, which is why such a column round-trips under every tag
    (a Valuer that let a json tag win while Scan still went to the type would write JSON and read it back
    as the type's own payload). *)
Definition retag (d : desc) (tg : tag) : desc := mk_desc (d_base d) (d_ptr d) tg.

Theorem self_typed_column_ignores_its_tag e d tg x s :
  self_scanning (d_base d) = true ->
  match x with FNil => True | FVal g => gval_ok e (d_base d) g = true end ->
  valuer (retag d tg) (dyn_of (retag d tg) x) = valuer d (dyn_of d x) /\
  scanner e (retag d tg) s = scanner e d s.
Proof.
  intros Hs Hx. destruct d as [b ptr t0]. unfold retag, dyn_of. cbn [d_base d_ptr] in *.
  destruct b as [| | | | | | | |[]]; try discriminate Hs; split; try reflexivity;
    destruct x as [|g]; try reflexivity; destruct g as [z|f|bb|st|[t1|]|t1|pl]; try discriminate Hx; reflexivity.
Qed.

(** * Whole rows: BuildStruct / parseBinlogRow after unbuildStruct *)

(** [row_repr e t x row]: [row] is, column by column, some representation MySQL can hand back of what
    unbuildStruct made of the struct value [x] of table [t]. *)
Inductive row_repr (e : env) : table -> list fval -> list src -> Prop :=
| rr_nil : row_repr e [] [] []
| rr_cons : forall n d t x xs s ss c p,
    desc_ok d = true -> fval_ok e d x = true -> col_matches d c p = true ->
    repr e c p (valuer d (dyn_of d x)) = Some s ->
    row_repr e t xs ss -> row_repr e ((n, d) :: t) (x :: xs) (s :: ss).

Lemma row_repr_length e t x row : row_repr e t x row -> List.length row = List.length t.
Proof. induction 1; cbn; congruence. Qed.

Lemma scan_all_roundtrip e t x row : env_laws e -> row_repr e t x row -> scan_all e t row = Ok x.
Proof.
  intros L H. induction H; cbn [scan_all]; [reflexivity|].
  erewrite scan_roundtrip by eauto. cbn [rbind]. rewrite IHrow_repr. reflexivity.
Qed.

Theorem build_unbuild e t x row : env_laws e -> row_repr e t x row -> build e t row = Ok x.
Proof.
  intros L H. unfold build. rewrite (row_repr_length _ _ _ _ H), Nat.eqb_refl.
  apply scan_all_roundtrip; assumption.
Qed.

Lemma index_of_nth n cols : forall j k, NoDup cols -> nth_error cols j = Some n ->
  index_of n cols k = k + Z.of_nat j.
Proof.
  induction cols as [|c cols IH]; intros j k Hnd Hj.
  - destruct j; discriminate.
  - inversion Hnd as [|? ? Hnotin Hnd']; subst. destruct j as [|j]; cbn [nth_error] in Hj; cbn [index_of].
    + inv Hj. rewrite String.eqb_refl. lia.
    + destruct (String.eqb_spec n c) as [->|Hne].
      * exfalso. apply Hnotin. eapply nth_error_In; eauto.
      * rewrite (IH j (k + 1) Hnd' Hj). lia.
Qed.

Lemma parse_cols_roundtrip e cols brow : env_laws e -> NoDup cols ->
  forall t x row, row_repr e t x row ->
  Forall2 (fun nd s => exists j, nth_error cols j = Some (fst nd) /\ nth_error brow j = Some s) t row ->
  parse_cols e t (map (fun nd => index_of (fst nd) cols 0) t) brow = Ok x.
Proof.
  intros L Hnd t x row H. induction H; intros HF; cbn [parse_cols map]; [reflexivity|].
  inversion HF as [|? ? ? ? (j & Hc & Hb) HF']; subst. cbn [fst] in *.
  rewrite (index_of_nth n cols j 0 Hnd Hc). cbn [Z.add].
  replace (Z.of_nat j =? -1) with false by lia.
  rewrite Nat2Z.id, Hb.
  erewrite scan_roundtrip by eauto. cbn [rbind]. rewrite IHrow_repr by assumption. reflexivity.
Qed.

Theorem parse_binlog_roundtrip e t x row cols brow :
  env_laws e -> row_repr e t x row -> NoDup cols -> List.length brow = List.length cols ->
  Forall2 (fun nd s => exists j, nth_error cols j = Some (fst nd) /\ nth_error brow j = Some s) t row ->
  parse_binlog_row e t (fst (column_map t cols)) (snd (column_map t cols)) brow = Ok x.
Proof.
  intros L H Hnd Hlen HF. unfold parse_binlog_row, column_map. cbn [fst snd].
  rewrite Hlen, Z.eqb_refl. eapply parse_cols_roundtrip; eauto.
Qed.

(** * Tester reflexivity *)
Lemma dval_eqb_refl v : v <> DOther -> dval_eqb v v = true.
Proof.
  destruct v; cbn; intros H; try congruence;
    auto using Z.eqb_refl, String.eqb_refl, Bool.eqb_reflx.
Qed.

Lemma valuer_not_other e d x : desc_ok d = true -> fval_ok e d x = true -> valuer d (dyn_of d x) <> DOther.
Proof.
  intros Hd Hx. destruct d as [b ptr tg]. destruct x as [|g]; [discriminate|].
  unfold dyn_of. cbn [d_base d_ptr fval_ok] in *.
  destruct b as [w|w| | | | | | |[]]; destruct g; try discriminate; destruct tg; try discriminate;
    cbn [valuer d_tag plain json_enc];
    repeat match goal with
           | |- context[if ?q then _ else _] => destruct q
           | |- context[match ?o with Some _ => _ | None => _ end] => destruct o
           end; discriminate.
Qed.

Lemma test_row_self e t x : forall pre prex,
  List.length pre = List.length prex ->
  NoDup (map fst (pre ++ t)) ->
  Forall2 (fun nd v => desc_ok (snd nd) = true /\ fval_ok e (snd nd) v = true) t x ->
  forallb (fun nv => match col_lookup (fst nv) (pre ++ t) (prex ++ x) with
                     | Some (d, v) => dval_eqb (valuer d (snd nv)) (valuer d (dyn_of d v))
                     | None => false
                     end) (extract_row t x) = true.
Proof.
  revert x. induction t as [|[n d] t IH]; intros x pre prex Hlen Hnd HF; inversion HF; subst; [reflexivity|].
  cbn [extract_row forallb fst snd].
  apply andb_true_intro; split.
  - assert (Hl : col_lookup n (pre ++ (n, d) :: t) (prex ++ y :: l') = Some (d, y)).
    { clear IH HF H3. revert prex Hlen Hnd. induction pre as [|[m dm] pre IHp]; intros [|pv prex] Hlen Hnd; try discriminate.
      - cbn. rewrite String.eqb_refl. reflexivity.
      - simpl. simpl in Hnd. inversion Hnd as [|? ? Hnotin Hnd']; subst.
        destruct (String.eqb_spec n m) as [->|Hne].
        + exfalso. apply Hnotin. rewrite map_app. apply in_or_app. right. left. reflexivity.
        + apply IHp; [cbn in Hlen; congruence | assumption]. }
    rewrite Hl. cbn [snd] in H1. destruct H1 as [Hd Hx].
    apply dval_eqb_refl. eapply valuer_not_other; eauto.
  - specialize (IH l' (pre ++ [(n, d)]) (prex ++ [y])).
    rewrite <- !app_assoc in IH. cbn [app] in IH. apply IH; try assumption.
    rewrite !app_length. cbn. congruence.
Qed.

Theorem tester_reflexive e t x :
  NoDup (map fst t) ->
  Forall2 (fun nd v => desc_ok (snd nd) = true /\ fval_ok e (snd nd) v = true) t x ->
  tester t (extract_row t x) (Some x) = true.
Proof.
  intros Hnd HF. cbn [tester]. unfold test_row.
  exact (test_row_self e t x [] [] eq_refl Hnd HF).
Qed.

(** * Filter protobuf round trip *)

(** A typed filter value: its Go base type is the column's (pointer or not), integers within the kind,
    and it is not a pointer to a zero value on an implicitnull column (known finding: Valuer tests
    isZero on the pointer, FilterFromProto yields the non-pointer zero, which Valuer turns into NULL). *)
Definition dyn_typed (e : env) (d : desc) (v : dyn) : bool :=
  match v with
  | DynNil => true
  | Dyn b ptr fv =>
      base_eqb b (d_base d) &&
      match fv with
      | FNil => ptr
      | FVal g => gval_ok e b g && negb (ptr && tag_eqb (d_tag d) TImplicitNull && is_zero g)
      end
  end.

Definition filter_typed (e : env) (t : table) (f : filter) : bool :=
  forallb (fun nv => match find_col (fst nv) t with
                     | Some d => desc_ok d && dyn_typed e d (snd nv)
                     | None => false
                     end) f.

Lemma base_eqb_eq a b : base_eqb a b = true -> a = b.
Proof.
  destruct a, b; try discriminate; cbn; intros H; try reflexivity.
  - apply Z.eqb_eq in H; congruence.
  - apply Z.eqb_eq in H; congruence.
  - destruct c, c0; try discriminate; reflexivity.
Qed.

(** The column-typed value a filter value denotes: a nil slice / an invalid NullString denotes NULL,
    except behind a non-nil pointer to a nil slice, which Valuer passes on as an empty byte string. *)
Definition as_field (v : dyn) : fval :=
  match v with
  | DynNil => FNil
  | Dyn BBytes ptr (FVal (GBytes None)) => if ptr then FVal (GBytes (Some ""%string)) else FNil
  | Dyn _ _ (FVal (GBytes None)) => FNil
  | Dyn (BCustom CTri) _ (FVal (GInt z)) => if Z.eqb z 2 then FNil else FVal (GInt z)   (* "unanswered" denotes NULL *)
  | Dyn _ _ fv => fv
  end.

Lemma valuer_nil d : valuer d (dyn_of d FNil) = DNull.
Proof. destruct d; reflexivity. Qed.

Lemma valuer_as_field e d v : desc_ok d = true -> dyn_typed e d v = true ->
  valuer d v = valuer d (dyn_of d (as_field v)) /\
  (as_field v = FNil \/ exists g, as_field v = FVal g /\ fval_ok e d (FVal g) = true).
Proof.
  intros Hd Ht. destruct v as [|b ptr fv]; [split; [reflexivity|left; reflexivity]|].
  cbn [dyn_typed] in Ht. apply andb_prop in Ht as [Hb Hfv]. apply base_eqb_eq in Hb. subst b.
  destruct fv as [|g].
  { replace (as_field (Dyn (d_base d) ptr FNil)) with FNil by (destruct (d_base d) as [| | | | | | | |[]]; reflexivity).
    split; [rewrite valuer_nil; reflexivity | left; reflexivity]. }
  apply andb_prop in Hfv as [Hg Hz].
  destruct d as [b dptr tg]. cbn [d_base d_ptr d_tag] in *. unfold dyn_of. cbn [d_base d_ptr].
  destruct (base_eqb b (BCustom CTri)) eqn:Etri.
  { apply base_eqb_eq in Etri. subst b. destruct g as [z| | | | | |]; try discriminate Hg.
    cbn [as_field]. destruct (z =? 2) eqn:E2.
    - split; [cbn [valuer]; rewrite E2; destruct ptr, dptr; reflexivity | left; reflexivity].
    - split; [reflexivity | right; eexists; split; [reflexivity|]; cbn [fval_ok d_base d_ptr]; rewrite Hg, E2;
                            destruct dptr; reflexivity]. }
  destruct b as [w|w| | | | | | |[]]; try discriminate Etri; destruct g as [z|f|bb|st|[t0|]|t|pl]; try discriminate Hg;
    cbn [as_field].
  (* a nil slice or an invalid NullString *)
  all: try (destruct ptr; (split; [destruct tg; try discriminate Hd; try reflexivity; destruct dptr; reflexivity
                                  | first [left; reflexivity
                                          | right; eexists; split; [reflexivity|]; cbn; destruct dptr; reflexivity]]); fail).
  (* everything else denotes itself *)
  all: (split; [|right; eexists; split; [reflexivity|]; cbn [fval_ok d_base d_ptr]; rewrite Hg;
                  destruct dptr; reflexivity]).
  all: destruct tg; try reflexivity.
  (* implicitnull: the column is not a pointer *)
  all: assert (dptr = false) by (destruct dptr; [|reflexivity]; apply andb_prop in Hd as [_ Hd']; discriminate Hd');
    subst dptr; destruct ptr; [|reflexivity];
    cbn [andb tag_eqb negb] in Hz;
    match type of Hz with negb (is_zero ?g) = true => destruct (is_zero g) eqn:Hzero; [discriminate Hz|] end;
    cbn [valuer d_tag]; rewrite Hzero; cbn [negb andb]; reflexivity.
Qed.

Lemma proto_src_field v pf : value_to_field v = Ok pf -> proto_src v = Some (field_to_value pf).
Proof. destruct v; cbn; intros H; inv H; reflexivity. Qed.

Lemma field_null v pf : value_to_field v = Ok pf -> field_to_value pf = SNull -> v = DNull.
Proof. destruct v; cbn; intros H; inv H; cbn; congruence. Qed.

(** One filter entry through FilterToProto and FilterFromProto. *)
Lemma proto_entry e d v pf : env_laws e -> desc_ok d = true -> dyn_typed e d v = true ->
  value_to_field (valuer d v) = Ok pf ->
  (field_to_value pf = SNull /\ d_ptr d = false) \/
  exists x, scanner e d (field_to_value pf) = Ok x /\ valuer d (dyn_of d x) = valuer d v.
Proof.
  intros L Hd Ht Hpf.
  destruct (valuer_as_field e d v Hd Ht) as [Hv Hshape].
  rewrite Hv in Hpf. pose proof (proto_src_field _ _ Hpf) as Hsrc.
  destruct Hshape as [Hnil | (g & Hg & Hok)].
  - rewrite Hnil in *. assert (Hn : valuer d (dyn_of d FNil) = DNull) by (destruct d; reflexivity).
    rewrite Hn in *. cbn in Hpf. inv Hpf. cbn [field_to_value].
    destruct (d_ptr d) eqn:Hp; [right | left; split; reflexivity].
    exists FNil. rewrite scanner_null by (left; exact Hp). unfold zero_field. rewrite Hp. split; [reflexivity|]. congruence.
  - rewrite Hg in *. right. exists (FVal g). split; [|congruence].
    eapply (scan_roundtrip e d (FVal g) ColBlob PProto); eauto.
Qed.

Lemma col_lookup_find n t : forall x d v, col_lookup n t x = Some (d, v) -> find_col n t = Some d.
Proof.
  induction t as [|[m dm] t IH]; intros x d v H; [discriminate|].
  destruct x as [|xv x]; [discriminate|]. cbn in *.
  destruct (String.eqb n m); [inv H; reflexivity | eauto].
Qed.

Lemma proto_tail e t f ps n d v x :
  find_col n t = Some d -> valuer d (dyn_of d x) = valuer d v ->
  match filter_from_proto e t ps with
  | Err => True
  | Ok f' => forall row, tester t f' row = tester t f row
  end ->
  match rbind (filter_from_proto e t ps) (fun f0 => Ok ((n, dyn_of d x) :: f0)) with
  | Err => True
  | Ok f' => forall row, tester t f' row = tester t ((n, v) :: f) row
  end.
Proof.
  intros Hfind Hval IH.
  destruct (filter_from_proto e t ps) as [f'|]; [|exact I]. cbn [rbind].
  intros [row|]; [|reflexivity]. specialize (IH (Some row)). cbn [tester] in *.
  unfold test_row in *. cbn [forallb fst snd]. rewrite IH. f_equal.
  destruct (col_lookup n t row) as [[d' rv]|] eqn:Hl; [|reflexivity].
  apply col_lookup_find in Hl. rewrite Hfind in Hl. inv Hl. rewrite Hval. reflexivity.
Qed.

Theorem proto_roundtrip e t f p :
  env_laws e -> filter_typed e t f = true -> filter_to_proto t f = Ok p ->
  match filter_from_proto e t p with
  | Err => True
  | Ok f' => forall row, tester t f' row = tester t f row
  end.
Proof.
  intros L. revert p. induction f as [|[n v] f IH]; intros p Ht Hp.
  - inv Hp. cbn. reflexivity.
  - cbn [filter_typed forallb fst snd] in Ht. apply andb_prop in Ht as [Hnv Ht].
    cbn [filter_to_proto] in Hp.
    destruct (find_col n t) as [d|] eqn:Hfind; [|discriminate].
    apply andb_prop in Hnv as [Hd Hty].
    destruct (value_to_field (valuer d v)) as [pf|] eqn:Hpf; [|discriminate]. cbn [rbind] in Hp.
    destruct (filter_to_proto t f) as [ps|] eqn:Hps; [|discriminate]. inv Hp.
    specialize (IH ps Ht eq_refl).
    cbn [filter_from_proto]. rewrite Hfind.
    destruct (proto_entry e d v pf L Hd Hty Hpf) as [[Hs Hptr] | (x & Hscan & Hval)].
    + rewrite Hs, Hptr. exact I.
    + cbv zeta. revert Hscan.
      destruct (field_to_value pf); destruct (d_ptr d); intros Hscan; try exact I;
        rewrite Hscan; cbn [rbind]; eapply proto_tail; eauto.
Qed.

(** * The protobuf round trip of the repaired code (C13-fix-5): no pointer exclusion is left *)

(** A filter value of the column's Go base type (pointer or not): the only requirement that remains. *)
Definition dyn_typed5 (e : env) (d : desc) (v : dyn) : bool :=
  match v with
  | DynNil => true
  | Dyn b ptr fv =>
      base_eqb b (d_base d) &&
      match fv with
      | FNil => ptr
      | FVal g => gval_ok e b g
      end
  end.

Definition filter_typed5 (e : env) (t : table) (f : filter) : bool :=
  forallb (fun nv => match find_col (fst nv) t with
                     | Some d => desc_ok d && dyn_typed5 e d (snd nv)
                     | None => false
                     end) f.

Lemma desc_ok_implicit_not_ptr d : desc_ok d = true -> d_ptr d = true -> tag_eqb (d_tag d) TImplicitNull = false.
Proof.
  intros Hd Hp. unfold desc_ok in Hd. apply andb_prop in Hd as [_ Hd].
  destruct (tag_eqb (d_tag d) TImplicitNull); [rewrite Hp in Hd; discriminate|reflexivity].
Qed.

Lemma norm_dyn_typed e d v : desc_ok d = true -> dyn_typed5 e d v = true -> dyn_typed e d (norm_dyn d v) = true.
Proof.
  intros Hd Ht. destruct v as [|b ptr [|g]]; [reflexivity| |].
  - destruct ptr; exact Ht.
  - cbn [dyn_typed5] in Ht. apply andb_prop in Ht as [Hb Hg].
    destruct ptr; cbn [norm_dyn].
    + destruct (d_ptr d) eqn:Hp; cbn [dyn_typed]; rewrite Hb, Hg; cbn [andb].
      * rewrite (desc_ok_implicit_not_ptr d Hd Hp). reflexivity.
      * reflexivity.
    + cbn [dyn_typed]. rewrite Hb, Hg. reflexivity.
Qed.

Lemma norm_filter_typed e t f : filter_typed5 e t f = true -> filter_typed e t (norm_filter t f) = true.
Proof.
  induction f as [|[n v] f IH]; intros H; [reflexivity|].
  cbn [filter_typed5 forallb fst snd] in H. apply andb_prop in H as [Hnv H].
  cbn [norm_filter map filter_typed forallb fst snd].
  destruct (find_col n t) as [d|] eqn:Hf; [|discriminate]. cbn [fst snd]. rewrite Hf.
  apply andb_prop in Hnv as [Hd Hty]. rewrite Hd, (norm_dyn_typed e d v Hd Hty). cbn [andb].
  apply IH. exact H.
Qed.

Lemma norm_dyn_of d v : norm_dyn d (dyn_of d v) = dyn_of d v.
Proof. unfold dyn_of, norm_dyn. destruct (d_ptr d); [destruct v; reflexivity|reflexivity]. Qed.

(** What FilterFromProto produces is already in the column's own type. *)
Lemma from_proto_normal e t : forall p f', filter_from_proto e t p = Ok f' -> norm_filter t f' = f'.
Proof.
  induction p as [|[n fld] p IH]; intros f' H; cbn [filter_from_proto] in H.
  - inv H. reflexivity.
  - destruct (find_col n t) as [d|] eqn:Hf; [|discriminate].
    assert (Hk : rbind (scanner e d (field_to_value fld))
                   (fun v => rbind (filter_from_proto e t p) (fun f => Ok ((n, dyn_of d v) :: f))) = Ok f').
    { revert H. destruct (field_to_value fld); destruct (d_ptr d); intros H; try discriminate H; exact H. }
    destruct (scanner e d (field_to_value fld)) as [v|]; [|discriminate]. cbn [rbind] in Hk.
    destruct (filter_from_proto e t p) as [f0|]; [|discriminate]. cbn [rbind] in Hk. inv Hk.
    cbn [norm_filter map fst snd]. rewrite Hf, norm_dyn_of. f_equal. apply IH. reflexivity.
Qed.

Theorem proto_roundtrip5 e t f p :
  env_laws e -> filter_typed5 e t f = true -> filter_to_proto5 t f = Ok p ->
  match filter_from_proto e t p with
  | Err => True
  | Ok f' => forall row, tester5 t f' row = tester5 t f row
  end.
Proof.
  intros L Ht Hp. unfold filter_to_proto5 in Hp.
  pose proof (proto_roundtrip e t (norm_filter t f) p L (norm_filter_typed e t f Ht) Hp) as H.
  destruct (filter_from_proto e t p) as [f'|] eqn:Hf; [|exact I].
  intros row. unfold tester5. rewrite (from_proto_normal e t p f' Hf). apply H.
Qed.

(** The three filters of the open findings' kind are no longer ambiguous: a pointer to a zero value on an
    implicitnull column is NULL on both sides (and then rejected for the non-pointer column). *)
Lemma valuer5_pointer_to_zero_is_null :
  valuer5 (mk_desc BBool false TImplicitNull) (Dyn BBool true (FVal (GBool false))) = DNull /\
  valuer (mk_desc BBool false TImplicitNull) (Dyn BBool true (FVal (GBool false))) = DBool false.
Proof. split; reflexivity. Qed.

(** * A concrete environment satisfying the laws (floats and times printed as their names) *)
Definition toy_env : env :=
  mk_env print_Z print_Z print_Z parse_go_int (fun f => f) print_Z print_Z print_Z parse_go_int.

Lemma toy_env_laws : env_laws toy_env.
Proof.
  constructor; cbn; intros.
  - apply parse_go_int_print.
  - exists f. split; [apply parse_go_int_print | reflexivity].
  - apply parse_go_int_print.
  - apply parse_go_int_print.
Qed.

(** * F24: the code before C13-fix-1 *)
Theorem binlog_unsigned_refuted_before_fix :
  exists e d x c s,
    env_laws e /\ desc_ok d = true /\ fval_ok e d x = true /\ col_matches d c PBinlog = true /\
    repr e c PBinlog (valuer d (dyn_of d x)) = Some s /\
    x = FVal (GInt 3000000000) /\
    scanner_gen false e d s = Ok (FVal (GInt 18446744072414584320)).
Proof.
  exists toy_env, (mk_desc (BUint 64) false TNone), (FVal (GInt 3000000000)), (ColInt 32 true),
         (SInt 32 (-1294967296)).
  split; [exact toy_env_laws|]. repeat split; vm_compute; reflexivity.
Qed.

(** The class excluded by [filter_typed] is a genuine counterexample: filter {e: &false} on an
    implicitnull bool column means [e = false] before shipping and [e IS NULL] after. *)
Theorem filter_proto_pointer_to_zero_refuted :
  exists e t f p f' row,
    env_laws e /\ filter_to_proto t f = Ok p /\ filter_from_proto e t p = Ok f' /\
    tester t f row = false /\ tester t f' row = true.
Proof.
  exists toy_env, [("e"%string, mk_desc BBool false TImplicitNull)],
         [("e"%string, Dyn BBool true (FVal (GBool false)))],
         [("e"%string, PBool false)], [("e"%string, Dyn BBool false (FVal (GBool false)))],
         (Some [FVal (GBool false)]).
  split; [exact toy_env_laws|]. repeat split; vm_compute; reflexivity.
Qed.

(** * The classes [col_matches] and [fval_ok] exclude are genuine counterexamples *)

(** MEDIUMINT UNSIGNED through the binlog: the decoder hands back an int32 sign-extended from 24 bits,
    8388608 comes back as 4286578688 (the column's metadata would be needed to undo it). *)
Theorem mediumint_unsigned_binlog_refuted :
  exists e d x s,
    env_laws e /\ desc_ok d = true /\ fval_ok e d x = true /\
    repr e (ColInt 24 true) PBinlog (valuer d (dyn_of d x)) = Some s /\
    x = FVal (GInt 8388608) /\ scanner e d s = Ok (FVal (GInt 4286578688)).
Proof.
  exists toy_env, (mk_desc (BUint 32) false TNone), (FVal (GInt 8388608)), (SInt 32 (-8388608)).
  split; [exact toy_env_laws|]. repeat split; vm_compute; reflexivity.
Qed.

(** A non-nil *[]byte pointing at a nil slice comes back pointing at an empty slice; a non-nil
    *sql.NullString that is not Valid comes back as a nil pointer. *)
Theorem pointer_to_nil_payload_refuted :
  exists e d1 d2 s1 s2,
    env_laws e /\ desc_ok d1 = true /\ desc_ok d2 = true /\
    repr e ColBlob PProto (valuer d1 (dyn_of d1 (FVal (GBytes None)))) = Some s1 /\
    scanner e d1 s1 = Ok (FVal (GBytes (Some ""%string))) /\
    repr e ColBlob PProto (valuer d2 (dyn_of d2 (FVal (GBytes None)))) = Some s2 /\
    scanner e d2 s2 = Ok FNil.
Proof.
  exists toy_env, (mk_desc BBytes true TNone), (mk_desc (BCustom CNull) true TNone), (SBytes ""), SNull.
  split; [exact toy_env_laws|]. repeat split; vm_compute; reflexivity.
Qed.
