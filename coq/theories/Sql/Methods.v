(** C12: every exported method of sqlgen.DB as a call -- executable definitions only.

    Gen/DbMethods.v lists the exported methods of DB found in sqlgen/*.go (regenerated from the source on
    every run); [call] has one constructor per method, [run_call] says what each sends to the database.  The
    operations of Sql/Model.v ([op], [run]) carry the methods that read and write rows; this file adds
      - the methods that were folded into [OQuery] (QueryRow, FullScanQuery with its options rewrite,
        BaseQuery called directly),
      - the EXPLAIN statement BaseQuery sends first on a handle configured WithPanicOnNoIndex
        (db.go runExplainQuery: not on the batched branch, not with AllowNoIndex),
      - the methods that only derive handles or contexts: WithShardLimit, WithDynamicLimit,
        WithPanicOnNoIndex (copy of the handle plus one setting, refused when already set), WithTx (BEGIN,
        refused inside a transaction), WithExistingTx, HasTx, QueryExecer (no statement). *)
From Coq Require Import List ZArith String Bool.
From Thunder Require Import Sql.Model.
Import ListNotations.
Open Scope string_scope.

(** SelectOptions as a caller passes them: the part that shapes the statement, and AllowNoIndex. *)
Definition copts := option (select_opts * bool).
Definition empty_opts : select_opts := mk_opts "" [] "" 0 false [] [].
Definition stmt_opts (o : copts) : option select_opts := match o with Some (so, _) => Some so | None => None end.
Definition allow_no_index (o : copts) : bool := match o with Some (_, b) => b | None => false end.

(** FullScanQuery: [if options == nil { options = &SelectOptions{} }; options.AllowNoIndex = true]. *)
Definition fullscan_opts (o : copts) : copts :=
  match o with Some (so, _) => Some (so, true) | None => Some (empty_opts, true) end.

Inductive call : Type :=
| CBaseQuery (f : filter) (o : copts)
| CCount (f : filter)
| CDeleteRow (r : grow)
| CFullScanQuery (f : filter) (o : copts)
| CHasTx
| CInsertRow (r : grow)
| CInsertRows (rs : list grow) (chunk : nat)
| CQuery (f : filter) (o : copts)
| CQueryExecer
| CQueryRow (f : filter) (o : copts)
| CUpdateRow (r : grow)
| CUpsertRow (r : grow)
| CUpsertRows (rs : list grow) (chunk : nat)
| CWithDynamicLimit (dyn : option filter) (cb cont : bool)
| CWithExistingTx
| CWithPanicOnNoIndex
| CWithShardLimit (l : filter)
| CWithTx.

Definition call_name (c : call) : string :=
  match c with
  | CBaseQuery _ _ => "BaseQuery" | CCount _ => "Count" | CDeleteRow _ => "DeleteRow"
  | CFullScanQuery _ _ => "FullScanQuery" | CHasTx => "HasTx" | CInsertRow _ => "InsertRow"
  | CInsertRows _ _ => "InsertRows" | CQuery _ _ => "Query" | CQueryExecer => "QueryExecer"
  | CQueryRow _ _ => "QueryRow" | CUpdateRow _ => "UpdateRow" | CUpsertRow _ => "UpsertRow"
  | CUpsertRows _ _ => "UpsertRows" | CWithDynamicLimit _ _ _ => "WithDynamicLimit"
  | CWithExistingTx => "WithExistingTx" | CWithPanicOnNoIndex => "WithPanicOnNoIndex"
  | CWithShardLimit _ => "WithShardLimit" | CWithTx => "WithTx"
  end.

(** The kind of database access a method can perform: (sends queries, sends writes, begins a transaction).
    [Gen.DbMethods.db_methods] gives the same triple as read off the source. *)
Definition method_access : list (string * (bool * bool * bool)) :=
  [("BaseQuery", (true, false, false)); ("Count", (true, false, false)); ("DeleteRow", (false, true, false));
   ("FullScanQuery", (true, false, false)); ("HasTx", (false, false, false)); ("InsertRow", (false, true, false));
   ("InsertRows", (false, true, true)); ("Query", (true, false, false)); ("QueryExecer", (false, false, false));
   ("QueryRow", (true, false, false)); ("UpdateRow", (false, true, false)); ("UpsertRow", (false, true, false));
   ("UpsertRows", (false, true, true)); ("WithDynamicLimit", (false, false, false));
   ("WithExistingTx", (false, false, false)); ("WithPanicOnNoIndex", (false, false, false));
   ("WithShardLimit", (false, false, false)); ("WithTx", (false, false, true))].

Definition access_of (m : string) : bool * bool * bool :=
  match lookup m method_access with Some a => a | None => (true, true, true) end.

(** A DB handle with the settings [handle] does not carry: whether a dynamic limit is registered at all
    ([h_dyn] = None also stands for a GetLimitFilter that answers nil), and panicOnNoIndex. *)
Record xhandle : Type := mk_xhandle { x_h : handle; x_has_dyn : bool; x_explain : bool }.

Definition x_base : xhandle := mk_xhandle (mk_handle None None false false) false false.

Definition with_shard_limit (x : xhandle) (l : filter) : option xhandle :=
  match h_shard (x_h x) with
  | Some _ => None                                           (* "already has shard limit" *)
  | None => Some (mk_xhandle (mk_handle (Some l) (h_dyn (x_h x)) (h_dyn_cb (x_h x)) (h_dyn_continue (x_h x)))
                             (x_has_dyn x) (x_explain x))
  end.

Definition with_dynamic_limit (x : xhandle) (dyn : option filter) (cb cont : bool) : option xhandle :=
  if x_has_dyn x then None                                   (* "already has dynamic limit" *)
  else Some (mk_xhandle (mk_handle (h_shard (x_h x)) dyn cb cont) true (x_explain x)).

Definition with_panic_on_no_index (x : xhandle) : option xhandle :=
  if x_explain x then None else Some (mk_xhandle (x_h x) (x_has_dyn x) true).

(** A chain of With* calls; a refused call leaves the handle as it was (the caller keeps the old one). *)
Inductive step : Type :=
| StShard (l : filter) | StDyn (dyn : option filter) (cb cont : bool) | StExplain.

Definition apply_step (x : xhandle) (s : step) : option xhandle :=
  match s with
  | StShard l => with_shard_limit x l
  | StDyn d cb cont => with_dynamic_limit x d cb cont
  | StExplain => with_panic_on_no_index x
  end.

Fixpoint derive (x : xhandle) (steps : list step) : xhandle * list bool :=   (* final handle, refused? per step *)
  match steps with
  | [] => (x, [])
  | s :: rest =>
      match apply_step x s with
      | Some x' => let (y, r) := derive x' rest in (y, false :: r)
      | None => let (y, r) := derive x rest in (y, true :: r)
      end
  end.

(** What reaches the database: the events of Sql/Model.v and the EXPLAIN of a statement. *)
Inductive xevent : Type := XEv (e : event) | XExplain (s : stmt).

Definition code_of (o : outcome) : nat := match o with Proceeds => 0 | Rejected => 1 | BadInput => 2 end.

(** BaseQuery (db.go): limit check, then the batched branch, else EXPLAIN (if configured and not waived)
    and the statement. *)
Definition base_query (x : xhandle) (t : table) (c : ctx) (f : filter) (o : copts) : list xevent * nat :=
  let r := run (x_h x) t c (OQuery f (stmt_opts o)) in
  let batched := match o with None => negb (in_tx c) && batching c | Some _ => false end in
  (if x_explain x && negb batched && negb (allow_no_index o)
   then flat_map (fun e => match e with EStmt s => [XExplain s; XEv e] | _ => [XEv e] end) (fst r)
   else map XEv (fst r),
   code_of (snd r)).

Definition lift (r : list event * outcome) : list xevent * nat := (map XEv (fst r), code_of (snd r)).

(** Result codes: 0 the call went through, 1 refused (limit check; "already ..." for the With* methods),
    2 bad input; HasTx answers 10 (false) / 11 (true). *)
Definition run_call (x : xhandle) (t : table) (c : ctx) (cl : call) : list xevent * nat :=
  match cl with
  | CBaseQuery f o | CQuery f o | CQueryRow f o => base_query x t c f o
  | CFullScanQuery f o => base_query x t c f (fullscan_opts o)
  | CCount f => lift (run (x_h x) t c (OCount f))
  | CInsertRow r => lift (run (x_h x) t c (OInsertRow r))
  | CInsertRows rs n => lift (run (x_h x) t c (OInsertRows rs n))
  | CUpsertRow r => lift (run (x_h x) t c (OUpsertRow r))
  | CUpsertRows rs n => lift (run (x_h x) t c (OUpsertRows rs n))
  | CUpdateRow r => lift (run (x_h x) t c (OUpdateRow r))
  | CDeleteRow r => lift (run (x_h x) t c (ODeleteRow r))
  | CWithTx => if in_tx c then ([], 1) else ([XEv EBegin], 0)
  | CWithExistingTx => ([], if in_tx c then 1 else 0)
  | CHasTx => ([], if in_tx c then 11 else 10)
  | CQueryExecer => ([], 0)
  | CWithShardLimit l => ([], match with_shard_limit x l with Some _ => 0 | None => 1 end)
  | CWithDynamicLimit d cb cont => ([], match with_dynamic_limit x d cb cont with Some _ => 0 | None => 1 end)
  | CWithPanicOnNoIndex => ([], match with_panic_on_no_index x with Some _ => 0 | None => 1 end)
  end.

(** The operation of Sql/Model.v a row-level method is (None for the methods that only derive handles). *)
Definition op_of_call (cl : call) : option op :=
  match cl with
  | CBaseQuery f o | CQuery f o | CQueryRow f o => Some (OQuery f (stmt_opts o))
  | CFullScanQuery f o => Some (OQuery f (stmt_opts (fullscan_opts o)))
  | CCount f => Some (OCount f)
  | CInsertRow r => Some (OInsertRow r)
  | CInsertRows rs n => Some (OInsertRows rs n)
  | CUpsertRow r => Some (OUpsertRow r)
  | CUpsertRows rs n => Some (OUpsertRows rs n)
  | CUpdateRow r => Some (OUpdateRow r)
  | CDeleteRow r => Some (ODeleteRow r)
  | _ => None
  end.

Definition call_wfb (x : xhandle) (t : table) (cl : call) : bool :=
  match op_of_call cl with Some o => op_wfb (x_h x) t o | None => true end.

(** Kinds of events, for [method_access]. *)
Definition stmt_is_read (s : stmt) : bool := match s with SSelect _ _ _ _ | SCount _ _ => true | _ => false end.

Definition xevent_allowed (a : bool * bool * bool) (e : xevent) : bool :=
  let '(q, w, tx) := a in
  match e with
  | XExplain _ => q
  | XEv (EStmt s) => if stmt_is_read s then q else w
  | XEv _ => tx
  end.

(** Coverage of an extracted table of exported methods (the run's own extraction from sqlgen/*.go):
    (a) every extracted method that can reach the database (its kind of access is not "none") is a constructor of
        [call] with the same kind of access -- and a method the model knows has the kind the model gives it;
    (b) every constructor of [call] names an extracted method;
    (c) no extraction problem.
    An exported method that reaches no database/sql call (an accessor, say) cannot send a statement and needs no
    case in the model: it is listed ([methods_without_access]), not an error. *)
Definition all_call_names : list string := map fst method_access.

Definition access_eqb (a b : bool * bool * bool) : bool :=
  let '(a1, a2, a3) := a in let '(b1, b2, b3) := b in Bool.eqb a1 b1 && Bool.eqb a2 b2 && Bool.eqb a3 b3.

Definition no_access (a : bool * bool * bool) : bool := access_eqb a (false, false, false).

Definition methods_covered (gen : list (string * (bool * bool * bool))) : bool :=
  forallb (fun ma => match lookup (fst ma) method_access with
                     | Some a => access_eqb a (snd ma)
                     | None => no_access (snd ma)
                     end) gen
  && forallb (fun m => existsb (String.eqb m) (map fst gen)) all_call_names.

(** The extracted methods that break the coverage: they reach the database without a case in the model, or with
    another kind of access than the model's; and the model cases the source no longer has. *)
Definition methods_outside (gen : list (string * (bool * bool * bool))) : list string :=
  (map fst (List.filter (fun ma => match lookup (fst ma) method_access with
                                   | Some a => negb (access_eqb a (snd ma))
                                   | None => negb (no_access (snd ma))
                                   end) gen)
   ++ List.filter (fun m => negb (existsb (String.eqb m) (map fst gen))) all_call_names)%list.

(** Exported methods without database access and without a model case (information only). *)
Definition methods_without_access (gen : list (string * (bool * bool * bool))) : list string :=
  map fst (List.filter (fun ma => match lookup (fst ma) method_access with
                                  | Some _ => false
                                  | None => no_access (snd ma)
                                  end) gen).
