(** C10: the batched fetch hands every caller exactly the rows its own query selects.
    Proofs about Sql/Model.v ([batched_results], [unbatched_result], [make_batch_query], [matcher_matches]). *)
From Coq Require Import List ZArith String Ascii Bool Lia.
From Thunder Require Import Sql.Model Sql.Confine.
Import ListNotations.
Open Scope string_scope.

(** * Integer conversions inside the declared ranges are the identity *)
Lemma mod_small_s : forall z w, (0 < w)%Z -> (- 2 ^ (w - 1) <= z < 2 ^ (w - 1))%Z ->
  (let m := (z mod 2 ^ w)%Z in if (m <? 2 ^ (w - 1))%Z then m else (m - 2 ^ w)%Z) = z.
Proof.
  intros z w Hw Hr. cbv zeta.
  assert (Hp : (2 ^ w = 2 * 2 ^ (w - 1))%Z).
  { replace w with (Z.succ (w - 1)) at 1 by lia. rewrite Z.pow_succ_r by lia. reflexivity. }
  assert (Hpos : (0 < 2 ^ (w - 1))%Z) by (apply Z.pow_pos_nonneg; lia).
  destruct (Z_lt_dec z 0).
  - assert (E : (z mod 2 ^ w = z + 2 ^ w)%Z) by (symmetry; apply Z.mod_unique with (q := (-1)%Z); lia).
    rewrite E. destruct (z + 2 ^ w <? 2 ^ (w - 1))%Z eqn:L; [apply Z.ltb_lt in L; lia|lia].
  - rewrite Z.mod_small by lia. destruct (z <? 2 ^ (w - 1))%Z eqn:L; [reflexivity|apply Z.ltb_ge in L; lia].
Qed.

Ltac range_hyp H :=
  unfold kind_in_range in H; apply andb_prop in H; destruct H as [?Hlo ?Hhi];
  apply Z.leb_le in Hlo; apply Z.ltb_lt in Hhi.

Lemma wrap_kind_id : forall k z, kind_in_range k z = true -> wrap_kind k z = z.
Proof.
  intros k z H. destruct k; range_hyp H; unfold wrap_kind;
    try (apply mod_small_s; [lia|]; simpl; lia);
    try (apply Z.mod_small; simpl in *; lia).
Qed.

Lemma wrap64_id : forall k z, kind_in_range k z = true -> wrap64 z = z.
Proof.
  intros k z H. unfold wrap64. apply (mod_small_s z 64); [lia|].
  destruct k; range_hyp H; simpl in *; lia.
Qed.

Lemma eqb4 : forall a b, ((4 * a =? 4 * b) = (a =? b))%Z.
Proof.
  intros a b. destruct (a =? b)%Z eqn:E.
  - apply Z.eqb_eq in E. subst. apply Z.eqb_refl.
  - apply Z.eqb_neq in E. apply Z.eqb_neq. lia.
Qed.

Lemma ikind_eqb_refl : forall k, ikind_eqb k k = true.
Proof. destruct k; reflexivity. Qed.

(** * One column: the matcher's Go comparison agrees with SQL on the column's atom *)
Definition atom_value (d v : dval) : tri := match v with DNull => sql_is d DNull | _ => sql_eq d v end.

Definition class_ok (bt : gty) (d : dval) : bool :=
  match bt, d with
  | TyInt k _, DInt z => kind_in_range k z
  | TyStr _, DStr _ => true
  | TyBool, DInt z => Z.eqb z 0 || Z.eqb z 1
  | TyFloat, DFloat _ => true
  | TyBytes, DBytes _ => true
  | _, _ => false
  end.

Lemma S1 : forall bt v d,
  scalar_typed bt v = true -> class_ok bt d = true ->
  go_eqb (hashable v) (hashable (field_value bt d)) = is_tt (sql_eq d (base_dval v)).
Proof.
  intros bt v d Ht Hr.
  destruct bt as [k n|n| | | |bt']; destruct v; simpl in Ht; try discriminate;
    destruct d; simpl in Hr; try discriminate;
    cbn [go_eqb hashable field_value sql_eq base_dval num_of text_of is_tt].
  - apply andb_prop in Ht. destruct Ht as [Ht Hz]. apply andb_prop in Ht. destruct Ht as [Hk Hn].
    apply ikind_eqb_eq in Hk. apply String.eqb_eq in Hn. subst.
    rewrite (wrap_kind_id _ _ Hr), (wrap64_id _ _ Hz), ikind_eqb_refl, String.eqb_refl.
    rewrite eqb4. rewrite Z.eqb_sym. cbn [andb]. destruct (z0 =? z)%Z; reflexivity.
  - apply String.eqb_eq in Ht. subst. rewrite String.eqb_refl. cbn [andb].
    rewrite (String.eqb_sym s0 s). destruct (String.eqb s s0); reflexivity.
  - apply orb_prop in Hr. destruct Hr as [Hr|Hr]; apply Z.eqb_eq in Hr; subst; destruct b; reflexivity.
  - rewrite (Z.eqb_sym q0 q). destruct (q =? q0)%Z; reflexivity.
  - rewrite (String.eqb_sym s0 s). destruct (String.eqb s s0); reflexivity.
Qed.

(** A NULL scans into the zero value of a non-pointer field. *)
Lemma S0 : forall bt v,
  scalar_typed bt v = true ->
  go_eqb (hashable v) (hashable (field_value bt DNull)) = is_zero v.
Proof.
  intros bt v Ht.
  destruct bt as [k n|n| | | |bt']; try discriminate; destruct v; simpl in Ht; try discriminate;
    cbn [go_eqb hashable field_value is_zero].
  - apply andb_prop in Ht. destruct Ht as [Ht Hz]. apply andb_prop in Ht. destruct Ht as [Hk Hn].
    apply ikind_eqb_eq in Hk. apply String.eqb_eq in Hn. subst.
    rewrite ikind_eqb_refl, String.eqb_refl. reflexivity.
  - apply String.eqb_eq in Ht. subst. rewrite String.eqb_refl. reflexivity.
  - destruct b; reflexivity.
  - reflexivity.
  - destruct s; [discriminate|reflexivity].
Qed.

Lemma bytes_not_zero : forall bt v, is_bytes_ty bt = true -> scalar_typed bt v = true -> is_zero v = false.
Proof. intros bt v Hb H. destruct bt; try discriminate. destruct v; simpl in H; try discriminate. reflexivity. Qed.

Lemma scalar_not_nil : forall bt v, scalar_typed bt v = true -> go_eqb (hashable v) GNil = false /\ go_eqb GNil (hashable v) = false.
Proof. intros bt v H. destruct bt, v; simpl in H; try discriminate; split; reflexivity. Qed.

Lemma field_not_nil : forall bt d, is_ptr_ty bt = false -> go_eqb GNil (hashable (field_value bt d)) = false.
Proof. intros bt d H. destruct bt; try discriminate; destruct d; reflexivity. Qed.

Lemma base_dval_nonnull : forall bt v, scalar_typed bt v = true -> base_dval v <> DNull.
Proof. intros bt v H. destruct bt, v; simpl in H; try discriminate; simpl; discriminate. Qed.

Lemma atom_nonnull : forall d v, v <> DNull -> atom_value d v = sql_eq d v.
Proof. intros d v H. destruct v; try reflexivity. contradiction. Qed.

Lemma sql_eq_null_l : forall v, is_tt (sql_eq DNull v) = false.
Proof. reflexivity. Qed.

(** A zero filter value never SQL-equals a non-zero stored value of the column's class. *)
Lemma zero_vs_nonzero : forall bt v d,
  scalar_typed bt v = true -> class_ok bt d = true -> is_zero v = true -> dval_is_zero d = false ->
  is_tt (sql_eq d (base_dval v)) = false.
Proof.
  intros bt v d Ht Hc Hz Hd.
  destruct bt as [k n|n| | | |bt']; destruct v; simpl in Ht; try discriminate;
    destruct d; simpl in Hc; try discriminate; cbn [is_zero dval_is_zero] in Hz, Hd;
    cbn [sql_eq base_dval num_of text_of is_tt].
  - apply Z.eqb_eq in Hz. subst z. apply andb_prop in Ht. destruct Ht as [_ Hr].
    rewrite (wrap64_id _ _ Hr). apply Z.eqb_neq in Hd.
    match goal with |- is_tt (if ?b then _ else _) = _ => destruct b eqn:E end; [apply Z.eqb_eq in E; lia|reflexivity].
  - apply String.eqb_eq in Hz. subst s. rewrite Hd. reflexivity.
  - destruct b; [discriminate|]. apply Z.eqb_neq in Hd.
    match goal with |- is_tt (if ?b then _ else _) = _ => destruct b eqn:E end; [apply Z.eqb_eq in E; lia|reflexivity].
  - apply Z.eqb_eq in Hz. subst q. rewrite Hd. reflexivity.
Qed.

Lemma valuer_scalar : forall bt v i, scalar_typed bt v = true ->
  valuer i v = (if i && is_zero v then DNull else base_dval v) /\ coerce v = v.
Proof. intros bt v i H. destruct bt, v; simpl in H; try discriminate; split; reflexivity. Qed.

Lemma coerce_field : forall ty d, is_ptr_ty ty = false -> coerce (field_value ty d) = field_value ty d.
Proof. intros ty d H. destruct ty; try discriminate; destruct d; reflexivity. Qed.

Lemma sql_is_nonnull : forall d, d <> DNull -> is_tt (sql_is d DNull) = false.
Proof. intros d H. destruct d; try reflexivity. contradiction. Qed.

Lemma valuer_ptr_scalar : forall bt v i a, scalar_typed bt v = true ->
  valuer i (GPtr a v) = if i && is_zero v then DNull else base_dval v.
Proof. intros bt v i a H. destruct bt, v; simpl in H; try discriminate; reflexivity. Qed.

(** The three shapes of an exactly typed filter value. *)
Inductive fv_shape (bt : gty) (inull : bool) : goval -> Prop :=
| ShNil : forall fv, coerce fv = GNil -> valuer inull fv = DNull -> inull = false -> is_bytes_ty bt = false -> fv_shape bt inull fv
| ShPtr : forall a v, scalar_typed bt v = true -> (inull && is_zero v = false) -> fv_shape bt inull (GPtr a v)
| ShScalar : forall v, scalar_typed bt v = true -> fv_shape bt inull v.

Lemma exactly_typed_shape : forall c fv, exactly_typed c fv = true -> fv_shape (base_ty (c_ty c)) (c_implicitnull c) fv.
Proof.
  intros c fv H. destruct fv; cbn [exactly_typed] in H;
    try (apply ShScalar; exact H).
  - apply andb_prop in H. destruct H as [H1 H2]. apply ShNil; try reflexivity.
    + destruct (c_implicitnull c); [discriminate|reflexivity].
    + destruct (is_bytes_ty (base_ty (c_ty c))); [discriminate|reflexivity].
  - apply andb_prop in H. destruct H as [H1 H2]. apply ShPtr; [exact H1|].
    destruct (c_implicitnull c && is_zero fv); [discriminate|reflexivity].
  - apply andb_prop in H. destruct H as [H1 H2]. apply ShNil; try reflexivity.
    + destruct (c_implicitnull c); [discriminate|reflexivity].
    + destruct (is_bytes_ty (base_ty (c_ty c))); [discriminate|reflexivity].
Qed.

(** The per-column agreement between the matcher and SQL. *)
Lemma column_match : forall c fv d,
  column_ok c = true -> exactly_typed c fv = true -> representable c d = true ->
  go_eqb (hashable (coerce fv)) (hashable (coerce (field_value (c_ty c) d)))
  = is_tt (atom_value d (valuer (c_implicitnull c) fv)).
Proof.
  intros c fv d Hok Ht Hr. assert (Hsh := exactly_typed_shape _ _ Ht). clear Ht.
  destruct c as [name prim inull ty]. unfold column_ok in Hok. cbn [c_implicitnull c_ty] in *.
  apply andb_prop in Hok. destruct Hok as [Hok1 Hok2].
  assert (Hshape : (exists bt, ty = TyPtr bt /\ is_ptr_ty bt = false /\ inull = false)
                   \/ (is_ptr_ty ty = false /\ base_ty ty = ty /\ (inull = true -> is_bytes_ty ty = false))).
  { destruct ty as [k n|n| | | |bt]; try (right; split; [reflexivity|split; [reflexivity|]]; intros ->; try reflexivity; discriminate).
    left. exists bt. split; [reflexivity|]. split; [simpl in Hok2; destruct (is_ptr_ty bt); [discriminate|reflexivity]|].
    destruct inull; [discriminate|reflexivity]. }
  destruct Hshape as [(bt & -> & Hbt & ->)|(Hnp & Hbase & Hnb)].
  - (* pointer column, not implicitnull *)
    cbn [base_ty] in Hsh. unfold representable in Hr. cbn [c_ty c_implicitnull is_ptr_ty base_ty andb orb negb] in Hr.
    assert (Hd : d = DNull \/ (d <> DNull /\ class_ok bt d = true)).
    { destruct d; [left; reflexivity| | | | |]; right; (split; [discriminate|exact Hr]). }
    destruct Hd as [->|[Hdn Hcls]].
    + cbn [field_value coerce hashable].
      inversion Hsh as [fv' Hc Hv _ _|a v Hv _|v Hv]; subst.
      * rewrite Hc, Hv. reflexivity.
      * cbn [coerce]. rewrite (valuer_ptr_scalar _ _ _ _ Hv). cbn [andb]. rewrite (proj1 (scalar_not_nil _ _ Hv)).
        rewrite atom_nonnull by (eapply base_dval_nonnull; exact Hv). reflexivity.
      * destruct (valuer_scalar _ _ false Hv) as [Hval Hco]. rewrite Hval, Hco. cbn [andb].
        rewrite (proj1 (scalar_not_nil _ _ Hv)).
        rewrite atom_nonnull by (eapply base_dval_nonnull; exact Hv). reflexivity.
    + assert (Hf : coerce (field_value (TyPtr bt) d) = field_value bt d) by (destruct d; try reflexivity; contradiction).
      rewrite Hf.
      inversion Hsh as [fv' Hc Hv _ _|a v Hv _|v Hv]; subst.
      * rewrite Hc, Hv. cbn [hashable atom_value]. rewrite (field_not_nil _ _ Hbt). rewrite sql_is_nonnull by exact Hdn. reflexivity.
      * cbn [coerce]. rewrite (valuer_ptr_scalar _ _ _ _ Hv). cbn [andb]. rewrite atom_nonnull by (eapply base_dval_nonnull; exact Hv). apply S1; assumption.
      * destruct (valuer_scalar _ _ false Hv) as [Hval Hco]. rewrite Hval, Hco. cbn [andb].
        rewrite atom_nonnull by (eapply base_dval_nonnull; exact Hv). apply S1; assumption.
  - (* non-pointer column *)
    rewrite Hbase in Hsh. rewrite (coerce_field _ _ Hnp).
    unfold representable in Hr. cbn [c_ty c_implicitnull] in Hr. rewrite Hnp, Hbase in Hr. cbn [orb] in Hr.
    assert (Hd : (d = DNull /\ (inull = true \/ (is_bytes_ty ty = true /\ inull = false))) \/ (d <> DNull /\ class_ok ty d = true /\ (inull = true -> dval_is_zero d = false))).
    { destruct d; [left; split; [reflexivity|]| | | | |];
        [destruct inull; [left; reflexivity|right; split; [exact Hr|reflexivity]]| | | | |]; right;
        (split; [discriminate|]); apply andb_prop in Hr; destruct Hr as [Hz Hc]; (split; [exact Hc|]);
        intros ->; cbn [andb] in Hz; (destruct (dval_is_zero _); [discriminate|reflexivity]). }
    destruct Hd as [[-> Hnull]|(Hdn & Hcls & Hzero)].
    + inversion Hsh as [fv' Hc Hv Hi Hb|a v Hv Hz|v Hv]; subst.
      * destruct Hnull as [Hn|[Hn _]]; [discriminate|]. rewrite Hn in Hb. discriminate.
      * cbn [coerce]. rewrite (valuer_ptr_scalar _ _ _ _ Hv), Hz. rewrite (S0 _ _ Hv).
        assert (Hnz : is_zero v = false).
        { destruct Hnull as [->|[Hn _]]; [exact Hz|exact (bytes_not_zero _ _ Hn Hv)]. }
        rewrite Hnz. rewrite atom_nonnull by (eapply base_dval_nonnull; exact Hv). reflexivity.
      * destruct (valuer_scalar _ _ inull Hv) as [Hval Hco]. rewrite Hval, Hco.
        rewrite (S0 _ _ Hv). destruct Hnull as [->|[Hn ->]].
        -- cbn [andb]. destruct (is_zero fv); [reflexivity|].
           rewrite atom_nonnull by (eapply base_dval_nonnull; exact Hv). reflexivity.
        -- cbn [andb]. rewrite (bytes_not_zero _ _ Hn Hv).
           rewrite atom_nonnull by (eapply base_dval_nonnull; exact Hv). reflexivity.
    + inversion Hsh as [fv' Hc Hv Hi Hb|a v Hv Hz|v Hv]; subst.
      * rewrite Hc, Hv. cbn [hashable atom_value]. rewrite (field_not_nil _ _ Hnp). rewrite sql_is_nonnull by exact Hdn. reflexivity.
      * cbn [coerce]. rewrite (valuer_ptr_scalar _ _ _ _ Hv), Hz. rewrite atom_nonnull by (eapply base_dval_nonnull; exact Hv). apply S1; assumption.
      * destruct (valuer_scalar _ _ inull Hv) as [Hval Hco]. rewrite Hval, Hco.
        rewrite (S1 _ _ _ Hv Hcls).
        destruct (inull && is_zero fv) eqn:Ez.
        -- apply andb_prop in Ez. destruct Ez as [-> Ez]. cbn [atom_value].
           rewrite sql_is_nonnull by exact Hdn. apply (zero_vs_nonzero _ _ _ Hv Hcls Ez (Hzero eq_refl)).
        -- rewrite atom_nonnull by (eapply base_dval_nonnull; exact Hv). reflexivity.
Qed.

(** * The matcher agrees with the caller's own WHERE clause *)
Lemma is_tt_and : forall a b, is_tt (tri_and a b) = is_tt a && is_tt b.
Proof. destruct a, b; reflexivity. Qed.

Lemma eval_atom_value : forall r k v, eval_atom r (k, v) = atom_value (cell r k) v.
Proof. intros r k v. unfold eval_atom, atom_value. simpl. destruct v; reflexivity. Qed.

Lemma matcher_is_where : forall t f r,
  columns_ok t = true -> filter_exactly_typed t f = true -> row_representable t r = true ->
  matcher_matches t f r = is_tt (eval_simple (dfilter_of t f) r).
Proof.
  intros t f r Hc Ht Hr. unfold matcher_matches, dfilter_of, filter_exactly_typed, row_representable, columns_ok in *.
  induction (t_cols t) as [|c cols IH]; [reflexivity|].
  simpl in Hc, Ht, Hr. apply andb_prop in Hc. apply andb_prop in Ht. apply andb_prop in Hr.
  destruct Hc as [Hc1 Hc2]. destruct Ht as [Ht1 Ht2]. destruct Hr as [Hr1 Hr2].
  cbn [forallb where_in_order]. destruct (lookup (c_name c) f) as [fv|] eqn:E.
  - cbn [eval_simple fold_right]. rewrite is_tt_and. rewrite eval_atom_value.
    rewrite (column_match c fv _ Hc1 Ht1 Hr1). f_equal. apply IH; assumption.
  - apply IH; assumption.
Qed.

(** * Every caller's rows are fetched by the combined statement *)
Lemma tri_or_tt_l : forall b, tri_or TT b = TT. Proof. destruct b; reflexivity. Qed.
Lemma tri_or_tt_r : forall a, tri_or a TT = TT. Proof. destruct a; reflexivity. Qed.

Lemma eval_in_intro : forall c vals r v, In v vals -> sql_eq (cell r c) v = TT -> eval_in c vals r = TT.
Proof.
  intros c vals r v. induction vals as [|x vals IH]; intros Hin He; [contradiction|]. simpl.
  destruct Hin as [->|Hin]; [rewrite He; apply tri_or_tt_l|]. rewrite (IH Hin He). apply tri_or_tt_r.
Qed.

Lemma lookup_some_of_key : forall (A : Type) c (l : list (string * A)), In c (map fst l) -> exists d, lookup c l = Some d.
Proof.
  intros A c l. induction l as [|[k v] l IH]; intros H; [contradiction|]. simpl.
  destruct (String.eqb c k) eqn:E; [exists v; reflexivity|]. destruct H as [H|H].
  - simpl in H. subst k. rewrite String.eqb_refl in E. discriminate.
  - apply IH. exact H.
Qed.

Definition all_atoms_tt (df : dfilter) (r : drow) : Prop := forall c d, In (c, d) df -> eval_atom r (c, d) = TT.

Lemma eval_simple_atoms : forall df r, eval_simple df r = TT -> all_atoms_tt df r.
Proof.
  intros df r H c d Hin. unfold eval_simple in H. eapply conj_tt_atom; [exact H|exact Hin].
Qed.

Lemma tuple_atoms : forall df r cols,
  all_atoms_tt df r -> (forall c, In c cols -> In c (map fst df)) ->
  eval_tuple cols (extract_tuple DNull df cols) r = TT.
Proof.
  intros df r cols Ha. unfold eval_tuple, extract_tuple. induction cols as [|c cols IH]; intros Hk; [reflexivity|].
  simpl. destruct (lookup_some_of_key _ c df (Hk c (or_introl eq_refl))) as [d Hd]. rewrite Hd.
  rewrite (Ha c d (lookup_In _ _ _ _ Hd)). rewrite IH; [reflexivity|]. intros c' Hc'. apply Hk. right; exact Hc'.
Qed.

Lemma eval_group_intro : forall df r tups,
  df <> [] -> all_atoms_tt df r ->
  In (extract_tuple DNull df (extract_columns df)) tups ->
  eval_group (extract_columns df, tups) r = TT.
Proof.
  intros df r tups Hne Ha Hin. unfold eval_group. cbn [fst snd].
  assert (Hk : forall c, In c (extract_columns df) -> In c (map fst df)).
  { intros c Hc. unfold extract_columns in Hc. apply (proj1 (In_sort_strings _ _)) in Hc. exact Hc. }
  assert (Hmulti : fold_right (fun tup acc => tri_or (eval_tuple (extract_columns df) tup r) acc) TF tups = TT).
  { clear Hne. induction tups as [|tup tups IH]; [contradiction|]. simpl. destruct Hin as [->|Hin].
    - rewrite (tuple_atoms df r _ Ha Hk). apply tri_or_tt_l.
    - rewrite (IH Hin). apply tri_or_tt_r. }
  destruct (extract_columns df) as [|c [|c2 cs]] eqn:Ec; [exact Hmulti| |exact Hmulti].
  (* one column *)
  destruct (lookup_some_of_key _ c df (Hk c (or_introl eq_refl))) as [d Hd].
  assert (Htup : extract_tuple DNull df [c] = [d]) by (unfold extract_tuple; simpl; rewrite Hd; reflexivity).
  rewrite Htup in Hin. assert (Hat := Ha c d (lookup_In _ _ _ _ Hd)).
  assert (Hfirst : In d (map (hd DNull) tups)) by (apply in_map_iff; exists [d]; split; [reflexivity|exact Hin]).
  destruct d.
  - (* NULL *)
    assert (E : existsb is_null (map (hd DNull) tups) = true) by (apply existsb_exists; exists DNull; split; [exact Hfirst|reflexivity]).
    rewrite E. change (sql_is (cell r c) DNull = TT) in Hat. rewrite Hat. apply tri_or_tt_r.
  - rewrite (eval_in_intro c _ r (DInt z)); [apply tri_or_tt_l| |exact Hat]. unfold non_null. apply filter_In. split; [exact Hfirst|reflexivity].
  - rewrite (eval_in_intro c _ r (DFloat q)); [apply tri_or_tt_l| |exact Hat]. unfold non_null. apply filter_In. split; [exact Hfirst|reflexivity].
  - rewrite (eval_in_intro c _ r (DBool b)); [apply tri_or_tt_l| |exact Hat]. unfold non_null. apply filter_In. split; [exact Hfirst|reflexivity].
  - rewrite (eval_in_intro c _ r (DBytes s)); [apply tri_or_tt_l| |exact Hat]. unfold non_null. apply filter_In. split; [exact Hfirst|reflexivity].
  - rewrite (eval_in_intro c _ r (DStr s)); [apply tri_or_tt_l| |exact Hat]. unfold non_null. apply filter_In. split; [exact Hfirst|reflexivity].
Qed.

Lemma eval_batch_intro : forall gs g r, In g gs -> eval_group g r = TT -> eval_batch gs r = TT.
Proof.
  intros gs g r. unfold eval_batch. induction gs as [|x gs IH]; intros Hin He; [contradiction|]. simpl.
  destruct Hin as [->|Hin]; [rewrite He; apply tri_or_tt_l|]. rewrite (IH Hin He). apply tri_or_tt_r.
Qed.

(** ** Completeness of the grouping loop: every filter's tuple sits in the group of its own columns *)
Definition groups_cover (seen : list dfilter) (gs : list (string * bgroup)) : Prop :=
  forall f, In f seen -> exists key tups,
    In (key, (extract_columns f, tups)) gs /\ In (extract_tuple DNull f (extract_columns f)) tups.

Lemma add_to_group_mono : forall gs key cols (tup : list dval) k cs tups,
  In (k, (cs, tups)) gs ->
  exists tups', In (k, (cs, tups')) (add_to_group key cols tup gs) /\ (forall x, In x tups -> In x tups').
Proof.
  induction gs as [|[k0 [cs0 tups0]] gs IH]; intros key cols tup k cs tups H; [contradiction|].
  simpl. destruct (String.eqb k0 key) eqn:E.
  - destruct H as [H|H].
    + inversion H; subst. exists (tups ++ [tup])%list. split; [left; reflexivity|]. intros x Hx. apply in_or_app. left; exact Hx.
    + exists tups. split; [right; exact H|auto].
  - destruct H as [H|H].
    + inversion H; subst. exists tups. split; [left; reflexivity|auto].
    + destruct (IH key cols tup k cs tups H) as (tups' & Hin & Hsub). exists tups'. split; [right; exact Hin|exact Hsub].
Qed.

Lemma add_to_group_new : forall gs f,
  (forall key cols tups, In (key, (cols, tups)) gs -> key = columns_key cols /\ forallb name_ok cols = true) ->
  filter_names_ok f ->
  exists key tups,
    In (key, (extract_columns f, tups))
       (add_to_group (columns_key (extract_columns f)) (extract_columns f) (extract_tuple DNull f (extract_columns f)) gs)
    /\ In (extract_tuple DNull f (extract_columns f)) tups.
Proof.
  induction gs as [|[k0 [cs0 tups0]] gs IH]; intros f Hg Hf.
  - simpl. eexists; eexists. split; [left; reflexivity|left; reflexivity].
  - simpl. destruct (String.eqb k0 (columns_key (extract_columns f))) eqn:E.
    + apply String.eqb_eq in E. destruct (Hg k0 cs0 tups0 (or_introl eq_refl)) as [Hk Hn].
      assert (cs0 = extract_columns f).
      { apply columns_key_inj; [exact Hn| |rewrite <- Hk; exact E].
        unfold extract_columns. apply forallb_sort_strings. exact Hf. }
      subst cs0. exists k0, (tups0 ++ [extract_tuple DNull f (extract_columns f)])%list.
      split; [left; reflexivity|apply in_or_app; right; left; reflexivity].
    + destruct (IH f (fun key cols tups H => Hg key cols tups (or_intror H)) Hf) as (key & tups & Hin & Ht).
      exists key, tups. split; [right; exact Hin|exact Ht].
Qed.

Lemma fold_group_cover : forall fs seen gs,
  groups_inv seen gs ->
  (forall key cols tups, In (key, (cols, tups)) gs -> forallb name_ok cols = true) ->
  groups_cover seen gs ->
  Forall filter_names_ok fs ->
  groups_cover (rev fs ++ seen) (fold_left group_step fs gs).
Proof.
  induction fs as [|f fs IH]; intros seen gs Hinv Hn Hcov Hfs; [exact Hcov|].
  simpl. inversion Hfs as [|f' fs' Hf Hfs']; subst. rewrite <- app_assoc. simpl. apply IH.
  - apply add_to_group_inv; assumption.
  - unfold group_step. apply add_to_group_names; [exact Hn|]. unfold extract_columns. apply forallb_sort_strings. exact Hf.
  - intros f0 [<-|Hin].
    + unfold group_step. apply add_to_group_new; [|exact Hf].
      intros key cols tups H. split; [apply (Hinv key cols tups H)|apply (Hn key cols tups H)].
    + destruct (Hcov f0 Hin) as (key & tups & Hg & Ht). unfold group_step.
      destruct (add_to_group_mono gs (columns_key (extract_columns f)) (extract_columns f)
                  (extract_tuple DNull f (extract_columns f)) _ _ _ Hg) as (tups' & Hg' & Hsub).
      exists key, tups'. split; [exact Hg'|apply Hsub; exact Ht].
  - exact Hfs'.
Qed.

Lemma group_filters_cover : forall fs, Forall filter_names_ok fs -> groups_cover fs (group_filters fs).
Proof.
  intros fs H. rewrite group_filters_eq.
  assert (G := fold_group_cover fs [] [] (fun _ _ _ F => match F with end) (fun _ _ _ F => match F with end)
                 (fun _ F => match F with end) H).
  rewrite app_nil_r in G. intros f Hf. apply G. apply in_rev. rewrite rev_involutive. exact Hf.
Qed.

(** A row that satisfies one caller's own WHERE clause satisfies the combined clause. *)
Lemma batch_clause_covers : forall t fs f r,
  table_ok t = true -> In f fs ->
  eval_simple (dfilter_of t f) r = TT ->
  eval_wclause (batch_wclause t fs) r = TT.
Proof.
  intros t fs f r Ht Hin He. unfold batch_wclause.
  destruct (make_batch_query (map (dfilter_of t) fs)) as [gs|] eqn:Eb; [|reflexivity].
  unfold make_batch_query in Eb.
  match type of Eb with (if ?b then _ else _) = _ => destruct b eqn:Ee end; [discriminate|].
  inversion Eb; subst gs; clear Eb.
  assert (Hnames : Forall filter_names_ok (map (dfilter_of t) fs)).
  { apply Forall_forall. intros df Hdf. apply in_map_iff in Hdf. destruct Hdf as (f' & <- & _).
    unfold filter_names_ok, dfilter_of. apply where_in_order_names. exact Ht. }
  assert (Hdf : In (dfilter_of t f) (map (dfilter_of t) fs)) by (apply in_map; exact Hin).
  destruct (group_filters_cover _ Hnames _ Hdf) as (key & tups & Hg & Htup).
  assert (Hne : dfilter_of t f <> []).
  { intros E. match type of Ee with ?b = false => assert (Hex : b = true) end.
    { apply existsb_exists. exists (dfilter_of t f). split; [exact Hdf|rewrite E; reflexivity]. }
    rewrite Hex in Ee. discriminate. }
  assert (Hgs : In (extract_columns (dfilter_of t f), tups) (map snd (sort_groups (group_filters (map (dfilter_of t) fs))))).
  { apply in_map_iff. exists (key, (extract_columns (dfilter_of t f), tups)). split; [reflexivity|].
    apply (proj2 (In_sort_groups _ _ _)). exact Hg. }
  assert (Hev := eval_batch_intro _ _ r Hgs (eval_group_intro _ r tups Hne (eval_simple_atoms _ _ He) Htup)).
  destruct (map snd (sort_groups (group_filters (map (dfilter_of t) fs)))) as [|g gs']; [contradiction|].
  exact Hev.
Qed.

(** * The transparency theorem for one invocation of the batch function *)
Lemma is_tt_true : forall x, is_tt x = true -> x = TT.
Proof. destruct x; simpl; intros; try discriminate; reflexivity. Qed.

Theorem batched_transparent : forall t fs contents,
  table_ok t = true -> columns_ok t = true ->
  forallb (filter_exactly_typed t) fs = true ->
  forallb (row_representable t) contents = true ->
  batched_results t fs contents = map (fun f => unbatched_result t f contents) fs.
Proof.
  intros t fs contents Ht Hc Hty Hrep. unfold batched_results. apply map_ext_in. intros f Hf.
  unfold unbatched_result, select_rows.
  rewrite forallb_forall in Hty, Hrep.
  induction contents as [|r contents IH]; [reflexivity|].
  assert (Hr : row_representable t r = true) by (apply Hrep; left; reflexivity).
  assert (IH' := IH (fun x Hx => Hrep x (or_intror Hx))). clear IH.
  cbn [List.filter].
  assert (Hm := matcher_is_where t f r Hc (Hty f Hf) Hr).
  cbn [eval_wclause] in *.
  destruct (is_tt (eval_simple (dfilter_of t f) r)) eqn:Es.
  - rewrite (batch_clause_covers t fs f r Ht Hf (is_tt_true _ Es)). cbn [is_tt List.filter]. rewrite Hm. f_equal. exact IH'.
  - destruct (is_tt (eval_wclause (batch_wclause t fs) r)).
    + cbn [List.filter]. rewrite Hm. exact IH'.
    + exact IH'.
Qed.

(** ** Any grouping of the callers into invocations of the batch function *)
Definition batched_by_arrival (t : table) (fs : list filter) (arrival : list (list nat)) (contents : list drow)
  : list (nat * list drow) :=
  List.concat (map (fun b => combine b (batched_results t (map (nth_filter fs) b) contents)) arrival).

Lemma nth_filter_typed : forall t fs i,
  forallb (filter_exactly_typed t) fs = true -> filter_exactly_typed t (nth_filter fs i) = true.
Proof.
  intros t fs i H. unfold nth_filter. destruct (Nat.ltb i (List.length fs)) eqn:E.
  - apply Nat.ltb_lt in E. rewrite forallb_forall in H. apply H. apply nth_In. exact E.
  - apply Nat.ltb_ge in E. rewrite nth_overflow by exact E.
    unfold filter_exactly_typed. apply forallb_forall. intros c _. reflexivity.
Qed.

Theorem batched_transparent_any_arrival : forall t fs arrival contents,
  table_ok t = true -> columns_ok t = true ->
  forallb (filter_exactly_typed t) fs = true ->
  forallb (row_representable t) contents = true ->
  Forall (fun ir => snd ir = unbatched_result t (nth_filter fs (fst ir)) contents)
         (batched_by_arrival t fs arrival contents).
Proof.
  intros t fs arrival contents Ht Hc Hty Hrep. unfold batched_by_arrival.
  apply Forall_forall. intros [i rows] Hin. apply in_concat in Hin. destruct Hin as (l & Hl & Hin).
  apply in_map_iff in Hl. destruct Hl as (b & <- & Hb).
  rewrite (batched_transparent t (map (nth_filter fs) b) contents Ht Hc) in Hin; [|
    apply forallb_forall; intros f Hf; apply in_map_iff in Hf; destruct Hf as (j & <- & _); apply nth_filter_typed; exact Hty
    |exact Hrep].
  rewrite map_map in Hin. simpl.
  clear Hb. induction b as [|j b IH]; [contradiction|]. simpl in Hin. destruct Hin as [Hin|Hin].
  - inversion Hin; subst. reflexivity.
  - apply IH. exact Hin.
Qed.

(** * Fewer statements: one statement per invocation, one group per filter shape *)
Lemma add_to_group_keys : forall (A : Type) gs key cols (tup : A),
  map fst (add_to_group key cols tup gs)
  = if existsb (fun k => String.eqb k key) (map fst gs) then map fst gs else (map fst gs ++ [key])%list.
Proof.
  intros A gs key cols tup. induction gs as [|[k [cs tups]] gs IH]; [reflexivity|].
  simpl. destruct (String.eqb k key) eqn:E; [reflexivity|]. simpl. rewrite IH.
  destruct (existsb (fun k0 => String.eqb k0 key) (map fst gs)); reflexivity.
Qed.

Lemma NoDup_snoc : forall (A : Type) (l : list A) x, NoDup l -> ~ In x l -> NoDup (l ++ [x]).
Proof.
  intros A l x Hnd Hx. induction l as [|a l IH]; simpl; [constructor; [intros []|constructor]|].
  inversion Hnd; subst. constructor.
  - intros Hin. apply in_app_or in Hin. destruct Hin as [Hin|[Hin|[]]]; [contradiction|]. subst. apply Hx. left; reflexivity.
  - apply IH; [assumption|]. intros Hin. apply Hx. right; exact Hin.
Qed.

Lemma group_step_eq : forall gs f, group_step gs f
  = add_to_group (columns_key (extract_columns f)) (extract_columns f) (extract_tuple DNull f (extract_columns f)) gs.
Proof. reflexivity. Qed.

Lemma group_filters_keys : forall fs gs,
  NoDup (map fst gs) -> NoDup (map fst (fold_left group_step fs gs))
  /\ List.length (fold_left group_step fs gs) <= List.length gs + List.length fs.
Proof.
  induction fs as [|f fs IH]; intros gs Hnd; simpl; [split; [exact Hnd|lia]|].
  assert (Hk := add_to_group_keys _ gs (columns_key (extract_columns f)) (extract_columns f)
                  (extract_tuple DNull f (extract_columns f))).
  assert (Hnd' : NoDup (map fst (group_step gs f))).
  { rewrite group_step_eq. unfold bgroup in *. rewrite Hk.
    destruct (existsb (fun k => String.eqb k (columns_key (extract_columns f))) (map fst gs)) eqn:E; [exact Hnd|].
    apply NoDup_snoc; [exact Hnd|]. intros Hin.
    assert (existsb (fun k => String.eqb k (columns_key (extract_columns f))) (map fst gs) = true).
    { apply existsb_exists. eexists. split; [exact Hin|apply String.eqb_refl]. }
    congruence. }
  destruct (IH _ Hnd') as [H1 H2]. split; [exact H1|].
  assert (Hlen : List.length (group_step gs f) <= S (List.length gs)).
  { rewrite <- (map_length fst (group_step gs f)), <- (map_length fst gs). rewrite group_step_eq. unfold bgroup in *. rewrite Hk.
    destruct (existsb _ (map fst gs)); [lia|]. rewrite app_length. simpl. lia. }
  lia.
Qed.

Lemma insert_group_length : forall (A : Type) (g : string * A) l, List.length (insert_group g l) = S (List.length l).
Proof.
  intros A g l. induction l as [|h t IH]; [reflexivity|]. simpl. destruct (String.leb (fst g) (fst h)); simpl; [reflexivity|].
  rewrite IH. reflexivity.
Qed.

Lemma sort_groups_length : forall (A : Type) (l : list (string * A)), List.length (sort_groups l) = List.length l.
Proof.
  intros A l. induction l as [|h t IH]; [reflexivity|]. simpl. rewrite insert_group_length, IH. reflexivity.
Qed.

(** The combined clause has one group per distinct column set, hence never more groups than callers; the
    statement count is one per invocation of the batch function by construction of [run_batched]. *)
Theorem batch_groups_bound : forall fs gs,
  make_batch_query fs = Some gs ->
  List.length gs <= List.length fs /\ NoDup (map fst (group_filters fs)).
Proof.
  intros fs gs H. unfold make_batch_query in H.
  match type of H with (if ?b then _ else _) = _ => destruct b end; [discriminate|]. inversion H; subst.
  rewrite map_length, sort_groups_length. rewrite group_filters_eq.
  destruct (group_filters_keys fs [] (NoDup_nil _)) as [H1 H2]. split; [simpl in H2; exact H2|exact H1].
Qed.

Theorem one_statement_per_invocation : forall h t fs arrival,
  List.length (fst (run_batched h t fs arrival)) = List.length arrival.
Proof. intros. simpl. apply map_length. Qed.

(** * The full statement is false: Go representations the matcher does not recognise *)

(** SQL-level typing of a filter: the serialized value has the class of the column (or is NULL). This is
    what "a Go value that denotes a value of the column" means; [filter_exactly_typed] is stronger. *)
Definition dval_class_ok (c : column) (d : dval) : bool :=
  match base_ty (c_ty c), d with
  | _, DNull => true
  | TyInt k _, DInt z => kind_in_range k z
  | TyStr _, DStr _ => true
  | TyBool, DBool _ => true
  | TyFloat, DFloat _ => true
  | TyBytes, DBytes _ => true
  | _, _ => false
  end.

Definition filter_sql_typed (t : table) (f : filter) : bool :=
  forallb (fun c => match lookup (c_name c) f with
                    | Some fv => dval_class_ok c (valuer (c_implicitnull c) fv)
                    | None => true
                    end) (t_cols t).

Definition w_users : table :=
  mk_table "users" true
    [mk_col "id" true false (TyInt KI64 ""); mk_col "name" false false (TyStr ""); mk_col "nick" false false (TyPtr (TyStr ""))].
Definition w_contents : list drow :=
  [[("id", DInt 10); ("name", DStr "bob"); ("nick", DNull)]; [("id", DInt 20); ("name", DStr "al"); ("nick", DStr "a")]].

(** F18: the batched caller with id = int(10) gets nothing, the one with int64(10) gets the row. *)
Theorem full_statement_refuted :
  exists t fs contents,
    table_ok t = true /\ columns_ok t = true /\
    forallb (filter_sql_typed t) fs = true /\ forallb (row_representable t) contents = true /\
    batched_results t fs contents <> map (fun f => unbatched_result t f contents) fs.
Proof.
  exists w_users, [[("id", GInt KI "" 10)]; [("id", GInt KI64 "" 10)]], w_contents.
  repeat split; try reflexivity. vm_compute. discriminate.
Qed.

(** F19 (before C10-fix-1): an exactly typed NULL filter got no rows when batched. *)
Theorem null_filter_refuted_before_fix :
  exists t fs contents,
    table_ok t = true /\ columns_ok t = true /\
    forallb (filter_exactly_typed t) fs = true /\ forallb (row_representable t) contents = true /\
    batched_results_orig t fs contents <> map (fun f => unbatched_result t f contents) fs.
Proof.
  exists w_users, [[("nick", GNil)]; [("id", GInt KI64 "" 20)]], w_contents.
  repeat split; try reflexivity. vm_compute. discriminate.
Qed.

(** * Which calls are batched at all *)

(** A call that carries SelectOptions is answered by a statement of its own -- with its own LIMIT, ORDER BY,
    free text, lock and index hints -- on every context: only [Options == nil] reaches the batch function. *)
Theorem options_own_statement : forall h t c f o w,
  make_where t f = Some w -> check_filter_limits h f = true ->
  run h t c (OQuery f (Some o))
  = ([EStmt (SSelect (t_name t) (col_names t) (WSimple w) (Some o))], Proceeds).
Proof. intros h t c f o w Hw Hc. simpl. rewrite Hw, Hc. reflexivity. Qed.

(** Without options, outside a transaction and on a batching context, the call goes to the batch function. *)
Theorem no_options_batched : forall h t f w,
  make_where t f = Some w -> check_filter_limits h f = true ->
  run h t (mk_ctx false true) (OQuery f None) = ([EStmt (batch_stmt t [f])], Proceeds).
Proof. intros h t f w Hw Hc. simpl. rewrite Hw, Hc. reflexivity. Qed.
