(** Live SQL (C07) -- executable model only.

    Follows livesql/live.go (dbResource.shouldInvalidate l.19-41, dbTracker add/remove/processBinlog
    l.44-87, LiveDB.query registering the dependency before it runs the SELECT l.144-160) and
    livesql/binlog.go (parseBinlogRowsEvent l.283-345, RunPollLoop l.367-400), on top of the row codec
    model Sql/Codec.v (parse_binlog_row, tester). *)
From Coq Require Import List ZArith String Bool.
From Thunder Require Import Sql.Codec.
Import ListNotations.
Open Scope string_scope.
Open Scope list_scope.

(** * Rows events as the syncer delivers them *)
Inductive ekind : Type := EWrite | EUpdate | EDelete.

(** update.deltas: before / after struct images ([None] = absent). *)
Definition delta : Type := (option (list fval) * option (list fval))%type.

(** Table metadata the binlog needs: struct columns, and the column map from information_schema. *)
Definition tmeta : Type := (table * Z * list Z)%type.

Definition parse_image (e : env) (m : tmeta) (row : list src) : res (list fval) :=
  let '(t, expected, source) := m in parse_binlog_row e t expected source row.

Fixpoint parse_pairs (e : env) (m : tmeta) (rows : list (list src)) : res (list delta) :=
  match rows with
  | [] => Ok []
  | b :: a :: rest =>
      rbind (parse_image e m b) (fun pb =>
      rbind (parse_image e m a) (fun pa =>
      rbind (parse_pairs e m rest) (fun ds => Ok ((Some pb, Some pa) :: ds))))
  | [_] => Err
  end.

Fixpoint parse_singles (e : env) (m : tmeta) (is_write : bool) (rows : list (list src)) : res (list delta) :=
  match rows with
  | [] => Ok []
  | r :: rest =>
      rbind (parse_image e m r) (fun p =>
      rbind (parse_singles e m is_write rest) (fun ds =>
        Ok ((if is_write then (None, Some p) else (Some p, None)) :: ds)))
  end.

(** parseBinlogRowsEvent: [Err] = the event cannot be decoded. *)
Definition parse_rows_event (e : env) (m : tmeta) (k : ekind) (rows : list (list src)) : res (list delta) :=
  match k with
  | EWrite => parse_singles e m true rows
  | EDelete => parse_singles e m false rows
  | EUpdate => if Nat.even (List.length rows) then parse_pairs e m rows else Err
  end.

(** The [*update] handed to the tracker. *)
Record update : Type := mk_update { u_table : string; u_deltas : list delta; u_err : bool }.

(** What RunPollLoop makes of a rows event of a known table.  [fixed = true] is the code after
    C07-fix-1: an undecodable event becomes an update with [err] set; before, it was logged and dropped
    ([None]). *)
Definition poll_loop_update (fixed : bool) (e : env) (m : tmeta) (tbl : string) (k : ekind)
           (rows : list (list src)) : option update :=
  match parse_rows_event e m k rows with
  | Ok ds => Some (mk_update tbl ds false)
  | Err => if fixed then Some (mk_update tbl [] true) else None
  end.

(** * Tracker *)
Record resource : Type := mk_resource { r_id : nat; r_table : string; r_filter : filter }.

(** dbResource.shouldInvalidate *)
Definition should_invalidate (t : table) (r : resource) (u : update) : bool :=
  if negb (String.eqb (r_table r) (u_table u)) then false
  else if u_err u then true
  else existsb (fun d => tester t (r_filter r) (fst d) || tester t (r_filter r) (snd d)) (u_deltas u).

(** * Correspondence: the tracker's observation points *)
Inductive tev : Type :=
| TAdd (rid : nat) (tbl : string) (f : filter)
| TRemove (rid : nat)
| TProcess (tbl : string) (k : ekind) (rows : list (list src)) (obs_err : bool) (obs : list (nat * bool)).

Record lcase : Type := mk_lcase { lc_tables : list (string * tmeta); lc_trace : list tev }.

Fixpoint insert_res (r : resource) (l : list resource) : list resource :=
  match l with
  | [] => [r]
  | x :: t => if Nat.leb (r_id r) (r_id x) then r :: l else x :: insert_res r t
  end.

Definition verdicts_eqb (a b : list (nat * bool)) : bool :=
  list_eqb (fun x y => Nat.eqb (fst x) (fst y) && Bool.eqb (snd x) (snd y)) a b.

Fixpoint replay (e : env) (tabs : list (string * tmeta)) (regs : list resource) (tr : list tev) : list nat :=
  match tr with
  | [] => []
  | TAdd rid tbl f :: tr' => replay e tabs (insert_res (mk_resource rid tbl f) regs) tr'
  | TRemove rid :: tr' => replay e tabs (List.filter (fun r => negb (Nat.eqb (r_id r) rid)) regs) tr'
  | TProcess tbl k rows obs_err obs :: tr' =>
      match slookup tbl tabs with
      | None => [9]
      | Some m =>
          match poll_loop_update true e m tbl k rows with
          | None => [9]
          | Some u =>
              (if Bool.eqb (u_err u) obs_err then [] else [2]) ++
              (if verdicts_eqb (map (fun r => (r_id r, should_invalidate (fst (fst m)) r u)) regs) obs then [] else [1])
          end
      end ++ replay e tabs regs tr'
  end.

Definition dedup (l : list nat) : list nat := nodup Nat.eq_dec l.

Definition check_lcase (e : env) (c : lcase) : list nat := dedup (replay e (lc_tables c) [] (lc_trace c)).

Fixpoint live_mismatches (e : env) (cs : list (nat * lcase)) : list (nat * list nat) :=
  match cs with
  | [] => []
  | (i, c) :: t => match check_lcase e c with
                   | [] => live_mismatches e t
                   | l => (i, l) :: live_mismatches e t
                   end
  end.
