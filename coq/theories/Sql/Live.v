(** Live SQL (C07) -- executable model only.

    Follows livesql/live.go (dbResource.shouldInvalidate l.19-41, dbTracker add/remove/processBinlog
    l.44-87, LiveDB.query registering the dependency before it runs the SELECT l.144-160) and
    livesql/binlog.go (parseBinlogRowsEvent l.283-345, RunPollLoop l.367-400), on top of the row codec
    model Sql/Codec.v (parse_binlog_row, tester). *)
From Coq Require Import List ZArith String Bool.
From Thunder Require Import Sql.Codec.
Import ListNotations.
Open Scope string_scope.
Open Scope list_scope.

(** * Rows events as the syncer delivers them *)
Inductive ekind : Type := EWrite | EUpdate | EDelete.

(** update.deltas: before / after struct images ([None] = absent). *)
Definition delta : Type := (option (list fval) * option (list fval))%type.

(** Table metadata the binlog needs: struct columns, and the column map from information_schema. *)
Definition tmeta : Type := (table * Z * list Z)%type.

Definition parse_image (e : env) (m : tmeta) (row : list src) : res (list fval) :=
  let '(t, expected, source) := m in parse_binlog_row e t expected source row.

Fixpoint parse_pairs (e : env) (m : tmeta) (rows : list (list src)) : res (list delta) :=
  match rows with
  | [] => Ok []
  | b :: a :: rest =>
      rbind (parse_image e m b) (fun pb =>
      rbind (parse_image e m a) (fun pa =>
      rbind (parse_pairs e m rest) (fun ds => Ok ((Some pb, Some pa) :: ds))))
  | [_] => Err
  end.

Fixpoint parse_singles (e : env) (m : tmeta) (is_write : bool) (rows : list (list src)) : res (list delta) :=
  match rows with
  | [] => Ok []
  | r :: rest =>
      rbind (parse_image e m r) (fun p =>
      rbind (parse_singles e m is_write rest) (fun ds =>
        Ok ((if is_write then (None, Some p) else (Some p, None)) :: ds)))
  end.

(** parseBinlogRowsEvent: [Err] = the event cannot be decoded. *)
Definition parse_rows_event (e : env) (m : tmeta) (k : ekind) (rows : list (list src)) : res (list delta) :=
  match k with
  | EWrite => parse_singles e m true rows
  | EDelete => parse_singles e m false rows
  | EUpdate => if Nat.even (List.length rows) then parse_pairs e m rows else Err
  end.

(** The [*update] handed to the tracker. *)
Record update : Type := mk_update { u_table : string; u_deltas : list delta; u_err : bool }.

(** What RunPollLoop makes of a rows event of a known table.  [fixed = true] is the code after
    C07-fix-1: an undecodable event becomes an update with [err] set; before, it was logged and dropped
    ([None]). *)
Definition poll_loop_update (fixed : bool) (e : env) (m : tmeta) (tbl : string) (k : ekind)
           (rows : list (list src)) : option update :=
  match parse_rows_event e m k rows with
  | Ok ds => Some (mk_update tbl ds false)
  | Err => if fixed then Some (mk_update tbl [] true) else None
  end.

(** * Tracker *)
Record resource : Type := mk_resource { r_id : nat; r_table : string; r_filter : filter }.

(** dbResource.shouldInvalidate *)
Definition should_invalidate (t : table) (r : resource) (u : update) : bool :=
  if negb (String.eqb (r_table r) (u_table u)) then false
  else if u_err u then true
  else existsb (fun d => tester t (r_filter r) (fst d) || tester t (r_filter r) (snd d)) (u_deltas u).

(** * RunPollLoop (binlog.go l.367-430): table versions and cached column maps

    The events RunPollLoop takes from the syncer, in stream order.  A TableMapEvent with a table id
    other than the one remembered for the table drops the table's cached column map; a rows event of
    a registered table of our database is decoded with the cached map, which is built -- on a miss --
    from the column list information_schema reports at that moment (getColumnMap / buildColumnMap);
    everything else is skipped. *)
Inductive pev : Type :=
| PTableMap (db tbl : string) (id : Z)
| PRows (db tbl : string) (k : ekind) (rows : list (list src))
| POther.                                   (* XID, query, rotate, ... events: not looked at *)

Record pstate : Type := mk_pstate {
  p_versions : list (string * Z);          (* Binlog.tableVersions *)
  p_cmaps : list (string * (Z * list Z))   (* Binlog.columnMaps: expectedColumns, source *)
}.

Definition pstate0 : pstate := mk_pstate [] [].

Fixpoint sremove {A} (k : string) (l : list (string * A)) : list (string * A) :=
  match l with
  | [] => []
  | (k', v) :: t => if String.eqb k k' then sremove k t else (k', v) :: sremove k t
  end.

Definition sset {A} (k : string) (v : A) (l : list (string * A)) : list (string * A) := (k, v) :: sremove k l.

(** The answers of information_schema.columns, in the order RunPollLoop asks: table asked for, column
    names by ordinal position. *)
Definition answers : Type := list (string * list string).

Inductive pout : Type :=
| PSkip                    (* nothing is handed to the tracker *)
| PUpdate (u : update)
| PStuck.                  (* the model needs an information_schema answer that was not recorded (or one for another table) *)

Definition out_of (o : option update) : pout := match o with Some u => PUpdate u | None => PSkip end.

Definition poll_event (fixed : bool) (e : env) (database : string) (schema : list (string * table))
           (st : pstate) (ans : answers) (ev : pev) : pstate * answers * pout :=
  match ev with
  | POther => (st, ans, PSkip)
  | PTableMap db tbl id =>
      if negb (String.eqb db database) then (st, ans, PSkip)
      else
        let same := match slookup tbl (p_versions st) with Some v => Z.eqb v id | None => false end in
        if same then (st, ans, PSkip)
        else (mk_pstate (sset tbl id (p_versions st)) (sremove tbl (p_cmaps st)), ans, PSkip)
  | PRows db tbl k rows =>
      if negb (String.eqb db database) then (st, ans, PSkip)
      else
        match slookup tbl schema with
        | None => (st, ans, PSkip)           (* errNoDescriptor: not one of our tables *)
        | Some t =>
            match slookup tbl (p_cmaps st) with
            | Some cm => (st, ans, out_of (poll_loop_update fixed e (t, fst cm, snd cm) tbl k rows))
            | None =>
                match ans with
                | (asked, cols) :: ans' =>
                    if String.eqb asked tbl then
                      let cm := column_map t cols in
                      (mk_pstate (p_versions st) (sset tbl cm (p_cmaps st)), ans',
                       out_of (poll_loop_update fixed e (t, fst cm, snd cm) tbl k rows))
                    else (st, ans, PStuck)
                | [] => (st, ans, PStuck)
                end
            end
        end
  end.

(** The whole stream: the updates handed to the tracker (through updateCh, in order), the answers left
    over, and whether the model got stuck. *)
Fixpoint poll_stream (fixed : bool) (e : env) (database : string) (schema : list (string * table))
         (st : pstate) (ans : answers) (evs : list pev) : list update * answers * bool :=
  match evs with
  | [] => ([], ans, false)
  | ev :: evs' =>
      let '(st', ans', o) := poll_event fixed e database schema st ans ev in
      match o with
      | PStuck => ([], ans', true)
      | PSkip => poll_stream fixed e database schema st' ans' evs'
      | PUpdate u => let '(us, a, stuck) := poll_stream fixed e database schema st' ans' evs' in (u :: us, a, stuck)
      end
  end.

(** * Correspondence: the tracker's observation points *)
Inductive tev : Type :=
| TAdd (rid : nat) (tbl : string) (f : filter)
| TRemove (rid : nat)
| TRead (rid : nat)      (* a live query's function issues its SELECT; rid = the resource this run registered (0 = none yet) *)
| TProcess (tbl : string) (obs_err : bool) (obs : list (nat * bool)).
    (* dbTracker.processBinlog: the update's table, whether its err is set, shouldInvalidate of every resource *)

(** One history: the registered struct tables, the event stream pushed into the syncer's channel, the
    information_schema answers RunPollLoop got (in order), and the trace at the tracker. *)
Record lcase : Type := mk_lcase {
  lc_db : string;
  lc_schema : list (string * table);
  lc_stream : list pev;
  lc_answers : answers;
  lc_trace : list tev
}.

Fixpoint insert_res (r : resource) (l : list resource) : list resource :=
  match l with
  | [] => [r]
  | x :: t => if Nat.leb (r_id r) (r_id x) then r :: l else x :: insert_res r t
  end.

Definition verdicts_eqb (a b : list (nat * bool)) : bool :=
  list_eqb (fun x y => Nat.eqb (fst x) (fst y) && Bool.eqb (snd x) (snd y)) a b.

(** [exp]: the updates the model's poll loop has queued for the tracker and the trace has not shown yet. *)
Fixpoint replay (schema : list (string * table)) (exp : list update) (regs : list resource) (tr : list tev) : list nat :=
  match tr with
  | [] => match exp with [] => [] | _ :: _ => [11] end      (* an update the model expects never reached the tracker *)
  | TAdd rid tbl f :: tr' => replay schema exp (insert_res (mk_resource rid tbl f) regs) tr'
  | TRemove rid :: tr' => replay schema exp (List.filter (fun r => negb (Nat.eqb (r_id r) rid)) regs) tr'
  | TRead rid :: tr' =>
      (* LiveDB.query registers the dependency before it runs the SELECT: [Read] is only enabled once the
         run's resource is in the tracker *)
      (if existsb (fun r => Nat.eqb (r_id r) rid) regs then [] else [3]) ++ replay schema exp regs tr'
  | TProcess tbl obs_err obs :: tr' =>
      match exp with
      | [] => [11] ++ replay schema [] regs tr'               (* an update the model's poll loop did not produce *)
      | u :: exp' =>
          (if String.eqb (u_table u) tbl then [] else [11]) ++
          (if Bool.eqb (u_err u) obs_err then [] else [2]) ++
          match slookup tbl schema with
          | None => [9]
          | Some t =>
              if verdicts_eqb (map (fun r => (r_id r, should_invalidate t r u)) regs) obs then [] else [1]
          end ++ replay schema exp' regs tr'
      end
  end.

Definition dedup (l : list nat) : list nat := nodup Nat.eq_dec l.

Definition check_lcase (e : env) (c : lcase) : list nat :=
  let '(us, rest, stuck) := poll_stream true e (lc_db c) (lc_schema c) pstate0 (lc_answers c) (lc_stream c) in
  dedup ((if stuck then [10] else match rest with [] => [] | _ :: _ => [10] end) ++
         replay (lc_schema c) us [] (lc_trace c)).

Fixpoint live_mismatches (e : env) (cs : list (nat * lcase)) : list (nat * list nat) :=
  match cs with
  | [] => []
  | (i, c) :: t => match check_lcase e c with
                   | [] => live_mismatches e t
                   | l => (i, l) :: live_mismatches e t
                   end
  end.

(** * SQL semantics of a sqlgen filter (the specification): SimpleWhere renders [col IS ?] for a NULL
    value and [col = ?] otherwise, conditions are AND-ed, WHERE keeps a row only if the condition is
    TRUE under MySQL's three-valued logic.  Strings and byte strings compare bytewise (binary
    collation); booleans are the integers 0 / 1. *)
Open Scope Z_scope.
Definition sql_eq (a b : dval) : option bool :=      (* None = UNKNOWN *)
  match a, b with
  | DNull, _ | _, DNull => None
  | DInt x, DInt y => Some (x =? y)
  | DBool x, DBool y => Some (Bool.eqb x y)
  | DInt x, DBool y | DBool y, DInt x => Some (x =? (if y then 1 else 0))
  | DFloat x, DFloat y => Some (x =? y)
  | DTime x, DTime y => Some (x =? y)
  | (DStr x | DBytes x), (DStr y | DBytes y) => Some (String.eqb x y)
  | _, _ => Some false
  end.
Close Scope Z_scope.

Definition sql_cond (cell v : dval) : bool :=
  match v with
  | DNull => match cell with DNull => true | _ => false end         (* col IS NULL *)
  | _ => match sql_eq cell v with Some true => true | _ => false end (* col = v *)
  end.

(** The cell MySQL stores for a struct field is what Valuer made of it. *)
Definition sql_where (t : table) (f : filter) (row : list fval) : bool :=
  forallb (fun nv => match col_lookup (fst nv) t row with
                     | Some (d, cv) => sql_cond (valuer d (dyn_of d cv)) (valuer d (snd nv))
                     | None => false
                     end) f.

(** * The transition system: commits, binlog delivery, live queries that register then read *)
Definition row := list fval.
Record write : Type := mk_write { w_table : string; w_before : option row; w_after : option row }.
Definition dbase := list (string * row).          (* rows of all tables *)

Definition row_eqb (a b : row) : bool := list_eqb fval_eqb a b.

Fixpoint remove_first (tbl : string) (r : row) (d : dbase) : dbase :=
  match d with
  | [] => []
  | x :: d' => if String.eqb (fst x) tbl && row_eqb (snd x) r then d' else x :: remove_first tbl r d'
  end.

Definition apply_write (d : dbase) (w : write) : dbase :=
  let d1 := match w_before w with Some r => remove_first (w_table w) r d | None => d end in
  match w_after w with Some r => d1 ++ [(w_table w, r)] | None => d1 end.

(** What a SELECT with filter [f] on table [tbl] returns, the row predicate being [p]. *)
Definition select_by (p : filter -> row -> bool) (tbl : string) (f : filter) (d : dbase) : list row :=
  map snd (List.filter (fun x => String.eqb (fst x) tbl && p f (snd x)) d).

Inductive phase : Type := PIdle | PRegistered | PDone.

Record qstate : Type := mk_q {
  q_table : string; q_filter : filter;
  q_phase : phase;
  q_invalid : bool;            (* the resource of the current computation has been invalidated *)
  q_read_at : nat;             (* number of commits when the SELECT ran *)
  q_held : list row
}.

(** A committed write and whether its rows event will be decodable when it is delivered. *)
Definition commit := (write * bool)%type.

Record state : Type := mk_state {
  s_init : dbase;
  s_log : list commit;         (* commits so far, in commit (= binlog) order *)
  s_delivered : nat;           (* events handed to the tracker so far *)
  s_queries : list qstate
}.

Definition db_at (s : state) (k : nat) : dbase :=
  fold_left apply_write (map fst (firstn k (s_log s))) (s_init s).

Definition s_db (s : state) : dbase := db_at s (List.length (s_log s)).

Inductive label : Type :=
| Register (q : nat) | Read (q : nat) | Rerun (q : nat)
| Commit (w : write) (decodable : bool)
| Deliver | DeliverUndecodable.

Fixpoint update_nth {A} (n : nat) (f : A -> A) (l : list A) : list A :=
  match l, n with
  | [], _ => []
  | x :: t, O => f x :: t
  | x :: t, S n' => x :: update_nth n' f t
  end.

Section Lts.
  Variable schema : string -> table.     (* sqlgen.Schema.ByName *)
  Variable fixed : bool.                 (* C07-fix-1 applied *)

  Definition tst (tbl : string) (f : filter) (r : option row) : bool := tester (schema tbl) f r.

  (** The decoded update of a decodable event of write [w] (C13: decoding gives back the images). *)
  Definition update_of (w : write) : update := mk_update (w_table w) [(w_before w, w_after w)] false.

  Definition invalidates (q : qstate) (u : update) : bool :=
    should_invalidate (schema (q_table q)) (mk_resource 0 (q_table q) (q_filter q)) u.

  Definition registered (q : qstate) : bool := match q_phase q with PIdle => false | _ => true end.

  Definition process (u : update) (q : qstate) : qstate :=
    if registered q && invalidates q u
    then mk_q (q_table q) (q_filter q) (q_phase q) true (q_read_at q) (q_held q) else q.

  Definition step (s : state) (l : label) : option state :=
    match l with
    | Register i =>
        match nth_error (s_queries s) i with
        | Some q => match q_phase q with
                    | PIdle => Some (mk_state (s_init s) (s_log s) (s_delivered s)
                                  (update_nth i (fun q => mk_q (q_table q) (q_filter q) PRegistered false 0 []) (s_queries s)))
                    | _ => None
                    end
        | None => None
        end
    | Read i =>
        match nth_error (s_queries s) i with
        | Some q => match q_phase q with
                    | PRegistered =>
                        Some (mk_state (s_init s) (s_log s) (s_delivered s)
                                (update_nth i (fun q => mk_q (q_table q) (q_filter q) PDone (q_invalid q)
                                                          (List.length (s_log s))
                                                          (select_by (fun f r => tst (q_table q) f (Some r)) (q_table q) (q_filter q) (s_db s)))
                                            (s_queries s)))
                    | _ => None
                    end
        | None => None
        end
    | Rerun i =>
        match nth_error (s_queries s) i with
        | Some q => match q_phase q with
                    | PDone => Some (mk_state (s_init s) (s_log s) (s_delivered s)
                                  (update_nth i (fun q => mk_q (q_table q) (q_filter q) PIdle false 0 []) (s_queries s)))
                    | _ => None
                    end
        | None => None
        end
    | Commit w ok => Some (mk_state (s_init s) (s_log s ++ [(w, ok)]) (s_delivered s) (s_queries s))
    | Deliver =>
        match nth_error (s_log s) (s_delivered s) with
        | Some (w, true) => Some (mk_state (s_init s) (s_log s) (S (s_delivered s)) (map (process (update_of w)) (s_queries s)))
        | _ => None
        end
    | DeliverUndecodable =>
        match nth_error (s_log s) (s_delivered s) with
        | Some (w, false) =>
            Some (mk_state (s_init s) (s_log s) (S (s_delivered s))
                    (if fixed then map (process (mk_update (w_table w) [] true)) (s_queries s) else s_queries s))
        | _ => None
        end
    end.

  Fixpoint run (s : state) (ls : list label) : option state :=
    match ls with
    | [] => Some s
    | l :: ls' => match step s l with Some s' => run s' ls' | None => None end
    end.

  Definition quiescent (s : state) : bool :=
    Nat.eqb (s_delivered s) (List.length (s_log s)) &&
    forallb (fun q => match q_phase q with PDone => negb (q_invalid q) | _ => false end) (s_queries s).
End Lts.

Definition initial (d : dbase) (qs : list (string * filter)) : state :=
  mk_state d [] 0 (map (fun tf => mk_q (fst tf) (snd tf) PIdle false 0 []) qs).
