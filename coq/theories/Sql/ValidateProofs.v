(** Every descriptor the round-trip theorems range over is one sqlgen registers (C13). *)
From Coq Require Import List ZArith String Bool Lia.
From Thunder Require Import Sql.TimeText Sql.Codec Sql.CodecProofs Sql.Validate.
Import ListNotations.

Theorem desc_ok_registers e d : desc_ok d = true -> register_ok e d = true /\ tag_modelled d = true.
Proof.
  destruct d as [b ptr tg]. intros H.
  assert (Hp : tag_eqb tg TImplicitNull && ptr = false).
  { unfold desc_ok in H. cbn [d_tag d_ptr] in H. apply andb_prop in H as [_ H].
    destruct (tag_eqb tg TImplicitNull); [destruct ptr; [discriminate|reflexivity]|reflexivity]. }
  unfold register_ok. cbn [d_tag d_ptr]. rewrite Hp. cbn [negb andb].
  destruct b as [w|w| | | | | | |[]]; destruct tg; try discriminate H; destruct ptr; try discriminate H;
    try (split; reflexivity).
  all: unfold desc_ok in H; cbn [d_base d_tag d_ptr tag_eqb negb andb] in H; rewrite ?andb_true_r in H;
    apply width_cases in H as [-> | [-> | [-> | ->]]]; split; reflexivity.
Qed.
