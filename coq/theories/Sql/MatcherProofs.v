(** The matcher's data structures (Sql/Matcher.v) compute exactly [matcher_matches] (Sql/Model.v): the dispatch
    loop of the batch function hands row r to item i iff the coerced, hashed values of item i's filter and of
    the row agree on every column of the filter -- once. *)
From Coq Require Import List ZArith String Ascii Bool Lia Permutation.
From Thunder Require Import Sql.Model Sql.ModelExact Sql.Confine Sql.BatchProofs Sql.BatchExact Sql.Matcher.
Import ListNotations.
Open Scope string_scope.

(** * Go's == on interface values is a partial equivalence *)
Lemma gty_eqb_refl : forall t, gty_eqb t t = true.
Proof.
  induction t; cbn [gty_eqb]; try reflexivity.
  - rewrite ikind_eqb_refl, String.eqb_refl. reflexivity.
  - apply String.eqb_refl.
  - exact IHt.
Qed.

Lemma scalar_eqb_eq : forall a b, scalar_eqb a b = true -> a = b.
Proof.
  intros a b H. destruct a, b; cbn [scalar_eqb] in H; try discriminate.
  - apply andb_prop in H. destruct H as [H Hz]. apply andb_prop in H. destruct H as [Hk Hn].
    apply ikind_eqb_eq in Hk. apply String.eqb_eq in Hn. apply Z.eqb_eq in Hz. subst. reflexivity.
  - apply andb_prop in H. destruct H as [Hn Hs]. apply String.eqb_eq in Hn. apply String.eqb_eq in Hs. subst. reflexivity.
  - apply eqb_prop in H. subst. reflexivity.
  - apply Z.eqb_eq in H. subst. reflexivity.
Qed.

(** Two values that are == behave alike in every further comparison. *)
Lemma go_eqb_congr : forall a b c, go_eqb a b = true -> go_eqb a c = go_eqb b c.
Proof.
  intros a b c H. destruct a, b; cbn [go_eqb] in H; try discriminate.
  - reflexivity.
  - apply andb_prop in H. destruct H as [H Hz]. apply andb_prop in H. destruct H as [Hk Hn].
    apply ikind_eqb_eq in Hk. apply String.eqb_eq in Hn. apply Z.eqb_eq in Hz. subst. reflexivity.
  - apply andb_prop in H. destruct H as [Hn Hs]. apply String.eqb_eq in Hn. apply String.eqb_eq in Hs. subst. reflexivity.
  - apply eqb_prop in H. subst. reflexivity.
  - apply Z.eqb_eq in H. subst. reflexivity.
  - apply String.eqb_eq in H. subst. reflexivity.
  - reflexivity.
  - destruct (type_of a) as [ta|] eqn:Ea; [|discriminate]. destruct (type_of b) as [tb|] eqn:Eb; [|discriminate].
    apply andb_prop in H. destruct H as [Ht Hp]. apply gty_eqb_eq in Ht. apply Nat.eqb_eq in Hp. subst.
    destruct c; cbn [go_eqb]; try reflexivity. rewrite Ea, Eb. reflexivity.
  - apply gty_eqb_eq in H. subst. reflexivity.
  - apply andb_prop in H. destruct H as [H Hs]. apply andb_prop in H. destruct H as [Hn Hu].
    apply String.eqb_eq in Hn. apply scalar_eqb_eq in Hu. apply dval_eqb_eq in Hs. subst. reflexivity.
Qed.

Lemma dval_eqb_refl' : forall d, dval_eqb d d = true.
Proof. destruct d; cbn [dval_eqb]; try reflexivity; try apply Z.eqb_refl; try apply String.eqb_refl. destruct b; reflexivity. Qed.

Lemma go_eqb_sym : forall a b, go_eqb a b = true -> go_eqb b a = true.
Proof.
  intros a b H. rewrite <- (go_eqb_congr a b a H).
  destruct a, b; cbn [go_eqb] in H |- *; try discriminate; try reflexivity.
  - rewrite ikind_eqb_refl, String.eqb_refl, Z.eqb_refl. reflexivity.
  - rewrite !String.eqb_refl. reflexivity.
  - destruct b0; reflexivity.
  - apply Z.eqb_refl.
  - apply String.eqb_refl.
  - destruct (type_of a) as [ta|]; [|discriminate]. rewrite gty_eqb_refl, Nat.eqb_refl. reflexivity.
  - apply gty_eqb_refl.
  - apply andb_prop in H. destruct H as [H _]. apply andb_prop in H. destruct H as [_ Hu].
    assert (Hu' := Hu). apply scalar_eqb_eq in Hu'. subst. rewrite String.eqb_refl, dval_eqb_refl'.
    destruct b; cbn [scalar_eqb] in *; try discriminate.
    + rewrite ikind_eqb_refl, String.eqb_refl, Z.eqb_refl. reflexivity.
    + rewrite !String.eqb_refl. reflexivity.
    + destruct b; reflexivity.
    + rewrite Z.eqb_refl. reflexivity.
Qed.

Lemma tuple_eqb_congr : forall a b c, tuple_eqb a b = true -> tuple_eqb a c = tuple_eqb b c.
Proof.
  induction a as [|x a IH]; intros b c H; destruct b as [|y b]; cbn [tuple_eqb] in H; try discriminate; [reflexivity|].
  apply andb_prop in H. destruct H as [Hx Ha]. destruct c as [|z c]; [reflexivity|]. cbn [tuple_eqb].
  rewrite (go_eqb_congr x y z Hx), (IH b c Ha). reflexivity.
Qed.

Lemma tuple_eqb_sym : forall a b, tuple_eqb a b = true -> tuple_eqb b a = true.
Proof.
  induction a as [|x a IH]; intros b H; destruct b as [|y b]; cbn [tuple_eqb] in H |- *; try discriminate; [reflexivity|].
  apply andb_prop in H. destruct H as [Hx Ha]. rewrite (go_eqb_sym x y Hx), (IH b Ha). reflexivity.
Qed.

(** * One add shows in [match] as one more id, exactly when the tuples are equal *)
Lemma entries_lookup_add : forall T id o es,
  (forall k ids, In (k, ids) es -> ~ In id ids) ->
  Permutation (entries_lookup o (entries_add T id es))
              ((if tuple_eqb T o then [id] else []) ++ entries_lookup o es).
Proof.
  intros T id o es. induction es as [|[k ids] es IH]; intros Hf.
  - unfold entries_lookup. cbn [entries_add find fst snd]. destruct (tuple_eqb T o); rewrite app_nil_r; apply Permutation_refl.
  - cbn [entries_add]. destruct (tuple_eqb k T) eqn:EkT.
    + assert (Hex : existsb (Nat.eqb id) ids = false).
      { destruct (existsb (Nat.eqb id) ids) eqn:E; [|reflexivity]. apply existsb_exists in E. destruct E as (j & Hj & Ej).
        apply Nat.eqb_eq in Ej. subst j. exfalso. exact (Hf k ids (or_introl eq_refl) Hj). }
      rewrite Hex. unfold entries_lookup. cbn [find fst snd]. rewrite <- (tuple_eqb_congr k T o EkT).
      destruct (tuple_eqb k o).
      * apply Permutation_sym. apply Permutation_cons_append.
      * apply Permutation_refl.
    + unfold entries_lookup in *. cbn [find fst snd]. destruct (tuple_eqb k o) eqn:Eko.
      * assert (ETo : tuple_eqb T o = false).
        { destruct (tuple_eqb T o) eqn:E; [|reflexivity].
          rewrite (tuple_eqb_congr k o T Eko) in EkT. rewrite (tuple_eqb_sym T o E) in EkT. discriminate. }
        rewrite ETo. apply Permutation_refl.
      * apply IH. intros k' ids' Hin. apply (Hf k' ids'). right; exact Hin.
Qed.

Definition minv (m : matcher) : Prop :=
  forall k g, In (k, g) m -> k = columns_key (mg_cols g) /\ forallb name_ok (mg_cols g) = true.

Definition mbound (n : nat) (m : matcher) : Prop :=
  forall k g tup ids j, In (k, g) m -> In (tup, ids) (mg_entries g) -> In j ids -> j < n.

Lemma match_cons : forall kg m o,
  matcher_match (kg :: m) o = (entries_lookup (m_tuple o (mg_cols (snd kg))) (mg_entries (snd kg)) ++ matcher_match m o)%list.
Proof. reflexivity. Qed.

Lemma match_groups_add : forall m key cols T id o,
  minv m -> mbound id m -> key = columns_key cols -> forallb name_ok cols = true ->
  Permutation (matcher_match (groups_add key cols T id m) o)
              ((if tuple_eqb T (m_tuple o cols) then [id] else []) ++ matcher_match m o).
Proof.
  induction m as [|[k g] m IH]; intros key cols T id o Hinv Hb Hkey Hn.
  - cbn [groups_add]. rewrite match_cons. cbn [snd mg_cols mg_entries]. unfold entries_lookup. cbn [find fst snd].
    destruct (tuple_eqb T (m_tuple o cols)); apply Permutation_refl.
  - cbn [groups_add]. destruct (String.eqb k key) eqn:E.
    + apply String.eqb_eq in E. destruct (Hinv k g (or_introl eq_refl)) as [Hk Hng].
      assert (Hc : mg_cols g = cols) by (apply columns_key_inj; [exact Hng|exact Hn|rewrite <- Hk, E; exact Hkey]).
      rewrite !match_cons. cbn [snd mg_cols mg_entries]. rewrite Hc. rewrite app_assoc.
      apply Permutation_app_tail. apply entries_lookup_add.
      intros k' ids' Hin Hid. exact (Nat.lt_irrefl _ (Hb k g k' ids' id (or_introl eq_refl) Hin Hid)).
    + rewrite !match_cons. cbn [snd].
      eapply Permutation_trans; [apply Permutation_app_head; apply (IH key cols T id o)|].
      * intros k' g' Hin. apply Hinv. right; exact Hin.
      * intros k' g' tup ids j Hin. apply (Hb k' g' tup ids j). right; exact Hin.
      * exact Hkey.
      * exact Hn.
      * rewrite !app_assoc. apply Permutation_app_tail. apply Permutation_app_comm.
Qed.

Lemma minv_groups_add : forall m key cols T id,
  minv m -> key = columns_key cols -> forallb name_ok cols = true -> minv (groups_add key cols T id m).
Proof.
  induction m as [|[k g] m IH]; intros key cols T id Hinv Hkey Hn k' g' Hin.
  - cbn [groups_add] in Hin. destruct Hin as [Hin|[]]. inversion Hin; subst. split; [reflexivity|exact Hn].
  - assert (Hhd := Hinv k g (or_introl eq_refl)).
    assert (Htl : minv m) by (intros a b H; apply Hinv; right; exact H).
    cbn [groups_add] in Hin. destruct (String.eqb k key).
    + destruct Hin as [Hin|Hin].
      * inversion Hin; subst k' g'. cbn [mg_cols]. exact Hhd.
      * apply Htl. exact Hin.
    + destruct Hin as [Hin|Hin].
      * inversion Hin; subst k' g'. exact Hhd.
      * apply (IH key cols T id Htl Hkey Hn k' g' Hin).
Qed.

Lemma In_entries_add : forall T id es tup ids j,
  In (tup, ids) (entries_add T id es) -> In j ids -> j = id \/ exists ids0, In (tup, ids0) es /\ In j ids0.
Proof.
  intros T id es. induction es as [|[k ids0] es IH]; intros tup ids j Hin Hj.
  - cbn [entries_add] in Hin. destruct Hin as [Hin|[]]. inversion Hin; subst. destruct Hj as [Hj|[]]. left; auto.
  - cbn [entries_add] in Hin. destruct (tuple_eqb k T).
    + destruct Hin as [Hin|Hin].
      * inversion Hin; subst. destruct (existsb (Nat.eqb id) ids0).
        -- right. exists ids0. split; [left; reflexivity|exact Hj].
        -- apply in_app_or in Hj. destruct Hj as [Hj|[Hj|[]]]; [right; exists ids0; split; [left; reflexivity|exact Hj]|left; auto].
      * right. exists ids. split; [right; exact Hin|exact Hj].
    + destruct Hin as [Hin|Hin].
      * inversion Hin; subst. right. exists ids. split; [left; reflexivity|exact Hj].
      * destruct (IH tup ids j Hin Hj) as [E|(ids1 & H1 & H2)]; [left; exact E|right; exists ids1; split; [right; exact H1|exact H2]].
Qed.

Lemma mbound_groups_add : forall m key cols T id,
  mbound id m -> mbound (S id) (groups_add key cols T id m).
Proof.
  induction m as [|[k g] m IH]; intros key cols T id Hb k' g' tup ids j Hin He Hj.
  - cbn [groups_add] in Hin. destruct Hin as [Hin|[]]. inversion Hin; subst k' g'. cbn [mg_entries] in He.
    destruct He as [He|[]]. inversion He; subst tup ids. destruct Hj as [Hj|[]]. subst. lia.
  - assert (Hhd : forall tup ids j, In (tup, ids) (mg_entries g) -> In j ids -> j < id)
      by (intros a b c H1 H2; exact (Hb k g a b c (or_introl eq_refl) H1 H2)).
    assert (Htl : mbound id m) by (intros a b c d e H; apply (Hb a b c d e); right; exact H).
    cbn [groups_add] in Hin. destruct (String.eqb k key).
    + destruct Hin as [Hin|Hin].
      * inversion Hin; subst k' g'. cbn [mg_entries] in He.
        destruct (In_entries_add _ _ _ _ _ _ He Hj) as [E|(ids0 & H1 & H2)]; [subst; lia|].
        assert (j < id) by (exact (Hhd tup ids0 j H1 H2)). lia.
      * assert (j < id) by (exact (Htl k' g' tup ids j Hin He Hj)). lia.
    + destruct Hin as [Hin|Hin].
      * inversion Hin; subst k' g'. assert (j < id) by (exact (Hhd tup ids j He Hj)). lia.
      * apply (IH key cols T id Htl k' g' tup ids j Hin He Hj).
Qed.

(** * All adds of the batch function *)
Definition f_names_ok (f : filter) : Prop := forallb name_ok (map fst f) = true.

Lemma coerce_map_fst : forall f, map fst (coerce_map f) = map fst f.
Proof. intros f. unfold coerce_map. rewrite map_map. reflexivity. Qed.

Lemma extract_columns_coerce : forall f, extract_columns (coerce_map f) = extract_columns f.
Proof. intros f. unfold extract_columns. rewrite coerce_map_fst. reflexivity. Qed.

Definition hit (f : filter) (o : gmap) : bool :=
  tuple_eqb (m_tuple (coerce_map f) (extract_columns f)) (m_tuple o (extract_columns f)).

Fixpoint spec_ids (i : nat) (fs : list filter) (o : gmap) : list nat :=
  match fs with
  | [] => []
  | f :: rest => ((if hit f o then [i] else []) ++ spec_ids (S i) rest o)%list
  end.

Lemma match_add_all : forall fs m i o,
  minv m -> mbound i m -> Forall f_names_ok fs ->
  Permutation (matcher_match (add_all m i fs) o) (spec_ids i fs o ++ matcher_match m o).
Proof.
  induction fs as [|f fs IH]; intros m i o Hinv Hb Hn; [apply Permutation_refl|].
  inversion Hn as [|f' fs' Hf Hfs]; subst. cbn [add_all spec_ids].
  assert (Hcols : forallb name_ok (extract_columns (coerce_map f)) = true).
  { rewrite extract_columns_coerce. unfold extract_columns. apply forallb_sort_strings. exact Hf. }
  eapply Permutation_trans.
  - apply IH; [|apply mbound_groups_add; exact Hb|exact Hfs].
    unfold matcher_add. apply minv_groups_add; [exact Hinv|reflexivity|exact Hcols].
  - unfold matcher_add.
    eapply Permutation_trans; [apply Permutation_app_head; apply match_groups_add; [exact Hinv|exact Hb|reflexivity|exact Hcols]|].
    rewrite extract_columns_coerce. fold (hit f o).
    rewrite !app_assoc. apply Permutation_app_tail. apply Permutation_app_comm.
Qed.

Lemma count_nat_perm : forall x l l', Permutation l l' -> count_nat x l = count_nat x l'.
Proof. intros x l l' H. induction H; cbn [count_nat]; lia. Qed.

Lemma count_nat_app : forall x l l', count_nat x (l ++ l') = count_nat x l + count_nat x l'.
Proof. intros x l l'. induction l as [|y l IH]; [reflexivity|]. cbn [app count_nat]. lia. Qed.

Lemma count_spec_low : forall fs i j o, j < i -> count_nat j (spec_ids i fs o) = 0.
Proof.
  induction fs as [|f fs IH]; intros i j o H; [reflexivity|]. cbn [spec_ids]. rewrite count_nat_app, (IH (S i) j o) by lia.
  destruct (hit f o); cbn [count_nat]; [|reflexivity]. destruct (Nat.eqb j i) eqn:E; [apply Nat.eqb_eq in E; lia|reflexivity].
Qed.

Lemma count_spec : forall fs i j o, j < List.length fs ->
  count_nat (i + j) (spec_ids i fs o) = if hit (nth j fs []) o then 1 else 0.
Proof.
  induction fs as [|f fs IH]; intros i j o H; [cbn in H; lia|]. cbn [spec_ids]. rewrite count_nat_app.
  destruct j as [|j].
  - rewrite Nat.add_0_r. rewrite (count_spec_low fs (S i) i o) by lia. cbn [nth].
    destruct (hit f o); cbn [count_nat]; [rewrite Nat.eqb_refl; reflexivity|reflexivity].
  - cbn [nth]. replace (i + S j) with (S i + j) by lia. rewrite (IH (S i) j o) by (cbn in H; lia).
    destruct (hit f o); cbn [count_nat]; [|reflexivity].
    destruct (Nat.eqb (S i + j) i) eqn:E; [apply Nat.eqb_eq in E; lia|reflexivity].
Qed.

(** * The tuple comparison is the per-column comparison of [matcher_matches] *)
Lemma tuple_eqb_maps : forall (g1 g2 : string -> goval) cols,
  tuple_eqb (make_hashable (map g1 cols)) (make_hashable (map g2 cols))
  = forallb (fun k => go_eqb (hashable (g1 k)) (hashable (g2 k))) cols.
Proof. intros g1 g2 cols. induction cols as [|k cols IH]; [reflexivity|]. cbn [map make_hashable tuple_eqb forallb]. unfold make_hashable in IH. rewrite IH. reflexivity. Qed.

Lemma lookup_coerce_map : forall k f, lookup k (coerce_map f) = option_map coerce (lookup k f).
Proof.
  intros k f. induction f as [|[k' v] f IH]; [reflexivity|]. cbn [coerce_map map lookup fst snd].
  destruct (String.eqb k k'); [reflexivity|exact IH].
Qed.

Lemma lookup_extract_row : forall cols r k,
  lookup k (map (fun c => (c_name c, field_value (c_ty c) (cell r (c_name c)))) cols)
  = option_map (fun c => field_value (c_ty c) (cell r (c_name c))) (find_col cols k).
Proof.
  intros cols r k. induction cols as [|c cols IH]; [reflexivity|]. cbn [map lookup find_col].
  destruct (String.eqb k (c_name c)); [reflexivity|exact IH].
Qed.

Lemma find_col_distinct : forall cols c, distinctb (map c_name cols) = true -> In c cols -> find_col cols (c_name c) = Some c.
Proof.
  induction cols as [|c0 cols IH]; intros c Hd Hin; [contradiction|]. cbn [map distinctb] in Hd.
  apply andb_prop in Hd. destruct Hd as [Hn Hd]. cbn [find_col]. destruct Hin as [->|Hin]; [rewrite String.eqb_refl; reflexivity|].
  destruct (String.eqb (c_name c) (c_name c0)) eqn:E; [|apply IH; assumption].
  apply String.eqb_eq in E. apply negb_true_iff in Hn.
  assert (existsb (String.eqb (c_name c0)) (map c_name cols) = true).
  { apply existsb_exists. exists (c_name c). split; [apply in_map; exact Hin|rewrite E; apply String.eqb_refl]. }
  congruence.
Qed.

Lemma hit_matches : forall t f r,
  cols_distinct t = true -> filter_known t f = true ->
  hit f (coerce_map (extract_row t r)) = matcher_matches t f r.
Proof.
  intros t f r Hd Hk. unfold hit, m_tuple, extract_tuple. rewrite tuple_eqb_maps.
  unfold matcher_matches.
  match goal with |- ?L = ?R => destruct L eqn:EL; destruct R eqn:ER; try reflexivity; exfalso end.
  - (* tuples equal, some column differs *)
    rewrite forallb_forall in EL. apply forallb_false_exists in ER. destruct ER as (c & Hc & Hp).
    destruct (lookup (c_name c) f) as [fv|] eqn:Ef; [|discriminate].
    assert (Hin : In (c_name c) (extract_columns f)).
    { unfold extract_columns. apply (proj2 (In_sort_strings _ _)). apply in_map_iff. exists (c_name c, fv). split; [reflexivity|apply lookup_In; exact Ef]. }
    specialize (EL _ Hin). rewrite !lookup_coerce_map, Ef in EL. unfold extract_row in EL. rewrite lookup_extract_row in EL.
    rewrite (find_col_distinct _ c Hd Hc) in EL. cbn [option_map] in EL. rewrite EL in Hp. discriminate.
  - rewrite forallb_forall in ER. apply forallb_false_exists in EL. destruct EL as (k & Hkin & Hp).
    unfold extract_columns in Hkin. apply (proj1 (In_sort_strings _ _)) in Hkin.
    destruct (lookup_some_of_key _ k f Hkin) as [fv Ef].
    unfold filter_known in Hk. destruct (all_known_find _ _ _ _ Hk Ef) as [c Hc].
    destruct (find_col_In _ _ _ Hc) as [Hcin Hcn]. specialize (ER c Hcin). rewrite Hcn, Ef in ER.
    rewrite !lookup_coerce_map, Ef in Hp. unfold extract_row in Hp. rewrite lookup_extract_row, Hc in Hp.
    cbn [option_map] in Hp. rewrite Hcn in Hp. rewrite ER in Hp. discriminate.
Qed.

(** * The dispatch loop computes [matcher_matches] *)
Lemma minv_nil : minv []. Proof. intros k g []. Qed.
Lemma mbound_nil : forall n, mbound n []. Proof. intros n k g tup ids j []. Qed.

Lemma map_seq_nth_gen : forall (A B : Type) (g : nat -> B) (h : A -> B) (d : A) (l : list A) s,
  (forall j, j < List.length l -> g (s + j) = h (nth j l d)) -> map g (seq s (List.length l)) = map h l.
Proof.
  intros A B g h d l. induction l as [|a l IH]; intros s H; [reflexivity|]. cbn [List.length seq map]. f_equal.
  - specialize (H 0). rewrite Nat.add_0_r in H. apply H. cbn. lia.
  - apply IH. intros j Hj. replace (S s + j) with (s + S j) by lia. apply (H (S j)). cbn. lia.
Qed.

Lemma map_seq_nth : forall (A B : Type) (g : nat -> B) (h : A -> B) (l : list A) d,
  (forall j, j < List.length l -> g j = h (nth j l d)) -> map g (seq 0 (List.length l)) = map h l.
Proof. intros A B g h l d H. apply (map_seq_nth_gen A B g h d l 0). exact H. Qed.

Theorem dispatch_refines : forall t fs rows,
  table_ok t = true -> cols_distinct t = true -> forallb (filter_known t) fs = true ->
  dispatch t fs rows = map (fun f => List.filter (matcher_matches t f) rows) fs.
Proof.
  intros t fs rows Ht Hd Hk. unfold dispatch.
  assert (Hn : Forall f_names_ok fs).
  { apply Forall_forall. intros f Hf. rewrite forallb_forall in Hk. specialize (Hk f Hf). unfold filter_known, all_known in Hk.
    unfold f_names_ok. apply forallb_forall. intros k Hkin. apply in_map_iff in Hkin. destruct Hkin as ([k' v] & <- & Hkv).
    rewrite forallb_forall in Hk. specialize (Hk _ Hkv). cbn [fst] in *.
    destruct (find_col (t_cols t) k') as [c|] eqn:Ec; [|discriminate].
    destruct (find_col_In _ _ _ Ec) as [Hcin <-]. unfold table_ok in Ht. rewrite forallb_forall in Ht. apply Ht. apply in_map. exact Hcin. }
  apply (map_seq_nth _ _ _ _ fs []). intros j Hj.
  induction rows as [|r rows IH]; [reflexivity|]. cbn [map flat_map List.filter fst snd]. rewrite IH. clear IH.
  assert (Hc : count_nat j (matcher_match (matcher_of fs) (coerce_map (extract_row t r)))
               = if matcher_matches t (nth j fs []) r then 1 else 0).
  { unfold matcher_of.
    rewrite (count_nat_perm _ _ _ (match_add_all fs [] 0 _ minv_nil (mbound_nil 0) Hn)).
    rewrite count_nat_app. cbn [matcher_match map List.concat count_nat]. rewrite Nat.add_0_r.
    change j with (0 + j). rewrite (count_spec fs 0 j _ Hj). cbn [plus].
    rewrite hit_matches; [reflexivity|exact Hd|]. rewrite forallb_forall in Hk. apply Hk. apply nth_In. exact Hj. }
  rewrite Hc. destruct (matcher_matches t (nth j fs []) r); reflexivity.
Qed.

(** One invocation of the batch function through the data structures is [batched_results] (and
    [batched_results_fixed] with the tester). *)
Theorem batched_results_struct_refines : forall t fs contents,
  table_ok t = true -> cols_distinct t = true -> forallb (filter_known t) fs = true ->
  batched_results_struct false t fs contents = batched_results t fs contents.
Proof. intros t fs contents Ht Hd Hk. unfold batched_results_struct, batched_results. apply dispatch_refines; assumption. Qed.

Lemma combine_map_self : forall (A B : Type) (g : A -> B) l, combine l (map g l) = map (fun x => (x, g x)) l.
Proof. intros A B g l. induction l as [|x l IH]; [reflexivity|]. cbn [map combine]. rewrite IH. reflexivity. Qed.

Lemma filter_filter : forall (A : Type) (p q : A -> bool) l, List.filter p (List.filter q l) = List.filter (fun x => q x && p x) l.
Proof.
  intros A p q l. induction l as [|x l IH]; [reflexivity|]. cbn [List.filter]. destruct (q x); cbn [andb List.filter]; [destruct (p x)|]; rewrite IH; reflexivity.
Qed.

Theorem batched_results_struct_fixed_refines : forall t fs contents,
  table_ok t = true -> cols_distinct t = true -> forallb (filter_known t) fs = true ->
  batched_results_struct true t fs contents = batched_results_fixed t fs contents.
Proof.
  intros t fs contents Ht Hd Hk. unfold batched_results_struct, batched_results_fixed.
  rewrite (dispatch_refines t fs _ Ht Hd Hk). rewrite combine_map_self, map_map. cbn [fst snd].
  apply map_ext. intros f. rewrite filter_filter. reflexivity.
Qed.

(** * remove undoes add *)
Definition mfull (m : matcher) : Prop :=
  forall k g, In (k, g) m -> mg_entries g <> [] /\ (forall tup ids, In (tup, ids) (mg_entries g) -> ids <> []).

Lemma filter_neq_fresh : forall id ids, ~ In id ids -> List.filter (fun j => negb (Nat.eqb j id)) ids = ids.
Proof.
  intros id ids H. induction ids as [|j ids IH]; [reflexivity|]. cbn [List.filter].
  destruct (Nat.eqb j id) eqn:E; [apply Nat.eqb_eq in E; subst; exfalso; apply H; left; reflexivity|].
  cbn [negb]. rewrite IH; [reflexivity|]. intros Hin. apply H. right; exact Hin.
Qed.

Lemma filter_neq_app : forall id ids, ~ In id ids -> List.filter (fun j => negb (Nat.eqb j id)) (ids ++ [id]) = ids.
Proof.
  intros id ids H. rewrite filter_app, (filter_neq_fresh id ids H). cbn [List.filter]. rewrite Nat.eqb_refl. cbn [negb].
  apply app_nil_r.
Qed.

Lemma entries_remove_add : forall T id es,
  tuple_eqb T T = true ->
  (forall k ids, In (k, ids) es -> ids <> [] /\ ~ In id ids) ->
  entries_remove T id (entries_add T id es) = es.
Proof.
  intros T id es HT. induction es as [|[k ids] es IH]; intros H.
  - cbn [entries_add entries_remove]. rewrite HT. cbn [List.filter]. rewrite Nat.eqb_refl. reflexivity.
  - destruct (H k ids (or_introl eq_refl)) as [Hne Hfr]. cbn [entries_add]. destruct (tuple_eqb k T) eqn:E.
    + assert (Hex : existsb (Nat.eqb id) ids = false).
      { destruct (existsb (Nat.eqb id) ids) eqn:Ex; [|reflexivity]. apply existsb_exists in Ex. destruct Ex as (j & Hj & Ej).
        apply Nat.eqb_eq in Ej. subst j. contradiction. }
      rewrite Hex. cbn [entries_remove]. rewrite E, (filter_neq_app id ids Hfr).
      destruct ids; [contradiction|reflexivity].
    + cbn [entries_remove]. rewrite E. rewrite IH; [reflexivity|]. intros k' ids' Hin. apply (H k' ids'). right; exact Hin.
Qed.

(** Removing a query that was just added gives the matcher back as it was -- provided the value tuple is equal
    to itself as a map key (in Go: no NaN in it; a tuple that is not would stay in the map for ever). *)
Theorem matcher_remove_add : forall m id f,
  mfull m -> mbound id m ->
  tuple_eqb (m_tuple f (extract_columns f)) (m_tuple f (extract_columns f)) = true ->
  matcher_remove (matcher_add m id f) id f = m.
Proof.
  intros m id f Hfull Hb HT. unfold matcher_remove, matcher_add.
  set (cols := extract_columns f) in *. set (key := columns_key cols). set (T := m_tuple f cols) in *.
  induction m as [|[k g] m IH].
  - cbn [groups_add groups_remove]. rewrite String.eqb_refl. cbn [mg_entries entries_remove]. rewrite HT.
    cbn [List.filter]. rewrite Nat.eqb_refl. reflexivity.
  - destruct (Hfull k g (or_introl eq_refl)) as [Hne Hids].
    cbn [groups_add]. destruct (String.eqb k key) eqn:E.
    + cbn [groups_remove]. rewrite E. cbn [mg_entries mg_cols].
      rewrite entries_remove_add; [|exact HT|].
      * destruct g as [gc ge]. cbn [mg_entries mg_cols] in *. destruct ge; [contradiction|reflexivity].
      * intros k' ids' Hin. split; [exact (Hids k' ids' Hin)|].
        intros Hid. exact (Nat.lt_irrefl _ (Hb k g k' ids' id (or_introl eq_refl) Hin Hid)).
    + cbn [groups_remove]. rewrite E. rewrite IH; [reflexivity| |].
      * intros a b H. apply (Hfull a b). right; exact H.
      * intros a b c d e H. apply (Hb a b c d e). right; exact H.
Qed.

Theorem batched_results_struct_both : forall t fs contents,
  table_ok t = true -> cols_distinct t = true -> forallb (filter_known t) fs = true ->
  batched_results_struct false t fs contents = batched_results t fs contents
  /\ batched_results_struct true t fs contents = batched_results_fixed t fs contents.
Proof.
  intros t fs contents H1 H2 H3.
  exact (conj (batched_results_struct_refines t fs contents H1 H2 H3) (batched_results_struct_fixed_refines t fs contents H1 H2 H3)).
Qed.
