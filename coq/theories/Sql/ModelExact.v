(** C10: the exact domain of the transparency theorem -- executable definitions only.

    For one column [c] and one filter value [v] two sets of stored values matter:
      W = the values the caller's own WHERE atom selects      ([col_W]: [c = ?] / [c IS NULL] on [valuer v]),
      M = the values the batch function's matcher hands over  ([col_M]: Go's == on the coerced, hashed values).
    A caller's batched rows are its own rows for ALL companions and ALL table contents iff the product of
    the W sets equals the product of the M sets over the filter's columns: every column agrees, or both
    products are empty (some column has W = {} and some column has M = {}).  Both sets have at most two
    elements, found among three candidates ([col_cands]): NULL, the stored form of the filter's driver value,
    and the stored value that scans into the filter's Go value.  [filter_transparent] decides it;
    Sql/BatchExact.v proves that it is sufficient and necessary. *)
From Coq Require Import List ZArith String Bool.
From Thunder Require Import Sql.Model.
Import ListNotations.
Open Scope string_scope.

(** [atom_value d w]: the caller's own atom on a cell [d] for the driver value [w] (makeWhere: [IS ?] for NULL). *)
Definition atom_of (d w : dval) : tri := match w with DNull => sql_is d DNull | _ => sql_eq d w end.

Definition col_W (c : column) (v : goval) (d : dval) : bool :=
  is_tt (atom_of d (valuer (c_implicitnull c) v)).

Definition col_M (c : column) (v : goval) (d : dval) : bool :=
  go_eqb (hashable (coerce v)) (hashable (coerce (field_value (c_ty c) d))).

(** The stored value of a column of base type [bt] that SQL-equals the driver value [w]. *)
Definition norm_value (bt : gty) (w : dval) : dval :=
  match bt with
  | TyInt _ _ | TyBool =>
      match num_of w with
      | Some q => if (q mod 4 =? 0)%Z then DInt (q / 4) else DNull
      | None => DNull
      end
  | TyFloat => match num_of w with Some q => DFloat q | None => DNull end
  | TyStr _ => match text_of w with Some s => DStr s | None => DNull end
  | TyBytes => match text_of w with Some s => DBytes s | None => DNull end
  | TyPtr _ => DNull
  end.

(** The stored value of a column of base type [bt] that scans into (something hashed as) [y]. *)
Definition unfield (bt : gty) (y : goval) : dval :=
  match bt, y with
  | TyInt _ _, GInt _ _ z => DInt z
  | TyStr _, GStr _ s => DStr s
  | TyBytes, GStr _ s => DBytes s
  | TyBool, GBool b => DInt (if b then 1 else 0)
  | TyFloat, GFloat q => DFloat q
  | _, _ => DNull
  end.

Definition col_cands (c : column) (v : goval) : list dval :=
  [DNull;
   norm_value (base_ty (c_ty c)) (valuer (c_implicitnull c) v);
   unfield (base_ty (c_ty c)) (hashable (coerce v))].

(** The row tester of the repaired batch function on one column (C10-fix-2, see Sql/Model.v), and the
    repaired matcher: a row is handed over when the matcher and the tester both accept it. *)
Definition col_T (c : column) (v : goval) (d : dval) : bool :=
  dval_eqb (valuer (c_implicitnull c) v) (valuer (c_implicitnull c) (field_value (c_ty c) d)).
Definition col_Mf (c : column) (v : goval) (d : dval) : bool := col_M c v d && col_T c v d.

(** The definitions below take the per-column matcher predicate [MX] as a parameter: [col_M] for the code as it
    is, [col_Mf] for the repaired code. *)
Definition col_agrees_g (MX : column -> goval -> dval -> bool) (c : column) (v : goval) : bool :=
  forallb (fun d => negb (representable c d) || Bool.eqb (MX c v d) (col_W c v d)) (col_cands c v).
Definition col_w_empty (c : column) (v : goval) : bool :=
  forallb (fun d => negb (representable c d && col_W c v d)) (col_cands c v).
Definition col_m_empty_g (MX : column -> goval -> dval -> bool) (c : column) (v : goval) : bool :=
  forallb (fun d => negb (representable c d && MX c v d)) (col_cands c v).

(** The filter value serializes to something MySQL compares with the column the way the model's [sql_eq]
    does: a number for a numeric column, text for a text / blob column, or NULL.  (A string against an
    integer column is converted by MySQL and is outside the model.) *)
Definition comparable (c : column) (w : dval) : bool :=
  match w with
  | DNull => true
  | _ => match base_ty (c_ty c) with
         | TyInt _ _ | TyBool | TyFloat => match num_of w with Some _ => true | None => false end
         | TyStr _ | TyBytes => match text_of w with Some _ => true | None => false end
         | TyPtr _ => false
         end
  end.

Definition on_col {A : Type} (f : filter) (dflt : A) (p : column -> goval -> A) (c : column) : A :=
  match lookup (c_name c) f with Some v => p c v | None => dflt end.

Definition filter_comparable (t : table) (f : filter) : bool :=
  forallb (on_col f true (fun c v => comparable c (valuer (c_implicitnull c) v))) (t_cols t).

(** The weakest hypothesis of the transparency theorem. *)
Definition filter_transparent_g (MX : column -> goval -> dval -> bool) (t : table) (f : filter) : bool :=
  filter_comparable t f
  && (forallb (on_col f true (col_agrees_g MX)) (t_cols t)
      || (existsb (on_col f false col_w_empty) (t_cols t) && existsb (on_col f false (col_m_empty_g MX)) (t_cols t))).

Definition filter_transparent : table -> filter -> bool := filter_transparent_g col_M.
Definition filter_transparent_fixed : table -> filter -> bool := filter_transparent_g col_Mf.

Fixpoint distinctb (l : list string) : bool :=
  match l with
  | [] => true
  | x :: r => negb (existsb (String.eqb x) r) && distinctb r
  end.
Definition cols_distinct (t : table) : bool := distinctb (map c_name (t_cols t)).

(** ** Witness rows for a filter that is not transparent *)
Definition default_cell (c : column) : dval :=
  if is_ptr_ty (c_ty c) || c_implicitnull c || is_bytes_ty (c_ty c) then DNull
  else match c_ty c with
       | TyInt _ _ => DInt 0 | TyStr _ => DStr "" | TyBool => DInt 0 | TyFloat => DFloat 0 | _ => DNull
       end.

(** A representable candidate in P but not in Q if there is one, else one in P, else any representable value. *)
Definition pick_cell (P Q : column -> goval -> dval -> bool) (c : column) (v : goval) : dval :=
  match find (fun d => representable c d && (P c v d && negb (Q c v d))) (col_cands c v) with
  | Some d => d
  | None => match find (fun d => representable c d && P c v d) (col_cands c v) with
            | Some d => d
            | None => default_cell c
            end
  end.

Definition row_pick (P Q : column -> goval -> dval -> bool) (t : table) (f : filter) : drow :=
  map (fun c => (c_name c, match lookup (c_name c) f with Some v => pick_cell P Q c v | None => default_cell c end))
      (t_cols t).

(** One of these two rows separates the matcher from the caller's WHERE clause whenever the filter is not
    transparent: the first is handed over by the matcher whenever it is fetched (an empty filter among the
    companions fetches it) although the caller's own query does not select it; the second is selected by the
    caller's own query and dropped by the matcher. *)
Definition witness_rows_g (MX : column -> goval -> dval -> bool) (t : table) (f : filter) : list drow :=
  [row_pick MX col_W t f; row_pick col_W MX t f].
Definition witness_rows : table -> filter -> list drow := witness_rows_g col_M.
Definition witness_rows_fixed : table -> filter -> list drow := witness_rows_g col_Mf.

(** One invocation of the batch function with the row-level matcher [mm] ([matcher_matches] /
    [matcher_matches_fixed]). *)
Definition batched_results_g (mm : table -> filter -> drow -> bool) (t : table) (fs : list filter) (contents : list drow)
  : list (list drow) :=
  let fetched := select_rows (batch_wclause t fs) contents in
  map (fun f => List.filter (mm t f) fetched) fs.

Definition batched_by_arrival_g (mm : table -> filter -> drow -> bool) (t : table) (fs : list filter)
           (arrival : list (list nat)) (contents : list drow) : list (nat * list drow) :=
  List.concat (map (fun b => combine b (batched_results_g mm t (map (nth_filter fs) b) contents)) arrival).
