(** Row codec of thunder's sqlgen / livesql (C13) -- executable model only.

    Follows, function by function:
      internal/fields/sql.go    Valuer.Value (l.45-146), Scanner.Scan (l.160-322)
      internal/fields/reflect.go isZero
      sqlgen/reflect.go         unbuildStruct (254-269), BuildStruct (920-951), tester.Test (814-838),
                                MakeTester (840-862), extractRow (864-873), driverValuesEqual (884-909)
      livesql/binlog.go         parseBinlogRow (199-231)
      livesql/marshal.go        valueToField, FieldToValue, FilterToProto, FilterFromProto
    together with the parts of database/sql (NullInt64/NullFloat64/NullBool/NullString.Scan through
    convertAssign, asString, driver.Bool.ConvertValue) and go-sql-driver/mysql (NullTime.Scan) that
    Scanner.Scan delegates to.

    Floats are opaque: a float is named by an integer (the harness uses the IEEE-754 binary64 bit
    pattern, NaN and -0 excluded).  Everything strconv does with them is a field of [env]; the laws the
    theorems need are hypotheses on [env] (CodecProofs.v), the correspondence run fills these fields
    with tables computed by Go itself.  A time is its Unix nanoseconds (UTC, no monotonic reading); the
    text forms of times are fields of [env] too, and Sql/TimeText.v gives them concretely
    ([time_env], CodecTime.v: formatting and mysql.parseDateTime as Gallina functions, their round
    trip proved), which is what the correspondence run evaluates.  Integer text is real decimal text
    ([print_Z]/[parse_Z]). *)
From Coq Require Import List ZArith String Ascii Bool DecimalString DecimalZ.
From Thunder Require Import Sql.TimeText.
Import ListNotations.
Open Scope string_scope.
Open Scope Z_scope.

(** * Results *)
Inductive res (A : Type) : Type := Ok (a : A) | Err.
Arguments Ok {A} a.
Arguments Err {A}.

Definition rbind {A B} (r : res A) (f : A -> res B) : res B :=
  match r with Ok a => f a | Err => Err end.

Definition of_opt {A} (o : option A) : res A := match o with Some a => Ok a | None => Err end.

(** * Decimal text of integers (strconv.FormatInt / ParseInt, base 10) *)
Definition print_Z (z : Z) : string := NilZero.string_of_int (Z.to_int z).
Definition parse_Z (s : string) : option Z := option_map Z.of_int (NilZero.int_of_string s).
Definition parse_N (s : string) : option Z := option_map Z.of_uint (NilZero.uint_of_string s).

(** strconv.ParseInt(s, 10, 64): optional sign, decimal digits, range check. *)
Definition parse_go_int (s : string) : option Z :=
  match s with
  | String "+" s' => parse_N s'
  | String "-" s' => option_map Z.opp (parse_N s')
  | _ => parse_N s
  end.

Definition min_int64 : Z := - 2 ^ 63.
Definition max_int64 : Z := 2 ^ 63 - 1.

Definition in_int64 (z : Z) : bool := (min_int64 <=? z) && (z <=? max_int64).

Definition parse_int64 (s : string) : res Z :=
  match parse_go_int s with
  | Some z => if in_int64 z then Ok z else Err
  | None => Err
  end.

(** Two's complement conversions: [reflect.Value.Convert] between integer kinds. *)
Definition wrap_u (w z : Z) : Z := z mod 2 ^ w.
Definition wrap_s (w z : Z) : Z :=
  let m := z mod 2 ^ w in if m <? 2 ^ (w - 1) then m else m - 2 ^ w.

(** * Environment: what Go's strconv and time do with opaque floats and times *)
Record env : Type := mk_env {
  fmt64 : Z -> string;            (* strconv.FormatFloat(f,'g',-1,64) *)
  fmt32 : Z -> string;            (* strconv.FormatFloat(f,'g',-1,32), f a float32 value *)
  fmt6 : Z -> string;             (* how MySQL's text protocol prints a FLOAT column: 6 significant digits *)
  parsef : string -> option Z;    (* strconv.ParseFloat(s,64); None = error *)
  round32 : Z -> Z;               (* float64(float32(f)) *)
  fmt_sec : Z -> string;          (* t.Format("2006-01-02 15:04:05") *)
  fmt_us : Z -> string;           (* t.Format("2006-01-02 15:04:05.000000") *)
  fmt_rfc : Z -> string;          (* t.Format(time.RFC3339Nano) *)
  parse_t : string -> option Z    (* mysql.parseDateTime(s, time.UTC); None = error *)
}.

Definition fzero : Z := 0.                             (* +0.0 *)
Definition tzero : Z := -62135596800000000000.         (* time.Time{} in Unix nanoseconds *)

(** * Column descriptors (fields.Descriptor) *)
Inductive custom : Type :=
| CValuer   (* implements driver.Valuer (value receiver) and sql.Scanner (pointer receiver) *)
| CBin      (* Marshal() / Unmarshal(), used with the binary tag *)
| CText     (* encoding.TextMarshaler / TextUnmarshaler, used with the string tag *)
| CNull     (* sql.NullString: Valuer + Scanner that represents NULL by itself; payload [GBytes o], None = invalid *)
| CUuid     (* a [16]byte with Value() = its bytes and Scan copying into it (internal/testfixtures.CustomType) *)
| CTri.     (* a tri-state integer type that is its own Valuer / Scanner and stands for SQL NULL by a value that is
               not its zero value: payload [GInt z], 0 = no, 1 = yes, 2 = unanswered <-> NULL *)

Inductive base : Type :=
| BInt (w : Z) | BUint (w : Z)       (* w = 8,16,32,64; Go int/uint are 64 bits wide here *)
| BF32 | BF64 | BBool | BStr | BBytes | BTime
| BCustom (c : custom).

Inductive tag : Type := TNone | TBinary | TString | TJson | TImplicitNull.

Record desc : Type := mk_desc { d_base : base; d_ptr : bool; d_tag : tag }.

Definition custom_eqb (a b : custom) : bool :=
  match a, b with CValuer, CValuer | CBin, CBin | CText, CText | CNull, CNull | CUuid, CUuid | CTri, CTri => true | _, _ => false end.

Definition base_eqb (a b : base) : bool :=
  match a, b with
  | BInt x, BInt y | BUint x, BUint y => Z.eqb x y
  | BF32, BF32 | BF64, BF64 | BBool, BBool | BStr, BStr | BBytes, BBytes | BTime, BTime => true
  | BCustom x, BCustom y => custom_eqb x y
  | _, _ => false
  end.

(** * Go values *)
Inductive gval : Type :=
| GInt (z : Z) | GFloat (f : Z) | GBool (b : bool) | GStr (s : string)
| GBytes (o : option string)        (* None = nil slice *)
| GTime (t : Z)
| GCust (s : string).               (* payload of the custom struct types *)

Inductive fval : Type := FNil | FVal (g : gval).   (* FNil = nil pointer *)

(** A dynamically typed Go value (what reflect.ValueOf sees in a filter). *)
Inductive dyn : Type := DynNil | Dyn (b : base) (ptr : bool) (v : fval).

(** copy(u[:], b) into a fresh [16]byte *)
Fixpoint take_pad (n : nat) (s : string) : string :=
  match n with
  | O => ""
  | S n' => match s with
            | EmptyString => String Ascii.zero (take_pad n' "")
            | String c s' => String c (take_pad n' s')
            end
  end.
Definition fit16 (s : string) : string := take_pad 16 s.
Definition zero16 : string := fit16 "".

Definition zero_of (b : base) : gval :=
  match b with
  | BInt _ | BUint _ => GInt 0
  | BF32 | BF64 => GFloat fzero
  | BBool => GBool false
  | BStr => GStr ""
  | BBytes => GBytes None
  | BTime => GTime tzero
  | BCustom CNull => GBytes None
  | BCustom CUuid => GCust zero16
  | BCustom CTri => GInt 0
  | BCustom _ => GCust ""
  end.

(** fields.isZero *)
Definition is_zero (g : gval) : bool :=
  match g with
  | GInt z => Z.eqb z 0
  | GFloat f => Z.eqb f fzero
  | GBool b => negb b
  | GStr s => String.eqb s ""
  | GBytes o => match o with None => true | Some _ => false end
  | GTime t => Z.eqb t tzero
  | GCust s => String.eqb s ""
  end.

(** * Driver values *)
Inductive dval : Type :=
| DNull | DInt (z : Z) | DFloat (f : Z) | DBool (b : bool) | DBytes (s : string) | DStr (s : string)
| DTime (t : Z)
| DOther.     (* a Go value that is not a driver.Value (a struct passed straight through) *)

(** * Custom codecs of the harness' catalogue types *)
Definition enc_bin (s : string) : string := "B" ++ s.
Definition dec_bin (b : string) : res string :=
  match b with String "B" s => Ok s | _ => Err end.
Definition enc_text (s : string) : string := "T:" ++ s.
Definition dec_text (b : string) : res string :=
  match b with String "T" (String ":" s) => Ok s | _ => Err end.

(** encoding/json on integers and booleans (the json-tagged kinds of the catalogue). *)
Definition json_enc (g : gval) : dval :=
  match g with
  | GInt z => DBytes (print_Z z)
  | GBool b => DBytes (if b then "true" else "false")
  | _ => DOther
  end.

Definition in_kind (b : base) (z : Z) : bool :=
  match b with
  | BInt w => (- 2 ^ (w - 1) <=? z) && (z <? 2 ^ (w - 1))
  | BUint w => (0 <=? z) && (z <? 2 ^ w)
  | _ => false
  end.

(** json.Unmarshal(text, *T) for T an integer or bool kind: the canonical literal of an in-range
    value, or [null] (which leaves the zero value). *)
Definition json_dec (b : base) (s : string) : res gval :=
  if String.eqb s "null" then Ok (zero_of b) else
  match b with
  | BInt _ | BUint _ =>
      let (neg, digits) := match s with String "-" s' => (true, s') | _ => (false, s) end in
      match parse_N digits with
      | Some n => let z := if neg then - n else n in
                  (* strconv.ParseUint rejects a sign, also on "-0" *)
                  if String.eqb (print_Z n) digits && in_kind b z &&
                     negb (neg && match b with BUint _ => true | _ => false end) then Ok (GInt z) else Err
      | None => Err
      end
  | BBool => if String.eqb s "true" then Ok (GBool true)
             else if String.eqb s "false" then Ok (GBool false) else Err
  | _ => Err
  end.

(** * Valuer.Value *)
Definition plain (b : base) (g : gval) : dval :=
  match g with
  | GBool x => DBool x
  | GInt z => match b with BUint _ => DInt (wrap_s 64 z) | _ => DInt z end
  | GFloat f => DFloat f
  | GStr s => DStr s
  | GBytes (Some s) => DBytes s
  | GBytes None => DNull
  | GTime t => DTime t
  | GCust _ => DOther
  end.

Definition valuer (d : desc) (x : dyn) : dval :=
  match x with
  | DynNil => DNull
  | Dyn b ptr FNil => DNull
  | Dyn b ptr (FVal g) =>
      match b, g with
      | BBytes, GBytes None => if ptr then DBytes "" else DNull   (* a non-nil pointer to a nil slice passes []byte(nil) on *)
      | _, GBytes None => DNull
      | _, _ =>
        match b, g with
        | BCustom CValuer, GCust s => DBytes s
        | BCustom CUuid, GCust s => DBytes s
        | BCustom CNull, GBytes (Some s) => DStr s
        | BCustom CTri, GInt z => if Z.eqb z 2 then DNull else DInt z
        | _, _ =>
          match d_tag d with
          | TBinary => match b, g with BCustom CBin, GCust s => DBytes (enc_bin s) | _, _ => plain b g end
          | TString => match b, g with BCustom CText, GCust s => DBytes (enc_text s) | _, _ => plain b g end
          | TJson => json_enc g
          | TImplicitNull => if negb ptr && is_zero g then DNull else plain b g
          | TNone => plain b g
          end
        end
      end
  end.

(** * What MySQL, the binlog decoder or the protobuf hand to Scanner.Scan *)
Inductive src : Type :=
| SNull
| SInt (w : Z) (z : Z)      (* int8/int16/int32/int64 holding z *)
| SUint64 (z : Z)
| SF64 (f : Z) | SF32 (f : Z)
| SBool (b : bool)
| SBytes (s : string) | SStr (s : string)
| STime (t : Z).

(** strconv.ParseBool *)
Definition parse_bool (s : string) : res bool :=
  if existsb (String.eqb s) ["1"; "t"; "T"; "TRUE"; "true"; "True"] then Ok true
  else if existsb (String.eqb s) ["0"; "f"; "F"; "FALSE"; "false"; "False"] then Ok false
  else Err.

(** sql.NullInt64.Scan on a non-nil source (convertAssign into *int64). *)
Definition scan_int64 (e : env) (s : src) : res Z :=
  match s with
  | SInt _ z => Ok z
  | SUint64 z => if z <=? max_int64 then Ok z else Err
  | SBytes x | SStr x => parse_int64 x
  | SF64 f => parse_int64 (fmt64 e f)
  | SF32 f => parse_int64 (fmt32 e f)
  | SBool _ | STime _ | SNull => Err
  end.

(** sql.NullFloat64.Scan *)
Definition scan_float (e : env) (s : src) : res Z :=
  match s with
  | SF64 f => Ok f
  | SF32 f => of_opt (parsef e (fmt32 e f))
  | SInt _ z | SUint64 z => of_opt (parsef e (print_Z z))
  | SBytes x | SStr x => of_opt (parsef e x)
  | SBool _ | STime _ | SNull => Err
  end.

(** sql.NullBool.Scan (driver.Bool.ConvertValue) *)
Definition scan_bool (s : src) : res bool :=
  match s with
  | SBool b => Ok b
  | SBytes x | SStr x => parse_bool x
  | SInt _ z | SUint64 z => if Z.eqb z 1 then Ok true else if Z.eqb z 0 then Ok false else Err
  | _ => Err
  end.

(** sql.NullString.Scan *)
Definition scan_string (e : env) (s : src) : res string :=
  match s with
  | SStr x | SBytes x => Ok x
  | STime t => Ok (fmt_rfc e t)
  | SInt _ z | SUint64 z => Ok (print_Z z)
  | SF64 f => Ok (fmt64 e f)
  | SF32 f => Ok (fmt32 e f)
  | SBool b => Ok (if b then "true" else "false")
  | SNull => Err
  end.

(** Repair C13-fix-1 (F24): the binlog decoder hands back the signed integer of the column's width also
    for UNSIGNED columns; an unsigned target reinterprets int8/int16/int32 sources at their own width. *)
Definition unsigned_at_own_width (b : base) (s : src) : src :=
  match b, s with
  | BUint _, SInt w z => if w <? 64 then SInt 64 (wrap_u w z) else s
  | _, _ => s
  end.

(** The final [switch s.Kind] of Scanner.Scan; [fix24 = false] is the code before C13-fix-1. *)
Definition kind_scan_gen (fix24 : bool) (e : env) (b : base) (s : src) : res gval :=
  match b with
  | BBool => rbind (scan_bool s) (fun x => Ok (GBool x))
  | BInt w => rbind (scan_int64 e s) (fun z => Ok (GInt (wrap_s w z)))
  | BUint w => rbind (scan_int64 e (if fix24 then unsigned_at_own_width b s else s)) (fun z => Ok (GInt (wrap_u w z)))
  | BF64 => rbind (scan_float e s) (fun f => Ok (GFloat f))
  | BF32 => rbind (scan_float e s) (fun f => Ok (GFloat (round32 e f)))
  | BStr => rbind (scan_string e s) (fun x => Ok (GStr x))
  | BBytes | BTime | BCustom _ => Err
  end.

Definition kind_scan := kind_scan_gen true.

(** Scan of the tri-state type on a non-nil source: the integers 0 and 1 in the forms an integer column
    hands back. *)
Definition scan_tri (s : src) : res Z :=
  match s with
  | SInt _ z => if Z.eqb z 0 || Z.eqb z 1 then Ok z else Err
  | SBytes x | SStr x => if String.eqb x "0" then Ok 0 else if String.eqb x "1" then Ok 1 else Err
  | _ => Err
  end.

Definition as_bytes (s : src) : option string :=
  match s with SBytes x | SStr x => Some x | _ => None end.

(** Scanner.Scan on a non-nil source for a type that is not a sql.Scanner. *)
Definition scan_valid_gen (fix24 : bool) (e : env) (d : desc) (s : src) : res gval :=
  let kind_scan := kind_scan_gen fix24 in
  match d_base d with
  | BBytes => match as_bytes s with Some x => Ok (GBytes (Some x)) | None => Err end
  | BTime =>
      match s with
      | STime t => Ok (GTime t)
      | SBytes x | SStr x => rbind (of_opt (parse_t e x)) (fun t => Ok (GTime t))
      | _ => Err
      end
  | b =>
      match d_tag d with
      | TBinary =>
          match s with
          | SBytes x =>
              match b with
              | BCustom CBin => rbind (dec_bin x) (fun p => Ok (GCust p))
              | _ => kind_scan e b s
              end
          | _ => Err
          end
      | TString =>
          match as_bytes s with
          | Some x =>
              match b with
              | BCustom CText => rbind (dec_text x) (fun p => Ok (GCust p))
              | _ => kind_scan e b (SBytes x)
              end
          | None => Err
          end
      | TJson =>
          match as_bytes s with
          | Some x => json_dec b x
          | None => Err
          end
      | TNone | TImplicitNull => kind_scan e b s
      end
  end.

Definition scan_valid := scan_valid_gen true.

(** Scanner.Scan into a fresh (zero) field of descriptor [d]. *)
Definition scanner_gen (fix24 : bool) (e : env) (d : desc) (s : src) : res fval :=
  match d_base d with
  | BCustom CValuer =>
      match s with
      | SNull => Ok (if d_ptr d then FNil else FVal (GCust ""))
      | SStr x | SBytes x => Ok (FVal (GCust x))
      | _ => Err
      end
  | BCustom CUuid =>
      match s with
      | SNull => Ok (if d_ptr d then FNil else FVal (GCust zero16))
      | SStr x | SBytes x => Ok (FVal (GCust (fit16 x)))
      | _ => Err
      end
  | BCustom CNull =>
      match s with
      | SNull => Ok (if d_ptr d then FNil else FVal (GBytes None))
      | _ => rbind (scan_string e s) (fun x => Ok (FVal (GBytes (Some x))))
      end
  | BCustom CTri =>
      (* Scanner.Scan hands NULL to a non-pointer sql.Scanner: its Scan decides what NULL means *)
      match s with
      | SNull => Ok (if d_ptr d then FNil else FVal (GInt 2))
      | _ => rbind (scan_tri s) (fun z => Ok (FVal (GInt z)))
      end
  | b =>
      match s with
      | SNull => Ok (if d_ptr d then FNil else FVal (zero_of b))
      | _ => rbind (scan_valid_gen fix24 e d s) (fun g => Ok (FVal g))
      end
  end.

Definition scanner := scanner_gen true.

(** * Tables, rows *)
Definition table := list (string * desc).

Definition dyn_of (d : desc) (v : fval) : dyn := Dyn (d_base d) (d_ptr d) v.

(** Table.unbuildStruct *)
Fixpoint unbuild (t : table) (x : list fval) : list dval :=
  match t, x with
  | (_, d) :: t', v :: x' => valuer d (dyn_of d v) :: unbuild t' x'
  | _, _ => []
  end.

Fixpoint scan_all (e : env) (t : table) (row : list src) : res (list fval) :=
  match t, row with
  | [], _ => Ok []
  | (_, d) :: t', s :: row' =>
      rbind (scanner e d s) (fun v => rbind (scan_all e t' row') (fun vs => Ok (v :: vs)))
  | _ :: _, [] => Err
  end.

(** Schema.BuildStruct *)
Definition build (e : env) (t : table) (row : list src) : res (list fval) :=
  if Nat.eqb (List.length row) (List.length t) then scan_all e t row else Err.

Definition zero_field (d : desc) : fval := if d_ptr d then FNil else FVal (zero_of (d_base d)).

Fixpoint parse_cols (e : env) (t : table) (source : list Z) (row : list src) : res (list fval) :=
  match t, source with
  | [], _ => Ok []
  | (_, d) :: t', j :: source' =>
      rbind (if Z.eqb j (-1) then Ok (zero_field d)
             else match nth_error row (Z.to_nat j) with
                  | Some s => scanner e d s
                  | None => Err      (* the Go code would index out of range; never reached: j < expected *)
                  end)
            (fun v => rbind (parse_cols e t' source' row) (fun vs => Ok (v :: vs)))
  | _ :: _, [] => Err
  end.

(** livesql.parseBinlogRow with columnMap{expectedColumns, source}. *)
Definition parse_binlog_row (e : env) (t : table) (expected : Z) (source : list Z) (row : list src)
  : res (list fval) :=
  if Z.eqb (Z.of_nat (List.length row)) expected then parse_cols e t source row else Err.

(** buildColumnMap: position of each struct column in MySQL's column list, -1 when absent. *)
Fixpoint index_of (n : string) (cols : list string) (i : Z) : Z :=
  match cols with
  | [] => -1
  | c :: cols' => if String.eqb n c then i else index_of n cols' (i + 1)
  end.

(** Go builds a map name -> index, so the last occurrence wins; MySQL column names are unique. *)
Definition column_map (t : table) (mysql_cols : list string) : Z * list Z :=
  (Z.of_nat (List.length mysql_cols), map (fun nd => index_of (fst nd) mysql_cols 0) t).

(** * Tester *)
Definition dval_eqb (a b : dval) : bool :=      (* driverValuesEqual *)
  match a, b with
  | DNull, DNull => true
  | DInt x, DInt y => Z.eqb x y
  | DFloat x, DFloat y => Z.eqb x y
  | DBool x, DBool y => Bool.eqb x y
  | DBytes x, DBytes y => String.eqb x y
  | DStr x, DStr y => String.eqb x y
  | DTime x, DTime y => Z.eqb x y
  | _, _ => false
  end.

Fixpoint col_lookup (n : string) (t : table) (x : list fval) : option (desc * fval) :=
  match t, x with
  | (m, d) :: t', v :: x' => if String.eqb n m then Some (d, v) else col_lookup n t' x'
  | _, _ => None
  end.

Fixpoint find_col (n : string) (t : table) : option desc :=
  match t with
  | [] => None
  | (m, d) :: t' => if String.eqb n m then Some d else find_col n t'
  end.

Definition filter := list (string * dyn).

(** Schema.MakeTester fails on an unknown column. *)
Definition filter_known (t : table) (f : filter) : bool :=
  forallb (fun nv => match find_col (fst nv) t with Some _ => true | None => false end) f.

(** tester.Test on a non-nil row of the table's struct type. *)
Definition test_row (t : table) (f : filter) (x : list fval) : bool :=
  forallb (fun nv =>
             match col_lookup (fst nv) t x with
             | Some (d, v) => dval_eqb (valuer d (snd nv)) (valuer d (dyn_of d v))
             | None => false
             end) f.

Definition tester (t : table) (f : filter) (row : option (list fval)) : bool :=
  match row with None => false | Some x => test_row t f x end.

(** Table.extractRow *)
Fixpoint extract_row (t : table) (x : list fval) : filter :=
  match t, x with
  | (n, d) :: t', v :: x' => (n, dyn_of d v) :: extract_row t' x'
  | _, _ => []
  end.

(** * Protobuf form of a filter (thunderpb.Field) *)
Inductive pfield : Type :=
| PNull | PBool (b : bool) | PInt (z : Z) | PUint (z : Z) | PStr (s : string) | PBytes (s : string)
| PFloat (f : Z) | PTime (t : Z).

Definition value_to_field (v : dval) : res pfield :=
  match v with
  | DNull => Ok PNull | DInt z => Ok (PInt z) | DFloat f => Ok (PFloat f) | DBool b => Ok (PBool b)
  | DBytes s => Ok (PBytes s) | DStr s => Ok (PStr s) | DTime t => Ok (PTime t)
  | DOther => Err
  end.

Definition field_to_value (p : pfield) : src :=
  match p with
  | PNull => SNull | PBool b => SBool b | PInt z => SInt 64 z | PUint z => SUint64 z
  | PStr s => SStr s | PBytes s => SBytes s | PFloat f => SF64 f | PTime t => STime t
  end.

Fixpoint filter_to_proto (t : table) (f : filter) : res (list (string * pfield)) :=
  match f with
  | [] => Ok []
  | (n, v) :: f' =>
      match find_col n t with
      | None => Err
      | Some d => rbind (value_to_field (valuer d v))
                        (fun p => rbind (filter_to_proto t f') (fun ps => Ok ((n, p) :: ps)))
      end
  end.

Fixpoint filter_from_proto (e : env) (t : table) (p : list (string * pfield)) : res filter :=
  match p with
  | [] => Ok []
  | (n, fld) :: p' =>
      match find_col n t with
      | None => Err
      | Some d =>
          let s := field_to_value fld in
          match s, d_ptr d with
          | SNull, false => Err
          | _, _ => rbind (scanner e d s)
                          (fun v => rbind (filter_from_proto e t p') (fun f => Ok ((n, dyn_of d v) :: f)))
          end
      end
  end.

(** * C13-fix-5 (proposed): Valuer.Value first dereferences a non-nil pointer handed in for a column whose
    type is not a pointer (a filter value such as Filter{"id": &id}), so that it is serialized exactly
    like the column's own values: a pointer to a nil slice is NULL, a pointer to a zero value on an
    implicitnull column is an implicit NULL.  In the model a filter value [Dyn b true (FVal g)] for a
    non-pointer column becomes [Dyn b false (FVal g)] before anything else looks at it. *)
Definition norm_dyn (d : desc) (x : dyn) : dyn :=
  match x with
  | Dyn b true (FVal g) => if d_ptr d then x else Dyn b false (FVal g)
  | _ => x
  end.

Definition valuer5 (d : desc) (x : dyn) : dval := valuer d (norm_dyn d x).

Definition norm_filter (t : table) (f : filter) : filter :=
  map (fun nv => match find_col (fst nv) t with
                 | Some d => (fst nv, norm_dyn d (snd nv))
                 | None => nv
                 end) f.

(** tester / FilterToProto of the repaired code *)
Definition tester5 (t : table) (f : filter) (row : option (list fval)) : bool := tester t (norm_filter t f) row.
Definition filter_to_proto5 (t : table) (f : filter) : res (list (string * pfield)) := filter_to_proto t (norm_filter t f).

(** * Representations: what MySQL can hand back for a stored driver value

    [col] is the MySQL column a field is stored in; [proto] which path the value takes back. *)
Inductive sqlcol : Type :=
| ColInt (w : Z) (unsigned : bool)     (* TINYINT 8 / SMALLINT 16 / MEDIUMINT 24 / INT 32 / BIGINT 64 *)
| ColFloat | ColDouble
| ColVarchar                           (* VARCHAR / CHAR / VARBINARY: binlog hands back a string *)
| ColBlob                              (* BLOB / TEXT: binlog hands back []byte *)
| ColDatetime (micro : bool).          (* DATETIME(6) / DATETIME *)

Inductive path : Type :=
| PText      (* text protocol: everything is []byte *)
| PBinary    (* prepared statements: int64, float32/float64, []byte, time.Time (parseTime) *)
| PBinlog    (* go-mysql row event decoding *)
| PProto.    (* the driver value itself: thunderpb.Field (FieldToValue (valueToField v)), or a driver that
                hands values back unconverted; the column does not matter *)

(** FieldToValue (valueToField v) *)
Definition proto_src (v : dval) : option src :=
  match v with
  | DNull => Some SNull | DInt z => Some (SInt 64 z) | DFloat f => Some (SF64 f) | DBool b => Some (SBool b)
  | DBytes s => Some (SBytes s) | DStr s => Some (SStr s) | DTime t => Some (STime t) | DOther => None
  end.

(** The value MySQL stores, or None when the column cannot hold the driver value. *)
Definition storable (c : sqlcol) (v : dval) : bool :=
  match v, c with
  | DNull, _ => true
  | DInt z, ColInt w u => if u then (0 <=? z) && (z <? 2 ^ w) else (- 2 ^ (w - 1) <=? z) && (z <? 2 ^ (w - 1))
  | DBool _, ColInt _ _ => true
  | DInt _, (ColVarchar | ColBlob) => true
  | DFloat _, (ColFloat | ColDouble) => true
  | (DStr _ | DBytes _), (ColVarchar | ColBlob) => true
  | DTime t, ColDatetime _ => text_range t    (* DATETIME holds the years 0000 .. 9999 *)
  | _, _ => false
  end.

(** MySQL's text protocol prints a FLOAT column with 6 significant digits; the text gives the stored
    float32 back exactly for some values only. *)
Definition exact6 (e : env) (f : Z) : bool :=
  match parsef e (fmt6 e f) with Some f' => Z.eqb (round32 e f') f | None => false end.

Definition repr (e : env) (c : sqlcol) (p : path) (v : dval) : option src :=
  match p with PProto => proto_src v | _ =>
  if negb (storable c v) then None else
  match v with
  | DNull => Some SNull
  | DOther => None
  | DInt z =>
      match c with
      | ColInt w u =>
          match p with
          | PText => Some (SBytes (print_Z z))
          | PBinlog => Some (SInt (if Z.eqb w 24 then 32 else w) (wrap_s w z))   (* MEDIUMINT: int32, sign-extended from 24 bits *)
          | _ => Some (SInt 64 z)
          end
      | ColVarchar => Some (match p with PBinlog => SStr (print_Z z) | _ => SBytes (print_Z z) end)
      | ColBlob => Some (SBytes (print_Z z))
      | _ => None
      end
  | DBool b =>
      let z := if b then 1 else 0 in
      match c with
      | ColInt w _ =>
          match p with
          | PText => Some (SBytes (print_Z z))
          | PBinlog => Some (SInt (if Z.eqb w 24 then 32 else w) z)
          | _ => Some (SInt 64 z)
          end
      | _ => None
      end
  | DFloat f =>
      match c, p with
      | ColDouble, PText => Some (SBytes (fmt64 e f))
      | ColDouble, _ => Some (SF64 f)
      | ColFloat, PText => if exact6 e f then Some (SBytes (fmt6 e f)) else None   (* 6 significant digits: faithful only when they determine the float32 *)
      | ColFloat, _ => if Z.eqb (round32 e f) f then Some (SF32 f) else None
      | _, _ => None
      end
  | DStr s | DBytes s =>
      match c, p with
      | ColVarchar, PBinlog => Some (SStr s)
      | (ColVarchar | ColBlob), _ => Some (SBytes s)
      | _, _ => None
      end
  | DTime t =>
      match c, p with
      | ColDatetime true, PBinary => if Z.eqb (t mod 1000) 0 then Some (STime t) else None
      | ColDatetime true, PText => if Z.eqb (t mod 1000) 0 then Some (SBytes (fmt_us e t)) else None
      | ColDatetime false, PBinary => if Z.eqb (t mod 1000000000) 0 then Some (STime t) else None
      | ColDatetime false, PText => if Z.eqb (t mod 1000000000) 0 then Some (SBytes (fmt_sec e t)) else None
      | ColDatetime _, PBinlog => if Z.eqb (t mod 1000000000) 0 then Some (SStr (fmt_sec e t)) else None
      | _, _ => None
      end
  end end.

(** * Environment from tables (correspondence runs) *)
Fixpoint zlookup {A} (k : Z) (l : list (Z * A)) : option A :=
  match l with
  | [] => None
  | (k', v) :: t => if Z.eqb k k' then Some v else zlookup k t
  end.

Fixpoint slookup {A} (k : string) (l : list (string * A)) : option A :=
  match l with
  | [] => None
  | (k', v) :: t => if String.eqb k k' then Some v else slookup k t
  end.

Record ftab_entry := mk_f { f_t64 : string; f_t32 : string; f_t6 : string; f_r32 : Z }.
Record ttab_entry := mk_t { t_sec : string; t_us : string; t_rfc : string }.

Definition env_of_tables (ft : list (Z * ftab_entry)) (pf : list (string * option Z))
                         (tt : list (Z * ttab_entry)) (pt : list (string * option Z)) : env :=
  mk_env
    (fun f => match zlookup f ft with Some x => f_t64 x | None => "?" end)
    (fun f => match zlookup f ft with Some x => f_t32 x | None => "?" end)
    (fun f => match zlookup f ft with Some x => f_t6 x | None => "?" end)
    (fun s => match slookup s pf with Some o => o | None => None end)
    (fun f => match zlookup f ft with Some x => f_r32 x | None => f end)
    (fun t => match zlookup t tt with Some x => t_sec x | None => "?" end)
    (fun t => match zlookup t tt with Some x => t_us x | None => "?" end)
    (fun t => match zlookup t tt with Some x => t_rfc x | None => "?" end)
    (fun s => match slookup s pt with Some o => o | None => None end).

(** bytes that are awkward inside a Coq string literal *)
Fixpoint bytes_of (l : list nat) : string :=
  match l with [] => EmptyString | n :: t => String (ascii_of_nat n) (bytes_of t) end.

(** * Correspondence cases *)
Definition gval_eqb (a b : gval) : bool :=
  match a, b with
  | GInt x, GInt y | GFloat x, GFloat y | GTime x, GTime y => Z.eqb x y
  | GBool x, GBool y => Bool.eqb x y
  | GStr x, GStr y | GCust x, GCust y => String.eqb x y
  | GBytes None, GBytes None => true
  | GBytes (Some x), GBytes (Some y) => String.eqb x y
  | _, _ => false
  end.

Definition fval_eqb (a b : fval) : bool :=
  match a, b with FNil, FNil => true | FVal x, FVal y => gval_eqb x y | _, _ => false end.

Fixpoint list_eqb {A} (eqb : A -> A -> bool) (a b : list A) : bool :=
  match a, b with
  | [], [] => true
  | x :: a', y :: b' => eqb x y && list_eqb eqb a' b'
  | _, _ => false
  end.

Definition res_eqb {A} (eqb : A -> A -> bool) (a b : res A) : bool :=
  match a, b with Ok x, Ok y => eqb x y | Err, Err => true | _, _ => false end.

Definition src_eqb (a b : src) : bool :=
  match a, b with
  | SNull, SNull => true
  | SInt w x, SInt w' y => Z.eqb w w' && Z.eqb x y
  | SUint64 x, SUint64 y | SF64 x, SF64 y | SF32 x, SF32 y | STime x, STime y => Z.eqb x y
  | SBool x, SBool y => Bool.eqb x y
  | SBytes x, SBytes y | SStr x, SStr y => String.eqb x y
  | _, _ => false
  end.

Definition pfield_eqb (a b : pfield) : bool :=
  match a, b with
  | PNull, PNull => true
  | PBool x, PBool y => Bool.eqb x y
  | PInt x, PInt y | PUint x, PUint y | PFloat x, PFloat y | PTime x, PTime y => Z.eqb x y
  | PStr x, PStr y | PBytes x, PBytes y => String.eqb x y
  | _, _ => false
  end.

Definition dyn_eqb (a b : dyn) : bool :=
  match a, b with
  | DynNil, DynNil => true
  | Dyn b1 p1 v1, Dyn b2 p2 v2 => base_eqb b1 b2 && Bool.eqb p1 p2 && fval_eqb v1 v2
  | _, _ => false
  end.

Definition named_eqb {A} (eqb : A -> A -> bool) (a b : string * A) : bool :=
  String.eqb (fst a) (fst b) && eqb (snd a) (snd b).

(** One row handed to BuildStruct / parseBinlogRow, with how the harness made it and what came back. *)
Record rowobs := mk_rowobs {
  ro_cols : list (option (sqlcol * path));  (* per column: how the source was derived from the driver value; None = hand-made source *)
  ro_row : list src;
  ro_built : res (list fval);               (* BuildStruct *)
  ro_expected : Z; ro_source : list Z;      (* column map (identity for BuildStruct-only rows) *)
  ro_binlog_row : list src;                 (* the row in MySQL column order *)
  ro_parsed : res (list fval)               (* parseBinlogRow *)
}.

Record filterobs := mk_filterobs {
  fo_filter : filter;
  fo_known : bool;                          (* MakeTester succeeded *)
  fo_rows : list (list fval * bool);        (* rows and tester verdicts *)
  fo_proto : res (list (string * pfield));  (* FilterToProto then Marshal/Unmarshal *)
  fo_back : res filter                      (* FilterFromProto *)
}.

Record case := mk_case {
  c_table : table;
  c_value : list fval;
  c_unbuilt : list dval;
  c_rows : list rowobs;
  c_extract : filter;
  c_self : bool;                            (* MakeTester(extractRow x).Test(x) *)
  c_filters : list filterobs
}.

Close Scope Z_scope.

Definition opt_src_ok (e : env) (v : dval) (how : option (sqlcol * path)) (s : src) : bool :=
  match how with
  | None => true
  | Some (c, p) => match repr e c p v with Some s' => src_eqb s s' | None => false end
  end.

Fixpoint all3 {A B C} (f : A -> B -> C -> bool) (a : list A) (b : list B) (c : list C) : bool :=
  match a, b, c with
  | [], [], [] => true
  | x :: a', y :: b', z :: c' => f x y z && all3 f a' b' c'
  | _, _, _ => false
  end.

Definition check_row (e : env) (t : table) (dv : list dval) (r : rowobs) : list nat :=
  (if all3 (opt_src_ok e) dv (ro_cols r) (ro_row r) then [] else [7]) ++
  (if res_eqb (list_eqb fval_eqb) (build e t (ro_row r)) (ro_built r) then [] else [2]) ++
  (if res_eqb (list_eqb fval_eqb) (parse_binlog_row e t (ro_expected r) (ro_source r) (ro_binlog_row r)) (ro_parsed r)
   then [] else [3]).

(** [fix5]: whether the code under test has C13-fix-5 (probed by the harness on one value). *)
Definition check_filter_gen (fix5 : bool) (e : env) (t : table) (f : filterobs) : list nat :=
  let flt := if fix5 then norm_filter t (fo_filter f) else fo_filter f in
  (if Bool.eqb (filter_known t (fo_filter f)) (fo_known f) then [] else [4]) ++
  (if fo_known f then
     (if forallb (fun rv => Bool.eqb (tester t flt (Some (fst rv))) (snd rv)) (fo_rows f) then [] else [4]) ++
     (if res_eqb (list_eqb (named_eqb pfield_eqb)) (filter_to_proto t flt) (fo_proto f) then [] else [5]) ++
     (match fo_proto f with
      | Ok p => if res_eqb (list_eqb (named_eqb dyn_eqb)) (filter_from_proto e t p) (fo_back f) then [] else [6]
      | Err => []
      end)
   else []).

Definition check_filter := check_filter_gen false.

Definition check_case_gen (fix5 : bool) (e : env) (c : case) : list nat :=
  let dv := unbuild (c_table c) (c_value c) in
  (if list_eqb dval_eqb dv (c_unbuilt c) then [] else [1]) ++
  flat_map (check_row e (c_table c) (c_unbuilt c)) (c_rows c) ++
  (if list_eqb (named_eqb dyn_eqb) (extract_row (c_table c) (c_value c)) (c_extract c) then [] else [8]) ++
  (if Bool.eqb (tester (c_table c) (c_extract c) (Some (c_value c))) (c_self c) then [] else [8]) ++
  flat_map (check_filter_gen fix5 e (c_table c)) (c_filters c).

Definition check_case := check_case_gen false.

Fixpoint mismatches_sparse_gen (fix5 : bool) (e : env) (cs : list (nat * case)) : list (nat * list nat) :=
  match cs with
  | [] => []
  | (i, c) :: t => match check_case_gen fix5 e c with
                   | [] => mismatches_sparse_gen fix5 e t
                   | l => (i, l) :: mismatches_sparse_gen fix5 e t
                   end
  end.

Definition mismatches_sparse := mismatches_sparse_gen false.

(** * Domain of the round-trip theorems (decidable; evaluated by the theorems' hypotheses) *)
Open Scope Z_scope.

Definition width_ok (w : Z) : bool := Z.eqb w 8 || Z.eqb w 16 || Z.eqb w 32 || Z.eqb w 64.

Definition colwidth_ok (w : Z) : bool := width_ok w || Z.eqb w 24.

Definition tag_eqb (a b : tag) : bool :=
  match a, b with
  | TNone, TNone | TBinary, TBinary | TString, TString | TJson, TJson | TImplicitNull, TImplicitNull => true
  | _, _ => false
  end.

(** Descriptors sqlgen registers (ValidateSQLType accepts) and the model covers. *)
Definition desc_ok (d : desc) : bool :=
  (match d_base d, d_tag d with
   | BCustom CBin, TBinary | BCustom CText, TString => true
   | BCustom (CValuer | CNull | CUuid | CTri), _ => true   (* a type that is its own driver.Valuer / sql.Scanner: both
                                                             interfaces come before the tags, any tag may sit on it *)
   | BCustom _, _ => false
   | BBytes, (TNone | TBinary | TImplicitNull) => true
   | BBytes, _ => false
   | BTime, (TNone | TImplicitNull) => true
   | BTime, _ => false
   | BStr, (TNone | TString | TImplicitNull) => true
   | BStr, _ => false
   | (BInt w | BUint w), (TNone | TJson | TImplicitNull) => width_ok w
   | (BInt _ | BUint _), _ => false
   | BBool, (TNone | TJson | TImplicitNull) => true
   | BBool, _ => false
   | (BF32 | BF64), (TNone | TImplicitNull) => true
   | (BF32 | BF64), _ => false
   end) && (if tag_eqb (d_tag d) TImplicitNull then negb (d_ptr d) else true).

(** A Go value of the base type: integers within the kind's range, float32 values representable. *)
Definition gval_ok (e : env) (b : base) (g : gval) : bool :=
  match b, g with
  | (BInt _ | BUint _), GInt z => in_kind b z
  | BF32, GFloat f => Z.eqb (round32 e f) f
  | BCustom CNull, GBytes _ => true
  | BCustom CNull, _ => false
  | BCustom CUuid, GCust s => Nat.eqb (String.length s) 16
  | BCustom CTri, GInt z => (0 <=? z) && (z <=? 2)
  | BCustom CTri, _ => false
  | BF64, GFloat _ | BBool, GBool _ | BStr, GStr _ | BTime, GTime _ | BCustom _, GCust _ | BBytes, GBytes _ => true
  | _, _ => false
  end.

Definition fval_ok (e : env) (d : desc) (x : fval) : bool :=
  match x with
  | FNil => d_ptr d
  | FVal g =>
      gval_ok e (d_base d) g &&
      (* a non-nil *[]byte pointing at a nil slice comes back pointing at an empty one, a non-nil
         *sql.NullString that is not Valid comes back as a nil pointer *)
      negb (d_ptr d && match d_base d, g with
                       | (BBytes | BCustom CNull), GBytes None => true
                       | BCustom CTri, GInt z => Z.eqb z 2     (* a non-nil pointer to "unanswered" is written as NULL *)
                       | _, _ => false
                       end)
  end.

(** Column types a field may be stored in.  An integer column has the field's signedness; a FLOAT
    column holds float32 fields only; a binary-tagged Marshal type does not live in a VARBINARY column
    as far as the binlog path is concerned (the decoder returns a string, Scanner.Scan wants []byte). *)
Definition col_matches (d : desc) (c : sqlcol) (p : path) : bool :=
  match p with
  | PProto => true
  | _ =>
      match c with
      | ColInt w u =>
          colwidth_ok w &&
          (* MEDIUMINT UNSIGNED comes back from the binlog decoder as an int32 sign-extended from 24 bits:
             values from 2^23 cannot be told from negative ones without the column's metadata *)
          negb (u && Z.eqb w 24 && match p with PBinlog => true | _ => false end) &&
          match d_base d with BInt _ | BCustom CTri => negb u | BUint _ => u | BBool => true | _ => false end
      | ColFloat => match d_base d with BF32 => true | _ => false end
      | ColVarchar =>
          match d_base d, p with BCustom CBin, PBinlog => false | _, _ => true end
      | _ => true
      end
  end.

Close Scope Z_scope.
