(** Proofs about the second live-SQL transition system (C07): Sql/LiveTx.v. *)
From Coq Require Import List ZArith String Bool Lia Arith.
From Thunder Require Import Sql.Codec Sql.CodecProofs Sql.Live Sql.LiveProofs Sql.LiveTx.
Import ListNotations.
Open Scope list_scope.

(** * Small facts *)
Lemma nlookup_cons k k' v l : nlookup k ((k', v) :: l) = if String.eqb k k' then Some v else nlookup k l.
Proof. reflexivity. Qed.

Lemma nlookup_filter k tbl l :
  nlookup k (List.filter (fun kv : string * nat => negb (String.eqb (fst kv) tbl)) l) =
  if String.eqb k tbl then None else nlookup k l.
Proof.
  induction l as [|[k' v] l IH]; cbn [List.filter nlookup fst].
  - destruct (String.eqb k tbl); reflexivity.
  - destruct (String.eqb_spec k' tbl) as [->|Hne]; cbn [negb].
    + rewrite IH. destruct (String.eqb_spec k tbl) as [->|Hk]; [reflexivity|].
      destruct (String.eqb_spec k tbl); [contradiction|reflexivity].
    + cbn [nlookup]. rewrite IH. destruct (String.eqb_spec k k') as [->|Hk].
      * destruct (String.eqb_spec k' tbl); [contradiction|reflexivity].
      * reflexivity.
Qed.

Lemma nth_error_app_l {A} (l l' : list A) i x : nth_error l i = Some x -> nth_error (l ++ l') i = Some x.
Proof. intros H. rewrite nth_error_app1; [exact H|]. apply nth_error_Some. congruence. Qed.

Lemma firstn_snoc' {A} (l : list A) : forall k x, nth_error l k = Some x -> firstn (S k) l = firstn k l ++ [x].
Proof.
  induction l as [|y l IH]; intros [|k] x H; try discriminate; cbn in *.
  - inversion H; reflexivity.
  - rewrite (IH k x H). reflexivity.
Qed.

Section Tx.
  Variable schema : string -> table.
  Variable layout : string -> nat -> list string.

  Lemma tdb_at_S s k it : nth_error (t_stream s) k = Some it ->
    tdb_at s (S k) = fold_left apply_delta (item_deltas it) (tdb_at s k).
  Proof.
    intros H. unfold tdb_at. rewrite (firstn_snoc' _ _ _ H), flat_map_app, fold_left_app.
    cbn [flat_map]. rewrite app_nil_r. reflexivity.
  Qed.

  Lemma tdb_at_app s extra k : k <= List.length (t_stream s) ->
    tdb_at (mk_tstate (t_init s) (t_stream s ++ extra) (t_cur s) (t_polled s) (t_versions s) (t_cmaps s) (t_queue s) (t_queries s)) k
    = tdb_at s k.
  Proof.
    intros Hk. unfold tdb_at. cbn [t_stream t_init]. rewrite firstn_app.
    replace (k - List.length (t_stream s)) with 0 by lia. cbn [firstn]. rewrite app_nil_r. reflexivity.
  Qed.

  (** ** Row changes that match neither image leave a query's result alone *)
  Definition unaffected (q : qstate) (td : tdelta) : bool :=
    not_affected schema (q_table q) (q_filter q) (write_of td).

  Lemma tsel_apply_deltas q : forall tds d,
    forallb (unaffected q) tds = true -> tsel schema q (fold_left apply_delta tds d) = tsel schema q d.
  Proof.
    induction tds as [|td tds IH]; intros d H; [reflexivity|].
    cbn [forallb] in H. apply andb_prop in H as [H1 H2]. cbn [fold_left].
    rewrite IH by exact H2. unfold tsel, apply_delta. apply select_apply. exact H1.
  Qed.

  (** An update is sound for a rows event when it names the event's table and either reports an error
      or carries exactly the event's row changes. *)
  Definition sound_update (ev : bevent) (u : update) : Prop :=
    u_table u = be_table ev /\ (u_err u = true \/ (u_err u = false /\ u_deltas u = be_deltas ev)).

  Lemma sound_not_invalidated ev u q :
    sound_update ev u -> registered q = true -> invalidates schema q u = false ->
    forallb (unaffected q) (item_deltas (IRows ev)) = true.
  Proof.
    intros [Ht Hs] Hreg Hinv. destruct u as [ut ud ue]. cbn [u_table u_err u_deltas] in *. subst ut.
    cbn [item_deltas]. apply forallb_forall. intros td Hin.
    apply in_map_iff in Hin as (d & <- & Hd).
    unfold unaffected, not_affected, write_of. cbn [fst snd w_table w_before w_after].
    unfold invalidates, should_invalidate in Hinv. cbn [r_table r_filter u_table u_err u_deltas] in Hinv.
    destruct (String.eqb (q_table q) (be_table ev)) eqn:E; cbn [negb orb] in *; [|reflexivity].
    destruct Hs as [He | [He Hds]]; subst ue; [discriminate|]. subst ud.
    apply negb_true_iff. unfold tst.
    destruct (tester (schema (q_table q)) (q_filter q) (fst d) || tester (schema (q_table q)) (q_filter q) (snd d)) eqn:Ed;
      [|reflexivity].
    exfalso. rewrite (proj2 (existsb_exists _ _)) in Hinv; [discriminate|].
    exists d. split; [exact Hd|exact Ed].
  Qed.
End Tx.

(** * Invariants *)
Section Inv.
  Variable schema : string -> table.
  Variable layout : string -> nat -> list string.

  Definition entry_ok (it : item) (e : option update) : Prop :=
    match it, e with
    | IRows ev, Some u => sound_update ev u
    | IRows _, None => False
    | _, None => True
    | _, Some _ => False
    end.

  Definition tq_ok (s : tstate) (q : qstate) : Prop :=
    q_phase q = PDone -> q_invalid q = false ->
    q_read_at q <= List.length (t_stream s) /\
    q_held q = tsel schema q (tdb_at s (Nat.max (q_read_at q) (t_applied s))).

  (** Column-map cache: rows items not yet read were written under the table's current version; MySQL
      sends the table map right before a rows item; a cached column map belongs to the remembered table
      id; the table map just read is the remembered table id. *)
  Record cache_inv (s : tstate) : Prop := {
    ci_unpolled : forall i ev, t_polled s <= i -> nth_error (t_stream s) i = Some (IRows ev) ->
                               be_version ev = cur_version s (be_table ev);
    ci_map_first : forall i ev, nth_error (t_stream s) i = Some (IRows ev) ->
                                exists i', i = S i' /\ nth_error (t_stream s) i' = Some (IMap (be_table ev) (be_version ev));
    ci_cmap : forall tbl vc, nlookup tbl (t_cmaps s) = Some vc -> nlookup tbl (t_versions s) = Some vc;
    ci_last_map : forall p tbl id, t_polled s = S p -> nth_error (t_stream s) p = Some (IMap tbl id) ->
                                   nlookup tbl (t_versions s) = Some id
  }.

  Record tinv (s : tstate) : Prop := {
    ti_polled : t_polled s <= List.length (t_stream s);
    ti_queue : List.length (t_queue s) <= t_polled s;
    ti_entries : forall j e, nth_error (t_queue s) j = Some e ->
                             exists it, nth_error (t_stream s) (t_applied s + j) = Some it /\ entry_ok it e;
    ti_queries : Forall (tq_ok s) (t_queries s);
    ti_cache : cache_inv s
  }.

  Lemma emit_shape s tx : forall i ev,
    nth_error (flat_map (emit s) tx) i = Some (IRows ev) ->
    be_version ev = cur_version s (be_table ev) /\
    exists i', i = S i' /\ nth_error (flat_map (emit s) tx) i' = Some (IMap (be_table ev) (be_version ev)).
  Proof.
    induction tx as [|[[tbl ds] ok] tx IH]; intros i ev H; [destruct i; discriminate|].
    cbn [flat_map emit app] in *.
    destruct i as [|[|i]]; cbn [nth_error] in H.
    - discriminate.
    - inversion H; subst; clear H. cbn [be_version be_table]. split; [reflexivity|]. exists 0. split; reflexivity.
    - destruct (IH i ev H) as [Hv (i' & -> & Hm)]. split; [exact Hv|]. exists (S (S i')). split; [reflexivity|exact Hm].
  Qed.

  Lemma same_layout_refl tbl v : same_layout layout tbl v v = true.
  Proof.
    unfold same_layout. induction (layout tbl v) as [|c l IH]; [reflexivity|].
    cbn [list_eqb]. rewrite String.eqb_refl, IH. reflexivity.
  Qed.

  Lemma decode_sound v ev g : v = be_version ev -> sound_update ev (decode layout v ev g).
  Proof.
    intros ->. unfold decode. rewrite same_layout_refl. destruct (be_ok ev); split; cbn; auto.
  Qed.

  (** ** Steps that only touch the live queries *)
  Lemma tinv_queries s qs : tinv s -> Forall (tq_ok (with_queries s qs)) qs -> tinv (with_queries s qs).
  Proof.
    intros [H1 H2 H3 H4 [C1 C2 C3 C4]] Hq. constructor; try assumption. constructor; assumption.
  Qed.

  Lemma Forall_update_nth' {A} (P : A -> Prop) f : forall (l : list A) i,
    (forall x, P (f x)) -> Forall P l -> Forall P (update_nth i f l).
  Proof.
    induction l as [|x l IH]; intros [|i] Hf H; cbn; inversion H; subst; constructor; auto.
  Qed.

  Lemma tinv_register s i s' : tinv s -> tstep schema layout true s (TRegister i) = Some s' -> tinv s'.
  Proof.
    intros Hi Hs. cbn [tstep] in Hs.
    destruct (nth_error (t_queries s) i) as [q|]; [|discriminate].
    destruct (q_phase q); try discriminate. inversion Hs; subst; clear Hs.
    apply tinv_queries; [exact Hi|]. apply Forall_update_nth'.
    - intros x Hp. discriminate.
    - exact (ti_queries s Hi).
  Qed.

  Lemma tinv_rerun s i s' : tinv s -> tstep schema layout true s (TRerun i) = Some s' -> tinv s'.
  Proof.
    intros Hi Hs. cbn [tstep] in Hs.
    destruct (nth_error (t_queries s) i) as [q|]; [|discriminate].
    destruct (q_phase q); try discriminate; inversion Hs; subst; clear Hs;
      (apply tinv_queries; [exact Hi|]; apply Forall_update_nth';
       [intros x Hp; discriminate | exact (ti_queries s Hi)]).
  Qed.

  Lemma applied_le s : tinv s -> t_applied s <= List.length (t_stream s).
  Proof. intros Hi. unfold t_applied. pose proof (ti_polled s Hi). lia. Qed.

  Lemma tinv_read s i s' : tinv s -> tstep schema layout true s (TReadQ i) = Some s' -> tinv s'.
  Proof.
    intros Hi Hs. cbn [tstep] in Hs.
    destruct (nth_error (t_queries s) i) as [q|]; [|discriminate].
    destruct (q_phase q); try discriminate. inversion Hs; subst; clear Hs.
    apply tinv_queries; [exact Hi|]. apply Forall_update_nth'.
    - intros x _ _. cbn [q_read_at q_held]. split; [apply Nat.le_refl|].
      pose proof (applied_le s Hi) as Ha.
      change (t_applied (with_queries s _)) with (t_applied s).
      rewrite Nat.max_l by exact Ha. reflexivity.
    - exact (ti_queries s Hi).
  Qed.

  (** ** Appending to the binlog (a committed transaction, noise) *)
  Definition appended (s : tstate) (extra : list item) : tstate :=
    mk_tstate (t_init s) (t_stream s ++ extra) (t_cur s) (t_polled s) (t_versions s) (t_cmaps s) (t_queue s) (t_queries s).

  Lemma nth_error_app_cases {A} (l l' : list A) i x : nth_error (l ++ l') i = Some x ->
    (i < List.length l /\ nth_error l i = Some x) \/ (List.length l <= i /\ nth_error l' (i - List.length l) = Some x).
  Proof.
    intros H. destruct (Nat.lt_ge_cases i (List.length l)) as [Hl|Hg].
    - left. split; [exact Hl|]. rewrite nth_error_app1 in H by exact Hl. exact H.
    - right. split; [exact Hg|]. rewrite nth_error_app2 in H by exact Hg. exact H.
  Qed.

  Lemma tinv_append s extra :
    (forall i ev, nth_error extra i = Some (IRows ev) ->
       be_version ev = cur_version s (be_table ev) /\
       exists i', i = S i' /\ nth_error extra i' = Some (IMap (be_table ev) (be_version ev))) ->
    tinv s -> tinv (appended s extra).
  Proof.
    intros Hx Hi. pose proof (applied_le s Hi) as Ha. destruct Hi as [H1 H2 H3 H4 [C1 C2 C3 C4]].
    constructor; cbn [appended t_polled t_stream t_queue t_queries t_cur t_versions t_cmaps].
    - rewrite app_length. lia.
    - exact H2.
    - intros j e Hj. destruct (H3 j e Hj) as (it & Hn & He). exists it. split; [|exact He].
      change (t_applied (appended s extra)) with (t_applied s). apply nth_error_app_l. exact Hn.
    - eapply Forall_impl; [|exact H4]. intros q Hq Hp Hinv. destruct (Hq Hp Hinv) as [Hr Hh].
      split; [cbn [appended t_stream]; rewrite app_length; lia|].
      change (t_applied (appended s extra)) with (t_applied s).
      assert (Ha' : t_applied s <= List.length (t_stream s)) by (unfold t_applied; lia).
      unfold appended. rewrite (tdb_at_app layout) by (apply Nat.max_lub; assumption). exact Hh.
    - constructor; cbn [appended t_polled t_stream t_cur t_versions t_cmaps].
      + intros i ev Hp Hn. change (cur_version (appended s extra) (be_table ev)) with (cur_version s (be_table ev)).
        destruct (nth_error_app_cases _ _ _ _ Hn) as [[Hl Hn']|[Hg Hn']].
        * exact (C1 i ev Hp Hn').
        * exact (proj1 (Hx _ _ Hn')).
      + intros i ev Hn. destruct (nth_error_app_cases _ _ _ _ Hn) as [[Hl Hn']|[Hg Hn']].
        * destruct (C2 i ev Hn') as (i' & -> & Hm). exists i'. split; [reflexivity|]. apply nth_error_app_l. exact Hm.
        * destruct (Hx _ _ Hn') as [_ (k' & Hk & Hm)].
          exists (List.length (t_stream s) + k'). split; [lia|].
          rewrite nth_error_app2 by lia. replace (List.length (t_stream s) + k' - List.length (t_stream s)) with k' by lia.
          exact Hm.
      + exact C3.
      + intros p0 tbl id Hp Hn. apply (C4 p0 tbl id Hp).
        rewrite nth_error_app1 in Hn by lia. exact Hn.
  Qed.

  Lemma tinv_commit s tx s' : tinv s -> tstep schema layout true s (TCommit tx) = Some s' -> tinv s'.
  Proof.
    intros Hi Hs. cbn [tstep] in Hs. inversion Hs; subst; clear Hs.
    apply (tinv_append s (flat_map (emit s) tx)); [|exact Hi]. intros i ev H. apply emit_shape. exact H.
  Qed.

  Lemma tinv_noise s s' : tinv s -> tstep schema layout true s TNoise = Some s' -> tinv s'.
  Proof.
    intros Hi Hs. cbn [tstep] in Hs. inversion Hs; subst; clear Hs.
    apply (tinv_append s [INoise]); [|exact Hi]. intros [|[|i]] ev H; discriminate.
  Qed.

  (** ** ALTER TABLE while RunPollLoop has read the whole binlog *)
  Lemma tinv_alter s tbl s' : tinv s -> tstep schema layout true s (TAlter tbl) = Some s' -> tinv s'.
  Proof.
    intros Hi Hs. cbn [tstep andb] in Hs.
    destruct (Nat.eqb (t_polled s) (List.length (t_stream s))) eqn:E; cbn [negb] in Hs; [|discriminate].
    apply Nat.eqb_eq in E. inversion Hs; subst; clear Hs.
    destruct Hi as [H1 H2 H3 H4 [C1 C2 C3 C4]].
    constructor; try assumption. constructor; cbn [t_polled t_stream t_cur t_versions t_cmaps]; try assumption.
    intros i ev Hp Hn. exfalso. assert (Hlt : i < List.length (t_stream s)) by (apply nth_error_Some; congruence). lia.
  Qed.

  (** ** RunPollLoop takes one item *)
  Lemma nth_error_snoc {A} (l : list A) x j e : nth_error (l ++ [x]) j = Some e ->
    (j < List.length l /\ nth_error l j = Some e) \/ (j = List.length l /\ e = x).
  Proof.
    intros H. destruct (nth_error_app_cases _ _ _ _ H) as [[Hl Hn]|[Hg Hn]]; [left; split; assumption|].
    right. destruct (j - List.length l) as [|k] eqn:Ek; cbn in Hn.
    - inversion Hn. split; [lia|reflexivity].
    - destruct k; discriminate.
  Qed.

  Definition polled_state (s : tstate) (vs cm : list (string * nat)) (e : option update) : tstate :=
    mk_tstate (t_init s) (t_stream s) (t_cur s) (S (t_polled s)) vs cm (t_queue s ++ [e]) (t_queries s).

  Lemma tinv_polled s it vs cm e :
    tinv s -> nth_error (t_stream s) (t_polled s) = Some it -> entry_ok it e ->
    (forall tbl vc, nlookup tbl cm = Some vc -> nlookup tbl vs = Some vc) ->
    (forall tbl id, it = IMap tbl id -> nlookup tbl vs = Some id) ->
    tinv (polled_state s vs cm e).
  Proof.
    intros [H1 H2 H3 H4 [C1 C2 C3 C4]] Hit He Hcm Hlast.
    assert (Hlt : t_polled s < List.length (t_stream s)) by (apply nth_error_Some; congruence).
    assert (Happ : t_applied (polled_state s vs cm e) = t_applied s).
    { unfold t_applied, polled_state. cbn [t_polled t_queue]. rewrite app_length. cbn [List.length]. lia. }
    constructor; cbn [polled_state t_polled t_stream t_queue t_queries].
    - lia.
    - rewrite app_length. cbn [List.length]. lia.
    - intros j e0 Hj. fold (polled_state s vs cm e). rewrite Happ.
      destruct (nth_error_snoc _ _ _ _ Hj) as [[Hl Hn]|[-> ->]].
      + exact (H3 j e0 Hn).
      + exists it. split; [|exact He]. unfold t_applied. replace (t_polled s - List.length (t_queue s) + List.length (t_queue s)) with (t_polled s) by lia. exact Hit.
    - eapply Forall_impl; [|exact H4]. intros q Hq Hp Hinv. destruct (Hq Hp Hinv) as [Hr Hh].
      split; [exact Hr|]. fold (polled_state s vs cm e). rewrite Happ. exact Hh.
    - constructor; cbn [polled_state t_polled t_stream t_cur t_versions t_cmaps].
      + intros i ev Hp Hn. apply (C1 i ev); [lia|exact Hn].
      + exact C2.
      + exact Hcm.
      + intros p0 tbl id Hp Hn. injection Hp as <-. apply Hlast. rewrite Hit in Hn. congruence.
  Qed.

  Lemma tinv_poll s g s' : tinv s -> tstep schema layout true s (TPoll g) = Some s' -> tinv s'.
  Proof.
    intros Hi Hs. cbn [tstep] in Hs.
    destruct (nth_error (t_stream s) (t_polled s)) as [[tbl id|ev|]|] eqn:Hit; [| | |discriminate].
    - (* table map *)
      inversion Hs; subst; clear Hs.
      destruct (ti_cache s Hi) as [C1 C2 C3 C4].
      set (same := match nlookup tbl (t_versions s) with Some v => Nat.eqb v id | None => false end).
      apply (tinv_polled s (IMap tbl id) _ _ None Hi Hit I).
      + intros tbl' vc H. destruct same eqn:Es; [exact (C3 _ _ H)|].
        rewrite nlookup_filter in H. rewrite nlookup_cons.
        destruct (String.eqb tbl' tbl); [discriminate|]. exact (C3 _ _ H).
      + intros tbl' id' E. injection E as <- <-. destruct same eqn:Es.
        * unfold same in Es. destruct (nlookup tbl (t_versions s)) as [v|]; [|discriminate].
          apply Nat.eqb_eq in Es. congruence.
        * rewrite nlookup_cons, String.eqb_refl. reflexivity.
    - (* rows *)
      destruct (ti_cache s Hi) as [C1 C2 C3 C4].
      destruct (C2 _ _ Hit) as (p0 & Hp0 & Hmap).
      pose proof (C4 p0 _ _ Hp0 Hmap) as Hver.
      pose proof (C1 _ ev (Nat.le_refl _) Hit) as Hcur.
      destruct (nlookup (be_table ev) (t_cmaps s)) as [v|] eqn:Hc.
      + inversion Hs; subst; clear Hs.
        assert (v = be_version ev) by (pose proof (C3 _ _ Hc); congruence). subst v.
        apply (tinv_polled s (IRows ev) _ _ _ Hi Hit).
        * apply decode_sound. reflexivity.
        * exact C3.
        * intros; discriminate.
      + inversion Hs; subst; clear Hs.
        apply (tinv_polled s (IRows ev) _ _ _ Hi Hit).
        * apply decode_sound. symmetry. exact Hcur.
        * intros tbl' vc H. rewrite nlookup_cons in H. destruct (String.eqb_spec tbl' (be_table ev)) as [->|Hne].
          -- injection H as <-. rewrite <- Hcur. exact Hver.
          -- exact (C3 _ _ H).
        * intros; discriminate.
    - (* noise *)
      inversion Hs; subst; clear Hs.
      apply (tinv_polled s INoise _ _ None Hi Hit I).
      + exact (ci_cmap s (ti_cache s Hi)).
      + intros; discriminate.
  Qed.

  (** ** The tracker applies the head of updateCh *)
  Definition applied_state (s : tstate) (qu : list (option update)) (qs : list qstate) : tstate :=
    mk_tstate (t_init s) (t_stream s) (t_cur s) (t_polled s) (t_versions s) (t_cmaps s) qu qs.

  Lemma tinv_applied s e qu qs :
    tinv s -> t_queue s = e :: qu ->
    (forall it, nth_error (t_stream s) (t_applied s) = Some it -> entry_ok it e ->
                Forall (tq_ok (applied_state s qu qs)) qs) ->
    tinv (applied_state s qu qs).
  Proof.
    intros [H1 H2 H3 H4 [C1 C2 C3 C4]] Hq Hqs.
    rewrite Hq in H2. cbn [List.length] in H2.
    assert (Happ : t_applied (applied_state s qu qs) = S (t_applied s)).
    { unfold t_applied, applied_state. cbn [t_polled t_queue]. rewrite Hq. cbn [List.length]. lia. }
    destruct (H3 0 e) as (it & Hit & He); [rewrite Hq; reflexivity|]. rewrite Nat.add_0_r in Hit.
    constructor; cbn [applied_state t_polled t_stream t_queue t_queries].
    - exact H1.
    - lia.
    - intros j e0 Hj. fold (applied_state s qu qs). rewrite Happ.
      destruct (H3 (S j) e0) as (it' & Hn & He'); [rewrite Hq; exact Hj|].
      exists it'. split; [|exact He']. replace (S (t_applied s) + j) with (t_applied s + S j) by lia. exact Hn.
    - exact (Hqs it Hit He).
    - constructor; assumption.
  Qed.

  Lemma tq_ok_advance s qu qs q it :
    t_applied (applied_state s qu qs) = S (t_applied s) ->
    nth_error (t_stream s) (t_applied s) = Some it ->
    tq_ok s q ->
    (q_phase q = PDone -> q_invalid q = false -> forallb (unaffected schema q) (item_deltas it) = true) ->
    tq_ok (applied_state s qu qs) q.
  Proof.
    intros Happ Hit Hq Hun Hp Hinv. destruct (Hq Hp Hinv) as [Hr Hh]. split; [exact Hr|].
    rewrite Happ. destruct (Nat.le_gt_cases (S (t_applied s)) (q_read_at q)) as [Hle|Hgt].
    - rewrite Nat.max_l by exact Hle. rewrite Nat.max_l in Hh by lia. exact Hh.
    - rewrite Nat.max_r by lia. rewrite Nat.max_r in Hh by lia. rewrite Hh.
      change (tdb_at (applied_state s qu qs) (S (t_applied s))) with (tdb_at s (S (t_applied s))).
      rewrite (tdb_at_S s _ it Hit). symmetry. apply tsel_apply_deltas. exact (Hun Hp Hinv).
  Qed.

  Lemma tinv_apply s s' : tinv s -> tstep schema layout true s TApply = Some s' -> tinv s'.
  Proof.
    intros Hi Hs. cbn [tstep] in Hs.
    destruct (t_queue s) as [|[u|] qu] eqn:Hq; [discriminate| |]; inversion Hs; subst; clear Hs.
    - (* an update *)
      apply (tinv_applied s (Some u) qu _ Hi Hq). intros it Hit He.
      assert (Happ : forall qs, t_applied (applied_state s qu qs) = S (t_applied s)).
      { intros qs. unfold t_applied, applied_state. cbn [t_polled t_queue]. rewrite Hq. cbn [List.length].
        pose proof (ti_queue s Hi) as H2. rewrite Hq in H2. cbn [List.length] in H2. lia. }
      destruct it as [tbl id|ev|]; cbn [entry_ok] in He; try contradiction.
      apply Forall_forall. intros q' Hin. apply in_map_iff in Hin as (q & <- & Hin).
      pose proof (ti_queries s Hi) as Hqs. rewrite Forall_forall in Hqs. specialize (Hqs q Hin).
      unfold process. destruct (registered q && invalidates schema q u) eqn:E.
      + intros _ Hinv. discriminate.
      + apply (tq_ok_advance s qu _ q (IRows ev) (Happ _) Hit Hqs).
        intros Hp Hinv. assert (Hreg : registered q = true) by (unfold registered; rewrite Hp; reflexivity).
        rewrite Hreg in E. cbn [andb] in E. eapply sound_not_invalidated; eauto.
    - (* nothing to apply *)
      apply (tinv_applied s None qu _ Hi Hq). intros it Hit He.
      assert (Happ : t_applied (applied_state s qu (t_queries s)) = S (t_applied s)).
      { unfold t_applied, applied_state. cbn [t_polled t_queue]. rewrite Hq. cbn [List.length].
        pose proof (ti_queue s Hi) as H2. rewrite Hq in H2. cbn [List.length] in H2. lia. }
      eapply Forall_impl; [|exact (ti_queries s Hi)]. intros q Hqk.
      apply (tq_ok_advance s qu _ q it Happ Hit Hqk). intros _ _.
      destruct it; cbn [entry_ok] in He; try contradiction; reflexivity.
  Qed.

  (** ** Every step, every run *)
  Lemma tinv_step s l s' : tinv s -> tstep schema layout true s l = Some s' -> tinv s'.
  Proof.
    intros Hi Hs. destruct l.
    - eapply tinv_register; eauto.
    - eapply tinv_read; eauto.
    - eapply tinv_rerun; eauto.
    - eapply tinv_commit; eauto.
    - eapply tinv_noise; eauto.
    - eapply tinv_alter; eauto.
    - eapply tinv_poll; eauto.
    - eapply tinv_apply; eauto.
  Qed.

  Lemma tinv_run : forall ls s s', tinv s -> trun schema layout true s ls = Some s' -> tinv s'.
  Proof.
    induction ls as [|l ls IH]; intros s s' Hi Hr; cbn [trun] in Hr.
    - inversion Hr; subst; exact Hi.
    - destruct (tstep schema layout true s l) as [s1|] eqn:Hs; [|discriminate].
      eapply IH; [|exact Hr]. eapply tinv_step; eauto.
  Qed.

  Lemma tinv_initial d qs : tinv (tinitial d qs).
  Proof.
    constructor; cbn [tinitial t_polled t_stream t_queue t_queries].
    - apply Nat.le_refl.
    - apply Nat.le_refl.
    - intros [|j] e H; discriminate.
    - apply Forall_forall. intros q Hin. apply in_map_iff in Hin as (tf & <- & _). intros Hp. discriminate.
    - constructor; cbn [tinitial t_polled t_stream t_cmaps t_versions].
      + intros [|i] ev _ H; discriminate.
      + intros [|i] ev H; discriminate.
      + intros tbl vc H; discriminate.
      + intros p0 tbl id H; discriminate.
  Qed.

  (** Transactions, multi-row events, the update queue, cached column maps and schema changes made while
      RunPollLoop has read the whole binlog: once the binlog is read and applied and every live query has
      completed a run whose registration stands, each holds what the database now returns. *)
  Theorem tquiescent_current d qs ls s :
    trun schema layout true (tinitial d qs) ls = Some s -> tquiescent s = true ->
    Forall (fun q => q_held q = tsel schema q (t_db s)) (t_queries s).
  Proof.
    intros Hr Hq. pose proof (tinv_run ls _ _ (tinv_initial d qs) Hr) as Hi.
    unfold tquiescent in Hq. apply andb_prop in Hq as [Hq Hall]. apply andb_prop in Hq as [Hpol Hqu].
    apply Nat.eqb_eq in Hpol. destruct (t_queue s) eqn:Eq; [|discriminate].
    rewrite forallb_forall in Hall. apply Forall_forall. intros q Hin.
    pose proof (ti_queries s Hi) as Hok. rewrite Forall_forall in Hok. specialize (Hok q Hin). specialize (Hall q Hin).
    destruct (q_phase q) eqn:Hp; try discriminate. apply negb_true_iff in Hall.
    destruct (Hok Hp Hall) as [Hrd Hh]. rewrite Hh. unfold t_db, t_applied. rewrite Eq. cbn [List.length].
    rewrite Nat.sub_0_r, Hpol. rewrite Nat.max_r by exact Hrd. reflexivity.
  Qed.
End Inv.

(** * A schema change while events are still unread: the race livesql documents (binlog.go l.405-416)

    The event was written under the old column order; RunPollLoop meets it after the ALTER, builds the
    column map from the new column list of the same width, decodes garbage and the live query is never
    invalidated. *)
Definition toy2_schema : string -> table :=
  fun _ => [("id"%string, mk_desc (BInt 64) false TNone); ("n"%string, mk_desc (BInt 64) false TNone)].
Definition toy2_layout : string -> nat -> list string :=
  fun _ v => match v with O => ["id"%string; "n"%string] | _ => ["n"%string; "id"%string] end.

Definition race_run : list tlabel :=
  [TRegister 0; TReadQ 0;
   TCommit [("users"%string, [(None, Some [FVal (GInt 1); FVal (GInt 7)])], true)];
   TAlter "users";                                               (* columns swapped, the event still unread *)
   TPoll None;                                                   (* the table map: id 0 remembered *)
   TPoll (Some [(None, Some [FVal (GInt 7); FVal (GInt 1)])]);   (* decoded with the new column order: id and n trade places *)
   TApply; TApply].

Theorem alter_with_unread_events_refuted :
  exists s, trun toy2_schema toy2_layout false
                 (tinitial [] [("users"%string, [("id"%string, Dyn (BInt 64) false (FVal (GInt 1)))])]) race_run = Some s /\
            tquiescent s = true /\
            exists q, In q (t_queries s) /\ q_held q <> tsel toy2_schema q (t_db s).
Proof.
  eexists. split; [vm_compute; reflexivity|]. split; [vm_compute; reflexivity|].
  eexists. split; [left; reflexivity|]. vm_compute. discriminate.
Qed.

(** The same labels are not a run of the safe system: the ALTER is not enabled before the binlog is read. *)
Example race_run_not_safe :
  trun toy2_schema toy2_layout true
       (tinitial [] [("users"%string, [("id"%string, Dyn (BInt 64) false (FVal (GInt 1)))])]) race_run = None.
Proof. vm_compute. reflexivity. Qed.

(** Non-vacuity of [tquiescent_current]: a transaction of two events (one of them with two row changes),
    reads between polling and applying, noise, an ALTER once the binlog is read, an event under the new
    version (cached column map dropped by the new table id), an undecodable event, re-runs; quiescent at the
    end with the row the query asks for. *)
Definition long_run : list tlabel :=
  [TRegister 0;
   TCommit [("users"%string, [(None, Some [FVal (GInt 1); FVal (GInt 7)]); (None, Some [FVal (GInt 2); FVal (GInt 8)])], true);
            ("other"%string, [(None, Some [FVal (GInt 1); FVal (GInt 0)])], true)];
   TReadQ 0; TNoise;
   TPoll None; TPoll None; TApply; TApply; TPoll None; TPoll None; TPoll None; TApply; TApply; TApply;
   TRerun 0; TRegister 0; TReadQ 0;
   TAlter "users";
   TCommit [("users"%string, [(Some [FVal (GInt 1); FVal (GInt 7)], Some [FVal (GInt 1); FVal (GInt 9)])], true)];
   TCommit [("users"%string, [(Some [FVal (GInt 2); FVal (GInt 8)], None)], false)];
   TPoll None; TPoll None; TPoll None; TPoll None; TApply; TApply; TApply; TApply;
   TRerun 0; TRegister 0; TReadQ 0].

Example long_run_quiescent :
  match trun toy2_schema toy2_layout true
             (tinitial [] [("users"%string, [("id"%string, Dyn (BInt 64) false (FVal (GInt 1)))])]) long_run with
  | Some s => tquiescent s = true /\ map q_held (t_queries s) = [[[FVal (GInt 1); FVal (GInt 9)]]] /\
              t_cmaps s = [("users"%string, 1); ("other"%string, 0)]
  | None => False
  end.
Proof. vm_compute. repeat split; reflexivity. Qed.

(** * The abstract decoding is what the code's functions do (link to RunPollLoop's model in Sql/Live.v and
    to the row codec, C13)

    [rows_of e t cols k ds rows]: [rows] are the row images MySQL writes for the row changes [ds] of a
    rows event of kind [k] of a table whose column list is [cols] (any representation the binlog decoder
    hands back, any column order, extra columns allowed). *)
Inductive rows_of (e : env) (t : table) (cols : list string) : ekind -> list delta -> list (list src) -> Prop :=
| ro_w_nil : rows_of e t cols EWrite [] []
| ro_w_cons : forall a ra ds rs, faithful e t cols a ra -> rows_of e t cols EWrite ds rs ->
                                 rows_of e t cols EWrite ((None, Some a) :: ds) (ra :: rs)
| ro_d_nil : rows_of e t cols EDelete [] []
| ro_d_cons : forall b rb ds rs, faithful e t cols b rb -> rows_of e t cols EDelete ds rs ->
                                 rows_of e t cols EDelete ((Some b, None) :: ds) (rb :: rs)
| ro_u_nil : rows_of e t cols EUpdate [] []
| ro_u_cons : forall a b ra rb ds rs, faithful e t cols b rb -> faithful e t cols a ra ->
                                      rows_of e t cols EUpdate ds rs ->
                                      rows_of e t cols EUpdate ((Some b, Some a) :: ds) (rb :: ra :: rs).

Lemma rows_of_even e t cols ds rows : rows_of e t cols EUpdate ds rows -> Nat.even (List.length rows) = true.
Proof.
  intros H. remember EUpdate as k. induction H; try discriminate; [reflexivity|].
  cbn [List.length Nat.even]. apply IHrows_of. reflexivity.
Qed.

Lemma parse_rows_of e t cols k ds rows : env_laws e -> rows_of e t cols k ds rows ->
  parse_rows_event e (t, fst (column_map t cols), snd (column_map t cols)) k rows = Ok ds.
Proof.
  intros L H. pose proof H as H0. induction H.
  - reflexivity.
  - cbn [parse_rows_event parse_singles] in *. erewrite faithful_image by eauto. cbn [rbind].
    rewrite IHrows_of by assumption. reflexivity.
  - reflexivity.
  - cbn [parse_rows_event parse_singles] in *. erewrite faithful_image by eauto. cbn [rbind].
    rewrite IHrows_of by assumption. reflexivity.
  - reflexivity.
  - cbn [parse_rows_event]. rewrite (rows_of_even _ _ _ _ _ H0).
    cbn [parse_pairs]. erewrite !faithful_image by eauto. cbn [rbind].
    cbn [parse_rows_event] in IHrows_of. rewrite (rows_of_even _ _ _ _ _ H2) in IHrows_of.
    rewrite IHrows_of by assumption. reflexivity.
Qed.

(** RunPollLoop on a well-formed rows event of a registered table of its database, whose rows are the
    images of the row changes [ds] under the column list [cols]: with the column map of that list cached
    -- or, on a miss, with information_schema answering that list -- the tracker gets exactly [ds]; this is
    the [same_layout] branch of [decode]. *)
Theorem faithful_rows_event_decodes fx e db schema st ans tbl t cols k ds rows :
  env_laws e -> slookup tbl schema = Some t -> rows_of e t cols k ds rows ->
  (slookup tbl (p_cmaps st) = Some (column_map t cols) \/
   (slookup tbl (p_cmaps st) = None /\ exists ans', ans = (tbl, cols) :: ans')) ->
  exists st' ans', poll_event fx e db schema st ans (PRows db tbl k rows) = (st', ans', PUpdate (mk_update tbl ds false)) /\
                   slookup tbl (p_cmaps st') = Some (column_map t cols).
Proof.
  intros L Hs Hr Hc. unfold poll_event. rewrite String.eqb_refl. cbn [negb]. rewrite Hs.
  destruct Hc as [Hc | [Hc (ans' & ->)]]; rewrite Hc.
  - exists st, ans. split; [|exact Hc]. unfold poll_loop_update. rewrite (parse_rows_of e t cols k ds rows L Hr). reflexivity.
  - rewrite String.eqb_refl. eexists _, ans'. split.
    + unfold poll_loop_update. rewrite (parse_rows_of e t cols k ds rows L Hr). reflexivity.
    + cbn [p_cmaps sset slookup]. rewrite String.eqb_refl. reflexivity.
Qed.

(** An undecodable rows event (the code after C07-fix-1): the tracker gets an update with [err] set, the
    other [same_layout] branch of [decode]. *)
Theorem undecodable_rows_event_is_err e db schema st ans tbl t cm k rows :
  slookup tbl schema = Some t -> slookup tbl (p_cmaps st) = Some cm ->
  parse_rows_event e (t, fst cm, snd cm) k rows = Err ->
  poll_event true e db schema st ans (PRows db tbl k rows) = (st, ans, PUpdate (mk_update tbl [] true)).
Proof.
  intros Hs Hc Hp. unfold poll_event. rewrite String.eqb_refl. cbn [negb]. rewrite Hs, Hc.
  unfold poll_loop_update. rewrite Hp. reflexivity.
Qed.

(** A table map with a new id makes RunPollLoop forget the table's column map; with the remembered id it
    does not. *)
Theorem table_map_flushes_column_map e db schema st ans tbl id :
  let '(st', _, _) := poll_event true e db schema st ans (PTableMap db tbl id) in
  (slookup tbl (p_versions st) = Some id -> st' = st) /\
  (slookup tbl (p_versions st) <> Some id -> slookup tbl (p_cmaps st') = None /\ slookup tbl (p_versions st') = Some id).
Proof.
  unfold poll_event. rewrite String.eqb_refl. cbn [negb].
  destruct (slookup tbl (p_versions st)) as [v|] eqn:Hv.
  - destruct (Z.eqb_spec v id) as [->|Hne].
    + split; [reflexivity|congruence].
    + split; [congruence|]. intros _. cbn [p_cmaps p_versions sset slookup]. rewrite String.eqb_refl. split; [|reflexivity].
      induction (p_cmaps st) as [|[k' c] l IH]; [reflexivity|]. cbn [sremove].
      destruct (String.eqb_spec tbl k'); [exact IH|]. cbn [slookup]. destruct (String.eqb_spec tbl k'); [contradiction|exact IH].
  - split; [discriminate|]. intros _. cbn [p_cmaps p_versions sset slookup]. rewrite String.eqb_refl. split; [|reflexivity].
    induction (p_cmaps st) as [|[k' c] l IH]; [reflexivity|]. cbn [sremove].
    destruct (String.eqb_spec tbl k'); [exact IH|]. cbn [slookup]. destruct (String.eqb_spec tbl k'); [contradiction|exact IH].
Qed.
