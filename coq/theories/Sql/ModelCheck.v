(** Correspondence evaluators for C12 and C10: the cases written by harness/cmd/c12 and c10 are
    compared with Sql/Model.v here (executable definitions only). *)
From Coq Require Import List ZArith String Bool.
From Thunder Require Import Sql.Model.
Import ListNotations.
Open Scope string_scope.

(** What the fake server recorded. *)
Inductive obs_event : Type :=
| OBegin | OStmt (text : string) (args : list dval) | OCommit | ORollback.

Definition dvals_eqb (a b : list dval) : bool :=
  (fix go (a b : list dval) : bool :=
     match a, b with
     | [], [] => true
     | x :: a', y :: b' => dval_eqb x y && go a' b'
     | _, _ => false
     end) a b.

Definition obs_of_event (e : event) : obs_event :=
  match e with
  | EBegin => OBegin
  | EStmt s => OStmt (sql_text s) (sql_args s)
  | ECommit => OCommit
  | ERollback => ORollback
  end.

Definition obs_eqb (a b : obs_event) : bool :=
  match a, b with
  | OBegin, OBegin | OCommit, OCommit | ORollback, ORollback => true
  | OStmt t x, OStmt u y => String.eqb t u && dvals_eqb x y
  | _, _ => false
  end.

Fixpoint obs_list_eqb (a b : list obs_event) : bool :=
  match a, b with
  | [], [] => true
  | x :: a', y :: b' => obs_eqb x y && obs_list_eqb a' b'
  | _, _ => false
  end.

Definition outcome_code (o : outcome) : nat :=
  match o with Proceeds => 0 | Rejected => 1 | BadInput => 2 end.

Fixpoint nat_list_eqb (a b : list nat) : bool :=
  match a, b with
  | [], [] => true
  | x :: a', y :: b' => Nat.eqb x y && nat_list_eqb a' b'
  | _, _ => false
  end.

(** ** C12 *)
Inductive c12_op : Type :=
| Single (o : op)
| Batched (fs : list filter) (arrival : list (list nat))
| BatchedMulti (cs : list (handle * filter)) (arrival : list (list nat))   (* callers on several handles *)
| Seq (ops : list op).                                                     (* inside one caller transaction *)

Record c12_case : Type := mk_c12 {
  k_table : table; k_handle : handle; k_ctx : ctx; k_op : c12_op;
  k_events : list obs_event;      (* statements and transaction brackets the server received *)
  k_outcomes : list nat           (* per caller: 0 proceeds, 1 rejected, 2 bad input *)
}.

(** Components: 1 = outcome, 2 = statements / arguments / transaction brackets, 3 = the callers that
    reached the batch function are not exactly those the model lets through, 4 = the generated case does
    not meet the well-formedness hypotheses of the theorems (a harness defect). *)
Definition c12_check (c : c12_case) : list nat :=
  match k_op c with
  | Single o =>
      let (ev, out) := run (k_handle c) (k_table c) (k_ctx c) o in
      (if nat_list_eqb [outcome_code out] (k_outcomes c) then [] else [1])
      ++ (if obs_list_eqb (map obs_of_event ev) (k_events c) then [] else [2])
      ++ (if op_wfb (k_handle c) (k_table c) o then [] else [4])
  | Batched fs arrival =>
      let (ev, outs) := run_batched (k_handle c) (k_table c) fs arrival in
      (if nat_list_eqb (map outcome_code outs) (k_outcomes c) then [] else [1])
      ++ (if obs_list_eqb (map obs_of_event ev) (k_events c) then [] else [2])
      ++ (if arrival_consistent (k_handle c) (k_table c) fs arrival then [] else [3])
      ++ (if batched_wfb (k_handle c) (k_table c) fs then [] else [4])
  | BatchedMulti cs arrival =>
      let (ev, outs) := run_batched_multi (k_table c) cs arrival in
      (if nat_list_eqb (map outcome_code outs) (k_outcomes c) then [] else [1])
      ++ (if obs_list_eqb (map obs_of_event ev) (k_events c) then [] else [2])
      ++ (if arrival_consistent_multi (k_table c) cs arrival then [] else [3])
      ++ (if batched_multi_wfb (k_table c) cs then [] else [4])
  | Seq ops =>
      let (ev, outs) := run_seq (k_handle c) (k_table c) (batching (k_ctx c)) ops in
      (if nat_list_eqb (map outcome_code outs) (k_outcomes c) then [] else [1])
      ++ (if obs_list_eqb (map obs_of_event ev) (k_events c) then [] else [2])
      ++ (if forallb (op_wfb (k_handle c) (k_table c)) ops then [] else [4])
  end.

Fixpoint mismatches_c12 (_ : nat) (cs : list (nat * c12_case)) : list (nat * list nat) :=
  match cs with
  | [] => []
  | (i, c) :: t => match c12_check c with
                   | [] => mismatches_c12 0 t
                   | l => (i, l) :: mismatches_c12 0 t
                   end
  end.

(** ** C10 *)
Record c10_case : Type := mk_c10 {
  q_table : table; q_filters : list filter; q_arrival : list (list nat); q_contents : list drow;
  q_batched_stmts : list obs_event;     (* statements of the batched run, one per invocation *)
  q_batched_rows : list (list nat);     (* per caller: positions (in q_contents) of the rows it received *)
  q_single_stmts : list obs_event;      (* statements of the same queries without batching, per caller *)
  q_single_rows : list (list nat)
}.

Fixpoint filter_idx {A : Type} (p : A -> bool) (l : list A) (i : nat) : list nat :=
  match l with
  | [] => []
  | x :: t => if p x then i :: filter_idx p t (S i) else filter_idx p t (S i)
  end.

Definition batch_of (arrival : list (list nat)) (i : nat) : option (list nat) :=
  find (fun b => existsb (Nat.eqb i) b) arrival.

Definition model_batched_rows (t : table) (fs : list filter) (arrival : list (list nat)) (contents : list drow) (i : nat)
  : list nat :=
  match batch_of arrival i with
  | None => []
  | Some b =>
      let w := batch_wclause t (map (nth_filter fs) b) in
      filter_idx (fun r => is_tt (eval_wclause w r) && matcher_matches t (nth_filter fs i) r) contents 0
  end.

Fixpoint nat_lists_eqb (a b : list (list nat)) : bool :=
  match a, b with
  | [], [] => true
  | x :: a', y :: b' => nat_list_eqb x y && nat_lists_eqb a' b'
  | _, _ => false
  end.

(** Components: 1 = text / arguments of the combined statements, 2 = rows handed to each batched caller,
    3 = text / arguments of the stand-alone statements, 4 = rows of the stand-alone queries (the fake
    server's WHERE evaluation against the model's), 5 = the generated case is outside the theorems' domain
    (column descriptors or table contents not representable: a harness defect). *)
Definition c10_check (c : c10_case) : list nat :=
  let t := q_table c in
  let fs := q_filters c in
  (if obs_list_eqb (map (fun b => obs_of_event (EStmt (batch_stmt t (map (nth_filter fs) b)))) (q_arrival c))
                   (q_batched_stmts c) then [] else [1])
  ++ (if nat_lists_eqb (map (model_batched_rows t fs (q_arrival c) (q_contents c)) (seq 0 (List.length fs)))
                       (q_batched_rows c) then [] else [2])
  ++ (if obs_list_eqb (map (fun f => obs_of_event (EStmt (SSelect (t_name t) (col_names t) (WSimple (dfilter_of t f)) None))) fs)
                      (q_single_stmts c) then [] else [3])
  ++ (if nat_lists_eqb (map (fun f => filter_idx (fun r => is_tt (eval_simple (dfilter_of t f) r)) (q_contents c) 0) fs)
                       (q_single_rows c) then [] else [4])
  ++ (if table_ok t && columns_ok t && forallb (row_representable t) (q_contents c) then [] else [5]).

Fixpoint mismatches_c10 (_ : nat) (cs : list (nat * c10_case)) : list (nat * list nat) :=
  match cs with
  | [] => []
  | (i, c) :: t => match c10_check c with
                   | [] => mismatches_c10 0 t
                   | l => (i, l) :: mismatches_c10 0 t
                   end
  end.
