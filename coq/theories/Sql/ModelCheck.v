(** Correspondence evaluators for C12 and C10: the cases written by harness/cmd/c12 and c10 are
    compared with Sql/Model.v here (executable definitions only). *)
From Coq Require Import List ZArith String Bool.
From Thunder Require Import Sql.Model.
Import ListNotations.
Open Scope string_scope.

(** What the fake server recorded. *)
Inductive obs_event : Type :=
| OBegin | OStmt (text : string) (args : list dval) | OCommit | ORollback.

Definition dvals_eqb (a b : list dval) : bool :=
  (fix go (a b : list dval) : bool :=
     match a, b with
     | [], [] => true
     | x :: a', y :: b' => dval_eqb x y && go a' b'
     | _, _ => false
     end) a b.

Definition obs_of_event (e : event) : obs_event :=
  match e with
  | EBegin => OBegin
  | EStmt s => OStmt (sql_text s) (sql_args s)
  | ECommit => OCommit
  | ERollback => ORollback
  end.

Definition obs_eqb (a b : obs_event) : bool :=
  match a, b with
  | OBegin, OBegin | OCommit, OCommit | ORollback, ORollback => true
  | OStmt t x, OStmt u y => String.eqb t u && dvals_eqb x y
  | _, _ => false
  end.

Fixpoint obs_list_eqb (a b : list obs_event) : bool :=
  match a, b with
  | [], [] => true
  | x :: a', y :: b' => obs_eqb x y && obs_list_eqb a' b'
  | _, _ => false
  end.

Definition outcome_code (o : outcome) : nat :=
  match o with Proceeds => 0 | Rejected => 1 | BadInput => 2 end.

Fixpoint nat_list_eqb (a b : list nat) : bool :=
  match a, b with
  | [], [] => true
  | x :: a', y :: b' => Nat.eqb x y && nat_list_eqb a' b'
  | _, _ => false
  end.

(** ** C12 *)
Inductive c12_op : Type :=
| Single (o : op)
| Batched (fs : list filter) (arrival : list (list nat)).

Record c12_case : Type := mk_c12 {
  k_table : table; k_handle : handle; k_ctx : ctx; k_op : c12_op;
  k_events : list obs_event;      (* statements and transaction brackets the server received *)
  k_outcomes : list nat           (* per caller: 0 proceeds, 1 rejected, 2 bad input *)
}.

(** Components: 1 = outcome, 2 = statements / arguments / transaction brackets, 3 = the callers that
    reached the batch function are not exactly those the model lets through, 4 = the generated case does
    not meet the well-formedness hypotheses of the theorems (a harness defect). *)
Definition c12_check (c : c12_case) : list nat :=
  match k_op c with
  | Single o =>
      let (ev, out) := run (k_handle c) (k_table c) (k_ctx c) o in
      (if nat_list_eqb [outcome_code out] (k_outcomes c) then [] else [1])
      ++ (if obs_list_eqb (map obs_of_event ev) (k_events c) then [] else [2])
      ++ (if op_wfb (k_handle c) (k_table c) o then [] else [4])
  | Batched fs arrival =>
      let (ev, outs) := run_batched (k_handle c) (k_table c) fs arrival in
      (if nat_list_eqb (map outcome_code outs) (k_outcomes c) then [] else [1])
      ++ (if obs_list_eqb (map obs_of_event ev) (k_events c) then [] else [2])
      ++ (if arrival_consistent (k_handle c) (k_table c) fs arrival then [] else [3])
      ++ (if batched_wfb (k_handle c) (k_table c) fs then [] else [4])
  end.

Fixpoint mismatches_c12 (_ : nat) (cs : list (nat * c12_case)) : list (nat * list nat) :=
  match cs with
  | [] => []
  | (i, c) :: t => match c12_check c with
                   | [] => mismatches_c12 0 t
                   | l => (i, l) :: mismatches_c12 0 t
                   end
  end.
