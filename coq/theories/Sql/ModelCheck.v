(** Correspondence evaluators for C12 and C10: the cases written by harness/cmd/c12 and c10 are
    compared with Sql/Model.v here (executable definitions only). *)
From Coq Require Import List ZArith String Bool.
From Thunder Require Import Sql.Model Sql.ModelExact Sql.Methods Sql.Matcher.
Import ListNotations.
Open Scope string_scope.

(** What the fake server recorded. *)
Inductive obs_event : Type :=
| OBegin | OStmt (text : string) (args : list dval) | OCommit | ORollback.

Definition dvals_eqb (a b : list dval) : bool :=
  (fix go (a b : list dval) : bool :=
     match a, b with
     | [], [] => true
     | x :: a', y :: b' => dval_eqb x y && go a' b'
     | _, _ => false
     end) a b.

Definition obs_of_event (e : event) : obs_event :=
  match e with
  | EBegin => OBegin
  | EStmt s => OStmt (sql_text s) (sql_args s)
  | ECommit => OCommit
  | ERollback => ORollback
  end.

Definition obs_eqb (a b : obs_event) : bool :=
  match a, b with
  | OBegin, OBegin | OCommit, OCommit | ORollback, ORollback => true
  | OStmt t x, OStmt u y => String.eqb t u && dvals_eqb x y
  | _, _ => false
  end.

Fixpoint obs_list_eqb (a b : list obs_event) : bool :=
  match a, b with
  | [], [] => true
  | x :: a', y :: b' => obs_eqb x y && obs_list_eqb a' b'
  | _, _ => false
  end.

(** The combined statement of a batch up to the order of its OR-ed groups: makeBatchQuery emits one group per
    column set and ORs them; which group comes first does not matter to any row (Sql/GroupOrder.v:
    [eval_batch_perm]) nor to confinement, so the evaluator accepts the groups in any order -- each with its own
    text and its own arguments at its own place. *)
Fixpoint strip_prefix (p s : string) : option string :=
  match p with
  | EmptyString => Some s
  | String a p' =>
      match s with
      | String b s' => if Ascii.eqb a b then strip_prefix p' s' else None
      | EmptyString => None
      end
  end.

Fixpoint strip_args (p a : list dval) : option (list dval) :=
  match p with
  | [] => Some a
  | x :: p' =>
      match a with
      | y :: a' => if dval_eqb x y then strip_args p' a' else None
      | [] => None
      end
  end.

(** Take out the first group (in the model's order) whose text and arguments stand at the head of what is left. *)
Fixpoint take_group (gs : list bgroup) (text : string) (args : list dval) : option (list bgroup * string * list dval) :=
  match gs with
  | [] => None
  | g :: rest =>
      let next := match take_group rest text args with
                  | Some (r, t, a) => Some (g :: r, t, a)
                  | None => None
                  end in
      match strip_prefix (group_text g) text, strip_args (group_args g) args with
      | Some text', Some args' =>
          match text' with
          | EmptyString => Some (rest, EmptyString, args')
          | _ => match strip_prefix " OR " text' with
                 | Some t'' => if String.eqb t'' "" then next else Some (rest, t'', args')
                 | None => next
                 end
          end
      | _, _ => next
      end
  end.

Fixpoint match_groups (fuel : nat) (gs : list bgroup) (text : string) (args : list dval) : bool :=
  match gs with
  | [] => String.eqb text "" && match args with [] => true | _ => false end
  | _ =>
      match fuel with
      | O => false
      | S fuel' =>
          match take_group gs text args with
          | Some (rest, t, a) =>
              (match rest with [] => true | _ => negb (String.eqb t "") end) && match_groups fuel' rest t a
          | None => false
          end
      end
  end.

Definition batch_stmt_matches (tbl : string) (cols : list string) (gs : list bgroup) (text : string) (args : list dval) : bool :=
  let head := "SELECT " ++ join ", " cols ++ " FROM " ++ tbl in
  match gs with
  | [] => String.eqb text head && match args with [] => true | _ => false end
  | _ => match strip_prefix (head ++ " WHERE ") text with
         | Some rest => negb (String.eqb rest "") && match_groups (List.length gs) gs rest args
         | None => false
         end
  end.

Definition ev_obs_eqb (e : event) (o : obs_event) : bool :=
  match e, o with
  | EStmt (SSelect tbl cols (WBatch gs) None), OStmt text args => batch_stmt_matches tbl cols gs text args
  | _, _ => obs_eqb (obs_of_event e) o
  end.

Fixpoint ev_obs_list_eqb (a : list event) (b : list obs_event) : bool :=
  match a, b with
  | [], [] => true
  | x :: a', y :: b' => ev_obs_eqb x y && ev_obs_list_eqb a' b'
  | _, _ => false
  end.

Definition outcome_code (o : outcome) : nat :=
  match o with Proceeds => 0 | Rejected => 1 | BadInput => 2 end.

Fixpoint nat_list_eqb (a b : list nat) : bool :=
  match a, b with
  | [], [] => true
  | x :: a', y :: b' => Nat.eqb x y && nat_list_eqb a' b'
  | _, _ => false
  end.

Fixpoint bool_list_eqb (a b : list bool) : bool :=
  match a, b with
  | [], [] => true
  | x :: a', y :: b' => Bool.eqb x y && bool_list_eqb a' b'
  | _, _ => false
  end.

Definition obs_of_xevent (e : xevent) : obs_event :=
  match e with
  | XEv e => obs_of_event e
  | XExplain s => OStmt ("EXPLAIN " ++ sql_text s) (sql_args s)
  end.

Definition xev_obs_eqb (e : xevent) (o : obs_event) : bool :=
  match e with
  | XEv e => ev_obs_eqb e o
  | XExplain _ => obs_eqb (obs_of_xevent e) o
  end.

Fixpoint xev_obs_list_eqb (a : list xevent) (b : list obs_event) : bool :=
  match a, b with
  | [], [] => true
  | x :: a', y :: b' => xev_obs_eqb x y && xev_obs_list_eqb a' b'
  | _, _ => false
  end.

Fixpoint gfilter_eqb (a b : filter) : bool :=
  match a, b with
  | [], [] => true
  | (k, v) :: a', (k', v') :: b' => String.eqb k k' && goval_eqb v v' && gfilter_eqb a' b'
  | _, _ => false
  end.
Definition opt_filter_eqb (a b : option filter) : bool :=
  match a, b with
  | None, None => true
  | Some x, Some y => gfilter_eqb x y
  | _, _ => false
  end.
Definition handle_eqb (a b : handle) : bool :=
  opt_filter_eqb (h_shard a) (h_shard b) && opt_filter_eqb (h_dyn a) (h_dyn b)
  && Bool.eqb (h_dyn_cb a) (h_dyn_cb b) && Bool.eqb (h_dyn_continue a) (h_dyn_continue b).

(** ** C12 *)
Inductive c12_op : Type :=
| Single (o : op)
| SingleCall (steps : list step) (refused : list bool) (cl : call)
    (* one exported method by name, on the handle derived from a fresh DB by the With* calls [steps];
       [refused]: which of them answered "already ..." *)
| Batched (fs : list filter) (arrival : list (list nat))
| BatchedMulti (cs : list (handle * filter)) (arrival : list (list nat))   (* callers on several handles *)
| Seq (ops : list op).                                                     (* inside one caller transaction *)

Record c12_case : Type := mk_c12 {
  k_table : table; k_handle : handle; k_ctx : ctx; k_op : c12_op;
  k_events : list obs_event;      (* statements and transaction brackets the server received *)
  k_outcomes : list nat           (* per caller: 0 proceeds, 1 rejected, 2 bad input *)
}.

(** Components: 1 = outcome, 2 = statements / arguments / transaction brackets, 3 = the callers that
    reached the batch function are not exactly those the model lets through, 4 = the generated case does
    not meet the well-formedness hypotheses of the theorems (a harness defect), 5 = the handle the
    With* calls produced (limits kept, calls refused) is not the one the model derives. *)
Definition c12_check (c : c12_case) : list nat :=
  match k_op c with
  | SingleCall steps refused cl =>
      let (x, r) := derive x_base steps in
      let (ev, code) := run_call x (k_table c) (k_ctx c) cl in
      (if nat_list_eqb [code] (k_outcomes c) then [] else [1])
      ++ (if xev_obs_list_eqb ev (k_events c) then [] else [2])
      ++ (if call_wfb x (k_table c) cl then [] else [4])
      ++ (if handle_eqb (x_h x) (k_handle c) && bool_list_eqb r refused then [] else [5])
  | Single o =>
      let (ev, out) := run (k_handle c) (k_table c) (k_ctx c) o in
      (if nat_list_eqb [outcome_code out] (k_outcomes c) then [] else [1])
      ++ (if ev_obs_list_eqb ev (k_events c) then [] else [2])
      ++ (if op_wfb (k_handle c) (k_table c) o then [] else [4])
  | Batched fs arrival =>
      let (ev, outs) := run_batched (k_handle c) (k_table c) fs arrival in
      (if nat_list_eqb (map outcome_code outs) (k_outcomes c) then [] else [1])
      ++ (if ev_obs_list_eqb ev (k_events c) then [] else [2])
      ++ (if arrival_consistent (k_handle c) (k_table c) fs arrival then [] else [3])
      ++ (if batched_wfb (k_handle c) (k_table c) fs then [] else [4])
  | BatchedMulti cs arrival =>
      let (ev, outs) := run_batched_multi (k_table c) cs arrival in
      (if nat_list_eqb (map outcome_code outs) (k_outcomes c) then [] else [1])
      ++ (if ev_obs_list_eqb ev (k_events c) then [] else [2])
      ++ (if arrival_consistent_multi (k_table c) cs arrival then [] else [3])
      ++ (if batched_multi_wfb (k_table c) cs then [] else [4])
  | Seq ops =>
      let (ev, outs) := run_seq (k_handle c) (k_table c) (batching (k_ctx c)) ops in
      (if nat_list_eqb (map outcome_code outs) (k_outcomes c) then [] else [1])
      ++ (if ev_obs_list_eqb ev (k_events c) then [] else [2])
      ++ (if forallb (op_wfb (k_handle c) (k_table c)) ops then [] else [4])
  end.

Fixpoint mismatches_c12 (_ : nat) (cs : list (nat * c12_case)) : list (nat * list nat) :=
  match cs with
  | [] => []
  | (i, c) :: t => match c12_check c with
                   | [] => mismatches_c12 0 t
                   | l => (i, l) :: mismatches_c12 0 t
                   end
  end.

(** The run's own table of exported methods of sqlgen.DB (extracted by the harness from the tree under test):
    index 0, component 6 when the model does not cover it ("method outside the model"). *)
Definition methods_mismatch (_ : nat) (gen : list (string * (bool * bool * bool))) : list (nat * list nat) :=
  if methods_covered gen then [] else [(0, [6])].

(** ** C10 *)

(** One caller of a C10 case: Query / FullScanQuery ([cl_row] = false) or QueryRow, with its SelectOptions.
    Only a call without options goes through the batch function (BaseQuery: [query.Options == nil]). *)
Record c10_caller : Type := mk_caller { cl_row : bool; cl_opts : option select_opts }.

Record c10_case : Type := mk_c10 {
  q_table : table; q_filters : list filter; q_callers : list c10_caller;
  q_arrival : list (list nat); q_contents : list drow;
  q_batched_stmts : list obs_event;     (* statements of the run on a batching context (any order) *)
  q_batched_rows : list (nat * list nat); (* per caller: result code, positions (in q_contents) of its rows *)
  q_single_stmts : list obs_event;      (* statements of the same calls without batching, per caller *)
  q_single_rows : list (nat * list nat);
  q_transparent : list bool;            (* per caller: the harness's own decision of [filter_transparent] *)
  q_fixed : bool                        (* the tree under test has C10-fix-2 (probed by the harness) *)
}.

Fixpoint filter_idx {A : Type} (p : A -> bool) (l : list A) (i : nat) : list nat :=
  match l with
  | [] => []
  | x :: t => if p x then i :: filter_idx p t (S i) else filter_idx p t (S i)
  end.

Definition batch_of (arrival : list (list nat)) (i : nat) : option (list nat) :=
  find (fun b => existsb (Nat.eqb i) b) arrival.

Definition nth_caller_opts (cs : list c10_caller) (i : nat) : option select_opts :=
  cl_opts (nth i cs (mk_caller false None)).
Definition nth_caller_row (cs : list c10_caller) (i : nat) : bool :=
  cl_row (nth i cs (mk_caller false None)).

(** ORDER BY id [DESC] and LIMIT as the fake server (and MySQL on a unique key) evaluate them; without
    ORDER BY the rows come in table order.  None = options whose effect on the rows is not modelled (free
    text, other orderings): only their statement is compared. *)
Definition dval_leb (a b : dval) : bool :=
  match a, b with
  | DNull, _ => true
  | _, DNull => false
  | DInt x, DInt y => Z.leb x y
  | DStr x, DStr y | DBytes x, DBytes y | DStr x, DBytes y | DBytes x, DStr y => String.leb x y
  | _, _ => true
  end.

Fixpoint insert_by_id (contents : list drow) (i : nat) (l : list nat) : list nat :=
  match l with
  | [] => [i]
  | j :: t => if dval_leb (cell (nth i contents []) "id") (cell (nth j contents []) "id")
              then i :: l else j :: insert_by_id contents i t
  end.
Definition sort_by_id (contents : list drow) (l : list nat) : list nat :=
  fold_right (insert_by_id contents) [] l.

Definition apply_opts (contents : list drow) (o : option select_opts) (rows : list nat) : option (list nat) :=
  match o with
  | None => Some rows
  | Some o =>
      if negb (String.eqb (o_where o) "") then None
      else
        let ordered :=
          if String.eqb (o_order o) "" then Some rows
          else if String.eqb (o_order o) "id" then Some (sort_by_id contents rows)
          else if String.eqb (o_order o) "id DESC" then Some (rev (sort_by_id contents rows))
          else None in
        match ordered with
        | None => None
        | Some l => Some (match o_limit o with O => l | n => firstn n l end)
        end
  end.

(** Query hands the rows over; QueryRow: 0 = the row, 1 = sql.ErrNoRows, 2 = "expected no more than 1 result". *)
Definition call_result (is_row : bool) (rows : list nat) : nat * list nat :=
  if is_row then match rows with [] => (1, []) | [r] => (0, [r]) | _ => (2, []) end
  else (0, rows).

Definition model_single_rows (t : table) (fs : list filter) (cs : list c10_caller) (contents : list drow) (i : nat)
  : option (nat * list nat) :=
  let f := nth_filter fs i in
  option_map (call_result (nth_caller_row cs i))
    (apply_opts contents (nth_caller_opts cs i)
       (filter_idx (fun r => is_tt (eval_simple (dfilter_of t f) r)) contents 0)).

Definition mm_of (fixed : bool) : table -> filter -> drow -> bool :=
  if fixed then matcher_matches_fixed else matcher_matches.
Definition transparent_of (fixed : bool) : table -> filter -> bool :=
  if fixed then filter_transparent_fixed else filter_transparent.

(** The rows of every caller of one invocation of the batch function, computed through the matcher's data
    structures (Sql/Matcher.v: add per item, match per fetched row, one append per id returned; with the row
    tester when the tree has C10-fix-2) -- positions in [contents], one list per position in the batch.
    Sql/MatcherProofs.v proves this equal to filtering with [matcher_matches] / [matcher_matches_fixed]. *)
Definition batch_rows_struct (fixed : bool) (t : table) (fsb : list filter) (contents : list drow) : list (list nat) :=
  let w := batch_wclause t fsb in
  let m := matcher_of fsb in
  let fetched := filter_idx (fun r => is_tt (eval_wclause w r)) contents 0 in
  let matched := map (fun k => let r := nth k contents [] in (k, (r, matcher_match m (coerce_map (extract_row t r))))) fetched in
  map (fun pf => flat_map (fun krm => if fixed && negb (tester_test t (snd pf) (fst (snd krm))) then []
                                     else repeat (fst krm) (count_nat (fst pf) (snd (snd krm)))) matched)
      (combine (seq 0 (List.length fsb)) fsb).

Fixpoint pos_in (b : list nat) (i : nat) (p : nat) : option nat :=
  match b with
  | [] => None
  | j :: rest => if Nat.eqb i j then Some p else pos_in rest i (S p)
  end.

(** Every batch of the run with the rows of its callers (computed once per case). *)
Definition batches_table (fixed : bool) (t : table) (fs : list filter) (arrival : list (list nat)) (contents : list drow)
  : list (list nat * list (list nat)) :=
  map (fun b => (b, batch_rows_struct fixed t (map (nth_filter fs) b) contents)) arrival.

Fixpoint rows_from_table (tbl : list (list nat * list (list nat))) (i : nat) : option (list nat) :=
  match tbl with
  | [] => None
  | (b, rows) :: rest =>
      match pos_in b i 0 with
      | Some p => Some (nth p rows [])
      | None => rows_from_table rest i
      end
  end.

Definition model_batched_rows (tbl : list (list nat * list (list nat))) (t : table) (fs : list filter) (cs : list c10_caller)
           (contents : list drow) (i : nat) : option (nat * list nat) :=
  match nth_caller_opts cs i with
  | Some _ => model_single_rows t fs cs contents i          (* a statement of its own *)
  | None =>
      match rows_from_table tbl i with
      | None => Some (0, [])
      | Some rows => Some (call_result (nth_caller_row cs i) rows)
      end
  end.

Definition result_eqb (a b : nat * list nat) : bool := Nat.eqb (fst a) (fst b) && nat_list_eqb (snd a) (snd b).

Fixpoint results_agree (model : list (option (nat * list nat))) (obs : list (nat * list nat)) : bool :=
  match model, obs with
  | [], [] => true
  | None :: m, _ :: o => results_agree m o
  | Some x :: m, y :: o => result_eqb x y && results_agree m o
  | _, _ => false
  end.

(** Equality of two statement lists up to order (concurrent callers reach the server in any order). *)
Fixpoint remove_obs (x : event) (l : list obs_event) : option (list obs_event) :=
  match l with
  | [] => None
  | y :: t => if ev_obs_eqb x y then Some t
              else match remove_obs x t with Some t' => Some (y :: t') | None => None end
  end.
Fixpoint obs_perm_eqb (a : list event) (b : list obs_event) : bool :=
  match a with
  | [] => match b with [] => true | _ => false end
  | x :: a' => match remove_obs x b with Some b' => obs_perm_eqb a' b' | None => false end
  end.

Definition own_event (t : table) (fs : list filter) (cs : list c10_caller) (i : nat) : event :=
  EStmt (SSelect (t_name t) (col_names t) (WSimple (dfilter_of t (nth_filter fs i))) (nth_caller_opts cs i)).
Definition own_stmt (t : table) (fs : list filter) (cs : list c10_caller) (i : nat) : obs_event :=
  obs_of_event (own_event t fs cs i).

Definition has_opts (cs : list c10_caller) (i : nat) : bool :=
  match nth_caller_opts cs i with Some _ => true | None => false end.

(** Components: 1 = text / arguments of the statements of the batched run (combined statements and the
    own statements of callers with options), 2 = result of each caller on the batching context,
    3 = text / arguments of the stand-alone statements, 4 = results of the stand-alone calls (the fake
    server's WHERE / ORDER BY / LIMIT evaluation against the model's), 5 = the generated case is outside the
    theorems' domain (a harness defect), 6 = the callers that went through the batch function are not
    exactly the callers without options, 7 = the harness's decision of the theorems' premise
    ([filter_transparent]: its oracle's known class is the complement) differs from the model's,
    8 = a caller inside the premise of [c10_transparent_filters_get_their_own_rows] was observed to get
    another result on the batching context than alone (the theorem's conclusion, checked on the
    implementation's outputs under the model's premise). *)
Fixpoint premise_conclusion (fixed : bool) (t : table) (fs : list filter) (batched single : list (nat * list nat)) : bool :=
  match fs, batched, single with
  | f :: fs', b :: bs, s :: ss =>
      (negb (transparent_of fixed t f) || result_eqb b s) && premise_conclusion fixed t fs' bs ss
  | _, _, _ => true
  end.

(** On a repaired tree: the rows a plain Query without options received on the batching context are among the
    rows it received alone -- for every filter ([c10_repaired_never_hands_foreign_rows] on the observations). *)
Fixpoint no_foreign_rows (cs : list c10_caller) (i : nat) (batched single : list (nat * list nat)) : bool :=
  match batched, single with
  | b :: bs, s :: ss =>
      (has_opts cs i || nth_caller_row cs i || negb (Nat.eqb (fst b) 0) || negb (Nat.eqb (fst s) 0)
       || forallb (fun k => existsb (Nat.eqb k) (snd s)) (snd b))
      && no_foreign_rows cs (S i) bs ss
  | _, _ => true
  end.

Definition c10_check (c : c10_case) : list nat :=
  let t := q_table c in
  let fs := q_filters c in
  let cs := q_callers c in
  let n := List.length fs in
  (if obs_perm_eqb
        (map (fun b => EStmt (batch_stmt t (map (nth_filter fs) b))) (q_arrival c)
         ++ map (own_event t fs cs) (List.filter (has_opts cs) (seq 0 n)))
        (q_batched_stmts c) then [] else [1])
  ++ (let tbl := batches_table (q_fixed c) t fs (q_arrival c) (q_contents c) in
      if results_agree (map (model_batched_rows tbl t fs cs (q_contents c)) (seq 0 n)) (q_batched_rows c)
      then [] else [2])
  ++ (if obs_list_eqb (map (own_stmt t fs cs) (seq 0 n)) (q_single_stmts c) then [] else [3])
  ++ (if results_agree (map (model_single_rows t fs cs (q_contents c)) (seq 0 n)) (q_single_rows c) then [] else [4])
  ++ (if table_ok t && columns_ok t && forallb (row_representable t) (q_contents c) then [] else [5])
  ++ (if forallb (fun i => Bool.eqb (has_opts cs i)
                             (match batch_of (q_arrival c) i with None => true | Some _ => false end)) (seq 0 n)
      then [] else [6])
  ++ (if bool_list_eqb (map (transparent_of (q_fixed c) t) fs) (q_transparent c) then [] else [7])
  ++ (if premise_conclusion (q_fixed c) t fs (q_batched_rows c) (q_single_rows c) then [] else [8])
  ++ (if negb (q_fixed c) || no_foreign_rows cs 0 (q_batched_rows c) (q_single_rows c) then [] else [9]).

Fixpoint mismatches_c10 (_ : nat) (cs : list (nat * c10_case)) : list (nat * list nat) :=
  match cs with
  | [] => []
  | (i, c) :: t => match c10_check c with
                   | [] => mismatches_c10 0 t
                   | l => (i, l) :: mismatches_c10 0 t
                   end
  end.
