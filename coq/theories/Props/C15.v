(** C15 – untrusted input never crashes the server; polynomial cost; resolver panics contained;
    cancelled one-shot requests return.  Statements only; proofs are in GqlTyping/Proofs*.v. *)
From Coq Require Import List ZArith String Bool Arith.
From Thunder Require Import Lib.Json GqlTyping.Types GqlTyping.Parse GqlTyping.ProofsParse GqlTyping.ProofsCost GqlTyping.ProofsExec GqlTyping.ProofsCostPrepare GqlTyping.ProofsCostExplicit
     GqlTyping.Conn GqlTyping.ProofsConn GqlTyping.OneShot GqlTyping.ProofsOneShot GqlTyping.Envelope GqlTyping.ProofsEnvelope GqlTyping.ConnUser.
Import ListNotations.
Open Scope string_scope.
Open Scope list_scope.

(** 1. No crash in graphql.Parse: for every AST graphql-go's parser can produce (the mirror type has an
    option exactly where that parser leaves nil) and every variable map, every outcome the repaired
    conversion can have – whatever order Go ranges over the fragment map – is a query or a
    ClientError.  This covers parseSelectionSet, the cycle check (recursion bounded by the number of
    fragments: the fragments on the stack are pairwise distinct), and detectConflicts (which recurses
    through spreads without a stack check: safe because a successful cycle check leaves a
    topological order). *)
Theorem convert_never_crashes :
  forall (doc : gdoc) (vars : jargs) (o : res (query * nat)),
    In o (convert_all repaired doc vars) -> is_crash o = false.
Proof. exact (fun doc vars => convert_all_nocrash repaired doc vars eq_refl). Qed.
Print Assumptions convert_never_crashes.

(** F22: false of the code before the repair – `{ ... { a } }`. *)
Theorem convert_orig_refuted :
  exists (doc : gdoc) (vars : jargs), convert orig doc vars = RCrash CrNilTypeCondition.
Proof. exact (ex_intro _ f22_doc (ex_intro _ [] convert_orig_crashes)). Qed.
Print Assumptions convert_orig_refuted.

(** 2. Cost.  F21: on the unrepaired code "visits <= p(size)" fails for every polynomial p: the bomb
    family has 3n+3 nodes and needs at least 2^n visits of detectConflicts.visitSibling … *)
Theorem detect_conflicts_cost_orig_refuted :
  forall (nm : nat -> string), (forall i j, nm i = nm j -> i = j) ->
  forall n, query_size (bquery nm n) = 3 * n + 3 /\
            exists c, detect_conflicts orig (btbl nm n) (broot nm) = ROk c /\ c >= 2 ^ n.
Proof. exact (fun nm inj n => conj (query_size_bomb nm inj n) (conflicts_bomb_exponential nm inj n)). Qed.
Print Assumptions detect_conflicts_cost_orig_refuted.

(** … and at least 2^n calls of PrepareQuery, on any schema whose root object has a scalar field a. *)
Theorem prepare_cost_orig_refuted :
  forall (nm : nat -> string), (forall i j, nm i = nm j -> i = j) ->
  forall (sch : schema) fs key ft,
    lookup "Query" sch = Some (DObject fs key) -> lookup "a" fs = Some ft -> lookup (named_of ft) sch = Some DScalar ->
  forall n, exists c, prepare orig sch "Query" (bquery nm n) = ROk c /\ c >= 2 ^ n.
Proof. exact prepare_bomb_exponential. Qed.
Print Assumptions prepare_cost_orig_refuted.

(** After the repair (a [seen] set in visitSibling) the number of visits is at most the number of
    nodes of the converted query plus one, for every document. *)
Theorem detect_conflicts_cost_repaired_linear :
  forall (doc : gdoc) (vars : jargs) (q : query) (c : nat),
    convert repaired doc vars = ROk (q, c) -> c <= 1 + query_size q.
Proof. exact convert_repaired_linear. Qed.
Print Assumptions detect_conflicts_cost_repaired_linear.

(** … and the memoised PrepareQuery (one check per (type, fragment) pair) makes at most
      K * (1 + |operation's selection set| + |types of the schema| * |fragments|)
    calls, K = 1 + the deepest List/NonNull wrapping of a field type: linear in the query for a fixed
    schema, for every query and every schema. *)
Theorem prepare_cost_repaired_polynomial :
  forall (sch : schema) (root : string) (q : query) (n : nat),
    prepare repaired sch root q = ROk n ->
    n <= kcost sch * (1 + items_size (q_sel q) + List.length sch * ftable_size (q_frags q)).
Proof. exact (fun sch root q n => prepare_memo_cost repaired sch root q n eq_refl). Qed.
Print Assumptions prepare_cost_repaired_polynomial.

(** The same bounds in the size of the INPUT.  Parse keeps the size: the query it returns has at most as
    many nodes as the document graphql-go's parser produced (exactly those of its operation and fragment
    definitions) … *)
Theorem parse_keeps_size :
  forall (v : variant) (doc : gdoc) (vars : jargs) (q : query) (c : nat),
    convert v doc vars = ROk (q, c) -> query_size q <= gdoc_size doc.
Proof. exact convert_size. Qed.
Print Assumptions parse_keeps_size.

(** … hence, for every document, variable map, schema and root: after the repairs the conflict check of
    Parse makes at most 1 + |doc| visits and PrepareQuery at most (1 + |schema|)^2 * (1 + |doc|) calls,
    |doc| = nodes of the document, |schema| = types + fields (each with the depth of its List/NonNull
    wrapping) + enum values + union members: an explicit polynomial in (input size x schema size). *)
Theorem validation_cost_polynomial_in_input :
  forall (doc : gdoc) (vars : jargs) (q : query) (c : nat) (sch : schema) (root : string) (n : nat),
    convert repaired doc vars = ROk (q, c) -> prepare repaired sch root q = ROk n ->
    c <= 1 + gdoc_size doc /\
    n <= (1 + schema_size sch) * (1 + schema_size sch) * (1 + gdoc_size doc).
Proof. exact validation_cost_explicit. Qed.
Print Assumptions validation_cost_polynomial_in_input.

(** … and Flatten (run by the executor on every selection set, with the executor's own budget): it marks
    a fragment's selection set before walking it and never walks a marked one again, so one call makes
    at most 1 + |selection set| + |fragments| visits - not 2^depth for fragments that spread the next
    fragment several times in one selection set.  (A Flatten that marks a set only when it is taken off
    a work list walks such a set once per spread: the harness's nestnext families execute that.) *)
Theorem flatten_cost_linear :
  forall (v : variant) (tbl : ftable) (items : list titem) (st : fstate),
    flatten v tbl items = ROk st -> f_cost st <= 1 + items_size items + ftable_size tbl.
Proof. exact flatten_linear. Qed.
Print Assumptions flatten_cost_linear.

(** 2b. What runs after Parse on the same untrusted query cannot crash either.  Flatten (called by the
    executor on every selection set of the query) and PrepareQuery recurse through fragment spreads
    with no check of their own; they are safe on every query Parse returned, on any selection set
    whose spreads name fragments of the query, and (PrepareQuery) for every schema in which field
    types and union members are defined. *)
Theorem flatten_never_crashes :
  forall (v : variant) (doc : gdoc) (vars : jargs) (q : query) (c : nat) (items : list titem),
    convert v doc vars = ROk (q, c) -> fix26 v = true ->
    incl (flat_map item_spreads items) (map fst (q_frags q)) ->
    is_crash (flatten v (q_frags q) items) = false.
Proof. exact (fun v doc vars q c items H => flatten_nocrash v q items (convert_certified v doc vars q c H)). Qed.
Print Assumptions flatten_never_crashes.

(** F26: false before the repair, on a query that Parse and PrepareQuery both accept:
    `{ obj { k: child { x } k: x } }` – Flatten of obj's selection set dereferences nil. *)
Theorem flatten_orig_refuted :
  exists q c n sub,
    convert orig f26_doc [] = ROk (q, c) /\ prepare orig f26_schema "Query" q = ROk n /\
    q_sel q = [TField "obj" "obj" [] [] (Some sub)] /\
    flatten orig (q_frags q) sub = RCrash CrNilSelectionSet /\
    flatten repaired (q_frags q) sub = RErr EFlattenMixed.
Proof. exact f26_witness. Qed.
Print Assumptions flatten_orig_refuted.

Theorem prepare_never_crashes :
  forall (v : variant) (doc : gdoc) (vars : jargs) (q : query) (c : nat) (sch : schema) (root : string),
    convert v doc vars = ROk (q, c) -> schema_closed sch -> lookup root sch <> None ->
    is_crash (prepare v sch root q) = false.
Proof. exact (fun v doc vars q c sch root H => prepare_nocrash v sch root q (convert_certified v doc vars q c H)). Qed.
Print Assumptions prepare_never_crashes.

(** 3. A resolver that panics fails only its own request: the connection stays alive, every other
    subscription is untouched, everything written carries the failing request's id … *)
Theorem resolver_panic_contained :
  forall (c : conn) (id : string) (o : outcome),
    let c' := run_request true c id o in
    alive c' = alive c /\
    (forall id', id' <> id -> lookup id' (subs c') = lookup id' (subs c)) /\
    exists written, outbox c' = outbox c ++ written /\ Forall (fun e => e_id e = id) written.
Proof. exact contained. Qed.
Print Assumptions resolver_panic_contained.

(** … namely one error envelope with the sanitised text, and the request is closed. *)
Theorem resolver_panic_fails_its_request :
  forall (c : conn) (id : string) (s : sub),
    alive c = true -> lookup id (subs c) = Some s -> s_initial s = true ->
    let c' := run_request true c id OPanic in
    outbox c' = outbox c ++ [{| e_id := id; e_type := EError; e_msg := JStr "Internal server error" |}] /\
    lookup id (subs c') = None /\ alive c' = true.
Proof. exact panic_fails_only_its_request. Qed.
Print Assumptions resolver_panic_fails_its_request.

(** 3b. The other user code on a computation's path: the MakeCtx hook and the MiddlewareFuncs.  As found,
    only resolver panics are recovered: a panicking middleware or MakeCtx kills the connection's process
    (witness; reproduced by corpus/C15/known/panic-in-middleware.json and panic-in-makectx.json) … *)
Theorem user_code_panic_as_found_refuted :
  alive (run_user as_found ex_conn "r0" (UPanic SMiddleware)) = false /\
  alive (run_user as_found ex_conn "r0" (UPanic SMakeCtx)) = false /\
  alive (run_user as_found ex_conn "r0" (UPanic SResolver)) = true /\
  run_user with_fix6 ex_conn "r0" (UPanic SMiddleware) =
    {| alive := true; subs := [("h1", {| s_mutation := false; s_initial := false; s_prev := Some (JNum 1%Z) |})];
       outbox := [{| e_id := "r0"; e_type := EError; e_msg := JStr "Internal server error" |}] |}.
Proof. exact user_as_found_dies. Qed.
Print Assumptions user_code_panic_as_found_refuted.

(** … with C15-fix-6 (RunMiddlewares recovers, MakeCtx is called through safeMakeCtx) a panic at any of
    the three sites is contained like a resolver's, for every connection state and every outcome. *)
Theorem user_code_panic_contained_with_fix6 :
  forall (c : conn) (id : string) (u : uoutcome),
    let c' := run_user with_fix6 c id u in
    alive c' = alive c /\
    (forall id', id' <> id -> lookup id' (subs c') = lookup id' (subs c)) /\
    exists written, outbox c' = outbox c ++ written /\ Forall (fun e => e_id e = id) written.
Proof. exact user_contained. Qed.
Print Assumptions user_code_panic_contained_with_fix6.

(** 4. Cancellation of a one-shot request (ServeHTTP, federation ExecuteRequest).  F23: with handlers
    that wait for the computation's signal only, "cancelled before the first run, handler waiting" is
    reachable and no label is enabled in it. *)
Theorem oneshot_cancel_orig_refuted :
  exists tr s, run false init tr = Some s /\ hd s = HWaiting /\ req_cancelled s = true /\
               forall l, step false s l = None.
Proof. exact orig_deadlock. Qed.
Print Assumptions oneshot_cancel_orig_refuted.

(** Repaired (also select on ctx.Done()): under every schedule and every moment of cancellation, as
    long as the handler has not returned a step of the system is enabled; every such step lowers a
    measure that starts at 4; and when nothing can move the handler has returned and the rerunner
    goroutine has ended (no goroutine left). *)
Theorem oneshot_cancel_repaired_returns :
  forall tr s, run true init tr = Some s ->
    (hd s <> HReturned -> exists l, In l system_labels /\ enabled true s l = true) /\
    (forall l s', In l system_labels -> step true s l = Some s' -> measure s' < measure s) /\
    (quiescent true s = true -> hd s = HReturned /\ (rn s = RSkipped \/ rn s = RFinished)).
Proof.
  exact (fun tr s H => conj (repaired_progress s (reachable_inv true tr s H))
                            (conj (fun l s' => measure_decreases true s l s')
                                  (repaired_quiescent s (reachable_inv true tr s H)))).
Qed.
Print Assumptions oneshot_cancel_repaired_returns.

(** 5. The envelope layer (server.go ServeJSONSocket's read loop, conn.handle, the decoding of
    inEnvelope / subscribeMessage / mutateMessage / url; http.go httpPostBody) as total functions over
    arbitrary JSON: [env_step] gives, for every JSON value or non-JSON text a client sends and every table of
    running subscriptions, what the read loop does - the connection ends, one error envelope, one echo, or
    nothing written by the loop (an accepted request runs on its own) - and the new table.  The harness
    sends scripts of envelopes of every shape and compares reaction and reply id with [env_step]. *)

(** The connection ends exactly when the text is not JSON, not an object (or null), or gives id / type /
    extensions a value of the wrong kind - never because of the message type, the message, the query,
    the variables or the number of subscriptions. *)
Theorem connection_ends_only_on_malformed_envelope :
  forall (maxsubs : nat) (subs : list string) (input : option json) (valid : bool * bool),
    fst (env_step maxsubs subs input valid) = REnds <-> envelope_shape_ok input = false.
Proof. exact ends_iff. Qed.
Print Assumptions connection_ends_only_on_malformed_envelope.

(** Whatever one envelope is, every other running subscription stays in the table, unless the
    connection ends or the envelope is the unsubscribe that names it. *)
Theorem envelope_leaves_other_subscriptions :
  forall (maxsubs : nat) (subs : list string) (input : option json) (valid : bool * bool) (x : string),
    In x subs -> fst (env_step maxsubs subs input valid) <> REnds ->
    In x (snd (env_step maxsubs subs input valid)) \/
    exists j e, input = Some j /\ decode_envelope j = Some e /\ v_type e = "unsubscribe" /\ v_id e = x.
Proof. exact others_survive. Qed.
Print Assumptions envelope_leaves_other_subscriptions.

(** An envelope that is answered with an error (undecodable message, duplicate id, too many
    subscriptions, query rejected by Parse or PrepareQuery, unknown type, bad url) or with an echo changes
    nothing on the connection. *)
Theorem rejected_envelope_changes_nothing :
  forall (maxsubs : nat) (subs : list string) (input : option json) (valid : bool * bool),
    fst (env_step maxsubs subs input valid) = RSyncError \/ fst (env_step maxsubs subs input valid) = REcho ->
    snd (env_step maxsubs subs input valid) = subs.
Proof. exact error_changes_nothing. Qed.
Print Assumptions rejected_envelope_changes_nothing.

(** HTTP: a POST body is executed only if it decodes as {query, variables} and Parse and PrepareQuery
    accept it; every other body - any JSON value, or none - is answered with `errors`. *)
Theorem http_body_runs_only_if_decoded_and_valid :
  forall (body : option json) (valid : bool),
    http_step body valid = HRuns <-> http_body_ok body = true /\ valid = true.
Proof. exact http_runs_iff. Qed.
Print Assumptions http_body_runs_only_if_decoded_and_valid.

(** Non-vacuity. *)
Example bomb_4_costs : detect_conflicts orig (btbl unary 4) (broot unary) = ROk 32
                       /\ detect_conflicts repaired (btbl unary 4) (broot unary) = ROk 6.
Proof. split; reflexivity. Qed.
Example bomb_doc_converts_to_bquery :
  convert orig (bomb_doc unary 5) [] = ROk (bquery unary 5, 64) /\ gdoc_size (bomb_doc unary 5) = 19.
Proof. split; reflexivity. Qed.
Example a_query_converts :
  exists q c, convert repaired
    [GOperation "query" (Some "Q") [] [] [GSpread "F" []; GField (Some "k") "obj" [] [] (Some [GField None "x" [] [] None])];
     GFragmentDef "F" "Query" [] [GField None "a" [("x", GVInt 3)] [] None]] [] = ROk (q, c).
Proof. eexists; eexists; reflexivity. Qed.
Example cancelled_before_first_run_returns_when_repaired :
  exists s, run true init [Cancel; RunnerSelect; HandlerWake; HandlerStop] = Some s /\ hd s = HReturned.
Proof. eexists; split; reflexivity. Qed.
Example bomb_doc_within_the_explicit_bound :
  gdoc_size (bomb_doc unary 5) = 19 /\ query_size (bquery unary 5) = 18 /\
  exists c, convert repaired (bomb_doc unary 5) [] = ROk (bquery unary 5, c) /\ c <= 1 + 19.
Proof. split; [reflexivity|]. split; [reflexivity|]. eexists. split; [reflexivity|]. vm_compute. repeat constructor. Qed.
Example envelope_script :
  env_script 200 []
    [(Some (ex_sub "h1" "{ a }"), (true, false));
     (Some (JObj [("ID", JStr "x"); ("Type", JStr "subscribe"); ("MESSAGE", JObj [("query", JNum 5)])]), (false, false));
     (Some (ex_sub "h1" "{ a }"), (true, false));
     (Some (JObj [("id", JStr "e"); ("type", JStr "echo"); ("extensions", JNull)]), (false, false));
     (Some (JObj [("type", JStr "frobnicate")]), (false, false));
     (Some (JObj [("id", JStr "h1"); ("type", JStr "unsubscribe")]), (false, false));
     (Some JNull, (false, false));
     (Some (JObj [("id", JNum 5)]), (false, false));
     (Some (ex_sub "never" "{ a }"), (true, false))]
  = [RNoSyncReply; RSyncError; RSyncError; REcho; RSyncError; RNoSyncReply; RSyncError; REnds].
Proof. reflexivity. Qed.
