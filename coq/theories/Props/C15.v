From Thunder Require Import Lib.Json GqlTyping.Types GqlTyping.Parse GqlTyping.Check15.
Theorem placeholder : True. Proof. exact I. Qed.
Print Assumptions placeholder.
