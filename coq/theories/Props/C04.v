(** C04 — no lost invalidation in the reactive graph / rerunner.

    Model: Reactive/Graph.v, Reactive/Rerunner.v (labelled transition system, one label per critical section of
    reactive/graph.go and reactive/rerunner.go; a schedule is a list of labels).  [reachable (init k progs) s]:
    s is reached from the initial state (k slots with fresh resources, one rerunner per program, each with its
    initial [go r.run()]) by some list of labels. *)
From Coq Require Import List.
From Thunder Require Import Reactive.Graph Reactive.Rerunner Reactive.ProofsBase Reactive.ProofsEdge.
Import ListNotations.

(** Edge invariant (DESIGN A.3) in every reachable state, under every schedule: a dependant of an invalidated
    node is invalidated or some goroutine is on its way to invalidate it. *)
Theorem edge_invariant :
  forall k progs s, reachable (init k progs) s ->
  forall n to, In to (n_out (getN s n)) -> n_inv (getN s n) = true ->
    n_inv (getN s to) = true \/ pending (all_frames s) to.
Proof. intros k progs s R. exact (proj2 (reachable_edge k progs s R)). Qed.
Print Assumptions edge_invariant.

(** ... hence at quiescence (no goroutine left) invalidation has reached every dependant, whatever the
    interleaving of Invalidate / Strobe / addOut / release / handler registration was. *)
Theorem no_lost_invalidation_in_graph :
  forall k progs s, reachable (init k progs) s -> quiescent s ->
  forall n to, In to (n_out (getN s n)) -> n_inv (getN s n) = true -> n_inv (getN s to) = true.
Proof. exact quiescent_closed. Qed.
Print Assumptions no_lost_invalidation_in_graph.

From Thunder Require Import Reactive.ProofsMutex.

(** Mutex invariant: [computing r f] holds of the frame that stands for a computation of rerunner r in
    progress (from BeginCompute until the publish step).  Under every schedule at most one exists: runs of one
    rerunner never overlap. *)
Theorem runs_never_overlap :
  forall k progs s r, reachable (init k progs) s -> r < length (s_rrs s) ->
  count (computing r) (all_frames s) <= 1.
Proof. exact runs_never_overlap_lemma. Qed.
Print Assumptions runs_never_overlap.

(** Once the critical section of Stop has completed ([r_stop] set), in that state and in every state any
    further schedule leads to: stop is still set and no task holds a frame of a run of r that is about to clean
    the cache, about to begin a computation (so the BeginCompute label is not enabled), computing, publishing or
    arming — only the deferred unlock of a run that found [stop] set can remain. *)
Theorem after_stop :
  forall k progs s r ls s', reachable (init k progs) s -> r < length (s_rrs s) ->
  r_stop (getr s r) = true -> run s ls = Some s' ->
  r_stop (getr s' r) = true /\ forall f, In f (all_frames s') -> runner r f = false.
Proof.
  intros k progs s r ls s' R Hr St Hrun.
  assert (St' := run_stop_stable _ _ _ _ Hrun St). split; [exact St'|].
  intros f Hf. eapply count_zero_not_in; [|exact Hf].
  eapply after_stop_lemma; [eapply run_reachable; eauto | rewrite (run_rrs_length _ _ _ Hrun); exact Hr | exact St'].
Qed.
Print Assumptions after_stop.

(** non-vacuity: a reachable state with a computation in progress, and one in which Stop has completed while a
    run task is still around *)
Example computing_state :
  exists s, run (init 1 [([ODep 0], true)]) [LTask 0 0; LTask 0 0; LTask 0 0; LTask 0 0; LTask 0 0; LTask 0 0] = Some s /\
            count (computing 0) (all_frames s) = 1.
Proof. eexists. split; [vm_compute; reflexivity | vm_compute; reflexivity]. Qed.

Example stopped_state :
  exists s, run (init 1 [([ODep 0], true)]) [LTask 0 0; LStop 0; LTask 1 0; LTask 1 0] = Some s /\
            r_stop (getr s 0) = true /\ s_tasks s <> [].
Proof. eexists. split; [vm_compute; reflexivity | split; [vm_compute; reflexivity | vm_compute; discriminate]]. Qed.

From Thunder Require Import Reactive.ProofsArmed Reactive.ProofsReach.

(** Armed invariant + Edge invariant at quiescence: a rerunner that was neither stopped (cancelled) nor has
    failed holds a published computation c whose rerun handler is armed, and neither c nor any node c depends on
    through a chain of addOut edges (resources, cached children, their resources) is invalidated: no invalidation
    that reached the graph was lost on its way to the rerunner, in whichever window it landed.  (The link between
    "a version was superseded" and "the resource node was invalidated / strobed" is the Stale invariant:
    [no_lost_invalidation] below is the statement about versions.) *)
Theorem armed_computation_depends_on_no_invalid_node :
  forall k progs s r, reachable (init k progs) s -> quiescent s -> r < length (s_rrs s) ->
  r_cancel (getr s r) = false -> r_failed (getr s r) = false ->
  exists c, r_comp (getr s r) = Some c /\ n_hinv (getN s c) = Some r /\
            forall n, reach (s_nodes s) n c -> n_inv (getN s n) = false.
Proof.
  intros k progs s r R Q Hr X1 X2.
  destruct (quiescent_armed _ _ _ _ R Q Hr X1 X2) as [c [E1 [E2 E3]]].
  exists c. split; [exact E1|]. split; [exact E2|].
  intros n Hn. destruct (n_inv (getN s n)) eqn:I; [|reflexivity].
  rewrite (quiescent_reach_closed _ _ _ R Q _ _ Hn I) in E3. discriminate.
Qed.
Print Assumptions armed_computation_depends_on_no_invalid_node.

(** Stop cancels the context before it takes r.mu: a stopped rerunner is a cancelled one (the exemption above
    is exactly "Stop was called"). *)
Theorem stop_implies_cancelled :
  forall k progs s r, reachable (init k progs) s -> r < length (s_rrs s) ->
  r_stop (getr s r) = true -> r_cancel (getr s r) = true.
Proof. exact stop_implies_cancel. Qed.
Print Assumptions stop_implies_cancelled.

From Thunder Require Import Reactive.ProofsStale.

(** NO LOST INVALIDATION (full statement).  Slots carry versions; a compute step that reads a slot records
    (slot, version) in its computation's value, and the value of a cached child is appended to its parent's
    when the parent adopts it.  Under every schedule — every interleaving of Strobe / Invalidate / Stop /
    PurgeCache / timers with the critical sections of run, AddDependency, Cache, publish, handler registration
    and release — at quiescence a rerunner that was neither stopped (cancelled) nor has failed holds a
    published computation all of whose recorded versions are the current ones: whatever superseded a version
    (in whichever window it landed) caused a re-run. *)
Theorem no_lost_invalidation :
  forall k progs s r, reachable (init k progs) s -> quiescent s -> r < length (s_rrs s) ->
  r_cancel (getr s r) = false -> r_failed (getr s r) = false ->
  exists c, r_comp (getr s r) = Some c /\
    forall sl v, In (sl, v) (n_val (getN s c)) -> v = slot_ver s sl.
Proof. exact no_lost_invalidation_lemma. Qed.
Print Assumptions no_lost_invalidation.

(** Stale invariant (DESIGN A.3) in every reachable state: a computation that recorded a version of a slot
    either recorded the current one and still hangs below the slot's current resource, or an invalidation is
    on its way to it: some node it depends on is invalid, about to be marked, or about to be strobed. *)
Theorem stale_invariant :
  forall k progs s c sl v, reachable (init k progs) s -> In (sl, v) (n_val (getN s c)) ->
  doomed (s_nodes s) (all_frames s) c \/
  (v = slot_ver s sl /\ reachplus (s_nodes s) (slot_res s sl) c).
Proof. intros k progs s c sl v R Hin. exact (proj1 (reachable_stale k progs s R) c sl v Hin). Qed.
Print Assumptions stale_invariant.

From Thunder Require Import Reactive.ProofsOut Reactive.ProofsClosed Reactive.ProofsShape Reactive.ProofsJoin Reactive.ProofsProgress
  Reactive.ProofsSeg Reactive.ProofsRun Reactive.ProofsOwnership.

(** The same, about what was actually published: [r_out] is the value the compute function had returned when
    the publish step ran (the harness compares it with the real return value at every publish event). *)
Theorem published_output_is_current :
  forall k progs s r, reachable (init k progs) s -> quiescent s -> r < length (s_rrs s) ->
  r_cancel (getr s r) = false -> r_failed (getr s r) = false ->
  exists out, r_out (getr s r) = Some out /\ forall sl v, In (sl, v) out -> v = slot_ver s sl.
Proof.
  intros k progs s r R Q Hr X1 X2.
  destruct (no_lost_invalidation_lemma _ _ _ _ R Q Hr X1 X2) as [c [E1 E2]].
  destruct (reachable_out _ _ _ R r c E1) as [v [ext [O1 O2]]].
  exists v. split; [exact O1|]. intros sl x Hin. apply E2. unfold getN. rewrite O2. apply in_app_iff. left. exact Hin.
Qed.
Print Assumptions published_output_is_current.

(** PROGRESS (no deadlock).  In every reachable state that is not quiescent some task label is enabled, for
    compute functions with any nesting of reactive.Cache calls and of goroutines started inside them
    ([OPar]: concurrent AddDependency / Cache on one computation, the per-key lock contended).  Compute
    functions are finite scripts, so "user compute terminates" is built into the model; [progs_ok k progs]:
    the programs only name slots that exist.  Proof: closedness (ProofsClosed), the shape of stacks
    (ProofsShape: above a frame of Rerunner.run's critical section sit only frames of the compute function),
    joins (ProofsJoin: a join counts the branch goroutines still running; a branch goroutine only waits for
    younger joins; the error return is always possible below a compute frame), the Mutex invariant, and
    [cache_lookup_never_returns_the_running_computation] below (formerly a hypothesis).  The labels that wait
    are r.mu.Lock (its holder can step or waits for a join) and a join (one of its branches can step or waits
    for a younger join).

    One thing the statement does NOT say: for a task about to call reactive.Cache the enabled label may be "the
    compute function does not call Cache this time": that a call whose key is held by another goroutine
    eventually gets the lock is not proved (it needs the keys to be nested in a fixed order, a usage rule). *)
Theorem progress :
  forall k progs s, progs_ok k progs -> reachable (init k progs) s -> ~ quiescent s ->
  exists tid arg s', step s (LTask tid arg) = Some s'.
Proof. exact progress_full_lemma. Qed.
Print Assumptions progress.

(** A cache lookup never returns the computation that performs it: a computation is stored in the cache by the
    frame that sits beneath all its own frames (Reactive/ProofsSeg.v: the frames of one computation are
    contiguous and end at its home; a goroutine started inside a compute function ends at a join standing above
    the computation's script; when the home is at the top of its stack nobody works for the computation any
    more), so whatever is in a cache, or about to be linked below a parent, is not being worked for
    (Reactive/ProofsRun.v).  This was the state hypothesis of [progress]; it is still evaluated on every state of
    every replayed trace (component 7). *)
Theorem cache_lookup_never_returns_the_running_computation :
  forall k progs s, progs_ok k progs -> reachable (init k progs) s -> no_self_hit s.
Proof. exact reachable_no_self_hit. Qed.
Print Assumptions cache_lookup_never_returns_the_running_computation.

(** whenever r.mu is held some task stands inside the critical section of Rerunner.run *)
Theorem mutex_holder_exists :
  forall k progs s r, reachable (init k progs) s -> r < length (s_rrs s) ->
  r_mu (getr s r) = true -> exists f, In f (all_frames s) /\ anchor r f = true.
Proof.
  intros k progs s r R Hr Mu. destruct (reachable_mutex _ _ _ R r Hr) as [H _].
  unfold getr in Mu. rewrite Mu in H. simpl in H.
  induction (all_frames s) as [|f t IH]; simpl in H; [discriminate|].
  destruct (anchor r f) eqn:A; [exists f; split; [left; reflexivity | exact A]|].
  destruct (IH H) as [g [G1 G2]]. exists g. split; [right; exact G1 | exact G2].
Qed.
Print Assumptions mutex_holder_exists.

From Thunder Require Import Reactive.Drive.

(** non-vacuity of the quiescence theorems: two rerunners sharing slot 0 (one through a cached child, one with a
    non-spawning handler); run to quiescence, Strobe, run, Invalidate, run: the state is quiescent, nobody is
    cancelled or failed, and both published outputs carry version 2. *)
Definition ex_progs : list (list op * bool) := [([OCache 0 [ODep 0]; ODep 0], true); ([ODep 0], false)].
Definition ex_q : state :=
  let s1 := run_to_quiet 300 (init 1 ex_progs) in
  let s2 := match step s1 (LStrobe 0) with Some s => run_to_quiet 300 s | None => s1 end in
  match step s2 (LInvalidate 0) with Some s => run_to_quiet 400 s | None => s2 end.

Example ex_q_facts :
  quiescent ex_q /\ slot_ver ex_q 0 = 2 /\
  r_cancel (getr ex_q 0) = false /\ r_failed (getr ex_q 0) = false /\ r_cancel (getr ex_q 1) = false /\
  r_out (getr ex_q 0) = Some [(0, 2); (0, 2)] /\ r_out (getr ex_q 1) = Some [(0, 2)] /\ r_runs (getr ex_q 0) = 3.
Proof. vm_compute. repeat split. Qed.

From Thunder Require Import Reactive.Measure Reactive.ProofsMeasure Reactive.ProofsCacheKeys Reactive.ProofsLiveness.

(** * "EVENTUALLY", FOR EVERY SCHEDULER

    [mu s] (Reactive/Measure.v) is a natural number computed from the state: a weight per continuation frame of
    every goroutine, a potential per node (a valid node can be marked invalid once: that walks its out set and
    runs its rerun handler; an unreleased node can be released once: that walks its in list) and the snapshot
    sizes of the pending strobes.  A *task label* is the execution of one critical section by one goroutine.

    WELL-FOUNDED MEASURE.  Every task label strictly decreases [mu], in every reachable state, whichever
    goroutine the scheduler picks — with one exception: the label "a run asleep on its re-run interval wakes
    up" (rerunner.go:358-366: the timer of minRerunInterval, or of the doubled retryDelay after
    RetrySentinelError, fires; [is_expiry]).  So between two such expiries no scheduler can make the system
    take more than [mu s] steps: invalidation walks, release walks, cleanups, Stop, and every run that has
    woken up (lock, cleanInvalidated, the compute function with its Cache calls and goroutines, publish, arm,
    unlock) all terminate, under every interleaving. *)
Theorem measure_decreases_on_every_task_label_but_interval_expiry :
  forall k progs s tid arg s', reachable (init k progs) s ->
  step s (LTask tid arg) = Some s' -> is_expiry s (LTask tid arg) = false ->
  mu s' < mu s.
Proof. exact measure_decreases_lemma. Qed.
Print Assumptions measure_decreases_on_every_task_label_but_interval_expiry.

(** ... and an expiry adds at most the cost of one run of the most expensive rerunner ([rerun_cost], which no
    task label increases). *)
Theorem interval_expiry_costs_at_most_one_rerun :
  forall s tid arg s', step s (LTask tid arg) = Some s' -> is_expiry s (LTask tid arg) = true ->
  mu s' + 1 <= mu s + rerun_cost s.
Proof. exact expiry_cost_lemma. Qed.
Print Assumptions interval_expiry_costs_at_most_one_rerun.

(** EVERY SCHEDULE IS BOUNDED.  [irun s ls = Some (s', n)]: the list of task labels [ls] (any labels, any
    order: any scheduler) is executable from s, leads to s' and contains n expiries of re-run intervals.  Its
    length is at most [mu s + n * rerun_cost s].  In particular (n = 0) once injections have stopped and no
    sleeping run wakes up, every execution is finite; and an infinite execution without injections must wake
    sleeping runs infinitely often — which, by [dormant_rerunner_is_current_or_rerun_scheduled] below, happens
    only as long as invalidations keep arriving at published computations (a compute function that returns
    RetrySentinelError for ever, or one that registers a resource which is already invalid for ever, does so). *)
Theorem every_schedule_is_bounded :
  forall k progs s ls s' n, reachable (init k progs) s -> irun s ls = Some (s', n) ->
  length ls + mu s' <= mu s + n * rerun_cost s.
Proof. exact every_schedule_is_bounded_lemma. Qed.
Print Assumptions every_schedule_is_bounded.

(** PROGRESS, SHARPENED.  A reachable state in which no task label other than an expiry is enabled is
    *settled*: every goroutine left is a run asleep on its re-run interval.  (With [progress]: a state in which
    no task label at all is enabled is quiescent.) *)
Theorem no_awake_label_means_settled :
  forall k progs s, progs_ok k progs -> reachable (init k progs) s ->
  (forall tid arg s', step s (LTask tid arg) = Some s' -> is_expiry s (LTask tid arg) = true) ->
  settled s = true.
Proof. exact no_awake_label_means_settled_full. Qed.
Print Assumptions no_awake_label_means_settled.

(** EVENTUALLY SETTLED: every maximal execution between expiries is finite, with an explicit bound, and ends
    settled — for every scheduler. *)
Theorem every_execution_settles :
  forall k progs s ls s' n, progs_ok k progs -> reachable (init k progs) s ->
  irun s ls = Some (s', n) ->
  (forall tid arg s'', step s' (LTask tid arg) = Some s'' -> is_expiry s' (LTask tid arg) = true) ->
  length ls <= mu s + n * rerun_cost s /\ settled s' = true.
Proof. exact every_execution_settles_full. Qed.
Print Assumptions every_execution_settles.

(** NO LOST INVALIDATION WITHOUT WAITING FOR QUIESCENCE.  A state is *dormant* when every frame left belongs to
    a run asleep on its interval (or is an emptied walk beneath one).  In every reachable dormant state a
    rerunner that is neither cancelled (stopped) nor failed either has a re-run scheduled — a run of it is
    asleep and will execute when its interval expires — or holds an armed, valid computation all of whose
    recorded versions are current.  "Eventually run again" is therefore: bounded work under every scheduler
    ([every_schedule_is_bounded]) + the expiry of the interval timers (the only fairness assumption left: a Go
    timer fires). *)
Theorem dormant_rerunner_is_current_or_rerun_scheduled :
  forall k progs s r, reachable (init k progs) s -> dormant s = true -> r < length (s_rrs s) ->
  r_cancel (getr s r) = false -> r_failed (getr s r) = false ->
  In (FRunWait r) (all_frames s) \/
  exists c, r_comp (getr s r) = Some c /\ n_hinv (getN s c) = Some r /\ n_inv (getN s c) = false /\
    forall sl v, In (sl, v) (n_val (getN s c)) -> v = slot_ver s sl.
Proof. exact dormant_no_lost_invalidation. Qed.
Print Assumptions dormant_rerunner_is_current_or_rerun_scheduled.

(** non-vacuity.  Two rerunners sharing slot 0 ([ex_progs] above, the second with a non-spawning handler).
    (1) The initial state — both first runs asleep on their intervals — is dormant, not quiescent, rerunner 0 has
    its run scheduled; its measure is 2 (two sleeping runs), the cost of a re-run is 51.
    (2) The driver's schedule from there to quiescence has 31 labels, 2 of them expiries: 31 + 22 <= 2 + 2 * 51.
    (3) A Strobe injected at quiescence raises the measure from 22 to 26; with one strobe pending the cost of a
    re-run is 102; the schedule to the next quiescent (hence dormant) state has 47 labels, 2 expiries. *)
Example ex_dormant_not_quiescent :
  let s := init 1 ex_progs in
  dormant s = true /\ s_tasks s <> [] /\ In (FRunWait 0) (all_frames s) /\ mu s = 2 /\ rerun_cost s = 51.
Proof. vm_compute. repeat split; try discriminate. left. reflexivity. Qed.

Example ex_schedule_bound :
  exists s' n, irun (init 1 ex_progs) (drive 300 (init 1 ex_progs)) = Some (s', n) /\
    n = 2 /\ s_tasks s' = [] /\ length (drive 300 (init 1 ex_progs)) = 31 /\ mu s' = 22.
Proof. eexists. eexists. split; [vm_compute; reflexivity|]. vm_compute. repeat split. Qed.

Definition ex_strobed : state :=
  let s1 := run_to_quiet 300 (init 1 ex_progs) in
  match step s1 (LStrobe 0) with Some s => s | None => s1 end.
Example ex_after_strobe :
  mu (run_to_quiet 300 (init 1 ex_progs)) = 22 /\ mu ex_strobed = 26 /\ rerun_cost ex_strobed = 102 /\
  exists s' n, irun ex_strobed (drive 300 ex_strobed) = Some (s', n) /\ n = 2 /\
    length (drive 300 ex_strobed) = 47 /\ dormant s' = true /\ settled s' = true /\ mu s' = 22.
Proof.
  split; [vm_compute; reflexivity|]. split; [vm_compute; reflexivity|]. split; [vm_compute; reflexivity|].
  eexists. eexists. split; [vm_compute; reflexivity|]. vm_compute. repeat split.
Qed.

(** WHY THE BOUND COUNTS EXPIRIES (and why fairness of the Go scheduler is still assumed for "eventually").
    AddDependency(context.Background(), res) on a resource nobody uses yet decides its release; the release
    goroutine marks the resource invalid and is then starved before its Cleanup callback runs (the callback is
    what gives the slot a fresh resource).  A rerunner reading that slot now registers an invalid resource in
    every run, is invalidated by addOut's shouldInvalidate, and re-runs: under this unfair scheduler 200 task
    labels execute 14 runs without any injection, the release goroutine still standing at its second critical
    section.  Every one of these re-runs is one expiry: [every_schedule_is_bounded] holds with n = 14. *)
Definition ex_spin : state :=
  match run (init 1 [([ODep 0], true)]) [LOutside 0; LTask 1 0; LTask 2 0] with Some s => s | None => init 0 [] end.
Example ex_spin_when_cleanup_is_starved :
  s_tasks ex_spin = [(0, [FRunWait 0]); (2, [FRelMark 0])] /\
  exists s' n, irun ex_spin (drive_skip 200 2 ex_spin) = Some (s', n) /\
    length (drive_skip 200 2 ex_spin) = 200 /\ n = 14 /\ r_runs (getr s' 0) = 14 /\
    find_task (s_tasks s') 2 = Some [FRelMark 0].
Proof.
  split; [vm_compute; reflexivity|]. eexists. eexists. split; [vm_compute; reflexivity|]. vm_compute. repeat split.
Qed.
