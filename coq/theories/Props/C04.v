(** C04 — no lost invalidation in the reactive graph / rerunner.

    Model: Reactive/Graph.v, Reactive/Rerunner.v (labelled transition system, one label per critical section of
    reactive/graph.go and reactive/rerunner.go; a schedule is a list of labels).  [reachable (init k progs) s]:
    s is reached from the initial state (k slots with fresh resources, one rerunner per program, each with its
    initial [go r.run()]) by some list of labels. *)
From Coq Require Import List.
From Thunder Require Import Reactive.Graph Reactive.Rerunner Reactive.ProofsBase Reactive.ProofsEdge.
Import ListNotations.

(** Edge invariant (DESIGN A.3) in every reachable state, under every schedule: a dependant of an invalidated
    node is invalidated or some goroutine is on its way to invalidate it. *)
Theorem edge_invariant :
  forall k progs s, reachable (init k progs) s ->
  forall n to, In to (n_out (getN s n)) -> n_inv (getN s n) = true ->
    n_inv (getN s to) = true \/ pending (all_frames s) to.
Proof. intros k progs s R. exact (proj2 (reachable_edge k progs s R)). Qed.
Print Assumptions edge_invariant.

(** ... hence at quiescence (no goroutine left) invalidation has reached every dependant, whatever the
    interleaving of Invalidate / Strobe / addOut / release / handler registration was. *)
Theorem no_lost_invalidation_in_graph_partial :
  forall k progs s, reachable (init k progs) s -> quiescent s ->
  forall n to, In to (n_out (getN s n)) -> n_inv (getN s n) = true -> n_inv (getN s to) = true.
Proof. exact quiescent_closed. Qed.
Print Assumptions no_lost_invalidation_in_graph_partial.
