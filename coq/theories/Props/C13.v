(** C13 - Row codec round trip: structs survive conversion to and from SQL values; a filter made of a
    row's own column values matches the row; a filter shipped through its protobuf encoding is either
    rejected or matches exactly the same rows.
    Model: Sql/Codec.v (follows internal/fields/sql.go, sqlgen/reflect.go, livesql/binlog.go,
    livesql/marshal.go); proofs: Sql/CodecProofs.v.  [env_laws e] are the guarantees of strconv, time
    and mysql.parseDateTime the codec relies on (parse after format is the identity). *)
From Coq Require Import List ZArith String.
From Thunder Require Import Sql.TimeText Sql.TimeTextProofs Sql.Codec Sql.CodecProofs Sql.CodecTime Sql.FieldTables Sql.Validate Sql.ValidateProofs.
Import ListNotations.
Open Scope Z_scope.

(** Every column kind, pointer / NULL / tag combination, every representation MySQL's text protocol,
    the prepared-statement protocol, the binlog decoder or the protobuf can hand back for the stored
    driver value: Scanner.Scan gives back the Go value Valuer.Value started from (after C13-fix-1). *)
Theorem scan_after_value_is_identity :
  forall e d x c p s,
    env_laws e -> desc_ok d = true -> fval_ok e d x = true -> col_matches d c p = true ->
    repr e c p (valuer d (dyn_of d x)) = Some s ->
    scanner e d s = Ok x.
Proof. exact scan_roundtrip. Qed.
Print Assumptions scan_after_value_is_identity.

(** BuildStruct (repr (UnbuildStruct x)) = x, for every table and every column-wise choice of representation. *)
Theorem build_after_unbuild_is_identity :
  forall e t x row, env_laws e -> row_repr e t x row -> build e t row = Ok x.
Proof. exact build_unbuild. Qed.
Print Assumptions build_after_unbuild_is_identity.

(** parseBinlogRow with the column map built from MySQL's column list (any order, extra columns allowed). *)
Theorem parse_binlog_row_after_unbuild_is_identity :
  forall e t x row cols brow,
    env_laws e -> row_repr e t x row -> NoDup cols -> List.length brow = List.length cols ->
    Forall2 (fun nd s => exists j, nth_error cols j = Some (fst nd) /\ nth_error brow j = Some s) t row ->
    parse_binlog_row e t (fst (column_map t cols)) (snd (column_map t cols)) brow = Ok x.
Proof. exact parse_binlog_roundtrip. Qed.
Print Assumptions parse_binlog_row_after_unbuild_is_identity.

(** MakeTester (extractRow x).Test x = true. *)
Theorem tester_matches_own_row :
  forall e t x,
    NoDup (map fst t) ->
    Forall2 (fun nd v => desc_ok (snd nd) = true /\ fval_ok e (snd nd) v = true) t x ->
    tester t (extract_row t x) (Some x) = true.
Proof. exact tester_reflexive. Qed.
Print Assumptions tester_matches_own_row.

(** FilterFromProto (FilterToProto f) is an error or a filter with the same verdict on every row.
    [filter_typed] excludes exactly: values of another Go base type than the column, and a pointer to a
    zero value on an implicitnull column (open known finding proto-pointer-to-zero-on-implicitnull-column). *)
Theorem filter_proto_round_trip_except_known :
  forall e t f p,
    env_laws e -> filter_typed e t f = true -> filter_to_proto t f = Ok p ->
    match filter_from_proto e t p with
    | Err => True
    | Ok f' => forall row, tester t f' row = tester t f row
    end.
Proof. exact proto_roundtrip. Qed.
Print Assumptions filter_proto_round_trip_except_known.

(** After the proposed repair C13-fix-5 (Valuer.Value dereferences a non-nil pointer handed in for a column
    whose type is not a pointer: [valuer5], [tester5], [filter_to_proto5]) no pointer exclusion is left: for
    every filter whose values have their column's Go base type, FilterFromProto (FilterToProto f) is an
    error or a filter with the same verdict on every row. *)
Theorem filter_proto_round_trip_after_fix5 :
  forall e t f p,
    env_laws e -> filter_typed5 e t f = true -> filter_to_proto5 t f = Ok p ->
    match filter_from_proto e t p with
    | Err => True
    | Ok f' => forall row, tester5 t f' row = tester5 t f row
    end.
Proof. exact proto_roundtrip5. Qed.
Print Assumptions filter_proto_round_trip_after_fix5.

(** The excluded class is a genuine counterexample: filter {e: &false} on an implicitnull bool column. *)
Theorem filter_proto_pointer_to_zero_refuted :
  exists e t f p f' row,
    env_laws e /\ filter_to_proto t f = Ok p /\ filter_from_proto e t p = Ok f' /\
    tester t f row = false /\ tester t f' row = true.
Proof. exact CodecProofs.filter_proto_pointer_to_zero_refuted. Qed.
Print Assumptions filter_proto_pointer_to_zero_refuted.

(** F24, the code before C13-fix-1: a uint64 field on an INT UNSIGNED column holding 3000000000 came
    back from the binlog as 18446744072414584320. *)
Theorem binlog_unsigned_refuted_before_fix :
  exists e d x c s,
    env_laws e /\ desc_ok d = true /\ fval_ok e d x = true /\ col_matches d c PBinlog = true /\
    repr e c PBinlog (valuer d (dyn_of d x)) = Some s /\
    x = FVal (GInt 3000000000) /\
    scanner_gen false e d s = Ok (FVal (GInt 18446744072414584320)).
Proof. exact CodecProofs.binlog_unsigned_refuted_before_fix. Qed.
Print Assumptions binlog_unsigned_refuted_before_fix.

(** The classes excluded by [col_matches] / [fval_ok] are genuine counterexamples, not conveniences:
    MEDIUMINT UNSIGNED through the binlog decoder (8388608 comes back as 4286578688), ... *)
Theorem mediumint_unsigned_binlog_refuted :
  exists e d x s,
    env_laws e /\ desc_ok d = true /\ fval_ok e d x = true /\
    repr e (ColInt 24 true) PBinlog (valuer d (dyn_of d x)) = Some s /\
    x = FVal (GInt 8388608) /\ scanner e d s = Ok (FVal (GInt 4286578688)).
Proof. exact CodecProofs.mediumint_unsigned_binlog_refuted. Qed.
Print Assumptions mediumint_unsigned_binlog_refuted.

(** ... a non-nil *[]byte pointing at a nil slice (comes back pointing at an empty one) and a non-nil
    *sql.NullString that is not Valid (comes back as a nil pointer). *)
Theorem pointer_to_nil_payload_refuted :
  exists e d1 d2 s1 s2,
    env_laws e /\ desc_ok d1 = true /\ desc_ok d2 = true /\
    repr e ColBlob PProto (valuer d1 (dyn_of d1 (FVal (GBytes None)))) = Some s1 /\
    scanner e d1 s1 = Ok (FVal (GBytes (Some ""%string))) /\
    repr e ColBlob PProto (valuer d2 (dyn_of d2 (FVal (GBytes None)))) = Some s2 /\
    scanner e d2 s2 = Ok FNil.
Proof. exact CodecProofs.pointer_to_nil_payload_refuted. Qed.
Print Assumptions pointer_to_nil_payload_refuted.

(** * Times, concretely (Sql/TimeText.v): a time is its Unix nanoseconds; time.Format's three layouts and
    mysql.parseDateTime (the lengths it accepts, the zero date, time.Parse chunk by chunk) are Gallina
    functions, compared with Go on every run.  The two time laws of [env_laws] are theorems about them. *)

(** The text at microsecond / second precision parses back to the time truncated to that precision, for
    every time whose year has four digits (0000-01-01 .. 9999-12-31 23:59:59.999999999). *)
Theorem time_text_carries_its_precision :
  forall t, text_range t = true ->
    parse_datetime (fmt_us_c t) = Some (t - t mod 1000) /\
    parse_datetime (fmt_sec_c t) = Some (t - t mod 1000000000).
Proof. exact (fun t H => conj (parse_fmt_us t H) (parse_fmt_sec t H)). Qed.
Print Assumptions time_text_carries_its_precision.

(** The calendar underneath: (year, month, day) of a day number is a valid date and gives the day number
    back, for every integer. *)
Theorem calendar_round_trip :
  forall z y m d, civil_from_days z = (y, m, d) ->
    1 <= m <= 12 /\ 1 <= d <= days_in y m /\ days_from_civil y m d = z.
Proof. exact civil_roundtrip. Qed.
Print Assumptions calendar_round_trip.

(** Hence the environment whose time fields are these functions satisfies [env_laws] as soon as strconv's
    float formatting does: nothing is assumed about times any more. *)
Theorem time_laws_are_theorems :
  forall e, float_laws e -> env_laws (time_env e).
Proof. exact time_env_laws. Qed.
Print Assumptions time_laws_are_theorems.

Theorem scan_after_value_is_identity_concrete_time :
  forall e d x c p s,
    float_laws e -> desc_ok d = true -> fval_ok (time_env e) d x = true -> col_matches d c p = true ->
    repr (time_env e) c p (valuer d (dyn_of d x)) = Some s ->
    scanner (time_env e) d s = Ok x.
Proof. exact scan_roundtrip_ct. Qed.
Print Assumptions scan_after_value_is_identity_concrete_time.

Theorem build_after_unbuild_is_identity_concrete_time :
  forall e t x row, float_laws e -> row_repr (time_env e) t x row -> build (time_env e) t row = Ok x.
Proof. exact build_unbuild_ct. Qed.
Print Assumptions build_after_unbuild_is_identity_concrete_time.

Theorem parse_binlog_row_after_unbuild_is_identity_concrete_time :
  forall e t x row cols brow,
    float_laws e -> row_repr (time_env e) t x row -> NoDup cols -> List.length brow = List.length cols ->
    Forall2 (fun nd s => exists j, nth_error cols j = Some (fst nd) /\ nth_error brow j = Some s) t row ->
    parse_binlog_row (time_env e) t (fst (column_map t cols)) (snd (column_map t cols)) brow = Ok x.
Proof. exact parse_binlog_roundtrip_ct. Qed.
Print Assumptions parse_binlog_row_after_unbuild_is_identity_concrete_time.

(** Which precision survives: a time column (time.Time, *time.Time, implicitnull) read back from the text
    a DATETIME(6) / DATETIME column renders gives the time truncated to micro- / whole seconds; the struct
    comes back equal exactly when the time had no finer precision than the column. *)
Theorem time_column_precision :
  forall e d t, time_desc d = true -> text_range t = true ->
    scanner (time_env e) d (SBytes (fmt_us_c t)) = Ok (FVal (GTime (t - t mod 1000))) /\
    scanner (time_env e) d (SStr (fmt_sec_c t)) = Ok (FVal (GTime (t - t mod 1000000000))) /\
    (scanner (time_env e) d (SBytes (fmt_us_c t)) = Ok (FVal (GTime t)) <-> t mod 1000 = 0) /\
    (scanner (time_env e) d (SStr (fmt_sec_c t)) = Ok (FVal (GTime t)) <-> t mod 1000000000 = 0).
Proof. exact time_text_precision. Qed.
Print Assumptions time_column_precision.

(** Outside the four-digit years the text is not read back at all (10000-01-01 00:00:00 and
    -0001-12-31 23:59:59 have lengths mysql.parseDateTime does not know): [storable] excludes them. *)
Theorem time_text_out_of_range_refuted :
  text_range (max_text_t + 1) = false /\ (max_text_t + 1) mod 1000000000 = 0 /\
  parse_datetime (fmt_sec_c (max_text_t + 1)) = None /\
  text_range (min_text_t - 1000000000) = false /\ parse_datetime (fmt_sec_c (min_text_t - 1000000000)) = None.
Proof. exact CodecTime.time_text_out_of_range_refuted. Qed.
Print Assumptions time_text_out_of_range_refuted.

(** Interface before tag, on both sides: for a column whose type is its own driver.Valuer and sql.Scanner
    neither Valuer.Value nor Scanner.Scan depends on the tag the column carries (both ask for the interface
    first), so the round trip [scan_after_value_is_identity] -- whose domain [desc_ok] includes these
    types under every tag -- holds for them whatever the tag. *)
Theorem self_typed_column_ignores_its_tag :
  forall e d tg x s,
    self_scanning (d_base d) = true ->
    match x with FNil => True | FVal g => gval_ok e (d_base d) g = true end ->
    valuer (retag d tg) (dyn_of (retag d tg) x) = valuer d (dyn_of d x) /\
    scanner e (retag d tg) s = scanner e d s.
Proof. exact CodecProofs.self_typed_column_ignores_its_tag. Qed.
Print Assumptions self_typed_column_ignores_its_tag.

(** * Registration and dispatch tables

    Every descriptor the round-trip theorems range over ([desc_ok]) is one sqlgen registers: the model of
    buildDescriptor's tag check and of Descriptor.ValidateSQLType (Valuer.Value on the zero value gives a
    driver value that Scanner.Scan takes back) accepts it.  [register_ok] is compared with
    sqlgen.RegisterType on every (type, pointer, tag) combination on every run. *)
Theorem round_trip_descriptors_are_registrable :
  forall e d, desc_ok d = true -> register_ok e d = true /\ tag_modelled d = true.
Proof. exact desc_ok_registers. Qed.
Print Assumptions round_trip_descriptors_are_registrable.

(** The kind lists, tag names and protobuf kind tables extracted from internal/fields/sql.go and
    livesql/marshal.go (snapshot Gen/FieldKinds.v; re-extracted on every run) are what the model's functions
    do on sample values. *)
Theorem dispatch_tables_match_the_model : field_tables_check snapshot = true.
Proof. exact field_tables_agree. Qed.
Print Assumptions dispatch_tables_match_the_model.

(** Non-vacuity: the laws are satisfiable, and a row with a negative int8 from the binlog, a NULL
    pointer, an implicit NULL, a json-tagged integer read as text and a uint64 on an INT UNSIGNED
    column meets [row_repr]. *)
Example laws_satisfiable : env_laws toy_env.
Proof. exact toy_env_laws. Qed.

Example row_repr_inhabited :
  let t := [("a"%string, mk_desc (BInt 8) false TNone); ("p"%string, mk_desc BStr true TNone);
            ("z"%string, mk_desc (BInt 32) false TImplicitNull); ("j"%string, mk_desc (BInt 64) false TJson);
            ("u"%string, mk_desc (BUint 64) false TNone)] in
  let x := [FVal (GInt (-5)); FNil; FVal (GInt 0); FVal (GInt (-12)); FVal (GInt 3000000000)] in
  row_repr toy_env t x [SInt 8 (-5); SNull; SNull; SStr "-12"; SInt 32 (-1294967296)]
  /\ build toy_env t [SInt 8 (-5); SNull; SNull; SStr "-12"; SInt 32 (-1294967296)] = Ok x.
Proof.
  split; [|vm_compute; reflexivity].
  eapply (rr_cons _ _ _ _ _ _ _ _ (ColInt 8 false) PBinlog); try reflexivity.
  eapply (rr_cons _ _ _ _ _ _ _ _ ColVarchar PText); try reflexivity.
  eapply (rr_cons _ _ _ _ _ _ _ _ (ColInt 32 false) PBinary); try reflexivity.
  eapply (rr_cons _ _ _ _ _ _ _ _ ColVarchar PBinlog); try reflexivity.
  eapply (rr_cons _ _ _ _ _ _ _ _ (ColInt 32 true) PBinlog); try reflexivity.
  constructor.
Qed.

(** Concrete times: the float laws are satisfiable, and a row with a DATETIME(6) column read through the
    text protocol, a *time.Time from the binlog (string at second precision), a zero time stored as an
    implicit NULL and a leap day meets [row_repr] in the concrete-time environment. *)
Example float_laws_satisfiable : float_laws toy_env.
Proof. exact toy_float_laws. Qed.

Example row_repr_concrete_time_inhabited :
  let t := [("at"%string, mk_desc BTime false TNone); ("seen"%string, mk_desc BTime true TNone);
            ("z"%string, mk_desc BTime false TImplicitNull); ("leap"%string, mk_desc BTime false TNone)] in
  let x := [FVal (GTime 1700000000123456000); FVal (GTime 1700000000000000000); FVal (GTime tzero);
            FVal (GTime 951782400000000000)] in
  let row := [SBytes "2023-11-14 22:13:20.123456"; SStr "2023-11-14 22:13:20"; SNull; SBytes "2000-02-29 00:00:00"] in
  row_repr (time_env toy_env) t x row /\ build (time_env toy_env) t row = Ok x.
Proof.
  split; [|vm_compute; reflexivity].
  eapply (rr_cons _ _ _ _ _ _ _ _ (ColDatetime true) PText); try reflexivity.
  eapply (rr_cons _ _ _ _ _ _ _ _ (ColDatetime false) PBinlog); try reflexivity.
  eapply (rr_cons _ _ _ _ _ _ _ _ (ColDatetime true) PText); try reflexivity.
  eapply (rr_cons _ _ _ _ _ _ _ _ (ColDatetime false) PText); try reflexivity.
  constructor.
Qed.

Example sub_microsecond_time_is_truncated :
  scanner (time_env toy_env) (mk_desc BTime false TNone) (SBytes (fmt_us_c 1700000000123456789))
  = Ok (FVal (GTime 1700000000123456000)).
Proof. vm_compute. reflexivity. Qed.

(** The repaired Valuer on the filter of the open finding: {e: &false} on an implicitnull column is NULL
    (as {e: false} is), the filter is typed in the sense of the repaired theorem, and the pointer exclusion
    of the old one rejects it. *)
Example fix5_pointer_to_zero :
  let t := [("e"%string, mk_desc BBool false TImplicitNull)] in
  let f := [("e"%string, Dyn BBool true (FVal (GBool false)))] in
  filter_typed5 toy_env t f = true /\ filter_typed toy_env t f = false /\
  filter_to_proto5 t f = Ok [("e"%string, PNull)] /\ filter_to_proto t f = Ok [("e"%string, PBool false)] /\
  filter_from_proto toy_env t [("e"%string, PNull)] = Err.
Proof. vm_compute. repeat split; reflexivity. Qed.

(** The tri-state column type (its own Valuer / Scanner, NULL <-> a value that is not its zero value):
    "unanswered" is written as NULL and NULL is handed to the type's Scan, which reads "unanswered". *)
Example tri_state_row :
  let t := [("ans"%string, mk_desc (BCustom CTri) false TNone); ("opt"%string, mk_desc (BCustom CTri) true TNone)] in
  let x := [FVal (GInt 2); FVal (GInt 1)] in
  unbuild t x = [DNull; DInt 1] /\
  row_repr toy_env t x [SNull; SInt 8 1] /\ build toy_env t [SNull; SInt 8 1] = Ok x.
Proof.
  split; [reflexivity|]. split; [|vm_compute; reflexivity].
  eapply (rr_cons _ _ _ _ _ _ _ _ (ColInt 8 false) PBinlog); try reflexivity.
  eapply (rr_cons _ _ _ _ _ _ _ _ (ColInt 8 false) PBinlog); try reflexivity.
  constructor.
Qed.

(** Registration is not vacuous: a string column with a binary tag, a struct without methods for its tag and an
    implicitnull pointer are refused, as sqlgen refuses them. *)
Example registration_refusals :
  register_ok toy_env (mk_desc BStr false TBinary) = false /\
  register_ok toy_env (mk_desc (BCustom CBin) false TNone) = false /\
  register_ok toy_env (mk_desc (BInt 64) true TImplicitNull) = false /\
  register_ok toy_env (mk_desc (BCustom CTri) true TNone) = true.
Proof. vm_compute. repeat split; reflexivity. Qed.

(** A json-tagged column of a type that is its own Valuer / Scanner is in the round trip's domain and is
    written by the type, not as JSON. *)
Example tagged_self_typed_column :
  let d := mk_desc (BCustom CValuer) false TJson in
  desc_ok d = true /\ valuer d (dyn_of d (FVal (GCust "x"))) = DBytes "x" /\
  scanner toy_env d (SBytes "x") = Ok (FVal (GCust "x")).
Proof. vm_compute. repeat split; reflexivity. Qed.
