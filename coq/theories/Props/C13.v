From Thunder Require Import Sql.Codec.
Theorem placeholder : True. Proof. exact I. Qed.
Print Assumptions placeholder.
