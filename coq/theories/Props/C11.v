From Thunder Require Import Lib.Json Pagination.Model.
Theorem placeholder_c11 : True. Proof. exact I. Qed.
Print Assumptions placeholder_c11.
