(** C11 - Pagination partitions the list: pages are complete, ordered and disjoint.

    Model: Pagination/Model.v (graphql/schemabuilder/pagination.go as repaired by patches/C11-fix-1.patch,
    internal/filter/filter.go).  [enc] is the cursor encoding (base64 in the code); only its injectivity
    is used.  [base_list cfg l a] is the filtered, then stably sorted list; [sort_ok] says the sort field
    is registered, [args_ok] that first/last are non-negative and not both given (exactly the arguments
    the code accepts).  [drop_through after E E1] / [keep_until before E1 cand] are the declarative
    meaning of the cursors: E1 = what follows the element named by [after] (all of E if there is none),
    cand = what precedes the element named by [before] in E1 (all of E1 if there is none). *)
From Coq Require Import List ZArith String Bool Permutation Sorted.
From Thunder Require Import Lib.Json Pagination.Model Pagination.ProofsSlice Pagination.ProofsSort
  Pagination.ProofsFilterImpl Pagination.ProofsWalk Pagination.ProofsPage Pagination.ProofsFilter Pagination.Base64
  Pagination.ProofsExt
  Pagination.ProofsMain Pagination.ProofsArgs.
Import ListNotations.
Open Scope list_scope.

(** Walking forward with first = k > 0 from the returned end cursors, with fuel |l|+1, ends by itself
    (flag true: hasNextPage became false), never fails, and the pages concatenated are exactly the
    filtered, sorted list: complete, in order, and no element twice.  Every page has at most k edges and
    reports the filtered count. *)
Theorem walk_forward_partition :
  forall enc, injective enc ->
  forall cfg l a k, NoDup (map n_key l) -> sort_ok cfg a -> (0 < k)%Z ->
  exists pages,
    walk_forward enc cfg l a k = (map inl pages, true) /\
    pages_nodes pages = base_list cfg l a /\
    NoDup (map n_key (pages_nodes pages)) /\
    Forall (fun c => (Z.of_nat (List.length (c_edges c)) <= k)%Z /\
                     c_total c = total_count cfg l a) pages.
Proof. exact ProofsMain.walk_forward_partition. Qed.
Print Assumptions walk_forward_partition.

(** The fuel is not what ends the walk: any larger fuel gives the same pages. *)
Theorem walk_forward_fuel_suffices :
  forall enc, injective enc ->
  forall cfg l a k fuel, NoDup (map n_key l) -> sort_ok cfg a -> (0 < k)%Z -> List.length l < fuel ->
  walk_forward_from enc fuel cfg l a k None = walk_forward enc cfg l a k.
Proof. exact ProofsMain.walk_forward_fuel_suffices. Qed.
Print Assumptions walk_forward_fuel_suffices.

(** Symmetric: walking backward with last = k from the returned start cursors; the pages in reverse
    order of visit concatenate to the filtered, sorted list. *)
Theorem walk_backward_partition :
  forall enc, injective enc ->
  forall cfg l a k, NoDup (map n_key l) -> sort_ok cfg a -> (0 < k)%Z ->
  exists pages,
    walk_backward enc cfg l a k = (map inl pages, true) /\
    pages_nodes (rev pages) = base_list cfg l a /\
    NoDup (map n_key (pages_nodes (rev pages))) /\
    Forall (fun c => (Z.of_nat (List.length (c_edges c)) <= k)%Z /\
                     c_total c = total_count cfg l a) pages.
Proof. exact ProofsMain.walk_backward_partition. Qed.
Print Assumptions walk_backward_partition.

Theorem walk_backward_fuel_suffices :
  forall enc, injective enc ->
  forall cfg l a k fuel, NoDup (map n_key l) -> sort_ok cfg a -> (0 < k)%Z -> List.length l < fuel ->
  walk_backward_from enc fuel cfg l a k None = walk_backward enc cfg l a k.
Proof. exact ProofsMain.walk_backward_fuel_suffices. Qed.
Print Assumptions walk_backward_fuel_suffices.

(** Accepted arguments always give a page; an unregistered sort field or rejected first/last give an
    error (for a non-empty list; the empty list returns the empty connection before any check). *)
Theorem accepted_arguments_give_a_page :
  forall enc, injective enc ->
  forall cfg l a, NoDup (map n_key l) -> sort_ok cfg a -> args_ok a ->
  exists c, get_connection enc cfg l a = inl c.
Proof. exact get_connection_accepts. Qed.
Print Assumptions accepted_arguments_give_a_page.

Theorem rejected_arguments_give_an_error :
  forall enc cfg l a, l <> [] -> sort_ok cfg a -> ~ args_ok a ->
  exists e, get_connection enc cfg l a = inr e.
Proof. exact get_connection_rejected. Qed.
Print Assumptions rejected_arguments_give_an_error.

Theorem unknown_sort_field_gives_an_error :
  forall enc cfg l a, l <> [] -> ~ sort_ok cfg a -> get_connection enc cfg l a = inr ErrUnknownSort.
Proof. exact get_connection_unknown_sort. Qed.
Print Assumptions unknown_sort_field_gives_an_error.

(** On every page totalCount is the number of elements that pass the text filter. *)
Theorem total_count_is_filtered_count :
  forall enc, injective enc ->
  forall cfg l a c E1 cand, NoDup (map n_key l) -> sort_ok cfg a -> args_ok a ->
  get_connection enc cfg l a = inl c ->
  drop_through (a_after a) (base_edges enc cfg l a) E1 -> keep_until (a_before a) E1 cand ->
  c_total c = total_count cfg l a.
Proof. exact total_count_eq. Qed.
Print Assumptions total_count_is_filtered_count.

(** hasNextPage is true exactly when the page was cut short by first, or elements exist beyond the
    element named by before. *)
Theorem has_next_page_iff :
  forall enc, injective enc ->
  forall cfg l a c E1 cand, NoDup (map n_key l) -> sort_ok cfg a -> args_ok a ->
  get_connection enc cfg l a = inl c ->
  drop_through (a_after a) (base_edges enc cfg l a) E1 -> keep_until (a_before a) E1 cand ->
  (c_next c = true <->
   (exists f, a_first a = Some f /\ (f < Z.of_nat (List.length cand))%Z) \/
   (exists p e s, E1 = p ++ e :: s /\ named (a_before a) e /\ s <> [])).
Proof. exact has_next_iff. Qed.
Print Assumptions has_next_page_iff.

(** hasPrevPage is true exactly when the page was cut short by last, or elements exist before the
    element named by after. *)
Theorem has_prev_page_iff :
  forall enc, injective enc ->
  forall cfg l a c E1 cand, NoDup (map n_key l) -> sort_ok cfg a -> args_ok a ->
  get_connection enc cfg l a = inl c ->
  drop_through (a_after a) (base_edges enc cfg l a) E1 -> keep_until (a_before a) E1 cand ->
  (c_prev c = true <->
   (exists n, a_last a = Some n /\ (n < Z.of_nat (List.length cand))%Z) \/
   (exists p e s, base_edges enc cfg l a = p ++ e :: s /\ named (a_after a) e /\ p <> [])).
Proof. exact has_prev_iff. Qed.
Print Assumptions has_prev_page_iff.

(** The page is the first [first] / last [last] candidates (all of them when neither is given). *)
Theorem page_is_slice_of_candidates :
  forall enc, injective enc ->
  forall cfg l a c E1 cand, NoDup (map n_key l) -> sort_ok cfg a -> args_ok a ->
  get_connection enc cfg l a = inl c ->
  drop_through (a_after a) (base_edges enc cfg l a) E1 -> keep_until (a_before a) E1 cand ->
  (forall f, a_first a = Some f -> c_edges c = firstn (Z.to_nat f) cand) /\
  (forall n, a_last a = Some n -> c_edges c = skipn (List.length cand - Z.to_nat n) cand) /\
  (a_first a = None -> a_last a = None -> c_edges c = cand).
Proof. exact page_slice. Qed.
Print Assumptions page_is_slice_of_candidates.

(** start/end cursors are those of the first and last edge (empty strings on an empty page). *)
Theorem start_end_cursors_are_first_last_edge :
  forall enc, injective enc ->
  forall cfg l a c E1 cand, NoDup (map n_key l) -> sort_ok cfg a -> args_ok a ->
  get_connection enc cfg l a = inl c ->
  drop_through (a_after a) (base_edges enc cfg l a) E1 -> keep_until (a_before a) E1 cand ->
  c_start c = match c_edges c with [] => EmptyString | e :: _ => e_cursor e end /\
  c_end c = match c_edges c with [] => EmptyString | e :: _ => e_cursor (last (c_edges c) e) end.
Proof. exact start_end_eq. Qed.
Print Assumptions start_end_cursors_are_first_last_edge.

(** Unknown cursors behave as absent. *)
Theorem unknown_after_cursor_behaves_as_absent :
  forall enc cfg l a,
  (forall e, In e (base_edges enc cfg l a) -> ~ named (a_after a) e) ->
  get_connection enc cfg l a = get_connection enc cfg l (set_after a None).
Proof. exact unknown_after_absent. Qed.
Print Assumptions unknown_after_cursor_behaves_as_absent.

Theorem unknown_before_cursor_behaves_as_absent :
  forall enc, injective enc ->
  forall cfg l a E1, NoDup (map n_key l) -> sort_ok cfg a -> args_ok a ->
  drop_through (a_after a) (base_edges enc cfg l a) E1 ->
  (forall e, In e E1 -> ~ named (a_before a) e) ->
  get_connection enc cfg l a = get_connection enc cfg l (set_before a None).
Proof. exact unknown_before_absent. Qed.
Print Assumptions unknown_before_cursor_behaves_as_absent.

(** The cursor relations are total, so none of the statements above is vacuous. *)
Theorem cursor_relations_total :
  forall after before E, exists E1 cand, drop_through after E E1 /\ keep_until before E1 cand.
Proof.
  exact (fun after before E =>
           match drop_through_total after E with
           | ex_intro _ E1 H1 => match keep_until_total before E1 with
                                 | ex_intro _ cand H2 => ex_intro _ E1 (ex_intro _ cand (conj H1 H2))
                                 end
           end).
Qed.
Print Assumptions cursor_relations_total.

(** F10: for the code as found ([get_connection_orig]: edgeCount taken before the [after] slice) the
    hasNextPage clause is false - keys 1..4, after = cursor(1), before = cursor(4). *)
Theorem has_next_page_iff_orig_refuted :
  exists cfg l a c E1 cand,
    NoDup (map n_key l) /\ sort_ok cfg a /\ args_ok a /\
    get_connection_orig base64 cfg l a = inl c /\
    drop_through (a_after a) (base_edges base64 cfg l a) E1 /\
    keep_until (a_before a) E1 cand /\
    ~ (c_next c = true <->
       (exists f, a_first a = Some f /\ (f < Z.of_nat (List.length cand))%Z) \/
       (exists p e s, E1 = p ++ e :: s /\ named (a_before a) e /\ s <> [])).
Proof. exact f10_refutes. Qed.
Print Assumptions has_next_page_iff_orig_refuted.

(** * The order: requested, stable *)

(** With a registered sort field the paginated list is a permutation of the filtered list, sorted in the
    requested order (no element is followed by one that is strictly smaller in that order), and stable
    (elements with equal sort values keep the order of the resolver's list). *)
Theorem paginated_list_is_sorted_and_stable :
  forall cfg l a f, a_sortby a = Some f -> sort_ok cfg a ->
  Permutation (base_list cfg l a) (apply_text_filter cfg l a) /\
  sorted_by f (a_desc a) (base_list cfg l a) /\
  (forall z, filter (same_key f (a_desc a) z) (base_list cfg l a) =
             filter (same_key f (a_desc a) z) (apply_text_filter cfg l a)).
Proof. exact base_list_sorted_stable. Qed.
Print Assumptions paginated_list_is_sorted_and_stable.

(** Those two properties determine the list: any sorted, stable rearrangement of the filtered list is
    the model's - so it is irrelevant that Go's sort.SliceStable is not an insertion sort. *)
Theorem stable_sort_is_unique :
  forall cfg l a f l', a_sortby a = Some f -> sort_ok cfg a ->
  sorted_by f (a_desc a) l' ->
  (forall z, filter (same_key f (a_desc a) z) l' =
             filter (same_key f (a_desc a) z) (apply_text_filter cfg l a)) ->
  l' = base_list cfg l a.
Proof. exact base_list_unique. Qed.
Print Assumptions stable_sort_is_unique.

Theorem without_sort_field_order_is_kept :
  forall cfg l a, a_sortby a = None -> base_list cfg l a = apply_text_filter cfg l a.
Proof. exact base_list_unsorted. Qed.
Print Assumptions without_sort_field_order_is_kept.

(** integer sort values compare by <, string sort values bytewise after lower-casing; descending swaps *)
Theorem integer_sort_values_compare_as_integers :
  forall f desc x y zx zy,
  lookup_def (SInt 0) f (n_sorts x) = SInt zx -> lookup_def (SInt 0) f (n_sorts y) = SInt zy ->
  node_less f desc x y = if desc then Z.ltb zy zx else Z.ltb zx zy.
Proof. exact node_less_int. Qed.
Print Assumptions integer_sort_values_compare_as_integers.

Theorem string_sort_values_compare_lowercased :
  forall f desc x y sx sy,
  lookup_def (SInt 0) f (n_sorts x) = SStr sx -> lookup_def (SInt 0) f (n_sorts y) = SStr sy ->
  node_less f desc x y = if desc then str_ltb (lower sy) (lower sx) else str_ltb (lower sx) (lower sy).
Proof. exact node_less_str. Qed.
Print Assumptions string_sort_values_compare_lowercased.

Theorem unsigned_sort_values_compare_as_integers :
  forall f desc x y zx zy,
  lookup_def (SInt 0) f (n_sorts x) = SUint zx -> lookup_def (SInt 0) f (n_sorts y) = SUint zy ->
  node_less f desc x y = if desc then Z.ltb zy zx else Z.ltb zx zy.
Proof. exact node_less_uint. Qed.
Print Assumptions unsigned_sort_values_compare_as_integers.

(** float sort values are compared through their codes (an order embedding of the non-NaN floats) *)
Theorem float_sort_values_compare_by_code :
  forall f desc x y cx cy,
  lookup_def (SInt 0) f (n_sorts x) = SFloat cx -> lookup_def (SInt 0) f (n_sorts y) = SFloat cy ->
  node_less f desc x y = if desc then Z.ltb cy cx else Z.ltb cx cy.
Proof. exact node_less_float. Qed.
Print Assumptions float_sort_values_compare_by_code.

(** For any carrier and any strict weak order on it (floats without NaN with <, or whatever a sort field
    returns): the stable insertion sort is a permutation, sorted, stable, and the only such list. *)
Theorem stable_sort_for_any_strict_weak_order :
  forall (A : Type) (less : A -> A -> bool),
  (forall x, less x x = false) ->
  (forall x y z, less x y = true -> less y z = true -> less x z = true) ->
  (forall x y z, less x z = true -> less x y = true \/ less y z = true) ->
  forall l,
  Permutation (stable_sort less l) l /\
  Sorted (fun x y => less y x = false) (stable_sort less l) /\
  (forall z, filter (eqv less z) (stable_sort less l) = filter (eqv less z) l) /\
  (forall l', Sorted (fun x y => less y x = false) l' ->
              (forall z, filter (eqv less z) l' = filter (eqv less z) l) -> l' = stable_sort less l).
Proof.
  exact (fun A less Hi Ht Hn l =>
           conj (stable_sort_perm less l)
             (conj (stable_sort_sorted less Hi Ht l)
                (conj (fun z => stable_sort_stable less Hn z l)
                      (fun l' Hs Hf => stable_sort_unique less Hi Ht Hn l l' Hs Hf)))).
Qed.
Print Assumptions stable_sort_for_any_strict_weak_order.

(** * The text filter *)

(** An element passes iff there is no (or an empty) filter text, or some registered filter field that is
    selected by filterTextFields (all of them when the argument is absent) matches - [match_fn] on
    [search_tokens]: DefaultFilterFunc on the default tokens without filterType, the FilterFunc registered
    under that name with one (user code: any pair of functions in [cfg_customs]), nothing for an
    unregistered name (the three theorems after this one). *)
Theorem element_passes_filter_iff :
  forall cfg l a n,
  In n (apply_text_filter cfg l a) <->
  In n l /\
  (a_ftext a = None \/ a_ftext a = Some EmptyString \/
   exists t f, a_ftext a = Some t /\
     In f (cfg_ff cfg) /\ (forall fs, a_ffields a = Some fs -> In (ff_name f) fs) /\
     match_fn cfg a (lookup_def EmptyString (ff_attr f) (n_texts n)) (search_tokens cfg a t) = true).
Proof.
  exact (fun cfg l a n =>
           iff_trans (apply_text_filter_spec cfg l a n)
                     (and_iff_compat_l (In n l) (node_filter_spec cfg a n))).
Qed.
Print Assumptions element_passes_filter_iff.

Theorem without_filter_type_default_tokeniser_and_match :
  forall cfg a, a_ftype a = None -> match_fn cfg a = default_match /\ search_tokens cfg a = tokens.
Proof. exact match_fn_default. Qed.
Print Assumptions without_filter_type_default_tokeniser_and_match.

Theorem registered_filter_type_uses_the_custom_functions :
  forall cfg a ft tk m,
  a_ftype a = Some ft -> lookup_custom ft (cfg_customs cfg) = Some (tk, m) ->
  match_fn cfg a = m /\ search_tokens cfg a = tk.
Proof. exact match_fn_custom. Qed.
Print Assumptions registered_filter_type_uses_the_custom_functions.

Theorem unregistered_filter_type_matches_nothing :
  forall cfg a ft text toks,
  a_ftype a = Some ft -> lookup_custom ft (cfg_customs cfg) = None -> match_fn cfg a text toks = false.
Proof. exact match_fn_unregistered. Qed.
Print Assumptions unregistered_filter_type_matches_nothing.

(** applyTextFilter as written (three runners - plain, expensive, batched - filling three keep-arrays
    that are or-ed) keeps exactly the elements for which some selected field matches ... *)
Theorem filter_runners_agree :
  forall cfg l a, apply_text_filter cfg l a = filter (node_filter cfg a) l.
Proof. exact apply_text_filter_eq. Qed.
Print Assumptions filter_runners_agree.

(** ... so how the filter fields are implemented (plain, expensive, batch, batch-with-fallback, and
    whichever way the fallback switch points) does not change what passes. *)
Theorem filter_field_implementation_is_irrelevant :
  forall ffs ffs' sf sf' ub ub' cu l a,
  map (fun f => (ff_name f, ff_attr f)) ffs = map (fun f => (ff_name f, ff_attr f)) ffs' ->
  apply_text_filter (mk_cfg ffs sf ub cu) l a = apply_text_filter (mk_cfg ffs' sf' ub' cu) l a.
Proof. exact filter_impl_irrelevant. Qed.
Print Assumptions filter_field_implementation_is_irrelevant.

(** The default match: no token at all, or some non-empty token occurs in the text, ignoring case. *)
Theorem default_match_is_case_insensitive_substring :
  forall text toks,
  default_match text toks = true <->
  toks = [] \/
  exists t pre post, In t toks /\ t <> EmptyString /\
                     lower text = String.append pre (String.append (lower t) post).
Proof. exact default_match_spec. Qed.
Print Assumptions default_match_is_case_insensitive_substring.

(** The default tokeniser on the documented sub-language: blank-separated words and quoted phrases
    give their contents, in order. *)
Theorem tokens_of_words_and_phrases :
  forall items, forallb item_ok items = true -> tokens (render_sep items) = map content items.
Proof. exact tokens_render_sep. Qed.
Print Assumptions tokens_of_words_and_phrases.

(** on ASCII texts [lower] is the bytewise A-Z -> a-z map (beyond ASCII the model lower-cases the
    Latin-1 supplement; texts with code points from U+0100 are outside the model: [text_in_model]) *)
Theorem lower_on_ascii_is_bytewise :
  forall s, all_ascii s = true -> lower s = map_ascii lower_ascii s.
Proof. exact lower_ascii_text. Qed.
Print Assumptions lower_on_ascii_is_bytewise.

(** * Externally managed connections and ManualPaginationWithFallback *)

(** With PostProcessOptions.SetPageInfo thunder treats the list the resolver returned exactly like a
    thunder-managed one (unsorted; text-filtered iff ApplyTextFilter): every per-page theorem above
    applies through this equation. *)
Theorem externally_managed_with_set_page_info_is_thunder_managed :
  forall enc cfg l x a, ei_set_page_info x = true ->
  get_connection_ext enc cfg l x a = get_connection enc cfg l (ext_args x a).
Proof. exact ext_set_page_info. Qed.
Print Assumptions externally_managed_with_set_page_info_is_thunder_managed.

(** Without it the resolver's PaginationInfo is the source of truth for totalCount, hasNextPage,
    hasPrevPage and pages; the page is everything the resolver returned (filtered iff ApplyTextFilter);
    start/end cursors are those of the first and last edge. *)
Theorem externally_managed_page_info_is_the_resolvers :
  forall enc cfg l x a t,
  l <> [] -> ei_set_page_info x = false -> ei_total x = Some t ->
  exists c, get_connection_ext enc cfg l x a = inl c /\
    c_total c = t /\ c_next c = ei_next x /\ c_prev c = ei_prev x /\ c_pages c = ei_pages x /\
    c_edges c = nodes_to_edges enc (if ei_apply_filter x then apply_text_filter cfg l a else l) /\
    c_start c = match c_edges c with [] => EmptyString | e :: _ => e_cursor e end /\
    c_end c = match c_edges c with [] => EmptyString | e :: _ => e_cursor (last (c_edges c) e) end.
Proof. exact ext_info_from_resolver. Qed.
Print Assumptions externally_managed_page_info_is_the_resolvers.

Theorem externally_managed_without_total_count_func_is_rejected :
  forall enc cfg l x a,
  l <> [] -> ei_set_page_info x = false -> ei_total x = None ->
  get_connection_ext enc cfg l x a = inr ErrNoTotalFunc.
Proof. exact ext_missing_total_func. Qed.
Print Assumptions externally_managed_without_total_count_func_is_rejected.

(** what the code does with an empty page: the empty connection, the resolver's info is not consulted *)
Theorem externally_managed_empty_page_drops_resolver_info :
  forall enc cfg x a, get_connection_ext enc cfg [] x a = inl empty_conn.
Proof. exact ext_empty_page. Qed.
Print Assumptions externally_managed_empty_page_drops_resolver_info.

(** ManualPaginationWithFallback (as repaired by patches/C11-fix-2.patch): the switch selects a
    thunder-managed connection with the field's full filter configuration, or the manual one. *)
Theorem manual_pagination_with_fallback_dispatch :
  forall enc cfg l x a,
  get_connection_dual enc true cfg l x a = get_connection enc cfg l a /\
  get_connection_dual enc false cfg l x a = get_connection_ext enc cfg l x a.
Proof. exact (fun enc cfg l x a => conj (dual_fallback enc cfg l x a) (dual_manual enc cfg l x a)). Qed.
Print Assumptions manual_pagination_with_fallback_dispatch.

(** the code as found built the fallback field without the FilterFunc options: with filterType "exact"
    registered on the field, the element "can" passes the filter but totalCount is 0 *)
Theorem fallback_without_custom_filters_refuted :
  exists cfg l x a c,
    NoDup (map n_key l) /\ sort_ok cfg a /\ args_ok a /\
    get_connection_dual_orig base64 true cfg l x a = inl c /\
    c_total c <> total_count cfg l a /\
    get_connection_dual base64 true cfg l x a <> inl c.
Proof. exact f25_refutes. Qed.
Print Assumptions fallback_without_custom_filters_refuted.

(** * The argument classes the code rejects, page size zero *)

(** A negative first or last is the client error "cannot be a negative integer" - whatever else is given
    (it is tested before first-together-with-last) ... *)
Theorem negative_first_or_last_rejected :
  forall enc cfg l a, l <> [] -> sort_ok cfg a ->
  (z_of_opt (a_first a) < 0 \/ z_of_opt (a_last a) < 0)%Z ->
  get_connection enc cfg l a = inr ErrNegative.
Proof. exact get_connection_negative. Qed.
Print Assumptions negative_first_or_last_rejected.

(** ... and first together with last (both non-negative) is the client error "cannot use both". *)
Theorem first_together_with_last_rejected :
  forall enc cfg l a f n, l <> [] -> sort_ok cfg a ->
  a_first a = Some f -> a_last a = Some n -> (0 <= f)%Z -> (0 <= n)%Z ->
  get_connection enc cfg l a = inr ErrBoth.
Proof. exact get_connection_both. Qed.
Print Assumptions first_together_with_last_rejected.

(** first = 0 is accepted: the page is empty, both cursors are empty, totalCount is still the filtered
    count, and hasNextPage is true as soon as there is a candidate - so a client that follows endCursor
    with first = 0 makes no progress (the walk theorems ask for a positive page size).  Same for last = 0. *)
Theorem first_zero_gives_the_empty_page :
  forall enc, injective enc ->
  forall cfg l a c E1 cand, NoDup (map n_key l) -> sort_ok cfg a -> args_ok a ->
  get_connection enc cfg l a = inl c ->
  drop_through (a_after a) (base_edges enc cfg l a) E1 -> keep_until (a_before a) E1 cand ->
  a_first a = Some 0%Z ->
  c_edges c = [] /\ c_start c = EmptyString /\ c_end c = EmptyString /\
  c_total c = total_count cfg l a /\ (cand <> [] -> c_next c = true).
Proof. exact first_zero_page. Qed.
Print Assumptions first_zero_gives_the_empty_page.

Theorem last_zero_gives_the_empty_page :
  forall enc, injective enc ->
  forall cfg l a c E1 cand, NoDup (map n_key l) -> sort_ok cfg a -> args_ok a ->
  get_connection enc cfg l a = inl c ->
  drop_through (a_after a) (base_edges enc cfg l a) E1 -> keep_until (a_before a) E1 cand ->
  a_last a = Some 0%Z ->
  c_edges c = [] /\ c_start c = EmptyString /\ c_end c = EmptyString /\
  c_total c = total_count cfg l a /\ (cand <> [] -> c_prev c = true).
Proof. exact last_zero_page. Qed.
Print Assumptions last_zero_gives_the_empty_page.

(** * Walks over externally managed connections and ManualPaginationWithFallback

    [walk_forward_by get] follows endCursor through any page function (it is what the correspondence check
    runs for every kind of field); through a thunder-managed connection it is the walk of the theorems above. *)
Theorem generic_walk_is_the_managed_walk :
  forall enc cfg l a k fuel cur,
  walk_forward_by (get_connection enc cfg l) fuel a k cur = walk_forward_from enc fuel cfg l a k cur /\
  walk_backward_by (get_connection enc cfg l) fuel a k cur = walk_backward_from enc fuel cfg l a k cur.
Proof.
  exact (fun enc cfg l a k fuel cur =>
           conj (walk_forward_by_managed enc cfg l a k fuel cur) (walk_backward_by_managed enc cfg l a k fuel cur)).
Qed.
Print Assumptions generic_walk_is_the_managed_walk.

(** An externally managed connection whose resolver sets PostProcessOptions.SetPageInfo (and returns the
    whole list every time): walking it partitions what the resolver returned - text-filtered iff
    ApplyTextFilter, never sorted ([ext_list]) - whatever PaginationInfo the resolver reports. *)
Theorem externally_managed_walk_forward_partition :
  forall enc, injective enc ->
  forall cfg l x a k, ei_set_page_info x = true -> NoDup (map n_key l) -> (0 < k)%Z ->
  exists pages,
    walk_forward_by (get_connection_ext enc cfg l x) (S (List.length l)) a k None = (map inl pages, true) /\
    pages_nodes pages = ext_list cfg l x a /\
    NoDup (map n_key (pages_nodes pages)) /\
    Forall (fun c => (Z.of_nat (List.length (c_edges c)) <= k)%Z /\
                     c_total c = Z.of_nat (List.length (ext_list cfg l x a))) pages.
Proof. exact ext_walk_forward_partition. Qed.
Print Assumptions externally_managed_walk_forward_partition.

Theorem externally_managed_walk_backward_partition :
  forall enc, injective enc ->
  forall cfg l x a k, ei_set_page_info x = true -> NoDup (map n_key l) -> (0 < k)%Z ->
  exists pages,
    walk_backward_by (get_connection_ext enc cfg l x) (S (List.length l)) a k None = (map inl pages, true) /\
    pages_nodes (rev pages) = ext_list cfg l x a /\
    NoDup (map n_key (pages_nodes (rev pages))) /\
    Forall (fun c => (Z.of_nat (List.length (c_edges c)) <= k)%Z /\
                     c_total c = Z.of_nat (List.length (ext_list cfg l x a))) pages.
Proof. exact ext_walk_backward_partition. Qed.
Print Assumptions externally_managed_walk_backward_partition.

(** ManualPaginationWithFallback with the switch on the fallback: the walk is the thunder-managed walk (all
    walk theorems apply); on the manual side it is the externally managed walk. *)
Theorem manual_pagination_with_fallback_walks :
  forall enc cfg l x a k fuel cur,
  walk_forward_by (get_connection_dual enc true cfg l x) fuel a k cur = walk_forward_from enc fuel cfg l a k cur /\
  walk_forward_by (get_connection_dual enc false cfg l x) fuel a k cur =
    walk_forward_by (get_connection_ext enc cfg l x) fuel a k cur.
Proof.
  exact (fun enc cfg l x a k fuel cur =>
           conj (eq_trans (walk_forward_by_ext (get_connection_dual enc true cfg l x) (get_connection enc cfg l) a a k
                             (fun _ => eq_refl) fuel cur)
                          (walk_forward_by_managed enc cfg l a k fuel cur))
                (walk_forward_by_ext (get_connection_dual enc false cfg l x) (get_connection_ext enc cfg l x) a a k
                   (fun _ => eq_refl) fuel cur)).
Qed.
Print Assumptions manual_pagination_with_fallback_walks.

(** * The cursor encoding of the code *)

Theorem base64_is_injective : injective base64.
Proof. exact base64_injective. Qed.
Print Assumptions base64_is_injective.

(** hence the walks partition the list for the encoding the code uses *)
Theorem walk_forward_partition_base64 :
  forall cfg l a k, NoDup (map n_key l) -> sort_ok cfg a -> (0 < k)%Z ->
  exists pages,
    walk_forward base64 cfg l a k = (map inl pages, true) /\
    pages_nodes pages = base_list cfg l a /\
    NoDup (map n_key (pages_nodes pages)) /\
    Forall (fun c => (Z.of_nat (List.length (c_edges c)) <= k)%Z /\
                     c_total c = total_count cfg l a) pages.
Proof. exact (ProofsMain.walk_forward_partition base64 base64_injective). Qed.
Print Assumptions walk_forward_partition_base64.

(** * Non-vacuity: a list, arguments and walks that meet the hypotheses *)

Definition ex_cfg : config :=
  mk_cfg [mk_ff "t0_batch" "t0" IBatch; mk_ff "t0_fb" "t0" IFallback; mk_ff "t1_exp" "t1" IExpensive]%string
         ["n0"%string; "s0"%string] false c11_customs.
Definition ex_node (k t : string) (n : Z) (s : string) : node :=
  mk_node k (JStr k) [("t0"%string, t)] [("n0"%string, SInt n); ("s0"%string, SStr s)].
Definition ex_list : list node :=
  [ex_node "5" "can" 3 "b"; ex_node "2" "Man" 1 "B"; ex_node "9" "cannot" 2 "a";
   ex_node "4" "zed" 2 "C"; ex_node "7" "so can" 1 "c"; ex_node "1" "AN" 0 ""]%string.
Definition ex_args : pargs :=
  mk_args None None None None (Some "an ""so can"""%string) None (Some "n0"%string) true None.

Example ex_hypotheses :
  NoDup (map n_key ex_list) /\ sort_ok ex_cfg ex_args /\
  map n_key (base_list ex_cfg ex_list ex_args) = ["5"; "9"; "2"; "7"; "1"]%string.
Proof.
  split; [|split]; [|reflexivity|vm_compute; reflexivity].
  vm_compute. repeat constructor; simpl; intuition discriminate.
Qed.

Example ex_walk_forward :
  let '(pages, fin) := walk_forward base64 ex_cfg ex_list ex_args 2 in
  fin = true /\
  map (fun r => match r with inl c => (map (fun e => n_key (e_node e)) (c_edges c), c_next c, c_total c)
                           | inr _ => ([], false, 0%Z) end) pages =
  [(["5"; "9"], true, 5%Z); (["2"; "7"], true, 5%Z); (["1"], false, 5%Z)]%string.
Proof. vm_compute. split; reflexivity. Qed.

Example ex_walk_backward :
  let '(pages, fin) := walk_backward base64 ex_cfg ex_list ex_args 2 in
  fin = true /\
  map (fun r => match r with inl c => (map (fun e => n_key (e_node e)) (c_edges c), c_prev c)
                           | inr _ => ([], false) end) pages =
  [(["7"; "1"], true); (["9"; "2"], true); (["5"], false)]%string.
Proof. vm_compute. split; reflexivity. Qed.

(** a page with both cursors: after = cursor(5), before = cursor(1) (the last element): nothing lies
    beyond [before], hasNextPage is false (the repaired behaviour), hasPrevPage is false *)
Example ex_after_before :
  match get_connection base64 ex_cfg ex_list
          (mk_args None None (Some (base64 "5")) (Some (base64 "1")) (Some "an ""so can"""%string)
                   None (Some "n0"%string) true None) with
  | inl c => (map (fun e => n_key (e_node e)) (c_edges c), c_next c, c_prev c)
             = (["9"; "2"; "7"]%string, false, false)
  | inr _ => False
  end.
Proof. vm_compute. reflexivity. Qed.

(** a custom FilterFunc ("prefix": comma-separated, case-sensitive prefixes), an unsigned sort value above
    2^63 and float sort values including -0 = +0 *)
Example ex_custom_filter_uint_float :
  let l := [mk_node "1" JNull [("t0", "can")] [("u0", SUint 3); ("f0", SFloat 4602678819172646912)];
            mk_node "2" JNull [("t0", "Man")] [("u0", SUint 18446744073709551615); ("f0", SFloat (-4609434218613702656))];
            mk_node "3" JNull [("t0", "cannot")] [("u0", SUint 2); ("f0", SFloat 0)];
            mk_node "4" JNull [("t0", "zz")] [("u0", SUint 2); ("f0", SFloat 0)]]%string%Z in
  let cfg := mk_cfg [mk_ff "t0_plain" "t0" IPlain]%string ["u0"; "f0"]%string false c11_customs in
  map n_key (base_list cfg l (mk_args None None None None (Some "ca,M") None (Some "u0") true (Some "prefix")))%string
    = ["2"; "1"; "3"]%string /\
  map n_key (base_list cfg l (mk_args None None None None None None (Some "f0") false None))%string
    = ["2"; "3"; "4"; "1"]%string.
Proof. vm_compute. split; reflexivity. Qed.

(** an externally managed page: the resolver's info is reported, the page is what it returned *)
Example ex_externally_managed :
  match get_connection_ext base64 ex_cfg ex_list (mk_ext (Some 77%Z) true false [] false false)
          (mk_args (Some 1%Z) None None None None None None false None) with
  | inl c => (c_total c, c_next c, c_prev c, List.length (c_edges c)) = (77%Z, true, false, 6)
  | inr _ => False
  end.
Proof. vm_compute. reflexivity. Qed.

(** walking an externally managed connection (SetPageInfo, ApplyTextFilter; the resolver's own page info
    says "no next page" and is ignored): three pages of the filtered, unsorted list *)
Example ex_walk_externally_managed :
  let '(pages, fin) := walk_forward_by (get_connection_ext base64 ex_cfg ex_list (mk_ext (Some 77%Z) false false [] true true))
                         (S (List.length ex_list)) ex_args 2 None in
  fin = true /\
  map (fun r => match r with inl c => (map (fun e => n_key (e_node e)) (c_edges c), c_next c, c_total c)
                           | inr _ => ([], false, 0%Z) end) pages =
  [(["5"; "2"], true, 5%Z); (["9"; "7"], true, 5%Z); (["1"], false, 5%Z)]%string.
Proof. vm_compute. split; reflexivity. Qed.

(** first = 0 and a negative last *)
Example ex_first_zero_and_negative :
  match get_connection base64 ex_cfg ex_list (mk_args (Some 0%Z) None None None None None None false None) with
  | inl c => (c_edges c, c_next c, c_end c, c_total c) = ([], true, EmptyString, 6%Z)
  | inr _ => False
  end /\
  get_connection base64 ex_cfg ex_list (mk_args (Some 2%Z) (Some (-1)%Z) None None None None None false None)
    = inr ErrNegative.
Proof. vm_compute. split; reflexivity. Qed.
