From Thunder Require Import Lib.Json Federation.Merge.
Theorem placeholder : True. Proof. exact I. Qed.
Print Assumptions placeholder.
