(** C09 -- the merged gateway schema is executable by every live version of every service.

    Model: Federation/Merge.v (mergeTypeRefs, mergeInputFields, mergeFields, mergePossibleTypes,
    mergeEnumValues, mergeTypes, mergeSchemas, mergeSchemaSlice, processSchemaVersions,
    MergeIntrospectionSchemas of federation/merge_schemas.go and federation/schema.go, and the
    validity of a query against an introspection schema).  [valid_query sok strict s q]:
    [strict = true] is the GraphQL rule, [strict = false] what graphql.PrepareQuery accepts
    (compared with PrepareQuery on every run).  [fedkeys_ok per merged]: the federation-key verdict of
    ConvertVersionedSchemas (validateFederationKeys, schema.go:42-76), compared with the implementation's
    accept / "Invalid federation key" outcome on every run (component 4). *)
From Coq Require Import List String Bool ZArith.
From Thunder Require Import Lib.Json Federation.Merge Federation.MergeProofsBase Federation.MergeProofsTref
  Federation.MergeProofs Federation.MergeProofsValid Federation.MergeProofsMore Federation.MergeProofsComm
  Federation.MergeProofsClosed Federation.MergeProofsKeys.
From Coq Require Import Permutation.
Import ListNotations.
Open Scope string_scope.

(** Soundness of the intersection, for any number of versions and every query: what validates against
    mergeSchemaSlice(versions, Intersection) validates against every version. *)
Theorem intersection_sound :
  forall (sok : string -> json -> bool) (vs : list schema) (m : schema) (q : list sel),
    (forall v, In v vs -> wf_schema v = true) ->
    merge_slice Intersection vs = Some m ->
    valid_query sok true m q = true ->
    forall v, In v vs -> valid_query sok true v q = true.
Proof. exact MergeProofsValid.intersection_sound. Qed.
Print Assumptions intersection_sound.

(** ... and what validates under the GraphQL rule is accepted by thunder's PrepareQuery (its lax reading). *)
Theorem strict_valid_is_accepted :
  forall (sok : string -> json -> bool) (s : schema) (q : list sel),
    valid_query sok true s q = true -> valid_query sok false s q = true.
Proof. exact MergeProofsMore.valid_query_mono. Qed.
Print Assumptions strict_valid_is_accepted.

(** Structure behind it: everything the intersection of two schemas offers (types, fields, arguments with
    at-least-as-strict types, required arguments, input fields, union members, enum values) both provide. *)
Theorem intersection_refines_both :
  forall a b m, wf_schema a = true -> wf_schema b = true ->
    merge_schemas Intersection a b = Some m -> refines m a /\ refines m b.
Proof. exact MergeProofs.intersection_refines. Qed.
Print Assumptions intersection_refines_both.

(** The merge keeps schemas well-formed, so the fold can be iterated (used by the n-ary theorems). *)
Theorem merge_preserves_wf :
  forall md a b r, wf_schema a = true -> wf_schema b = true ->
    merge_schemas md a b = Some r -> wf_schema r = true.
Proof. exact MergeProofsValid.merge_schemas_wf. Qed.
Print Assumptions merge_preserves_wf.

(** Nullability lattice, n-ary, by induction over the fold of mergeTypeRefs: at every nesting level an
    input position is NON_NULL iff it is in some side, an output position iff it is in every side. *)
Theorem nullability_lattice_nary :
  forall (is_input : bool) (l : list tref) (t c : tref),
    merge_trefs is_input t l = Some c ->
    (forall x, In x l -> List.length (levels x) = List.length (levels t)) /\
    List.length (levels c) = List.length (levels t) /\
    forall k, nth k (levels c) false =
              if is_input then existsb (fun x => nth k (levels x) false) (t :: l)
              else forallb (fun x => nth k (levels x) false) (t :: l).
Proof. exact MergeProofsTref.merge_trefs_levels. Qed.
Print Assumptions nullability_lattice_nary.

(** The same rule read at schema level, either mode: a field both sides have gets the level-wise AND of
    their NON_NULLs, an argument both sides have the level-wise OR. *)
Theorem nullability_at_schema_level :
  forall md a b m ty ta tb f fa fb,
    wf_schema a = true -> wf_schema b = true -> merge_schemas md a b = Some m ->
    find_type a ty = Some ta -> find_type b ty = Some tb -> t_kind ta = "OBJECT" ->
    find_field (t_fields ta) f = Some fa -> find_field (t_fields tb) f = Some fb ->
    exists mt mf, find_type m ty = Some mt /\ find_field (t_fields mt) f = Some mf /\
      levels (f_type mf) = zipb andb (levels (f_type fa)) (levels (f_type fb)) /\
      forall x xa xb, find_ifield (f_args fa) x = Some xa -> find_ifield (f_args fb) x = Some xb ->
        exists mx, find_ifield (f_args mf) x = Some mx /\
                   levels (if_type mx) = zipb orb (levels (if_type xa)) (levels (if_type xb)).
Proof. exact MergeProofsMore.merged_field_nullability. Qed.
Print Assumptions nullability_at_schema_level.

(** Completeness of the union at field level, for any number of services. *)
Theorem union_complete :
  forall l acc m, wf_schema acc = true -> (forall v, In v l -> wf_schema v = true) ->
    merge_fold Union acc l = Some m ->
    forall v ty f, In v (acc :: l) -> has_field v ty f = true -> has_field m ty f = true.
Proof. exact MergeProofsMore.union_slice_complete. Qed.
Print Assumptions union_complete.

(** Commutativity of mergeSchemas (either mode): byte order on strings is a strict total order, so the sorted
    list of distinct names is canonical, and every per-name pair merge is symmetric.  [schemas_agree]: a union
    member / interface entry that both sides list names the same kind on both (always OBJECT / INTERFACE in an
    introspection result).
    For the n-ary fold, invariance under permutation of services / versions is NOT proved: it needs
    associativity of the merge, and it can only hold when both orders succeed -- see
    [intersection_error_depends_on_order_refuted].  The harness checks renaming / reordering independence of
    MergeIntrospectionSchemas on every generated case. *)
Theorem merge_commutative :
  forall md a b, wf_schema a = true -> wf_schema b = true -> schemas_agree a b ->
    merge_schemas md a b = merge_schemas md b a.
Proof. exact MergeProofsComm.merge_schemas_comm. Qed.
Print Assumptions merge_commutative.

(** Closure (either mode): every type referenced from a surviving field, argument, input field or union member
    survives with the kind the reference names, given each input closed. *)
Theorem merge_closed :
  forall md a b m,
    wf_schema a = true -> wf_schema b = true -> closed a = true -> closed b = true ->
    (forall x y p q, In x a -> In y b -> t_name x = t_name y -> In p (t_possible x) -> In q (t_possible y) ->
       fst p = fst q -> snd p = snd q) ->
    merge_schemas md a b = Some m -> closed m = true.
Proof. exact MergeProofsClosed.merge_schemas_closed. Qed.
Print Assumptions merge_closed.

(** The union of *services* is not sound in the same sense (DESIGN F17, confirmed on the implementation,
    recorded as known findings): an optional argument only one of two services serving a field declares
    survives; the query using it is valid against the union and invalid -- even for thunder's lax parser,
    "unexpected args" -- against the other service. *)
Theorem union_keeps_unknown_argument_refuted :
  exists a b m q,
    wf_schema a = true /\ wf_schema b = true /\ closed a = true /\ closed b = true /\
    merge_schemas Union a b = Some m /\ has_field a "Query" "f" = true /\
    valid_query thunder_scalar_ok true m q = true /\ valid_query thunder_scalar_ok true a q = false /\
    valid_query thunder_scalar_ok false a q = false.
Proof. exact MergeProofsMore.union_keeps_unknown_argument. Qed.
Print Assumptions union_keeps_unknown_argument_refuted.

(** "The outcome does not depend on how versions are named": false for the error outcome (known finding). *)
Theorem intersection_error_depends_on_order_refuted :
  exists v1 v2 v3 m,
    wf_schema v1 = true /\ wf_schema v2 = true /\ wf_schema v3 = true /\
    merge_slice Intersection [v1; v3; v2] = Some m /\ merge_slice Intersection [v1; v2; v3] = None.
Proof. exact MergeProofsMore.intersection_error_depends_on_order. Qed.
Print Assumptions intersection_error_depends_on_order_refuted.

(** Non-vacuity: two well-formed, closed versions that differ (a field removed, an argument made required,
    an output made nullable, an enum value dropped), their intersection, and a query with an argument, an
    enum value and a nested selection that is valid against it. *)
Definition ex_enum vs := mk_itype "E" "ENUM" [] [] [] vs [].
Definition ex_obj fs := mk_itype "O" "OBJECT" fs [] [] [] [].
Definition ex_v1 : schema :=
  [ex_enum ["V1"; "V2"]; sc_int; ex_obj [mk_field "x" (TNonNull INT) []; mk_field "y" INT []];
   query_of [mk_field "o" (TNonNull (TNamed "OBJECT" "O")) [mk_ifield "e" (TNamed "ENUM" "E"); mk_ifield "n" INT]]].
Definition ex_v2 : schema :=
  [ex_enum ["V1"]; sc_int; ex_obj [mk_field "x" INT []];
   query_of [mk_field "o" (TNamed "OBJECT" "O") [mk_ifield "e" (TNonNull (TNamed "ENUM" "E"))]]].
Definition ex_q : list sel := [SField "o" "o" [("e", JStr "V1")] [SField "x" "x" [] []]].

Example ex_nonvacuous :
  wf_schema ex_v1 = true /\ wf_schema ex_v2 = true /\ closed ex_v1 = true /\ closed ex_v2 = true /\
  merge_slice Intersection [ex_v1; ex_v2] =
    Some [ex_enum ["V1"]; ex_obj [mk_field "x" INT []];
          query_of [mk_field "o" (TNamed "OBJECT" "O") [mk_ifield "e" (TNonNull (TNamed "ENUM" "E"))]]; sc_int] /\
  (exists m, merge_slice Intersection [ex_v1; ex_v2] = Some m /\ valid_query thunder_scalar_ok true m ex_q = true) /\
  valid_query thunder_scalar_ok true ex_v1 ex_q = true /\ valid_query thunder_scalar_ok true ex_v2 ex_q = true.
Proof. vm_compute. repeat split; try reflexivity. eexists; split; reflexivity. Qed.

(** Federation keys (ConvertVersionedSchemas / validateFederationKeys).  Acceptance means: every key field a
    service asks for in Federation.<svc>_<Object>(keys:) is a field of the object on every service that is a root
    for it (has <Object>._federation) -- so the hop from any root service can be planned with fields that service
    exposes ... *)
Theorem federation_keys_accepted_are_exposed :
  forall per m,
    fedkeys_ok per m = true ->
    forall asker obj k, In asker per -> In (obj, k) (asked_keys m (snd asker)) ->
    forall root t, In root per -> In t (snd root) -> t_name t = obj -> type_has_field t "_federation" = true ->
      type_has_field t k = true.
Proof. exact MergeProofsKeys.fedkeys_ok_sound. Qed.
Print Assumptions federation_keys_accepted_are_exposed.

(** ... refusal has a culprit (a root service that lacks an asked-for key field) ... *)
Theorem federation_keys_refused_has_culprit :
  forall per m,
    fedkeys_ok per m = false ->
    exists asker obj k root t, In asker per /\ In (obj, k) (asked_keys m (snd asker)) /\ In root per /\ In t (snd root) /\
      t_name t = obj /\ type_has_field t "_federation" = true /\ type_has_field t k = false.
Proof. exact MergeProofsKeys.fedkeys_refused_witness. Qed.
Print Assumptions federation_keys_refused_has_culprit.

(** ... and the verdict does not depend on how the services are named or in which order they are visited. *)
Theorem federation_keys_verdict_independent_of_naming :
  forall per per' m, Permutation (map snd per) (map snd per') -> fedkeys_ok per m = fedkeys_ok per' m.
Proof. exact MergeProofsKeys.fedkeys_ok_naming. Qed.
Print Assumptions federation_keys_verdict_independent_of_naming.

(** Federated objects (validateFederatedObjects): acceptance means an object some service federates is
    federated by every service that has it; the verdict is symmetric in the services (no dependence on names
    or on the order in which they are visited). *)
Theorem federated_objects_accepted_are_federated_everywhere :
  forall per m,
    fedobjs_ok per m = true ->
    forall mt, In mt m -> t_name mt <> "Query" -> t_name mt <> "Mutation" ->
    forall a ta, In a per -> In ta (snd a) -> t_name ta = t_name mt -> type_has_field ta "_federation" = true ->
    forall b tb, In b per -> In tb (snd b) -> t_name tb = t_name mt -> type_has_field tb "_federation" = true.
Proof. exact MergeProofsKeys.fedobjs_ok_sound. Qed.
Print Assumptions federated_objects_accepted_are_federated_everywhere.

Theorem federated_objects_verdict_independent_of_naming :
  forall per per' m, Permutation (map snd per) (map snd per') -> fedobjs_ok per m = fedobjs_ok per' m.
Proof. exact MergeProofsKeys.fedobjs_ok_naming. Qed.
Print Assumptions federated_objects_verdict_independent_of_naming.
