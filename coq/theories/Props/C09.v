(** C09 -- the merged gateway schema is executable by every live version of every service.

    Model: Federation/Merge.v (mergeTypeRefs, mergeInputFields, mergeFields, mergePossibleTypes,
    mergeEnumValues, mergeTypes, mergeSchemas, mergeSchemaSlice, processSchemaVersions,
    MergeIntrospectionSchemas of federation/merge_schemas.go and federation/schema.go, and the
    validity of a query against an introspection schema).  [valid_query sok strict s q]:
    [strict = true] is the GraphQL rule, [strict = false] what graphql.PrepareQuery accepts
    (compared with PrepareQuery on every run).  [fedkeys_ok per merged]: the federation-key verdict of
    ConvertVersionedSchemas (validateFederationKeys, schema.go:42-76), compared with the implementation's
    accept / "Invalid federation key" outcome on every run (component 4).
    [slice_of repaired] / [merge_all_r repaired]: mergeSchemaSlice as it is ([false], the plain left fold) and as
    repaired by patches/C09-fix-1 ([true], every pair of schemas checked first); which of the two the
    implementation under test shows is probed on every run (c_repaired) and both are compared (components 1, 5). *)
From Coq Require Import List String Bool ZArith.
From Thunder Require Import Lib.Json Federation.Merge Federation.MergeProofsBase Federation.MergeProofsTref
  Federation.MergeProofs Federation.MergeProofsValid Federation.MergeProofsMore Federation.MergeProofsComm
  Federation.MergeProofsClosed Federation.MergeProofsKeys Federation.MergeProofsNary Federation.MergeProofsShape
  Federation.MergeProofsPerm Federation.MergeProofsPairs Federation.MergeProofsAll Federation.MergeProofsLevels.
From Coq Require Import Permutation.
Import ListNotations.
Open Scope string_scope.

(** Soundness of the intersection, for any number of versions and every query: what validates against
    mergeSchemaSlice(versions, Intersection) validates against every version. *)
Theorem intersection_sound :
  forall (sok : string -> json -> bool) (vs : list schema) (m : schema) (q : list sel),
    (forall v, In v vs -> wf_schema v = true) ->
    merge_slice Intersection vs = Some m ->
    valid_query sok true m q = true ->
    forall v, In v vs -> valid_query sok true v q = true.
Proof. exact MergeProofsValid.intersection_sound. Qed.
Print Assumptions intersection_sound.

(** ... and what validates under the GraphQL rule is accepted by thunder's PrepareQuery (its lax reading). *)
Theorem strict_valid_is_accepted :
  forall (sok : string -> json -> bool) (s : schema) (q : list sel),
    valid_query sok true s q = true -> valid_query sok false s q = true.
Proof. exact MergeProofsMore.valid_query_mono. Qed.
Print Assumptions strict_valid_is_accepted.

(** Structure behind it: everything the intersection of two schemas offers (types, fields, arguments with
    at-least-as-strict types, required arguments, input fields, union members, enum values) both provide. *)
Theorem intersection_refines_both :
  forall a b m, wf_schema a = true -> wf_schema b = true ->
    merge_schemas Intersection a b = Some m -> refines m a /\ refines m b.
Proof. exact MergeProofs.intersection_refines. Qed.
Print Assumptions intersection_refines_both.

(** The merge keeps schemas well-formed, so the fold can be iterated (used by the n-ary theorems). *)
Theorem merge_preserves_wf :
  forall md a b r, wf_schema a = true -> wf_schema b = true ->
    merge_schemas md a b = Some r -> wf_schema r = true.
Proof. exact MergeProofsValid.merge_schemas_wf. Qed.
Print Assumptions merge_preserves_wf.

(** Nullability lattice, n-ary, by induction over the fold of mergeTypeRefs: at every nesting level an
    input position is NON_NULL iff it is in some side, an output position iff it is in every side. *)
Theorem nullability_lattice_nary :
  forall (is_input : bool) (l : list tref) (t c : tref),
    merge_trefs is_input t l = Some c ->
    (forall x, In x l -> List.length (levels x) = List.length (levels t)) /\
    List.length (levels c) = List.length (levels t) /\
    forall k, nth k (levels c) false =
              if is_input then existsb (fun x => nth k (levels x) false) (t :: l)
              else forallb (fun x => nth k (levels x) false) (t :: l).
Proof. exact MergeProofsTref.merge_trefs_levels. Qed.
Print Assumptions nullability_lattice_nary.

(** The same rule read at schema level, either mode: a field both sides have gets the level-wise AND of
    their NON_NULLs, an argument both sides have the level-wise OR. *)
Theorem nullability_at_schema_level :
  forall md a b m ty ta tb f fa fb,
    wf_schema a = true -> wf_schema b = true -> merge_schemas md a b = Some m ->
    find_type a ty = Some ta -> find_type b ty = Some tb -> t_kind ta = "OBJECT" ->
    find_field (t_fields ta) f = Some fa -> find_field (t_fields tb) f = Some fb ->
    exists mt mf, find_type m ty = Some mt /\ find_field (t_fields mt) f = Some mf /\
      levels (f_type mf) = zipb andb (levels (f_type fa)) (levels (f_type fb)) /\
      forall x xa xb, find_ifield (f_args fa) x = Some xa -> find_ifield (f_args fb) x = Some xb ->
        exists mx, find_ifield (f_args mf) x = Some mx /\
                   levels (if_type mx) = zipb orb (levels (if_type xa)) (levels (if_type xb)).
Proof. exact MergeProofsMore.merged_field_nullability. Qed.
Print Assumptions nullability_at_schema_level.

(** Completeness of the union at field level, for any number of services. *)
Theorem union_complete :
  forall l acc m, wf_schema acc = true -> (forall v, In v l -> wf_schema v = true) ->
    merge_fold Union acc l = Some m ->
    forall v ty f, In v (acc :: l) -> has_field v ty f = true -> has_field m ty f = true.
Proof. exact MergeProofsMore.union_slice_complete. Qed.
Print Assumptions union_complete.

(** Commutativity of mergeSchemas (either mode): byte order on strings is a strict total order, so the sorted
    list of distinct names is canonical, and every per-name pair merge is symmetric.  [schemas_agree]: a union
    member / interface entry that both sides list names the same kind on both (always OBJECT / INTERFACE in an
    introspection result).
    For the n-ary fold see [merge_slice_success_order_independent] (equal results whenever two orders both
    succeed), [pairwise_compatible_every_order] (when success cannot depend on the order) and
    [merge_all_naming_independent]; the failure outcome of the plain fold does depend on the order --
    [intersection_error_depends_on_order_refuted].  The harness also checks renaming / reordering independence
    of MergeIntrospectionSchemas on every generated case. *)
Theorem merge_commutative :
  forall md a b, wf_schema a = true -> wf_schema b = true -> schemas_agree a b ->
    merge_schemas md a b = merge_schemas md b a.
Proof. exact MergeProofsComm.merge_schemas_comm. Qed.
Print Assumptions merge_commutative.

(** n-ary, either mode: the SUCCESS outcome of mergeSchemaSlice does not depend on the order of the schemas.
    (Not by swapping neighbours -- an intermediate order may fail -- but because the result of a successful fold
    is, name by name at every level, the fold over the original entries of that name, which is symmetric.) *)
Theorem merge_slice_success_order_independent :
  forall md l l' r r',
    (forall v, In v l -> wf_schema v = true) ->
    (forall a b, In a l -> In b l -> schemas_agree a b) ->
    Permutation l l' -> merge_slice md l = Some r -> merge_slice md l' = Some r' -> r = r'.
Proof. exact MergeProofsPerm.merge_slice_perm. Qed.
Print Assumptions merge_slice_success_order_independent.

(** mergeTypeRefs folded over any number of sides: no dependence on the order at all, failure included. *)
Theorem merge_trefs_order_independent :
  forall is_input t l t' l', Permutation (t :: l) (t' :: l') ->
    merge_trefs is_input t l = merge_trefs is_input t' l'.
Proof. exact MergeProofsLevels.merge_trefs_perm. Qed.
Print Assumptions merge_trefs_order_independent.

(** When can the success of the fold depend on the order?  Only if some PAIR of the schemas does not merge:
    compatibility with a third schema survives merging ... *)
Theorem merge_preserves_compatibility :
  forall md a b m c,
    wf_schema a = true -> wf_schema b = true -> wf_schema c = true -> merge_schemas md a b = Some m ->
    merge_schemas md a c <> None -> merge_schemas md b c <> None -> merge_schemas md m c <> None.
Proof. exact MergeProofsPairs.merge_preserves_compat. Qed.
Print Assumptions merge_preserves_compatibility.

(** ... so a list whose pairs (i < j) all merge folds successfully in EVERY order, always to the same schema. *)
Theorem pairwise_compatible_every_order :
  forall md l l',
    l <> [] -> (forall v, In v l -> wf_schema v = true) -> (forall a b, In a l -> In b l -> schemas_agree a b) ->
    allpairs (fun a b => merge_schemas md a b <> None) l -> Permutation l l' ->
    exists r, merge_slice md l = Some r /\ merge_slice md l' = Some r.
Proof. exact MergeProofsPairs.pairwise_every_order. Qed.
Print Assumptions pairwise_compatible_every_order.

(** The converse fails: the plain fold can accept a list with an incompatible pair (the field is dropped before
    the incompatible version is seen); these are exactly the lists the guarded fold newly refuses. *)
Theorem pairwise_converse_refuted :
  exists l r,
    (forall v, In v l -> wf_schema v = true) /\ merge_slice Intersection l = Some r /\
    ~ allpairs (fun a b => merge_schemas Intersection a b <> None) l /\ merge_slice_checked Intersection l = None.
Proof. exact MergeProofsPairs.pairwise_converse_refuted. Qed.
Print Assumptions pairwise_converse_refuted.

(** The repaired mergeSchemaSlice (patches/C09-fix-1: every pair checked first, then the same fold) does not
    depend on the order of the schemas at all -- acceptance, refusal and result. *)
Theorem merge_slice_checked_order_independent :
  forall md l l',
    (forall v, In v l -> wf_schema v = true) -> (forall a b, In a l -> In b l -> schemas_agree a b) ->
    Permutation l l' -> merge_slice_checked md l = merge_slice_checked md l'.
Proof. exact MergeProofsPairs.merge_slice_checked_perm. Qed.
Print Assumptions merge_slice_checked_order_independent.

(** MergeIntrospectionSchemas and naming.  [svc_equiv ss ss']: the same schemas grouped the same way -- services
    renamed and listed in any order, the versions of each renamed and listed in any order.  The code as it is:
    if both namings are accepted, the merged schemas are equal ... *)
Theorem merge_all_naming_independent :
  forall ss,
    (forall v, In v (all_schemas ss) -> wf_schema v = true) ->
    (forall a b, In a (all_schemas ss) -> In b (all_schemas ss) -> schemas_agree a b) ->
    forall ss', svc_equiv ss ss' ->
    forall r r', merge_all ss = Some r -> merge_all ss' = Some r' -> r = r'.
Proof. exact MergeProofsAll.merge_all_naming. Qed.
Print Assumptions merge_all_naming_independent.

(** ... and with the repair the whole outcome is the same, refusal included: the known finding
    merge-error-depends-on-naming cannot occur in the repaired code. *)
Theorem merge_all_repaired_naming_independent :
  forall ss,
    (forall v, In v (all_schemas ss) -> wf_schema v = true) ->
    (forall a b, In a (all_schemas ss) -> In b (all_schemas ss) -> schemas_agree a b) ->
    forall ss', svc_equiv ss ss' -> merge_all_r true ss = merge_all_r true ss'.
Proof. exact MergeProofsAll.merge_all_repaired_naming. Qed.
Print Assumptions merge_all_repaired_naming_independent.

(** "An argument is required if any side requires it; an output is non-null only if every side guarantees it",
    for any number of schemas, at schema level, either mode: a field of the merged schema exists in at least one
    version (Intersection: in all); its type is NON_NULL at a nesting level iff it is in EVERY version that has
    the field; each of its arguments is NON_NULL at a level iff it is in SOME version's field that has the argument. *)
Theorem nullability_nary_at_schema_level :
  forall md l m,
    (forall v, In v l -> wf_schema v = true) -> merge_slice md l = Some m ->
    forall ty mt f mf,
      find_type m ty = Some mt -> t_kind mt = "OBJECT" -> find_field (t_fields mt) f = Some mf ->
      let ts := types_named ty l in
      let fs := fields_named f ts in
      fs <> [] /\
      (md = Intersection -> List.length ts = List.length l /\ List.length fs = List.length l) /\
      (forall y, In y fs -> List.length (levels (f_type y)) = List.length (levels (f_type mf))) /\
      (forall k, nth k (levels (f_type mf)) false = forallb (fun y => nth k (levels (f_type y)) false) fs) /\
      forall a ma, find_ifield (f_args mf) a = Some ma ->
        let es := args_named a fs in
        es <> [] /\ (md = Intersection -> List.length es = List.length l) /\
        (forall y, In y es -> List.length (levels (if_type y)) = List.length (levels (if_type ma))) /\
        forall k, nth k (levels (if_type ma)) false = existsb (fun y => nth k (levels (if_type y)) false) es.
Proof. exact MergeProofsLevels.merged_field_levels_nary. Qed.
Print Assumptions nullability_nary_at_schema_level.

(** ... and the same for the fields of an INPUT_OBJECT. *)
Theorem nullability_nary_input_objects :
  forall md l m,
    (forall v, In v l -> wf_schema v = true) -> merge_slice md l = Some m ->
    forall ty mt a ma,
      find_type m ty = Some mt -> t_kind mt = "INPUT_OBJECT" -> find_ifield (t_inputs mt) a = Some ma ->
      let ts := types_named ty l in
      let es := inputs_named a ts in
      es <> [] /\ (md = Intersection -> List.length ts = List.length l /\ List.length es = List.length l) /\
      (forall y, In y es -> List.length (levels (if_type y)) = List.length (levels (if_type ma))) /\
      forall k, nth k (levels (if_type ma)) false = existsb (fun y => nth k (levels (if_type y)) false) es.
Proof. exact MergeProofsLevels.merged_input_levels_nary. Qed.
Print Assumptions nullability_nary_input_objects.

(** Closure (either mode): every type referenced from a surviving field, argument, input field or union member
    survives with the kind the reference names, given each input closed. *)
Theorem merge_closed :
  forall md a b m,
    wf_schema a = true -> wf_schema b = true -> closed a = true -> closed b = true ->
    (forall x y p q, In x a -> In y b -> t_name x = t_name y -> In p (t_possible x) -> In q (t_possible y) ->
       fst p = fst q -> snd p = snd q) ->
    merge_schemas md a b = Some m -> closed m = true.
Proof. exact MergeProofsClosed.merge_schemas_closed. Qed.
Print Assumptions merge_closed.

(** The union of *services* is not sound in the same sense (DESIGN F17, confirmed on the implementation,
    recorded as known findings): an optional argument only one of two services serving a field declares
    survives; the query using it is valid against the union and invalid -- even for thunder's lax parser,
    "unexpected args" -- against the other service. *)
Theorem union_keeps_unknown_argument_refuted :
  exists a b m q,
    wf_schema a = true /\ wf_schema b = true /\ closed a = true /\ closed b = true /\
    merge_schemas Union a b = Some m /\ has_field a "Query" "f" = true /\
    valid_query thunder_scalar_ok true m q = true /\ valid_query thunder_scalar_ok true a q = false /\
    valid_query thunder_scalar_ok false a q = false.
Proof. exact MergeProofsMore.union_keeps_unknown_argument. Qed.
Print Assumptions union_keeps_unknown_argument_refuted.

(** "The outcome does not depend on how versions are named": false for the error outcome (known finding). *)
Theorem intersection_error_depends_on_order_refuted :
  exists v1 v2 v3 m,
    wf_schema v1 = true /\ wf_schema v2 = true /\ wf_schema v3 = true /\
    merge_slice Intersection [v1; v3; v2] = Some m /\ merge_slice Intersection [v1; v2; v3] = None.
Proof. exact MergeProofsMore.intersection_error_depends_on_order. Qed.
Print Assumptions intersection_error_depends_on_order_refuted.

(** ... and the same holds for the union of services (service names): the finding is not specific to versions. *)
Theorem union_error_depends_on_order_refuted :
  exists a b c m,
    wf_schema a = true /\ wf_schema b = true /\ wf_schema c = true /\
    merge_slice Union [a; c; b] = Some m /\ merge_slice Union [a; b; c] = None /\
    merge_slice_checked Union [a; c; b] = None /\ merge_slice_checked Union [a; b; c] = None.
Proof. exact MergeProofsPairs.union_error_depends_on_order. Qed.
Print Assumptions union_error_depends_on_order_refuted.

(** Non-vacuity: two well-formed, closed versions that differ (a field removed, an argument made required,
    an output made nullable, an enum value dropped), their intersection, and a query with an argument, an
    enum value and a nested selection that is valid against it. *)
Definition ex_enum vs := mk_itype "E" "ENUM" [] [] [] vs [].
Definition ex_obj fs := mk_itype "O" "OBJECT" fs [] [] [] [].
Definition ex_v1 : schema :=
  [ex_enum ["V1"; "V2"]; sc_int; ex_obj [mk_field "x" (TNonNull INT) []; mk_field "y" INT []];
   query_of [mk_field "o" (TNonNull (TNamed "OBJECT" "O")) [mk_ifield "e" (TNamed "ENUM" "E"); mk_ifield "n" INT]]].
Definition ex_v2 : schema :=
  [ex_enum ["V1"]; sc_int; ex_obj [mk_field "x" INT []];
   query_of [mk_field "o" (TNamed "OBJECT" "O") [mk_ifield "e" (TNonNull (TNamed "ENUM" "E"))]]].
Definition ex_q : list sel := [SField "o" "o" [("e", JStr "V1")] [SField "x" "x" [] []]].

Example ex_nonvacuous :
  wf_schema ex_v1 = true /\ wf_schema ex_v2 = true /\ closed ex_v1 = true /\ closed ex_v2 = true /\
  merge_slice Intersection [ex_v1; ex_v2] =
    Some [ex_enum ["V1"]; ex_obj [mk_field "x" INT []];
          query_of [mk_field "o" (TNamed "OBJECT" "O") [mk_ifield "e" (TNonNull (TNamed "ENUM" "E"))]]; sc_int] /\
  (exists m, merge_slice Intersection [ex_v1; ex_v2] = Some m /\ valid_query thunder_scalar_ok true m ex_q = true) /\
  valid_query thunder_scalar_ok true ex_v1 ex_q = true /\ valid_query thunder_scalar_ok true ex_v2 ex_q = true.
Proof. vm_compute. repeat split; try reflexivity. eexists; split; reflexivity. Qed.

(** Non-vacuity of the n-ary theorems: three pairwise compatible versions (fields only some have, an optional
    argument only one has, NON_NULLs toggled at both list levels, an argument one version requires) whose intersection is the same in two orders; the version set of
    the known finding, which has an incompatible pair, is refused by the guarded fold in both orders. *)
Definition ex_w1 : schema := [sc_int; query_of [mk_field "f" (TNonNull INT) []; mk_field "h" (TList (TNonNull INT)) [mk_ifield "a" INT]]].
Definition ex_w2 : schema := [sc_int; query_of [mk_field "g" INT []; mk_field "h" (TNonNull (TList INT)) [mk_ifield "a" INT]]].
Definition ex_w3 : schema := [sc_int; query_of [mk_field "f" INT [mk_ifield "a" INT]; mk_field "h" (TList INT) [mk_ifield "a" (TNonNull INT)]]].
Definition ex_w123 : schema := [query_of [mk_field "h" (TList INT) [mk_ifield "a" (TNonNull INT)]]; sc_int].

Example ex_three_versions_two_orders :
  (forall v, In v [ex_w1; ex_w2; ex_w3] -> wf_schema v = true) /\
  all_pairs_ok Intersection [ex_w1; ex_w2; ex_w3] = true /\
  merge_slice Intersection [ex_w1; ex_w2; ex_w3] = Some ex_w123 /\
  merge_slice Intersection [ex_w3; ex_w1; ex_w2] = Some ex_w123 /\
  merge_slice_checked Intersection [ex_w2; ex_w3; ex_w1] = Some ex_w123 /\
  merge_slice_checked Intersection [ord_v1; ord_v2; ord_v3] = None /\
  merge_slice_checked Intersection [ord_v1; ord_v3; ord_v2] = None.
Proof. split; [intros v [<-|[<-|[<-|[]]]]; reflexivity | vm_compute; repeat split; reflexivity]. Qed.

(** ... a renaming and reordering of services and versions that both readings accept with the same schema ... *)
Definition ex_ss : services := [("a", [("v1", ex_w1); ("v2", ex_w2)]); ("b", [("v1", ex_v1)])].
Definition ex_ss' : services := [("y", [("k", ex_v1)]); ("x", [("q", ex_w2); ("p", ex_w1)])].

Example ex_renamed_services :
  svc_equiv ex_ss ex_ss' /\ (exists r, merge_all ex_ss = Some r /\ merge_all ex_ss' = Some r /\
                                       merge_all_r true ex_ss = Some r /\ merge_all_r true ex_ss' = Some r).
Proof.
  split.
  - exists [("b", [("v1", ex_v1)]); ("a", [("v1", ex_w1); ("v2", ex_w2)])]. split; [apply perm_swap|].
    repeat constructor.
  - vm_compute. eexists. repeat split; reflexivity.
Qed.

(** ... and the n-ary nullability rule on three versions: h is a list in all three, NON_NULL outside only in one
    and inside only in another (both dropped); its argument a is NON_NULL because one version requires it. *)
Example ex_nullability_nary :
  exists m mt mf ma,
    merge_slice Union [ex_w1; ex_w2; ex_w3] = Some m /\ find_type m "Query" = Some mt /\ t_kind mt = "OBJECT" /\
    find_field (t_fields mt) "h" = Some mf /\ levels (f_type mf) = [false; false] /\
    List.length (fields_named "h" (types_named "Query" [ex_w1; ex_w2; ex_w3])) = 3 /\
    find_ifield (f_args mf) "a" = Some ma /\ levels (if_type ma) = [true] /\
    List.length (args_named "a" (fields_named "h" (types_named "Query" [ex_w1; ex_w2; ex_w3]))) = 3.
Proof. vm_compute. do 4 eexists. repeat split; reflexivity. Qed.

(** Federation keys (ConvertVersionedSchemas / validateFederationKeys).  Acceptance means: every key field a
    service asks for in Federation.<svc>_<Object>(keys:) is a field of the object on every service that is a root
    for it (has <Object>._federation) -- so the hop from any root service can be planned with fields that service
    exposes ... *)
Theorem federation_keys_accepted_are_exposed :
  forall per m,
    fedkeys_ok per m = true ->
    forall asker obj k, In asker per -> In (obj, k) (asked_keys m (snd asker)) ->
    forall root t, In root per -> In t (snd root) -> t_name t = obj -> type_has_field t "_federation" = true ->
      type_has_field t k = true.
Proof. exact MergeProofsKeys.fedkeys_ok_sound. Qed.
Print Assumptions federation_keys_accepted_are_exposed.

(** ... refusal has a culprit (a root service that lacks an asked-for key field) ... *)
Theorem federation_keys_refused_has_culprit :
  forall per m,
    fedkeys_ok per m = false ->
    exists asker obj k root t, In asker per /\ In (obj, k) (asked_keys m (snd asker)) /\ In root per /\ In t (snd root) /\
      t_name t = obj /\ type_has_field t "_federation" = true /\ type_has_field t k = false.
Proof. exact MergeProofsKeys.fedkeys_refused_witness. Qed.
Print Assumptions federation_keys_refused_has_culprit.

(** ... and the verdict does not depend on how the services are named or in which order they are visited. *)
Theorem federation_keys_verdict_independent_of_naming :
  forall per per' m, Permutation (map snd per) (map snd per') -> fedkeys_ok per m = fedkeys_ok per' m.
Proof. exact MergeProofsKeys.fedkeys_ok_naming. Qed.
Print Assumptions federation_keys_verdict_independent_of_naming.

(** Federated objects (validateFederatedObjects): acceptance means an object some service federates is
    federated by every service that has it; the verdict is symmetric in the services (no dependence on names
    or on the order in which they are visited). *)
Theorem federated_objects_accepted_are_federated_everywhere :
  forall per m,
    fedobjs_ok per m = true ->
    forall mt, In mt m -> t_name mt <> "Query" -> t_name mt <> "Mutation" ->
    forall a ta, In a per -> In ta (snd a) -> t_name ta = t_name mt -> type_has_field ta "_federation" = true ->
    forall b tb, In b per -> In tb (snd b) -> t_name tb = t_name mt -> type_has_field tb "_federation" = true.
Proof. exact MergeProofsKeys.fedobjs_ok_sound. Qed.
Print Assumptions federated_objects_accepted_are_federated_everywhere.

Theorem federated_objects_verdict_independent_of_naming :
  forall per per' m, Permutation (map snd per) (map snd per') -> fedobjs_ok per m = fedobjs_ok per' m.
Proof. exact MergeProofsKeys.fedobjs_ok_naming. Qed.
Print Assumptions federated_objects_verdict_independent_of_naming.
