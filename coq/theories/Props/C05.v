(* C05 - Batching: each caller gets its own result, each argument is fetched once.

   Model: Batch/Model.v, a labelled transition system of batch.Func.Invoke with one label per atomic
   section (first mutex section = LJoin; the creator's select = LWake with any cause, timers fire at any
   time; second mutex section = LUnpublish; ctx.Err() test + safeInvoke = LRun with whatever Many did
   (results of any length, error, panic) or LCancel; close(doneCh) = LDone; LReturn; LCtxCancel at any time).
   One batch context, any number of Funcs: a Func is a number, [mss] lists the Funcs' MaxSize (0 = none),
   pendingBatchGroups is keyed by (Func, shard).  [run (init mss) tr = Some s]: s is reached by the schedule
   tr.  A caller is identified by the position of its Join in the schedule; a group's args are caller ids.
   Only the creator's context exists in the model: Invoke does not look at the context of a caller that
   joins an existing group (theorem waiter_context_ignored), so cancelling a waiter's context is not a step.
   All statements hold for every list of MaxSizes, every schedule (hence every number of callers, arrival order, shard assignment,
   timer behaviour, outcome of Many, cancellation point) and every state reached, without bound. *)
From Coq Require Import List Arith.
From Thunder Require Import Batch.Model Batch.Proofs.
Import ListNotations.

(* A caller that returned got, after its group was done, either the group's error or element [index] of
   what Many returned for exactly the group's argument list, in which the caller sits at [index]. *)
Theorem return_value : forall mss tr s ci cl r,
  run (init mss) tr = Some s -> nth_error (callers s) ci = Some cl -> c_ret cl = Some r ->
  exists g, nth_error (groups s) (c_gid cl) = Some g /\ g_done g = true /\
            nth_error (g_args g) (c_index cl) = Some ci /\
            ((exists e, g_err g = Some e /\ r = RErr e) \/
             (g_err g = None /\ g_many g = Some (g_args g) /\
              exists rs v, g_res g = Some rs /\ length rs = length (g_args g) /\
                           nth_error rs (c_index cl) = Some v /\ r = RVal v)).
Proof. exact return_value_lemma. Qed.
Print Assumptions return_value.

(* Every argument is in exactly one group, at its recorded index: the recorded slot holds the caller,
   every slot of every group is the recorded slot of the caller it holds, and no caller occupies two slots. *)
Theorem argument_in_exactly_one_group : forall mss tr s,
  run (init mss) tr = Some s ->
  (forall ci cl, nth_error (callers s) ci = Some cl ->
     exists g, nth_error (groups s) (c_gid cl) = Some g /\ nth_error (g_args g) (c_index cl) = Some ci) /\
  (forall gi g i ci, nth_error (groups s) gi = Some g -> nth_error (g_args g) i = Some ci ->
     exists cl, nth_error (callers s) ci = Some cl /\ c_gid cl = gi /\ c_index cl = i) /\
  (forall gi g i gj g2 j ci, nth_error (groups s) gi = Some g -> nth_error (g_args g) i = Some ci ->
     nth_error (groups s) gj = Some g2 -> nth_error (g_args g2) j = Some ci -> gi = gj /\ i = j).
Proof. exact args_placement_lemma. Qed.
Print Assumptions argument_in_exactly_one_group.

(* Many is called at most once per group in the whole schedule ([runs_of gi tr] counts the LRun labels of
   group gi); exactly once iff the group ended in Ran, and then with exactly the group's final argument
   list (nobody joined after the call); a group that is done without a call was cancelled (its creator's
   context was cancelled and the group's error is the context error).  With the previous theorem: every
   argument is passed to Many at most once, and exactly once unless its group was cancelled. *)
Theorem many_called_once_unless_cancelled : forall mss tr s gi,
  run (init mss) tr = Some s ->
  runs_of gi tr <= 1 /\
  (forall g, nth_error (groups s) gi = Some g ->
     (runs_of gi tr = 1 <-> g_phase g = Ran) /\
     (g_phase g = Ran -> g_many g = Some (g_args g)) /\
     (g_done g = true -> runs_of gi tr = 0 -> g_phase g = Cancelled /\ g_ctxc g = true /\ g_err g = Some ECtx)).
Proof. exact many_once_lemma. Qed.
Print Assumptions many_called_once_unless_cancelled.

(* A batch never exceeds the MaxSize of its Func (when that is > 0). *)
Theorem batch_size_le_maxsize : forall mss tr s gi g,
  run (init mss) tr = Some s -> nth_error (groups s) gi = Some g ->
  0 < nth (g_fid g) mss 0 -> length (g_args g) <= nth (g_fid g) mss 0.
Proof. exact size_lemma. Qed.
Print Assumptions batch_size_le_maxsize.

(* A batch never mixes shards, nor Funcs: every caller in a group called the group's Func and has the group's
   shard.  In particular two Funcs that map their arguments to equal shard values never share a group. *)
Theorem batch_func_and_shard_homogeneous : forall mss tr s gi g i ci,
  run (init mss) tr = Some s -> nth_error (groups s) gi = Some g -> nth_error (g_args g) i = Some ci ->
  exists cl, nth_error (callers s) ci = Some cl /\ c_shard cl = g_shard g /\ c_fid cl = g_fid g.
Proof. exact shard_lemma. Qed.
Print Assumptions batch_func_and_shard_homogeneous.

(* The pending map sends the key (Func, shard) to a group of exactly that Func and shard. *)
Theorem pending_keyed_by_func_and_shard : forall mss tr s f sh gi,
  run (init mss) tr = Some s -> lookup f sh (pending s) = Some gi ->
  exists g, nth_error (groups s) gi = Some g /\ g_fid g = f /\ g_shard g = sh.
Proof. exact pending_key_lemma. Qed.
Print Assumptions pending_keyed_by_func_and_shard.

(* Invoke ignores the context of a caller that joins an existing group: the step is the same whether that
   context is cancelled or not (it is only handed to TemporarilyRelease while waiting for doneCh). *)
Theorem waiter_context_ignored : forall s f a sh c1 c2 gi,
  lookup f sh (pending s) = Some gi -> step s (LJoin f a sh c1) = step s (LJoin f a sh c2).
Proof. exact waiter_context_ignored_lemma. Qed.
Print Assumptions waiter_context_ignored.

(* done is set on every path: from every reachable state every group's creator has enabled steps, at most
   four and only its own, that lead to done, whatever Many does and whether or not the context is cancelled
   ([rank] = number of creator steps left) ... *)
Theorem done_reachable : forall mss tr s gi g,
  run (init mss) tr = Some s -> nth_error (groups s) gi = Some g ->
  exists tr' s' g', length tr' = rank g /\ length tr' <= 4 /\ (forall l, In l tr' -> label_group l = Some gi) /\
                    run s tr' = Some s' /\ nth_error (groups s') gi = Some g' /\ g_done g' = true.
Proof. exact done_reachable_lemma. Qed.
Print Assumptions done_reachable.

(* ... and once the group is done, the Return of every caller of it is enabled and yields the group's
   value / error (every caller has a group). *)
Theorem return_enabled_when_done : forall mss tr s ci cl,
  run (init mss) tr = Some s -> nth_error (callers s) ci = Some cl -> c_ret cl = None ->
  exists g, nth_error (groups s) (c_gid cl) = Some g /\
    (g_done g = true ->
     exists s' cl', step s (LReturn ci) = Some s' /\ nth_error (callers s') ci = Some cl' /\
                    c_ret cl' = Some (ret_of g (c_index cl))).
Proof. exact return_enabled_lemma. Qed.
Print Assumptions return_enabled_when_done.

(* ---- the hypotheses are satisfiable by non-trivial states ---- *)

(* MaxSize 2, two shards: callers 0,1 fill group 0 (roll-over), caller 2 (shard 1) creates group 1, caller 3
   creates group 2 on shard 0 while group 0 is still waiting; group 0 wakes by maxsize, runs, its callers get
   their own results; group 1's creator is cancelled; caller 4 joins group 2 between its wake-up and its
   unpublish; Many returns a short result for group 2. *)
Example ex_trace : list label :=
  [ LJoin 0 10 0 false; LJoin 0 11 0 false; LJoin 0 12 1 false; LJoin 0 13 0 false;
    LWake 0 CMaxSize; LUnpublish 0; LRun 0 (ORes [100; 110]); LDone 0; LReturn 1; LReturn 0;
    LCtxCancel 1; LWake 1 CCtxDone; LUnpublish 1; LCancel 1; LDone 1; LReturn 2;
    LWake 2 CInterval; LJoin 0 14 0 false; LUnpublish 2; LRun 2 (ORes [130]); LDone 2; LReturn 3; LReturn 4 ].
Example ex_reachable :
  option_map (fun s => (map g_args (groups s), map c_ret (callers s), pending s)) (run (init [2]) ex_trace)
  = Some ([[0; 1]; [2]; [3; 4]],
          [Some (RVal 100); Some (RVal 110); Some (RErr ECtx); Some (RErr EWrongLen); Some (RErr EWrongLen)], []).
Proof. vm_compute. reflexivity. Qed.

(* two Funcs (MaxSize 0 and 2) whose arguments all have shard 0: callers of Func 0 and of Func 1 form
   different groups although the shard values are equal; Func 1 rolls over at 2; a waiter with a cancelled
   context still gets its value *)
Example ex_two_funcs :
  option_map (fun s => (map (fun g => (g_fid g, g_args g)) (groups s), map c_ret (callers s)))
    (run (init [0; 2])
       [ LJoin 0 1 0 false; LJoin 1 2 0 false; LJoin 0 3 0 true; LJoin 1 4 0 false; LJoin 1 5 0 false;
         LWake 1 CMaxSize; LUnpublish 1; LRun 1 (ORes [20; 40]); LDone 1; LReturn 1; LReturn 3;
         LWake 0 CInterval; LUnpublish 0; LRun 0 (ORes [10; 30]); LDone 0; LReturn 0; LReturn 2 ])
  = Some ([(0, [0; 2]); (1, [1; 3]); (1, [4])],
          [Some (RVal 10); Some (RVal 20); Some (RVal 30); Some (RVal 40); None]).
Proof. vm_compute. reflexivity. Qed.

(* Many cannot run before the group is unpublished, nor twice, nor on a cancelled context *)
Example ex_not_enabled :
  run (init []) [LJoin 0 1 0 false; LWake 0 CInterval; LRun 0 OErr] = None /\
  run (init []) [LJoin 0 1 0 false; LWake 0 CInterval; LUnpublish 0; LRun 0 OErr; LRun 0 OErr] = None /\
  run (init []) [LJoin 0 1 0 true; LWake 0 CCtxDone; LUnpublish 0; LRun 0 OErr] = None /\
  run (init []) [LJoin 0 1 0 false; LReturn 0] = None.
Proof. vm_compute. repeat split; reflexivity. Qed.
