(* C05 - Batching: each caller gets its own result, each argument is fetched once.

   Model: Batch/Model.v, a labelled transition system of batch.Func.Invoke with one label per atomic
   section (first mutex section = LJoin; the creator's select = LWake with any cause, timers fire at any
   time; second mutex section = LUnpublish; ctx.Err() test + safeInvoke = LRun with whatever Many did
   (results of any length, error, panic) or LCancel; close(doneCh) = LDone; LReturn; LCtxCancel at any time).
   [run (init ms) tr = Some s]: s is reached by the schedule tr with Func.MaxSize = ms.  A caller is
   identified by the position of its Join in the schedule; a group's args are caller ids.  All statements
   hold for every MaxSize, every schedule (hence every number of callers, arrival order, shard assignment,
   timer behaviour, outcome of Many, cancellation point) and every state reached, without bound. *)
From Coq Require Import List Arith.
From Thunder Require Import Batch.Model Batch.Proofs.
Import ListNotations.

(* A caller that returned got, after its group was done, either the group's error or element [index] of
   what Many returned for exactly the group's argument list, in which the caller sits at [index]. *)
Theorem return_value : forall ms tr s ci cl r,
  run (init ms) tr = Some s -> nth_error (callers s) ci = Some cl -> c_ret cl = Some r ->
  exists g, nth_error (groups s) (c_gid cl) = Some g /\ g_done g = true /\
            nth_error (g_args g) (c_index cl) = Some ci /\
            ((exists e, g_err g = Some e /\ r = RErr e) \/
             (g_err g = None /\ g_many g = Some (g_args g) /\
              exists rs v, g_res g = Some rs /\ length rs = length (g_args g) /\
                           nth_error rs (c_index cl) = Some v /\ r = RVal v)).
Proof. exact return_value_lemma. Qed.
Print Assumptions return_value.

(* Every argument is in exactly one group, at its recorded index: the recorded slot holds the caller,
   every slot of every group is the recorded slot of the caller it holds, and no caller occupies two slots. *)
Theorem argument_in_exactly_one_group : forall ms tr s,
  run (init ms) tr = Some s ->
  (forall ci cl, nth_error (callers s) ci = Some cl ->
     exists g, nth_error (groups s) (c_gid cl) = Some g /\ nth_error (g_args g) (c_index cl) = Some ci) /\
  (forall gi g i ci, nth_error (groups s) gi = Some g -> nth_error (g_args g) i = Some ci ->
     exists cl, nth_error (callers s) ci = Some cl /\ c_gid cl = gi /\ c_index cl = i) /\
  (forall gi g i gj g2 j ci, nth_error (groups s) gi = Some g -> nth_error (g_args g) i = Some ci ->
     nth_error (groups s) gj = Some g2 -> nth_error (g_args g2) j = Some ci -> gi = gj /\ i = j).
Proof. exact args_placement_lemma. Qed.
Print Assumptions argument_in_exactly_one_group.

(* Many is called at most once per group in the whole schedule ([runs_of gi tr] counts the LRun labels of
   group gi); exactly once iff the group ended in Ran, and then with exactly the group's final argument
   list (nobody joined after the call); a group that is done without a call was cancelled (its creator's
   context was cancelled and the group's error is the context error).  With the previous theorem: every
   argument is passed to Many at most once, and exactly once unless its group was cancelled. *)
Theorem many_called_once_unless_cancelled : forall ms tr s gi,
  run (init ms) tr = Some s ->
  runs_of gi tr <= 1 /\
  (forall g, nth_error (groups s) gi = Some g ->
     (runs_of gi tr = 1 <-> g_phase g = Ran) /\
     (g_phase g = Ran -> g_many g = Some (g_args g)) /\
     (g_done g = true -> runs_of gi tr = 0 -> g_phase g = Cancelled /\ g_ctxc g = true /\ g_err g = Some ECtx)).
Proof. exact many_once_lemma. Qed.
Print Assumptions many_called_once_unless_cancelled.

(* A batch never exceeds MaxSize (when MaxSize > 0). *)
Theorem batch_size_le_maxsize : forall ms tr s gi g,
  run (init ms) tr = Some s -> nth_error (groups s) gi = Some g -> 0 < ms -> length (g_args g) <= ms.
Proof. exact size_lemma. Qed.
Print Assumptions batch_size_le_maxsize.

(* A batch never mixes shards: every caller in a group has the group's shard. *)
Theorem batch_shard_homogeneous : forall ms tr s gi g i ci,
  run (init ms) tr = Some s -> nth_error (groups s) gi = Some g -> nth_error (g_args g) i = Some ci ->
  exists cl, nth_error (callers s) ci = Some cl /\ c_shard cl = g_shard g.
Proof. exact shard_lemma. Qed.
Print Assumptions batch_shard_homogeneous.

(* done is set on every path: from every reachable state every group's creator has enabled steps, at most
   four and only its own, that lead to done, whatever Many does and whether or not the context is cancelled
   ([rank] = number of creator steps left) ... *)
Theorem done_reachable : forall ms tr s gi g,
  run (init ms) tr = Some s -> nth_error (groups s) gi = Some g ->
  exists tr' s' g', length tr' = rank g /\ length tr' <= 4 /\ (forall l, In l tr' -> label_group l = Some gi) /\
                    run s tr' = Some s' /\ nth_error (groups s') gi = Some g' /\ g_done g' = true.
Proof. exact done_reachable_lemma. Qed.
Print Assumptions done_reachable.

(* ... and once the group is done, the Return of every caller of it is enabled and yields the group's
   value / error (every caller has a group). *)
Theorem return_enabled_when_done : forall ms tr s ci cl,
  run (init ms) tr = Some s -> nth_error (callers s) ci = Some cl -> c_ret cl = None ->
  exists g, nth_error (groups s) (c_gid cl) = Some g /\
    (g_done g = true ->
     exists s' cl', step s (LReturn ci) = Some s' /\ nth_error (callers s') ci = Some cl' /\
                    c_ret cl' = Some (ret_of g (c_index cl))).
Proof. exact return_enabled_lemma. Qed.
Print Assumptions return_enabled_when_done.

(* ---- the hypotheses are satisfiable by non-trivial states ---- *)

(* MaxSize 2, two shards: callers 0,1 fill group 0 (roll-over), caller 2 (shard 1) creates group 1, caller 3
   creates group 2 on shard 0 while group 0 is still waiting; group 0 wakes by maxsize, runs, its callers get
   their own results; group 1's creator is cancelled; caller 4 joins group 2 between its wake-up and its
   unpublish; Many returns a short result for group 2. *)
Example ex_trace : list label :=
  [ LJoin 10 0 false; LJoin 11 0 false; LJoin 12 1 false; LJoin 13 0 false;
    LWake 0 CMaxSize; LUnpublish 0; LRun 0 (ORes [100; 110]); LDone 0; LReturn 1; LReturn 0;
    LCtxCancel 1; LWake 1 CCtxDone; LUnpublish 1; LCancel 1; LDone 1; LReturn 2;
    LWake 2 CInterval; LJoin 14 0 false; LUnpublish 2; LRun 2 (ORes [130]); LDone 2; LReturn 3; LReturn 4 ].
Example ex_reachable :
  option_map (fun s => (map g_args (groups s), map c_ret (callers s), pending s)) (run (init 2) ex_trace)
  = Some ([[0; 1]; [2]; [3; 4]],
          [Some (RVal 100); Some (RVal 110); Some (RErr ECtx); Some (RErr EWrongLen); Some (RErr EWrongLen)], []).
Proof. vm_compute. reflexivity. Qed.

(* Many cannot run before the group is unpublished, nor twice, nor on a cancelled context *)
Example ex_not_enabled :
  run (init 0) [LJoin 1 0 false; LWake 0 CInterval; LRun 0 OErr] = None /\
  run (init 0) [LJoin 1 0 false; LWake 0 CInterval; LUnpublish 0; LRun 0 OErr; LRun 0 OErr] = None /\
  run (init 0) [LJoin 1 0 true; LWake 0 CCtxDone; LUnpublish 0; LRun 0 OErr] = None /\
  run (init 0) [LJoin 1 0 false; LReturn 0] = None.
Proof. vm_compute. repeat split; reflexivity. Qed.
