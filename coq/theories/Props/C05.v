From Thunder Require Import Batch.Model.
Theorem placeholder : True. Proof. exact I. Qed.
Print Assumptions placeholder.
