(* C05 - Batching: each caller gets its own result, each argument is fetched once.

   Model: Batch/Model.v, a labelled transition system of batch.Func.Invoke with one label per atomic
   section (first mutex section = LJoin; the creator's select = LWake with any cause, timers fire at any
   time; second mutex section = LUnpublish; ctx.Err() test + safeInvoke = LRun with whatever Many did
   (results of any length, error, panic) or LCancel; close(doneCh) = LDone; LReturn; LCtxCancel at any time).
   One batch context, any number of Funcs: a Func is a number, [mss] lists the Funcs' MaxSize (0 = none),
   pendingBatchGroups is keyed by (Func, shard).  [run (init mss) tr = Some s]: s is reached by the schedule
   tr.  A caller is identified by the position of its Join in the schedule; a group's args are caller ids.
   Only the creator's context exists in the model: Invoke does not look at the context of a caller that
   joins an existing group (theorem waiter_context_ignored), so cancelling a waiter's context is not a step.
   All statements hold for every list of MaxSizes, every schedule (hence every number of callers, arrival order, shard assignment,
   timer behaviour, outcome of Many, cancellation point) and every state reached, without bound. *)
From Coq Require Import List Arith.
From Coq Require Import ZArith.
From Thunder Require Import Batch.Model Batch.Proofs Batch.ModelTimed Batch.ProofsTimed.
Import ListNotations.

(* A caller that returned got, after its group was done, either the group's error or element [index] of
   what Many returned for exactly the group's argument list, in which the caller sits at [index]. *)
Theorem return_value : forall mss tr s ci cl r,
  run (init mss) tr = Some s -> nth_error (callers s) ci = Some cl -> c_ret cl = Some r ->
  exists g, nth_error (groups s) (c_gid cl) = Some g /\ g_done g = true /\
            nth_error (g_args g) (c_index cl) = Some ci /\
            ((exists e, g_err g = Some e /\ r = RErr e) \/
             (g_err g = None /\ g_many g = Some (g_args g) /\
              exists rs v, g_res g = Some rs /\ length rs = length (g_args g) /\
                           nth_error rs (c_index cl) = Some v /\ r = RVal v)).
Proof. exact return_value_lemma. Qed.
Print Assumptions return_value.

(* Every argument is in exactly one group, at its recorded index: the recorded slot holds the caller,
   every slot of every group is the recorded slot of the caller it holds, and no caller occupies two slots. *)
Theorem argument_in_exactly_one_group : forall mss tr s,
  run (init mss) tr = Some s ->
  (forall ci cl, nth_error (callers s) ci = Some cl ->
     exists g, nth_error (groups s) (c_gid cl) = Some g /\ nth_error (g_args g) (c_index cl) = Some ci) /\
  (forall gi g i ci, nth_error (groups s) gi = Some g -> nth_error (g_args g) i = Some ci ->
     exists cl, nth_error (callers s) ci = Some cl /\ c_gid cl = gi /\ c_index cl = i) /\
  (forall gi g i gj g2 j ci, nth_error (groups s) gi = Some g -> nth_error (g_args g) i = Some ci ->
     nth_error (groups s) gj = Some g2 -> nth_error (g_args g2) j = Some ci -> gi = gj /\ i = j).
Proof. exact args_placement_lemma. Qed.
Print Assumptions argument_in_exactly_one_group.

(* Many is called at most once per group in the whole schedule ([runs_of gi tr] counts the LRun labels of
   group gi); exactly once iff the group ended in Ran, and then with exactly the group's final argument
   list (nobody joined after the call); a group that is done without a call was cancelled (its creator's
   context was cancelled and the group's error is the context error).  With the previous theorem: every
   argument is passed to Many at most once, and exactly once unless its group was cancelled. *)
Theorem many_called_once_unless_cancelled : forall mss tr s gi,
  run (init mss) tr = Some s ->
  runs_of gi tr <= 1 /\
  (forall g, nth_error (groups s) gi = Some g ->
     (runs_of gi tr = 1 <-> g_phase g = Ran) /\
     (g_phase g = Ran -> g_many g = Some (g_args g)) /\
     (g_done g = true -> runs_of gi tr = 0 -> g_phase g = Cancelled /\ g_ctxc g = true /\ g_err g = Some ECtx)).
Proof. exact many_once_lemma. Qed.
Print Assumptions many_called_once_unless_cancelled.

(* A batch never exceeds the MaxSize of its Func (when that is > 0). *)
Theorem batch_size_le_maxsize : forall mss tr s gi g,
  run (init mss) tr = Some s -> nth_error (groups s) gi = Some g ->
  0 < nth (g_fid g) mss 0 -> length (g_args g) <= nth (g_fid g) mss 0.
Proof. exact size_lemma. Qed.
Print Assumptions batch_size_le_maxsize.

(* A batch never mixes shards, nor Funcs: every caller in a group called the group's Func and has the group's
   shard.  In particular two Funcs that map their arguments to equal shard values never share a group. *)
Theorem batch_func_and_shard_homogeneous : forall mss tr s gi g i ci,
  run (init mss) tr = Some s -> nth_error (groups s) gi = Some g -> nth_error (g_args g) i = Some ci ->
  exists cl, nth_error (callers s) ci = Some cl /\ c_shard cl = g_shard g /\ c_fid cl = g_fid g.
Proof. exact shard_lemma. Qed.
Print Assumptions batch_func_and_shard_homogeneous.

(* The pending map sends the key (Func, shard) to a group of exactly that Func and shard. *)
Theorem pending_keyed_by_func_and_shard : forall mss tr s f sh gi,
  run (init mss) tr = Some s -> lookup f sh (pending s) = Some gi ->
  exists g, nth_error (groups s) gi = Some g /\ g_fid g = f /\ g_shard g = sh.
Proof. exact pending_key_lemma. Qed.
Print Assumptions pending_keyed_by_func_and_shard.

(* Invoke ignores the context of a caller that joins an existing group: the step is the same whether that
   context is cancelled or not (it is only handed to TemporarilyRelease while waiting for doneCh). *)
Theorem waiter_context_ignored : forall s f a sh c1 c2 gi,
  lookup f sh (pending s) = Some gi -> step s (LJoin f a sh c1) = step s (LJoin f a sh c2).
Proof. exact waiter_context_ignored_lemma. Qed.
Print Assumptions waiter_context_ignored.

(* done is set on every path: from every reachable state every group's creator has enabled steps, at most
   four and only its own, that lead to done, whatever Many does and whether or not the context is cancelled
   ([rank] = number of creator steps left) ... *)
Theorem done_reachable : forall mss tr s gi g,
  run (init mss) tr = Some s -> nth_error (groups s) gi = Some g ->
  exists tr' s' g', length tr' = rank g /\ length tr' <= 4 /\ (forall l, In l tr' -> label_group l = Some gi) /\
                    run s tr' = Some s' /\ nth_error (groups s') gi = Some g' /\ g_done g' = true.
Proof. exact done_reachable_lemma. Qed.
Print Assumptions done_reachable.

(* ... and once the group is done, the Return of every caller of it is enabled and yields the group's
   value / error (every caller has a group). *)
Theorem return_enabled_when_done : forall mss tr s ci cl,
  run (init mss) tr = Some s -> nth_error (callers s) ci = Some cl -> c_ret cl = None ->
  exists g, nth_error (groups s) (c_gid cl) = Some g /\
    (g_done g = true ->
     exists s' cl', step s (LReturn ci) = Some s' /\ nth_error (callers s') ci = Some cl' /\
                    c_ret cl' = Some (ret_of g (c_index cl))).
Proof. exact return_enabled_lemma. Qed.
Print Assumptions return_enabled_when_done.

(* What Many panics with does not matter: a string, an error value, a runtime.Error raised by the Go runtime (nil-map
   write, index out of range, nil dereference, failed type assertion, division by zero) or a value of any other
   type - safeInvoke recovers each of them and the group gets the same error; the step is the same for every kind
   ([pkind] is the label's parameter) ... *)
Theorem panic_value_irrelevant : forall s g k1 k2, step s (LRun g (OPanic k1)) = step s (LRun g (OPanic k2)).
Proof. exact panic_kind_irrelevant_lemma. Qed.
Print Assumptions panic_value_irrelevant.

(* ... and after a panic of any kind the creator's next step closes doneCh with the panic error stored: with
   return_enabled_when_done, every caller of the group - the creator included - returns that error. *)
Theorem panic_of_any_kind_then_done : forall s g k s', step s (LRun g (OPanic k)) = Some s' ->
  exists s2 g2, step s' (LDone g) = Some s2 /\ nth_error (groups s2) g = Some g2 /\ g_done g2 = true /\ g_err g2 = Some EPanic.
Proof. exact panic_then_done_lemma. Qed.
Print Assumptions panic_of_any_kind_then_done.

(* ---- cancellation: whose context, and what the surviving callers get ---- *)

(* Creator-cancel.  A group ends Cancelled only through its creator's context (g_ctxc); then Many is never called
   for it ([runs_of gi tr = 0]: none of its arguments is fetched) and EVERY member that returns gets the context
   error - the creator and, alike, every caller that joined on a context of its own that is still live (the
   survivors get the error of a context that is not theirs, and their argument is not fetched).  A group that
   ran never hands out the context error, whatever is cancelled afterwards.  And a finished group is never
   joinable: the pending map only holds groups whose creator has not passed its second mutex section, so a caller
   arriving after a cancelled creator unpublished gets a fresh group. *)
Theorem cancellation_of_the_creator : forall mss tr s gi g,
  run (init mss) tr = Some s -> nth_error (groups s) gi = Some g ->
  (g_phase g = Cancelled ->
     g_ctxc g = true /\ runs_of gi tr = 0 /\ g_many g = None /\
     forall ci cl r, nth_error (callers s) ci = Some cl -> c_gid cl = gi -> c_ret cl = Some r -> r = RErr ECtx) /\
  (g_phase g = Ran ->
     forall ci cl r, nth_error (callers s) ci = Some cl -> c_gid cl = gi -> c_ret cl = Some r -> r <> RErr ECtx) /\
  (forall f sh, lookup f sh (pending s) = Some gi -> g_phase g = Open \/ g_phase g = Woken).
Proof. exact cancel_outcomes_lemma. Qed.
Print Assumptions cancellation_of_the_creator.

(* Joiner-cancel.  The step of a caller that finds a published group changes no group's cancellation flag, phase or
   done flag, whatever the state of that caller's own context (with waiter_context_ignored: the step does not
   depend on it at all): a joiner's cancellation cannot cancel the batch, cannot keep its argument from being
   fetched, and does not make its Invoke return early. *)
Theorem cancellation_of_a_joiner_changes_nothing : forall s f a sh c gi s',
  lookup f sh (pending s) = Some gi -> step s (LJoin f a sh c) = Some s' ->
  length (groups s') = length (groups s) /\
  forall gj g', nth_error (groups s') gj = Some g' ->
    exists g, nth_error (groups s) gj = Some g /\ g_ctxc g' = g_ctxc g /\ g_phase g' = g_phase g /\ g_done g' = g_done g.
Proof. exact joiner_cannot_cancel_lemma. Qed.
Print Assumptions cancellation_of_a_joiner_changes_nothing.

(* The cancellation flag of a group is set by exactly two steps: the cancellation of its creator's context
   (LCtxCancel of that group) and its creation by a caller whose context is already cancelled. *)
Theorem cancellation_flag_only_by_creator : forall s l s' gi g',
  step s l = Some s' -> nth_error (groups s') gi = Some g' -> g_ctxc g' = true ->
  (exists g, nth_error (groups s) gi = Some g /\ g_ctxc g = true) \/ l = LCtxCancel gi \/
  (gi = length (groups s) /\ exists f a sh, l = LJoin f a sh true /\ lookup f sh (pending s) = None).
Proof. exact ctxc_only_by_creator_lemma. Qed.
Print Assumptions cancellation_flag_only_by_creator.

(* ---- the timers as data (Batch/ModelTimed.v) ----

   Every step carries two stamps lo <= hi (us) between which it happened; [cfg] lists f.WaitInterval and
   f.MaxDuration per Func as configured, [eff_wait] / [eff_maxdur] substitute the defaults (1 ms, 20 ms) for values
   <= 0 as Invoke does.  A group records the earliest instants at which its interval timer (re-armed by every join
   that stops it in time) and its max-duration timer can have fired. *)

(* The timed system refines the untimed one: erasing the stamps of any timed schedule gives a schedule of
   Batch/Model.v reaching the same batch state - all theorems above hold of timed schedules. *)
Theorem timed_refines_untimed : forall cfg mss tr s,
  trun cfg (tinit mss) tr = Some s -> run (init mss) (erase tr) = Some (ts s).
Proof. exact timed_refines_lemma. Qed.
Print Assumptions timed_refines_untimed.

(* A Go timer does not fire before its duration has elapsed: a wake-up by the interval timer is a step only at or
   after the instant it was last armed for, one by the max-duration timer only at or after creation + MaxDuration. *)
Theorem timer_wake_not_early : forall cfg s lo hi gi c s' tg,
  tstep cfg s (lo, hi, LWake gi c) = Some s' -> nth_error (tgs s) gi = Some tg ->
  (c = CInterval -> (tg_ideadline tg <= hi)%Z) /\ (c = CMaxDur -> (tg_mdeadline tg <= hi)%Z).
Proof. exact timer_wake_not_early_lemma. Qed.
Print Assumptions timer_wake_not_early.

(* In every schedule in which timers fire on time ([prun]: exact stamps, time does not go backwards, does not pass
   the instant at which a timer of a still-waiting creator is due, and a woken creator is not delayed), in every
   reachable state and for every group: the max-duration deadline is creation + MaxDuration, the interval deadline
   is the last join that stopped the timer + WaitInterval; a group that has not been dispatched is not overdue;
   a group that was dispatched (Many called, or the context error stored) was dispatched no later than MaxDuration
   after its creation and no later than WaitInterval after that last join; and once time is past either deadline
   the group has been dispatched. *)
Theorem dispatched_no_later_than_deadline : forall cfg mss tr s gi g,
  prun cfg (tinit mss) tr = Some s -> nth_error (groups (ts s)) gi = Some g ->
  exists tg, nth_error (tgs s) gi = Some tg /\
    (tg_mdeadline tg = tg_created tg + eff_maxdur cfg (g_fid g))%Z /\
    (tg_ideadline tg = tg_lastjoin tg + eff_wait cfg (g_fid g))%Z /\
    (g_phase g = Open \/ g_phase g = Woken \/ g_phase g = Unpub ->
       (tnow s <= tg_created tg + eff_maxdur cfg (g_fid g))%Z /\ (tnow s <= tg_lastjoin tg + eff_wait cfg (g_fid g))%Z) /\
    (g_phase g = Ran \/ g_phase g = Cancelled ->
       exists d, tg_dispatched tg = Some d /\
                 (d <= tg_created tg + eff_maxdur cfg (g_fid g))%Z /\ (d <= tg_lastjoin tg + eff_wait cfg (g_fid g))%Z) /\
    ((tg_created tg + eff_maxdur cfg (g_fid g) < tnow s)%Z \/ (tg_lastjoin tg + eff_wait cfg (g_fid g) < tnow s)%Z ->
       g_phase g = Ran \/ g_phase g = Cancelled).
Proof. exact dispatch_deadline_lemma. Qed.
Print Assumptions dispatched_no_later_than_deadline.

(* ---- the hypotheses are satisfiable by non-trivial states ---- *)

(* MaxSize 2, two shards: callers 0,1 fill group 0 (roll-over), caller 2 (shard 1) creates group 1, caller 3
   creates group 2 on shard 0 while group 0 is still waiting; group 0 wakes by maxsize, runs, its callers get
   their own results; group 1's creator is cancelled; caller 4 joins group 2 between its wake-up and its
   unpublish; Many returns a short result for group 2. *)
Example ex_trace : list label :=
  [ LJoin 0 10 0 false; LJoin 0 11 0 false; LJoin 0 12 1 false; LJoin 0 13 0 false;
    LWake 0 CMaxSize; LUnpublish 0; LRun 0 (ORes [100; 110]); LDone 0; LReturn 1; LReturn 0;
    LCtxCancel 1; LWake 1 CCtxDone; LUnpublish 1; LCancel 1; LDone 1; LReturn 2;
    LWake 2 CInterval; LJoin 0 14 0 false; LUnpublish 2; LRun 2 (ORes [130]); LDone 2; LReturn 3; LReturn 4 ].
Example ex_reachable :
  option_map (fun s => (map g_args (groups s), map c_ret (callers s), pending s)) (run (init [2]) ex_trace)
  = Some ([[0; 1]; [2]; [3; 4]],
          [Some (RVal 100); Some (RVal 110); Some (RErr ECtx); Some (RErr EWrongLen); Some (RErr EWrongLen)], []).
Proof. vm_compute. reflexivity. Qed.

(* two Funcs (MaxSize 0 and 2) whose arguments all have shard 0: callers of Func 0 and of Func 1 form
   different groups although the shard values are equal; Func 1 rolls over at 2; a waiter with a cancelled
   context still gets its value *)
Example ex_two_funcs :
  option_map (fun s => (map (fun g => (g_fid g, g_args g)) (groups s), map c_ret (callers s)))
    (run (init [0; 2])
       [ LJoin 0 1 0 false; LJoin 1 2 0 false; LJoin 0 3 0 true; LJoin 1 4 0 false; LJoin 1 5 0 false;
         LWake 1 CMaxSize; LUnpublish 1; LRun 1 (ORes [20; 40]); LDone 1; LReturn 1; LReturn 3;
         LWake 0 CInterval; LUnpublish 0; LRun 0 (ORes [10; 30]); LDone 0; LReturn 0; LReturn 2 ])
  = Some ([(0, [0; 2]); (1, [1; 3]); (1, [4])],
          [Some (RVal 10); Some (RVal 20); Some (RVal 30); Some (RVal 40); None]).
Proof. vm_compute. reflexivity. Qed.

(* Many cannot run before the group is unpublished, nor twice, nor on a cancelled context *)
Example ex_not_enabled :
  run (init []) [LJoin 0 1 0 false; LWake 0 CInterval; LRun 0 OErr] = None /\
  run (init []) [LJoin 0 1 0 false; LWake 0 CInterval; LUnpublish 0; LRun 0 OErr; LRun 0 OErr] = None /\
  run (init []) [LJoin 0 1 0 true; LWake 0 CCtxDone; LUnpublish 0; LRun 0 OErr] = None /\
  run (init []) [LJoin 0 1 0 false; LReturn 0] = None.
Proof. vm_compute. repeat split; reflexivity. Qed.

(* creator-cancel with survivors: caller 0 creates group 0, callers 1 and 2 join on live contexts of their own,
   caller 0's context is cancelled: Many never runs, all three get the context error; caller 3 arrives after the
   unpublish and gets a fresh group that runs.  A joiner's cancelled context (caller 4, flag true) changes nothing. *)
Example ex_creator_cancel :
  option_map (fun s => (map g_phase (groups s), map g_many (groups s), map c_ret (callers s)))
    (run (init [0])
       [ LJoin 0 1 0 false; LJoin 0 2 0 false; LJoin 0 3 0 false; LCtxCancel 0; LWake 0 CCtxDone; LUnpublish 0;
         LJoin 0 4 0 false; LJoin 0 5 0 true; LCancel 0; LDone 0; LReturn 0; LReturn 1; LReturn 2;
         LWake 1 CInterval; LUnpublish 1; LRun 1 (ORes [40; 50]); LDone 1; LReturn 3; LReturn 4 ])
  = Some ([Cancelled; Ran], [None; Some [3; 4]],
          [Some (RErr ECtx); Some (RErr ECtx); Some (RErr ECtx); Some (RVal 40); Some (RVal 50)]).
Proof. vm_compute. reflexivity. Qed.

(* a step at an exact instant *)
Definition at_ (t : Z) (l : label) : tlabel := (t, t, l).
Definition cfg1 : tconfig := [(100, 250)%Z].

(* timers: WaitInterval 100, MaxDuration 250 (us).  Created at 0; joins at 60 and 120 re-arm the interval timer
   (deadline 220); the interval timer wakes the creator at 220, dispatch at 220 <= 250 and <= 120 + 100. *)
Example ex_on_time :
  option_map (fun s => (map g_phase (groups (ts s)), map (fun t => (tg_ideadline t, tg_mdeadline t, tg_dispatched t)) (tgs s)))
    (prun cfg1 (tinit [0])
       [ at_ 0 (LJoin 0 1 0 false); at_ 60 (LJoin 0 2 0 false); at_ 120 (LJoin 0 3 0 false);
         at_ 220 (LWake 0 CInterval); at_ 220 (LUnpublish 0); at_ 220 (LRun 0 (ORes [1; 2; 3])) ])
  = Some ([Ran], [(220, 250, Some 220)%Z]).
Proof. vm_compute. reflexivity. Qed.

(* joins every 90 keep re-arming the interval timer: the max-duration timer wakes the creator at 250 *)
Example ex_maxdur_first :
  option_map (fun s => map (fun t => (tg_ideadline t, tg_dispatched t)) (tgs s))
    (prun cfg1 (tinit [0])
       [ at_ 0 (LJoin 0 1 0 false); at_ 90 (LJoin 0 2 0 false); at_ 180 (LJoin 0 3 0 false);
         at_ 250 (LWake 0 CMaxDur); at_ 250 (LUnpublish 0); at_ 250 (LRun 0 OErr) ])
  = Some [(280, Some 250)%Z].
Proof. vm_compute. reflexivity. Qed.

(* an interval wake-up before the timer is due is not a step at all; a creator that sleeps past the deadline is a
   timed schedule but not one in which timers fire on time; defaults replace durations <= 0 *)
Example ex_early_and_late :
  trun cfg1 (tinit [0]) [ at_ 0 (LJoin 0 1 0 false); at_ 60 (LJoin 0 2 0 false); at_ 150 (LWake 0 CInterval) ] = None /\
  (exists s, trun cfg1 (tinit [0]) [ at_ 0 (LJoin 0 1 0 false); at_ 400 (LWake 0 CInterval) ] = Some s) /\
  prun cfg1 (tinit [0]) [ at_ 0 (LJoin 0 1 0 false); at_ 400 (LWake 0 CInterval) ] = None /\
  (eff_wait [(0, -5)%Z] 0, eff_maxdur [(0, -5)%Z] 0) = (1000, 20000)%Z.
Proof. vm_compute. repeat split; try reflexivity. eexists. reflexivity. Qed.

(* Many panics with a runtime.Error in a group of three: everyone gets the panic error, creator included *)
Example ex_runtime_panic :
  option_map (fun s => map c_ret (callers s))
    (run (init [0]) [ LJoin 0 1 0 false; LJoin 0 2 0 false; LJoin 0 3 0 false; LWake 0 CInterval; LUnpublish 0;
                      LRun 0 (OPanic PRuntime); LDone 0; LReturn 0; LReturn 1; LReturn 2 ])
  = Some [Some (RErr EPanic); Some (RErr EPanic); Some (RErr EPanic)].
Proof. vm_compute. reflexivity. Qed.
