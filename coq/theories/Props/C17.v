(** C17 - connection lifecycle: every subscription ends exactly once and stops for good.
    Model: Server/Model.v (graphql/server.go over the interface of reactive.Rerunner). *)
From Coq Require Import List String.
From Thunder Require Import Lib.Json DiffMerge.Model Server.Model Server.Proofs.
Import ListNotations.

(** A rerunner on which Stop() was called completes no further computation. *)
Theorem stopped_never_runs : forall cfg s rid r o,
  st_runners s rid = Some r -> r_stat r = Stopped -> step cfg s (LRun rid o) = None.
Proof. exact Proofs.stopped_never_runs. Qed.
Print Assumptions stopped_never_runs.
