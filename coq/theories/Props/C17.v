(** C17 - connection lifecycle: every subscription ends exactly once and stops for good.

    Model: Server/Model.v - a labelled transition system of graphql/server.go (conn, handleSubscribe,
    handleMutate, closeSubscription(s), handle, ServeJSONSocket) over the interface of reactive.Rerunner;
    [step cfg s l] is one atomic section of the Go code, a history is a list of labels, [run] replays one.
    Vocabulary: Server/Spec.v.  [repaired max] is the code with C17-fix-1..4 applied; the theorems name
    the repair flags they need, and the [_refuted] theorems show that each flag is needed: with only that
    repair missing (the original code at that place) the statement fails on a concrete history, which
    corpus/C17/*.json replays on the implementation.

    A "subscription" is one rerunner [rid] (numbered in creation order); [st_subs] is conn.subscriptions
    (id -> rid); [st_runners] is every rerunner ever created, with its status Live / Failed / Stopped. *)
From Coq Require Import List String Bool Arith.
From Thunder Require Import Lib.Json DiffMerge.Model Server.Model Server.Spec Server.Proofs Server.ProofsLife
     Server.ProofsLog Server.Witness Server.Release Server.ProofsRelease Server.ProofsC17
     Server.Iface Server.Product Server.ProductDrive Server.ProductWitness Server.ProofsProduct.
Import ListNotations.

(** No leak, duplicate-id rule, map consistency.  In every reachable state: ids in the map are unique;
    every map entry is a not-yet-stopped rerunner created for that id; every rerunner that was ever created
    and is not stopped is in the map under its id; after ServeJSONSocket returned the map is empty. *)
Theorem map_invariant : forall cfg s, c_fix_mutdup cfg = true -> reachable cfg s ->
  NoDup (map fst (st_subs s))
  /\ (forall id rid, In (id, rid) (st_subs s) ->
        exists r, st_runners s rid = Some r /\ r_sub r = id /\ r_stat r <> Stopped)
  /\ (forall rid r, st_runners s rid = Some r -> r_stat r <> Stopped -> In (r_sub r, rid) (st_subs s))
  /\ (st_closed s = true -> st_subs s = []).
Proof. exact ProofsC17.map_invariant_l. Qed.
Print Assumptions map_invariant.

(** After the connection closed, every rerunner ever created has been stopped. *)
Theorem all_stopped_after_close : forall cfg s, c_fix_mutdup cfg = true -> reachable cfg s -> st_closed s = true ->
  forall rid r, st_runners s rid = Some r -> r_stat r = Stopped.
Proof. exact ProofsC17.all_stopped_after_close_l. Qed.
Print Assumptions all_stopped_after_close.

(** Stops for good: once a rerunner is stopped then, in every continuation of the history, it stays
    stopped, no run-completion label for it is enabled, and the sequence of envelopes it wrote does not
    grow.  (Holds for every configuration: what the original code gets wrong is that it forgets to stop.) *)
Theorem silent_after_end : forall cfg h s s' rid r,
  reachable cfg s -> st_runners s rid = Some r -> r_stat r = Stopped -> run cfg s h = Some s' ->
  (forall o, step cfg s' (LRun rid o) = None) /\ writes_of rid s' = writes_of rid s.
Proof. exact ProofsC17.silent_after_end_l. Qed.
Print Assumptions silent_after_end.

(** Ends exactly once: along any history the number of steps at which a rerunner goes from alive to
    stopped is 1 if it is stopped at the end and 0 otherwise (a rerunner that does not exist yet is not
    stopped) - never 2; with [all_stopped_after_close]: exactly 1 for every rerunner once the connection
    has closed. *)
Theorem ends_exactly_once : forall cfg h s rid, run cfg init h = Some s ->
  end_count cfg init h rid = if stopped_in s rid then 1 else 0.
Proof. exact ProofsC17.ends_exactly_once_l. Qed.
Print Assumptions ends_exactly_once.

(** What ends a rerunner: an unsubscribe message for its id, the close task it spawned itself, or the
    connection closing - nothing else (in particular not the close task of an earlier subscription that
    used the same id). *)
Theorem end_cause : forall cfg s l s' rid r,
  c_fix_aba cfg = true -> c_fix_mutdup cfg = true -> reachable cfg s -> step cfg s l = Some s' ->
  st_runners s rid = Some r -> r_stat r <> Stopped -> stopped_in s' rid = true ->
  l = LUnsubscribe (r_sub r) \/ l = LCloseTask (r_sub r) rid \/ l = LSocketClose \/ l = LMalformed.
Proof. exact ProofsC17.end_cause_l. Qed.
Print Assumptions end_cause.

(** The logger: for every id, Subscribe id and Unsubscribe id strictly alternate starting with Subscribe
    (exactly one Unsubscribe id after each Subscribe id and before the next Subscribe id, or none yet), and the
    last call was Subscribe id exactly when id is in the map.  Hence after the connection closed every
    Subscribe has its Unsubscribe. *)
Theorem logger_alternates : forall cfg s, log_fixes cfg -> reachable cfg s ->
  forall id, alternates id (st_log s) = true /\ is_open id (st_log s) = has_id id (st_subs s).
Proof. exact ProofsC17.logger_alternates_l. Qed.
Print Assumptions logger_alternates.

Theorem logger_balanced_after_close : forall cfg s, log_fixes cfg -> reachable cfg s -> st_closed s = true ->
  forall id, alternates id (st_log s) = true /\ is_open id (st_log s) = false.
Proof. exact ProofsC17.logger_balanced_after_close_l. Qed.
Print Assumptions logger_balanced_after_close.

(** The subscription limit: the number of subscriptions in the map never exceeds MaxSubscriptions
    (mutations in flight also occupy map entries and count towards the test `len+1 > max` that
    handleSubscribe makes, so the bound is not always attained). *)
Theorem limit_holds : forall cfg s, c_fix_mutdup cfg = true -> reachable cfg s -> sub_count s <= c_max cfg.
Proof. exact ProofsC17.limit_holds_l. Qed.
Print Assumptions limit_holds.

(** * A failing socket write (writeOrClose)

    [LBreak] may occur anywhere in a history: from then on every write is lost and closes the socket.  All
    theorems above quantify over histories with [LBreak] in them.  In addition: *)

(** a failed write loses the envelope and closes the socket; *)
Theorem failed_write_closes_socket : forall s e, st_wfail s = true ->
  st_out (push_out s e) = st_out s /\ st_sockclosed (push_out s e) = true.
Proof. exact ProofsC17.failed_write_closes_socket_l. Qed.
Print Assumptions failed_write_closes_socket.

(** once the socket is closed it stays closed (the next ReadJSON fails: the reader observes the close), *)
Theorem socket_stays_closed : forall cfg s l s', step cfg s l = Some s' -> st_sockclosed s = true -> st_sockclosed s' = true.
Proof. exact ProofsC17.socket_stays_closed_l. Qed.
Print Assumptions socket_stays_closed.

(** which is always possible between two messages - after which [all_stopped_after_close],
    [logger_balanced_after_close] and [all_released_after_close] apply. *)
Theorem close_always_possible : forall cfg s, st_closed s = false -> st_pend s = None ->
  exists s', step cfg s LSocketClose = Some s' /\ st_closed s' = true.
Proof. exact ProofsC17.close_always_possible_l. Qed.
Print Assumptions close_always_possible.

(** * Reactive resources are released (Server/Release.v)

    [runR] runs the connection model together with the bookkeeping of the rerunner interface: computations
    register resources, a successful run releases the previous computation, a failed one releases its own,
    Stop() releases the published one; [rs_released] is the log of Cleanup calls. *)

(** No resource gets two Cleanup calls; the log holds exactly the released resources. *)
Theorem cleanup_at_most_once : forall cfg s rs, reachableR cfg (s, rs) ->
  NoDup (rs_released rs) /\
  forall e, In e (rs_entries rs) -> (In (re_res e) (rs_released rs) <-> re_phase e = RRel).
Proof. exact ProofsC17.cleanup_at_most_once_l. Qed.
Print Assumptions cleanup_at_most_once.

(** Once a rerunner has ended, every resource registered by its computations has had its Cleanup call. *)
Theorem released_when_stopped : forall cfg s rs e, reachableR cfg (s, rs) ->
  In e (rs_entries rs) -> stopped_in s (re_rid e) = true ->
  re_phase e = RRel /\ In (re_res e) (rs_released rs).
Proof. exact ProofsC17.released_when_stopped_l. Qed.
Print Assumptions released_when_stopped.

(** After the connection closed, every resource ever registered has had exactly one Cleanup call. *)
Theorem all_released_after_close : forall cfg s rs e, c_fix_mutdup cfg = true -> reachableR cfg (s, rs) ->
  st_closed s = true -> In e (rs_entries rs) ->
  re_phase e = RRel /\ In (re_res e) (rs_released rs) /\ NoDup (rs_released rs).
Proof. exact ProofsC17.all_released_after_close_l. Qed.
Print Assumptions all_released_after_close.

(** F13 once more: with the original handleMutate a resource is still held after the connection closed. *)
Theorem all_released_refuted :
  exists s rs, runR (only_mutdup_missing 3) (init, rinit) h_f13_res = Some (s, rs) /\ st_closed s = true
               /\ rs_entries rs = [mk_rentry 7 0 RCur] /\ rs_released rs = [].
Proof. exact f13_release_witness. Qed.
Print Assumptions all_released_refuted.

(** Non-vacuity: superseded, failed, unsubscribed and socket-closed computations (the socket closed by a
    failed write), six resources, six Cleanup calls. *)
Example release_example :
  exists s rs, runR (repaired 3) (init, rinit) h_release = Some (s, rs) /\ st_closed s = true
               /\ rs_released rs = [6; 5; 3; 4; 2; 1] /\ List.length (st_out s) = 3 /\ st_sockclosed s = true.
Proof. exact Witness.release_example. Qed.

(** * After the end, in the reactive package itself (Server/Product.v)

    The connection model composed with Reactive/Rerunner.v, the model of reactive/graph.go +
    reactive/rerunner.go of C04 / C08 (see Props/C02.v, "End to end"): a connection step that ends a
    subscription performs Rerunner.Stop on its rerunner.  [preachable w p]: [p] is reached by some
    interleaving of client messages, asynchronous closes, socket close, data changes and the critical
    sections of the reactive package's goroutines. *)

(** None of its resolvers run again.  Once a subscription has ended (by unsubscribe, by the close its own
    failure requested, or because the connection closed) then in every continuation: its rerunner has [stop]
    set and holds no computation; no goroutine is anywhere in Rerunner.run between cleaning the cache and
    arming the invalidation handler for it - [runner rid f] are exactly those frames, and the compute
    function (Execute, hence every resolver of the query) only ever runs above the FRunEnd frame of such a
    run; and the connection accepts no run completion for it.  (C04's [after_stop] through the coherence
    invariant of the product.) *)
Theorem never_computes_after_end : forall w p h p' rid,
  preachable w p -> stopped_in (fst p) rid = true -> prun w p h = Some p' ->
  RR.r_stop (RR.getr (snd p') rid) = true
  /\ RR.r_comp (RR.getr (snd p') rid) = None
  /\ (forall f, In f (RB.all_frames (snd p')) -> RM.runner rid f = false)
  /\ (forall o, step (w_cfg w) (fst p') (LRun rid o) = None).
Proof. exact ProofsProduct.never_computes_after_end_l. Qed.
Print Assumptions never_computes_after_end.

(** ... counted: [r_runs] is the number of computations the rerunner has begun (the BeginCompute step of
    Rerunner.run, where the function handleSubscribe / handleMutate gave to NewRerunner - Execute, the
    resolvers - is called).  After the end of a subscription the count never moves again, in any continuation:
    whatever data changes, timers, cancellations and schedules follow.  (Server/ProofsRuns.v: the counter
    grows only by a task standing at [FBegin rid], which [after_stop] excludes.) *)
Theorem no_computation_begins_after_end : forall w p h p' rid,
  preachable w p -> stopped_in (fst p) rid = true -> prun w p h = Some p' ->
  RR.r_runs (RR.getr (snd p') rid) = RR.r_runs (RR.getr (snd p) rid).
Proof. exact ProofsProduct.no_computation_begins_after_end_l. Qed.
Print Assumptions no_computation_begins_after_end.

(** ITS REACTIVE RESOURCES ARE RELEASED (full statement).  [progs_ok (w_slots w) (w_progs w)]: the compute
    scripts of the world only read data slots that exist.  When the system has come to rest after the end of a
    subscription: its rerunner holds no computation (Stop handed it to release()); no goroutine is left; every
    node of the reactive graph that is still unreleased - a computation, or anything that was depended upon - is,
    through a chain of dependants, a dependency of the current computation of ANOTHER rerunner, one whose
    subscription or mutation has not ended ([alive_in]); hence every resource that was depended upon has [n_rel]
    set and its Cleanup ran exactly once, unless such a live computation still depends on it; and no Cleanup
    callback anywhere ran twice.  Everything only the ended subscription's computations - current, superseded,
    cached - depended on is therefore released, the timers of InvalidateAfter included.
    (Reactive/ProofsOwnership.v: the ownership invariant - every unreleased computation node is the current
    computation of a rerunner, or was adopted by a parent, or a goroutine is about to publish / store / link /
    release it -, the ranked dependency graph, and C08's Refcount and Link invariants; Props/C08.v
    [stopped_rerunner_holds_nothing_at_quiescence].) *)
Theorem released_after_end : forall w p rid,
  RC.progs_ok (w_slots w) (w_progs w) ->
  preachable w p -> stopped_in (fst p) rid = true -> RR.quiescent (snd p) ->
  RR.r_comp (RR.getr (snd p) rid) = None
  /\ RB.all_frames (snd p) = []
  /\ (forall x, x < List.length (RR.s_nodes (snd p)) -> RG.n_rel (RR.getN (snd p) x) = false ->
        RG.n_had (RR.getN (snd p) x) = true \/ (RG.n_hrel (RR.getN (snd p) x) = None /\ RG.n_timer (RR.getN (snd p) x) = 0) ->
        exists r top, r <> rid /\ alive_in (fst p) r = true /\ RR.r_comp (RR.getr (snd p) r) = Some top /\
                      RH.reach (RR.s_nodes (snd p)) x top)
  /\ (forall n, RG.n_had (RR.getN (snd p) n) = true -> RG.n_hrel (RR.getN (snd p) n) <> None ->
        (RG.n_rel (RR.getN (snd p) n) = true /\ RG.n_cln (RR.getN (snd p) n) = 1) \/
        exists r top, r <> rid /\ alive_in (fst p) r = true /\ RR.r_comp (RR.getr (snd p) r) = Some top /\
                      RH.reach (RR.s_nodes (snd p)) n top)
  /\ (forall n, RG.n_cln (RR.getN (snd p) n) <= 1).
Proof. exact ProofsProduct.released_after_end_full_l. Qed.
Print Assumptions released_after_end.

(** The same by reference count and by registrants, for every world (no hypothesis on the scripts): at rest
    after the end of a subscription every resource node that took part in a dependency and has no dependant left
    has been released with exactly one Cleanup call (C08's [cleanup_exactly_once_at_quiescence]); so has every
    resource node all of whose registrants - the computations that called AddDependency on it - are released
    (C08's [cleanup_exactly_once_after_last_registrant_released]). *)
Theorem resources_without_dependants_are_cleaned_after_end : forall w p rid,
  preachable w p -> stopped_in (fst p) rid = true -> RR.quiescent (snd p) ->
  RR.r_comp (RR.getr (snd p) rid) = None
  /\ RB.all_frames (snd p) = []
  /\ (forall n, RG.n_had (RR.getN (snd p) n) = true -> RG.n_out (RR.getN (snd p) n) = [] ->
                RG.n_hrel (RR.getN (snd p) n) <> None ->
                RG.n_rel (RR.getN (snd p) n) = true /\ RG.n_cln (RR.getN (snd p) n) = 1)
  /\ (forall n, RG.n_had (RR.getN (snd p) n) = true -> RG.n_hrel (RR.getN (snd p) n) <> None ->
                (forall m, In n (RG.n_ins (RR.getN (snd p) m)) -> RG.n_rel (RR.getN (snd p) m) = true) ->
                RG.n_out (RR.getN (snd p) n) = [] /\ RG.n_rel (RR.getN (snd p) n) = true /\ RG.n_cln (RR.getN (snd p) n) = 1)
  /\ (forall n, RG.n_cln (RR.getN (snd p) n) <= 1).
Proof. exact ProofsProduct.released_after_end_l. Qed.
Print Assumptions resources_without_dependants_are_cleaned_after_end.

(** non-vacuity of [released_after_end]: the scripts of the witness world read existing slots; in the final state
    of [after_end_example] (everything stopped, at rest) every node that is a computation or was depended upon is
    released. *)
Example wx_progs_ok : RC.progs_ok (w_slots wx) (w_progs wx).
Proof. intros q [<-|[<-|[<-|[]]]]; reflexivity. Qed.

Example after_end_everything_released :
  exists sv rx, prun wx (pinit wx) h_end = Some (sv, rx) /\ RR.quiescent rx /\
    forallb (fun x => RG.n_rel x || negb (RG.n_had x || (match RG.n_hrel x with None => true | Some _ => false end && Nat.eqb (RG.n_timer x) 0)))
            (RR.s_nodes rx) = true.
Proof. eexists. eexists. split; [vm_compute; reflexivity|]. split; vm_compute; reflexivity. Qed.

(** After the connection closed every rerunner it ever created is stopped in the reactive package and holds
    no computation. *)
Theorem all_rerunners_stopped_after_close : forall w p rid ru,
  c_fix_mutdup (w_cfg w) = true -> preachable w p -> st_closed (fst p) = true ->
  st_runners (fst p) rid = Some ru ->
  RR.r_stop (RR.getr (snd p) rid) = true /\ RR.r_comp (RR.getr (snd p) rid) = None.
Proof. exact ProofsProduct.all_rerunners_stopped_after_close_l. Qed.
Print Assumptions all_rerunners_stopped_after_close.

(** Ends exactly once, in the reactive package: along every history of the product the number of steps at which
    Stop's critical section runs on rerunner [rid] - read off the reactive side, as the hook stop.mark reports
    it - is 1 if the connection has ended the subscription and 0 otherwise: never twice, and never on a
    subscription that is still live.  ([ends_exactly_once] is the same count on the connection's side;
    [interface_agrees] below joins the two.) *)
Theorem stop_runs_exactly_once : forall w h p rid,
  prun w (pinit w) h = Some p -> rid < pool w ->
  stop_count w (pinit w) h rid = if stopped_in (fst p) rid then 1 else 0.
Proof. exact ProofsProduct.stop_runs_exactly_once_l. Qed.
Print Assumptions stop_runs_exactly_once.

Example stop_runs_example :
  stop_count wx (pinit wx) h_end 0 = 1 /\ stop_count wx (pinit wx) h_end 1 = 1 /\ stop_count wx (pinit wx) h_live 0 = 0.
Proof. exact stop_count_example. Qed.

(** The interface between the two models is the one the check observes.  Server/Iface.v derives from a step of
    the connection model what reactive/rerunner.go reports at its observation points (Stop's critical section
    and whether a computation was held, publish and whether there was a previous computation, a non-retry
    failure); the correspondence check compares that, per rerunner, with the hooks' reports on every recorded
    history (component 9).  In every step of the product the reactive side does exactly that to every rerunner
    of the pool: the same event with the same flag, or nothing on both sides. *)
Theorem interface_agrees : forall w p pl p' r,
  preachable w p -> pstep w p pl = Some p' -> r < pool w ->
  rx_ev (RR.getr (snd p) r) (RR.getr (snd p') r) =
  match plabel_server w p pl with
  | Some l => sv_ev (fst p) l (fst p') r
  | None => None
  end.
Proof. exact ProofsProduct.interface_agrees_l. Qed.
Print Assumptions interface_agrees.

Example interface_example :
  ptrace wx (pinit wx) h_end =
  [(0, XPub false); (0, XPub true); (1, XFail); (1, XStop false); (2, XPub false); (2, XPub true);
   (0, XPub true); (0, XStop true); (2, XStop true)].
Proof. exact trace_example. Qed.

(** Non-vacuity (Server/ProductWitness.v): the history of [live_convergence_example] (Props/C02.v) continued
    by unsubscribe 5, another change of slot 0 and the socket closing, 163 labels: everything stopped and at
    rest, rerunner 0 computed three times (none after its end although slot 0 changed), four superseded
    slot resources had their one Cleanup call. *)
Example after_end_example :
  exists sv rx, prun wx (pinit wx) h_end = Some (sv, rx) /\ st_closed sv = true /\ RR.quiescent rx
    /\ stopped_in sv 0 = true /\ stopped_in sv 1 = true /\ stopped_in sv 2 = true
    /\ map RR.r_stop (RR.s_rrs rx) = [true; true; true] /\ map RR.r_runs (RR.s_rrs rx) = [3; 1; 2]
    /\ map Thunder.Reactive.Graph.n_cln (RR.s_nodes rx) = [1; 1; 0; 0; 1; 0; 0; 0; 0; 1; 0; 0; 0; 0; 0]
    /\ List.length (st_out sv) = 6
    /\ log_of sv = [LgSub 5; LgSub 6; LgUnsub 6; LgSub 7; LgUnsub 5; LgUnsub 7].
Proof. exact end_example. Qed.

(** * The original code: each repair is needed *)

(** F13.  With the original handleMutate (no duplicate check) a rerunner is alive, absent from the map,
    after the connection closed - and a run of it is enabled and writes to the socket. *)
Theorem no_leak_refuted :
  exists s s', run (only_mutdup_missing 3) init h_f13 = Some s /\ st_closed s = true /\ alive_in s 0 = true
               /\ has_rid 0 (st_subs s) = false
               /\ step (only_mutdup_missing 3) s (LRun 0 (OOk v2)) = Some s'
               /\ List.length (st_out s') = S (List.length (st_out s)).
Proof. exact ProofsC17.no_leak_refuted_l. Qed.
Print Assumptions no_leak_refuted.

(** F12.  With the original closeSubscriptions the log still shows subscription 0 open after close. *)
Theorem logger_balanced_refuted :
  exists s, run (only_closelog_missing 3) init [LSubscribe 0 QOk; LSocketClose] = Some s
            /\ st_closed s = true /\ is_open 0 (st_log s) = true.
Proof. exact ProofsC17.logger_balanced_refuted_l. Qed.
Print Assumptions logger_balanced_refuted.

(** With the original handleMutate (no Subscribe call) an Unsubscribe 0 is logged that no Subscribe 0 precedes. *)
Theorem logger_alternates_refuted :
  exists s, run (only_mutsub_missing 3) init [LMutate 0 QOk; LRun 0 (OOk v1); LCloseTask 0 0] = Some s
            /\ alternates 0 (st_log s) = false.
Proof. exact ProofsC17.logger_alternates_refuted_l. Qed.
Print Assumptions logger_alternates_refuted.

(** F14.  With the original asynchronous close (by id only) the close task spawned by rerunner 0 stops
    rerunner 1, a newer subscription with the same id. *)
Theorem end_cause_refuted :
  exists s s', run (only_aba_missing 3) init h_aba = Some s /\ alive_in s 1 = true
               /\ step (only_aba_missing 3) s (LCloseTask 0 0) = Some s' /\ stopped_in s' 1 = true.
Proof. exact ProofsC17.end_cause_refuted_l. Qed.
Print Assumptions end_cause_refuted.

(** Non-vacuity: a reachable state of the repaired model with four map entries (three subscriptions, one
    mutation in flight), a failed subscription waiting for its close task, a pending error reply. *)
Example reachable_rich :
  exists s, run (repaired 5) init h_rich = Some s /\ List.length (st_subs s) = 4 /\ List.length (st_tasks s) = 1
            /\ st_pend s <> None /\ List.length (st_out s) = 3 /\ sub_count s = 3.
Proof. exact ProofsC17.reachable_rich_l. Qed.
