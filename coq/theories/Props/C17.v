(** C17 - connection lifecycle: every subscription ends exactly once and stops for good.

    Model: Server/Model.v - a labelled transition system of graphql/server.go (conn, handleSubscribe,
    handleMutate, closeSubscription(s), handle, ServeJSONSocket) over the interface of reactive.Rerunner;
    [step cfg s l] is one atomic section of the Go code, a history is a list of labels, [run] replays one.
    Vocabulary: Server/Spec.v.  [repaired max] is the code with C17-fix-1..4 applied; the theorems name
    the repair flags they need, and the [_refuted] theorems show that each flag is needed: with only that
    repair missing (the original code at that place) the statement fails on a concrete history, which
    corpus/C17/*.json replays on the implementation.

    A "subscription" is one rerunner [rid] (numbered in creation order); [st_subs] is conn.subscriptions
    (id -> rid); [st_runners] is every rerunner ever created, with its status Live / Failed / Stopped. *)
From Coq Require Import List String Bool Arith.
From Thunder Require Import Lib.Json DiffMerge.Model Server.Model Server.Spec Server.Proofs Server.ProofsLife
     Server.ProofsLog Server.Witness Server.Release Server.ProofsRelease Server.ProofsC17.
Import ListNotations.

(** No leak, duplicate-id rule, map consistency.  In every reachable state: ids in the map are unique;
    every map entry is a not-yet-stopped rerunner created for that id; every rerunner that was ever created
    and is not stopped is in the map under its id; after ServeJSONSocket returned the map is empty. *)
Theorem map_invariant : forall cfg s, c_fix_mutdup cfg = true -> reachable cfg s ->
  NoDup (map fst (st_subs s))
  /\ (forall id rid, In (id, rid) (st_subs s) ->
        exists r, st_runners s rid = Some r /\ r_sub r = id /\ r_stat r <> Stopped)
  /\ (forall rid r, st_runners s rid = Some r -> r_stat r <> Stopped -> In (r_sub r, rid) (st_subs s))
  /\ (st_closed s = true -> st_subs s = []).
Proof. exact ProofsC17.map_invariant_l. Qed.
Print Assumptions map_invariant.

(** After the connection closed, every rerunner ever created has been stopped. *)
Theorem all_stopped_after_close : forall cfg s, c_fix_mutdup cfg = true -> reachable cfg s -> st_closed s = true ->
  forall rid r, st_runners s rid = Some r -> r_stat r = Stopped.
Proof. exact ProofsC17.all_stopped_after_close_l. Qed.
Print Assumptions all_stopped_after_close.

(** Stops for good: once a rerunner is stopped then, in every continuation of the history, it stays
    stopped, no run-completion label for it is enabled, and the sequence of envelopes it wrote does not
    grow.  (Holds for every configuration: what the original code gets wrong is that it forgets to stop.) *)
Theorem silent_after_end : forall cfg h s s' rid r,
  reachable cfg s -> st_runners s rid = Some r -> r_stat r = Stopped -> run cfg s h = Some s' ->
  (forall o, step cfg s' (LRun rid o) = None) /\ writes_of rid s' = writes_of rid s.
Proof. exact ProofsC17.silent_after_end_l. Qed.
Print Assumptions silent_after_end.

(** Ends exactly once: along any history the number of steps at which a rerunner goes from alive to
    stopped is 1 if it is stopped at the end and 0 otherwise (a rerunner that does not exist yet is not
    stopped) - never 2; with [all_stopped_after_close]: exactly 1 for every rerunner once the connection
    has closed. *)
Theorem ends_exactly_once : forall cfg h s rid, run cfg init h = Some s ->
  end_count cfg init h rid = if stopped_in s rid then 1 else 0.
Proof. exact ProofsC17.ends_exactly_once_l. Qed.
Print Assumptions ends_exactly_once.

(** What ends a rerunner: an unsubscribe message for its id, the close task it spawned itself, or the
    connection closing - nothing else (in particular not the close task of an earlier subscription that
    used the same id). *)
Theorem end_cause : forall cfg s l s' rid r,
  c_fix_aba cfg = true -> c_fix_mutdup cfg = true -> reachable cfg s -> step cfg s l = Some s' ->
  st_runners s rid = Some r -> r_stat r <> Stopped -> stopped_in s' rid = true ->
  l = LUnsubscribe (r_sub r) \/ l = LCloseTask (r_sub r) rid \/ l = LSocketClose \/ l = LMalformed.
Proof. exact ProofsC17.end_cause_l. Qed.
Print Assumptions end_cause.

(** The logger: for every id, Subscribe id and Unsubscribe id strictly alternate starting with Subscribe
    (exactly one Unsubscribe id after each Subscribe id and before the next Subscribe id, or none yet), and the
    last call was Subscribe id exactly when id is in the map.  Hence after the connection closed every
    Subscribe has its Unsubscribe. *)
Theorem logger_alternates : forall cfg s, log_fixes cfg -> reachable cfg s ->
  forall id, alternates id (st_log s) = true /\ is_open id (st_log s) = has_id id (st_subs s).
Proof. exact ProofsC17.logger_alternates_l. Qed.
Print Assumptions logger_alternates.

Theorem logger_balanced_after_close : forall cfg s, log_fixes cfg -> reachable cfg s -> st_closed s = true ->
  forall id, alternates id (st_log s) = true /\ is_open id (st_log s) = false.
Proof. exact ProofsC17.logger_balanced_after_close_l. Qed.
Print Assumptions logger_balanced_after_close.

(** The subscription limit: the number of subscriptions in the map never exceeds MaxSubscriptions
    (mutations in flight also occupy map entries and count towards the test `len+1 > max` that
    handleSubscribe makes, so the bound is not always attained). *)
Theorem limit_holds : forall cfg s, c_fix_mutdup cfg = true -> reachable cfg s -> sub_count s <= c_max cfg.
Proof. exact ProofsC17.limit_holds_l. Qed.
Print Assumptions limit_holds.

(** * A failing socket write (writeOrClose)

    [LBreak] may occur anywhere in a history: from then on every write is lost and closes the socket.  All
    theorems above quantify over histories with [LBreak] in them.  In addition: *)

(** a failed write loses the envelope and closes the socket; *)
Theorem failed_write_closes_socket : forall s e, st_wfail s = true ->
  st_out (push_out s e) = st_out s /\ st_sockclosed (push_out s e) = true.
Proof. exact ProofsC17.failed_write_closes_socket_l. Qed.
Print Assumptions failed_write_closes_socket.

(** once the socket is closed it stays closed (the next ReadJSON fails: the reader observes the close), *)
Theorem socket_stays_closed : forall cfg s l s', step cfg s l = Some s' -> st_sockclosed s = true -> st_sockclosed s' = true.
Proof. exact ProofsC17.socket_stays_closed_l. Qed.
Print Assumptions socket_stays_closed.

(** which is always possible between two messages - after which [all_stopped_after_close],
    [logger_balanced_after_close] and [all_released_after_close] apply. *)
Theorem close_always_possible : forall cfg s, st_closed s = false -> st_pend s = None ->
  exists s', step cfg s LSocketClose = Some s' /\ st_closed s' = true.
Proof. exact ProofsC17.close_always_possible_l. Qed.
Print Assumptions close_always_possible.

(** * Reactive resources are released (Server/Release.v)

    [runR] runs the connection model together with the bookkeeping of the rerunner interface: computations
    register resources, a successful run releases the previous computation, a failed one releases its own,
    Stop() releases the published one; [rs_released] is the log of Cleanup calls. *)

(** No resource gets two Cleanup calls; the log holds exactly the released resources. *)
Theorem cleanup_at_most_once : forall cfg s rs, reachableR cfg (s, rs) ->
  NoDup (rs_released rs) /\
  forall e, In e (rs_entries rs) -> (In (re_res e) (rs_released rs) <-> re_phase e = RRel).
Proof. exact ProofsC17.cleanup_at_most_once_l. Qed.
Print Assumptions cleanup_at_most_once.

(** Once a rerunner has ended, every resource registered by its computations has had its Cleanup call. *)
Theorem released_when_stopped : forall cfg s rs e, reachableR cfg (s, rs) ->
  In e (rs_entries rs) -> stopped_in s (re_rid e) = true ->
  re_phase e = RRel /\ In (re_res e) (rs_released rs).
Proof. exact ProofsC17.released_when_stopped_l. Qed.
Print Assumptions released_when_stopped.

(** After the connection closed, every resource ever registered has had exactly one Cleanup call. *)
Theorem all_released_after_close : forall cfg s rs e, c_fix_mutdup cfg = true -> reachableR cfg (s, rs) ->
  st_closed s = true -> In e (rs_entries rs) ->
  re_phase e = RRel /\ In (re_res e) (rs_released rs) /\ NoDup (rs_released rs).
Proof. exact ProofsC17.all_released_after_close_l. Qed.
Print Assumptions all_released_after_close.

(** F13 once more: with the original handleMutate a resource is still held after the connection closed. *)
Theorem all_released_refuted :
  exists s rs, runR (only_mutdup_missing 3) (init, rinit) h_f13_res = Some (s, rs) /\ st_closed s = true
               /\ rs_entries rs = [mk_rentry 7 0 RCur] /\ rs_released rs = [].
Proof. exact f13_release_witness. Qed.
Print Assumptions all_released_refuted.

(** Non-vacuity: superseded, failed, unsubscribed and socket-closed computations (the socket closed by a
    failed write), six resources, six Cleanup calls. *)
Example release_example :
  exists s rs, runR (repaired 3) (init, rinit) h_release = Some (s, rs) /\ st_closed s = true
               /\ rs_released rs = [6; 5; 3; 4; 2; 1] /\ List.length (st_out s) = 3 /\ st_sockclosed s = true.
Proof. exact Witness.release_example. Qed.

(** * The original code: each repair is needed *)

(** F13.  With the original handleMutate (no duplicate check) a rerunner is alive, absent from the map,
    after the connection closed - and a run of it is enabled and writes to the socket. *)
Theorem no_leak_refuted :
  exists s s', run (only_mutdup_missing 3) init h_f13 = Some s /\ st_closed s = true /\ alive_in s 0 = true
               /\ has_rid 0 (st_subs s) = false
               /\ step (only_mutdup_missing 3) s (LRun 0 (OOk v2)) = Some s'
               /\ List.length (st_out s') = S (List.length (st_out s)).
Proof. exact ProofsC17.no_leak_refuted_l. Qed.
Print Assumptions no_leak_refuted.

(** F12.  With the original closeSubscriptions the log still shows subscription 0 open after close. *)
Theorem logger_balanced_refuted :
  exists s, run (only_closelog_missing 3) init [LSubscribe 0 QOk; LSocketClose] = Some s
            /\ st_closed s = true /\ is_open 0 (st_log s) = true.
Proof. exact ProofsC17.logger_balanced_refuted_l. Qed.
Print Assumptions logger_balanced_refuted.

(** With the original handleMutate (no Subscribe call) an Unsubscribe 0 is logged that no Subscribe 0 precedes. *)
Theorem logger_alternates_refuted :
  exists s, run (only_mutsub_missing 3) init [LMutate 0 QOk; LRun 0 (OOk v1); LCloseTask 0 0] = Some s
            /\ alternates 0 (st_log s) = false.
Proof. exact ProofsC17.logger_alternates_refuted_l. Qed.
Print Assumptions logger_alternates_refuted.

(** F14.  With the original asynchronous close (by id only) the close task spawned by rerunner 0 stops
    rerunner 1, a newer subscription with the same id. *)
Theorem end_cause_refuted :
  exists s s', run (only_aba_missing 3) init h_aba = Some s /\ alive_in s 1 = true
               /\ step (only_aba_missing 3) s (LCloseTask 0 0) = Some s' /\ stopped_in s' 1 = true.
Proof. exact ProofsC17.end_cause_refuted_l. Qed.
Print Assumptions end_cause_refuted.

(** Non-vacuity: a reachable state of the repaired model with four map entries (three subscriptions, one
    mutation in flight), a failed subscription waiting for its close task, a pending error reply. *)
Example reachable_rich :
  exists s, run (repaired 5) init h_rich = Some s /\ List.length (st_subs s) = 4 /\ List.length (st_tasks s) = 1
            /\ st_pend s <> None /\ List.length (st_out s) = 3 /\ sub_count s = 3.
Proof. exact ProofsC17.reachable_rich_l. Qed.
