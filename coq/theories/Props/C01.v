(** C01: execution equals the sequential reference semantics under any scheduling and execution mode.
    Statements only; proofs are in Gql/ProofsSched.v, Gql/ProofsSplit.v. *)
From Coq Require Import List String Bool Arith Permutation ZArith.
From Thunder Require Import Lib.Json Gql.Types Gql.Value Gql.Query Gql.Ref Gql.Exec Gql.ProofsSched Gql.ProofsSplit Gql.ProofsRef Gql.ProofsMain Gql.ProofsEnt Gql.ProofsTop Gql.Witness Gql.ProofsWitness.
Import ListNotations.
Open Scope string_scope.
Open Scope list_scope.

(** For every schema, state and schedule (any list of choices, any length): once no unit is pending,
    the output nodes filled are exactly those of the forest of work units under the initial units
    ([P u r]: the forest under [u] fills and raises [r]), and the error recorder holds nothing iff the
    forest raises nothing, otherwise one of the failures it raises. *)
Theorem schedule_independence : forall Q S fuel st0 rs,
  Forall2 (P Q S fuel) (st_pending st0) rs -> st_err st0 = None ->
  forall sched, complete (run_sched Q S fuel sched st0) = true ->
    Permutation (st_heap (run_sched Q S fuel sched st0)) (st_heap st0 ++ heaps rs) /\
    match st_err (run_sched Q S fuel sched st0) with
    | None => errs rs = []
    | Some e => In e (errs rs)
    end.
Proof. exact ProofsSched.schedule_independence. Qed.
Print Assumptions schedule_independence.

(** Hence what Execute returns is the same for every schedule: the same JSON when nothing fails, an
    error (and no data) otherwise.  [NoDup]: each output node is filled by one unit only. *)
Theorem result_independent_of_schedule : forall Q S fuel rf st0 rs,
  Forall2 (P Q S fuel) (st_pending st0) rs -> st_err st0 = None ->
  NoDup (map fst (st_heap st0 ++ heaps rs)) ->
  forall sched, complete (run_sched Q S fuel sched st0) = true ->
    match errs rs with
    | [] => finish rf (run_sched Q S fuel sched st0)
            = Some (ROk (JObj (map (fun k => (k, render rf (st_heap st0 ++ heaps rs) [PKey k])) (st_top st0))))
    | _ => exists e, In e (errs rs) /\ finish rf (run_sched Q S fuel sched st0) = Some (RErr e)
    end.
Proof. exact ProofsSched.result_independent_of_schedule. Qed.
Print Assumptions result_independent_of_schedule.

(** splitToNWorkUnits (any requested number of units, clamped as the code does) and splitWorkUnit
    keep the zipped (source, destination) pairs: a permutation of the original unit's. *)
Theorem split_to_n_pairs : forall u n, Permutation (flat_map u_items (split_to_n u n)) (u_items u).
Proof. exact ProofsSplit.split_to_n_pairs. Qed.
Print Assumptions split_to_n_pairs.

Theorem split_work_unit_pairs : forall u, flat_map u_items (split_work_unit u) = u_items u.
Proof. exact ProofsSplit.split_work_unit_items. Qed.
Print Assumptions split_work_unit_pairs.

(** THE PROPERTY.  For every schema as the builder produced it (hence for every assignment of
    execution modes to fields: plain, Expensive, batch, batch with fallback, NumParallelInvocations),
    every parsed query, every data graph and every schedule: if the sequential reference evaluation
    raises nothing (the query fits the schema, the data has a result for every selected field, no
    resolver fails, the fuel suffices), then Execute can be started, and once no unit is pending it
    returns exactly the JSON of [eval_ref] - same values, same key order.
    Side conditions on the reference result itself: no object in it carries a key twice (Flatten makes
    aliases unique; the condition excludes an alias "__key" on a keyed object), and [render]'s fuel
    covers its nesting depth. *)
Theorem execution_equals_reference : forall S fuel rf q root sched,
  snd (eval_ref S fuel q root) = [] ->
  json_keys_unique (fst (eval_ref S fuel q root)) = true ->
  jdepth (fst (eval_ref S fuel q root)) <= Datatypes.S rf ->
  exists st0, init fixed S q root = inl st0 /\
    (complete (run_sched fixed S fuel sched st0) = true ->
     finish rf (run_sched fixed S fuel sched st0) = Some (ROk (fst (eval_ref S fuel q root)))).
Proof. exact ProofsTop.execution_equals_reference_k. Qed.
Print Assumptions execution_equals_reference.

(** Termination: under the same hypothesis there is a bound such that every schedule at least that
    long leaves no unit pending. *)
Theorem execution_terminates : forall S fuel q root,
  snd (eval_ref S fuel q root) = [] ->
  exists st0 n, init fixed S q root = inl st0 /\
    forall sched, n <= List.length sched -> complete (run_sched fixed S fuel sched st0) = true.
Proof. exact ProofsMain.execution_terminates. Qed.
Print Assumptions execution_terminates.

(** The scheduler itself, for any fan-out: the pool of pending units is unbounded (there is no cap on
    units in flight, as in /repo), a step runs any pending unit and adds the units it returns; whenever
    the forest under the pending units is finite ([P]), there is a bound - the number of units of the
    forest - such that after that many steps, in whatever order, nothing is pending: every enqueued unit
    has been run, and Run returns. *)
Theorem scheduler_terminates_for_any_fan_out : forall Q S fuel st0 rs,
  Forall2 (P Q S fuel) (st_pending st0) rs ->
  exists n, forall sched, n <= List.length sched -> complete (run_sched Q S fuel sched st0) = true.
Proof. exact ProofsSched.termination. Qed.
Print Assumptions scheduler_terminates_for_any_fan_out.

(** The lemma behind both: a work unit, whatever its mode and however it was split, fills exactly the
    nodes of the reference results of its (source, destination) pairs, together with the forest of units
    it schedules ([U]); resolveBatch over n sources equals n single evaluations ([R]). *)
Theorem units_compute_reference : forall S fuel fr, R S fuel fr /\ U S fuel fr.
Proof. exact ProofsRef.units_compute_reference. Qed.
Print Assumptions units_compute_reference.

(** The code before the repair of resolveUnionBatch (model variant [original]) does not compute the
    reference result: two fragments on one union member, the second replaces the first (F4), and a
    member without fragment renders as null (F5).  Replayed on the real code by corpus/C01/f4-*.json. *)
Theorem execution_equals_reference_original_refuted :
  exists S vs q root,
    (exists ss, parse vs q = Some ss /\ snd (eval_ref S 40 ss root) = []) /\
    norm_result (exec_fifo original S vs q root) <> ref_result_of S vs q root /\
    norm_result (exec_fifo fixed S vs q root) = ref_result_of S vs q root.
Proof. exists w_schema, [], w_f4, w_root. exact f4_witness. Qed.
Print Assumptions execution_equals_reference_original_refuted.

(** The hypotheses are satisfiable by a non-trivial state: a list of keyed objects with a batch field
    split in two, a plain function field and a union. *)
Definition ex_schema : schema :=
  mk_schema
    [mk_object "Query" [mk_field "as" (TList (TObject "A")) false false true false None;
                        mk_field "u" (TUnion "U") false true true false None] None;
     mk_object "A" [mk_field "id" (TScalar "int64") false false false false None;
                    mk_field "x" (TScalar "int64") true false true true (Some [1; 1; 2; 2]);
                    mk_field "b" (TObject "A") false false true false None] (Some "id")]
    [mk_union "U" ["A"]] "Query".
Definition ex_a1 := VObj "A" [("id", OOk (VLeaf (LNum 1%Z))); ("x", OOk (VLeaf (LNum 10%Z))); ("b", OOk VNull)].
Definition ex_a2 := VObj "A" [("id", OOk (VLeaf (LNum 2%Z))); ("x", OOk (VLeaf (LNum 20%Z))); ("b", OOk ex_a1)].
Definition ex_root := VObj "Query" [("as", OOk (VList [ex_a1; ex_a2; ex_a1])); ("u", OOk ex_a1)].
Definition ex_query : squery :=
  mk_squery "" 1
    (SCons (SField "as" "as" "as" [] (Some (2, SCons (SField "x" "x" "x" [] None)
             (SCons (SField "b" "b" "b" [] (Some (3, SCons (SField "id" "id" "id" [] None) SNil))) SNil))))
    (SCons (SField "u" "u" "u" [] (Some (4, SCons (SInline "A" [] 5 (SCons (SField "id" "id" "id" [] None) SNil))
             (SCons (SInline "A" [] 6 (SCons (SField "x" "x" "x" [] None) SNil)) SNil)))) SNil)) [].

Example main_hypotheses_satisfiable :
  exists ss, parse [] ex_query = Some ss /\
    snd (eval_ref ex_schema 40 ss ex_root) = [] /\
    json_keys_unique (fst (eval_ref ex_schema 40 ss ex_root)) = true /\
    jdepth (fst (eval_ref ex_schema 40 ss ex_root)) <= 40 /\
    List.length (ent [] (fst (eval_ref ex_schema 40 ss ex_root))) = 20.
Proof.
  eexists. split; [vm_compute; reflexivity|]. split; [vm_compute; reflexivity|].
  split; [vm_compute; reflexivity|]. split; [vm_compute; repeat constructor | vm_compute; reflexivity].
Qed.

Example hypotheses_satisfiable :
  exists st0 rs ss,
    parse [] ex_query = Some ss /\ init fixed ex_schema ss ex_root = inl st0 /\
    List.length (st_pending st0) = 2 /\
    Forall2 (P fixed ex_schema 40) (st_pending st0) rs /\ st_err st0 = None /\
    NoDup (map fst (st_heap st0 ++ heaps rs)) /\ errs rs = [] /\
    List.length (heaps rs) = 19.
Proof.
  destruct (parse [] ex_query) as [ss|] eqn:Ep; [|vm_compute in Ep; discriminate].
  destruct (init fixed ex_schema ss ex_root) as [st0|e] eqn:Ei;
    [|vm_compute in Ep; inversion Ep; subst; vm_compute in Ei; discriminate].
  vm_compute in Ep. inversion Ep; subst ss. vm_compute in Ei. inversion Ei; subst st0. clear Ep Ei.
  eexists. eexists. eexists. split; [reflexivity|]. split; [reflexivity|]. split; [reflexivity|].
  split.
  { constructor; [apply (total_P fixed ex_schema 40 6); vm_compute; reflexivity|].
    constructor; [apply (total_P fixed ex_schema 40 6); vm_compute; reflexivity|]. constructor. }
  split; [reflexivity|]. split; [|split; reflexivity].
  vm_compute. repeat (constructor; [simpl; intuition discriminate|]). constructor.
Qed.
