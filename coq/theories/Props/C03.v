(** C03 - Diff/merge round trip.  Property theorems only; proofs are in DiffMerge/Proofs*.v.

    Model: DiffMerge/Model.v ([Diff] = diff/diff.go, [Merge] = merge/merge.go, [MergeJS] =
    client/src/merge.ts, [strip] = diff.StripKey), checked against the code on every run.
    [wf]: object keys unique, a [__key] (when present) is a non-null scalar.
    [jeq]: equality of JSON values with objects read as finite maps (Go maps are unordered).
    [Diff old new = None] is Go's nil delta ("nothing to send").

    Not a theorem: "Diff never modifies its arguments" (inherent in a functional model; checked on the
    implementation by the harness).

    Second part of the file (from [roundtrip_atoms_go] on): the same functions over an ABSTRACT scalar domain
    (DiffMerge/GModel.v: [val A], operations [atom_ops A], laws [atom_laws]: decidable equality standing for
    Go's [==] / bytes.Equal, the pass-through classification of markReplaced, comparability, how an index is
    written and read back).  The server's Go-typed values and the client's JSON values are two instances;
    "every delta survives JSON serialisation" is [roundtrip_serialised_go/js]: the delta computed on the
    server's values, with its leaves serialised by ANY map that keeps pass-through scalars pass-through and
    index numbers readable ([atom_hom]; encoding/json on leaves is one, DiffMerge/GInst.v), merges the
    client's serialised old value into the serialised new value.
    [fix4 = true] is diff.diffMap as repaired by patches/C03-fix-4.patch (applied to /repo), [fix4 = false] the one
    before the repair (the harness probes which one the tree under test has);
    [vwf_gen strict]: object keys unique, a "__key" is a comparable scalar or (unless [strict]) nil.  The
    hypothesis [fix4 || strict = true] reads: the unrepaired code on the strict domain, or the repaired code
    with explicit nil keys allowed.  [roundtrip_nil_key_refuted]: the unrepaired code off the strict domain (how the
    defect was found; corpus/C03/g1..g3).
    [guide]: which index list a list diff uses ([vchoose]): [None] = diff.computeReorderIndices; the round trips,
    the serialisation theorems and the well-formedness of deltas hold for EVERY guide (any index list of
    the right length with entries in range will do); what is said about the choice itself (nil delta iff equal,
    unchanged fields absent, matched objects not resent) is for [guide = None]. *)
From Coq Require Import List ZArith String Bool.
From Thunder Require Import Lib.Json Lib.JsonNorm DiffMerge.Model DiffMerge.ProofsCompress DiffMerge.ProofsMergeGo
     DiffMerge.ProofsMain DiffMerge.ProofsSelf DiffMerge.ProofsJS.
From Thunder Require Import DiffMerge.GModel DiffMerge.GBase DiffMerge.GMergeGo DiffMerge.GMain DiffMerge.GJS DiffMerge.GSelf
     DiffMerge.GCompress DiffMerge.GArray DiffMerge.GSer DiffMerge.GExact DiffMerge.GReorder DiffMerge.GLocal DiffMerge.GClients
     DiffMerge.GWellFormed DiffMerge.GSerClients DiffMerge.GInst DiffMerge.GWitness DiffMerge.GBridge.
Import ListNotations.
Open Scope string_scope.

(** Applying Diff(old,new) with thunder's Go merge to the key-stripped old value yields the key-stripped
    new value (and never fails); an empty delta means the stripped values are already equal. *)
Theorem roundtrip_go :
  forall old new, wf old = true -> wf new = true ->
    match Diff old new with
    | None => jeq (strip old) (strip new)
    | Some d => exists r, Merge (strip old) d = Some r /\ jeq r (strip new)
    end.
Proof. intros old new Ho Hn. exact (roundtrip_go_all new old Ho Hn). Qed.
Print Assumptions roundtrip_go.

(** The same for the JavaScript client's merge. *)
Theorem roundtrip_js :
  forall old new, wf old = true -> wf new = true ->
    match Diff old new with
    | None => jeq (strip old) (strip new)
    | Some d => jeq (MergeJS (strip old) d) (strip new)
    end.
Proof. intros old new Ho Hn. exact (roundtrip_js_all new old Ho Hn). Qed.
Print Assumptions roundtrip_js.

(** Diff of a value with itself is empty. *)
Theorem diff_self : forall v, wf v = true -> Diff v v = None.
Proof. exact diff_self_all. Qed.
Print Assumptions diff_self.

(** The run-length encoding of reorder indices is lossless ([start, count] runs, singletons, -1). *)
Theorem reorder_indices_roundtrip : forall idx : list (option nat), uncompress (compress idx) = Some idx.
Proof. exact uncompress_compress. Qed.
Print Assumptions reorder_indices_roundtrip.

(** What [jeq] means: values with unique object keys that are [jeq] have the same canonical form (keys
    sorted) - the comparison the correspondence check and the oracle use on the implementation's outputs. *)
Theorem jeq_canonical : forall a b, jeq a b -> keys_ok a = true -> keys_ok b = true -> norm a = norm b.
Proof. exact jeq_norm. Qed.
Print Assumptions jeq_canonical.

(** Non-vacuity: a well-formed pair with keyed objects, a reorder, an insertion, a removed field and a new
    complex field; its delta uses the "$" encoding, and both merges reproduce the new value. *)
Definition ex_old : json :=
  JObj [("xs", JArr [JObj [("__key", JNum 1); ("a", JNum 5)]; JObj [("__key", JNum 2); ("a", JNum 6)]; JNum (-1)]);
        ("gone", JStr "x")].
Definition ex_new : json :=
  JObj [("xs", JArr [JObj [("__key", JNum 2); ("a", JNum 7)]; JObj [("__key", JNum 3)]; JObj [("__key", JNum 1); ("a", JNum 5)]; JNum (-1)]);
        ("fresh", JArr [JNum 1; JNum 2])].
Example ex_wf : wf ex_old = true /\ wf ex_new = true.
Proof. split; reflexivity. Qed.
Example ex_delta :
  Diff ex_old ex_new =
  Some (JObj [("gone", JArr []);
              ("xs", JObj [("$", JArr [JNum 1; JNum (-1); JNum 0; JNum 2]); ("0", JObj [("a", JNum 7)]); ("1", JArr [JObj []])]);
              ("fresh", JArr [JArr [JNum 1; JNum 2]])]).
Proof. vm_compute. reflexivity. Qed.
Example ex_merge :
  option_map norm (match Diff ex_old ex_new with Some d => Merge (strip ex_old) d | None => None end)
  = Some (norm (strip ex_new))
  /\ norm (match Diff ex_old ex_new with Some d => MergeJS (strip ex_old) d | None => JNull end) = norm (strip ex_new).
Proof. split; vm_compute; reflexivity. Qed.


(** * The same over an abstract scalar domain *)

(** Round trip, Go merge, any scalar domain with decidable equality. *)
Theorem roundtrip_atoms_go :
  forall (A : Type) (O : atom_ops A), atom_laws O -> forall strict : bool, fix4 || strict = true ->
  forall old new : val A, vwf_gen strict old = true -> vwf_gen strict new = true ->
    match VDiff old new with
    | None => vjeq (vstrip old) (vstrip new)
    | Some d => exists r, VMerge (vstrip old) d = Some r /\ vjeq r (vstrip new)
    end.
Proof. intros A O L strict Hm old new Ho Hn. exact (vroundtrip_go_all L strict Hm new old Ho Hn). Qed.
Print Assumptions roundtrip_atoms_go.

Theorem roundtrip_atoms_js :
  forall (A : Type) (O : atom_ops A), atom_laws O -> forall strict : bool, fix4 || strict = true ->
  forall old new : val A, vwf_gen strict old = true -> vwf_gen strict new = true ->
    match VDiff old new with
    | None => vjeq (vstrip old) (vstrip new)
    | Some d => vjeq (VMergeJS (vstrip old) d) (vstrip new)
    end.
Proof. intros A O L strict Hm old new Ho Hn. exact (vroundtrip_js_all L strict Hm new old Ho Hn). Qed.
Print Assumptions roundtrip_atoms_js.

(** Every delta survives JSON serialisation: Diff on the server's values, merge on the client's. *)
Theorem roundtrip_serialised_go :
  forall (A B : Type) (OA : atom_ops A) (OB : atom_ops B), atom_laws OA ->
  forall f : A -> B, atom_hom OA OB f ->
  forall strict : bool, @fix4 A OA || strict = true ->
  forall old new : val A, vwf_gen strict old = true -> vwf_gen strict new = true ->
    match VDiff old new with
    | None => vjeq (vmap f (vstrip old)) (vmap f (vstrip new))
    | Some d => exists r, VMerge (vmap f (vstrip old)) (vmap f d) = Some r /\ vjeq r (vmap f (vstrip new))
    end.
Proof. intros A B OA OB LA f H strict Hm. exact (ser_roundtrip_go_all LA f H strict Hm). Qed.
Print Assumptions roundtrip_serialised_go.

Theorem roundtrip_serialised_js :
  forall (A B : Type) (OA : atom_ops A) (OB : atom_ops B), atom_laws OA ->
  forall f : A -> B, atom_hom OA OB f ->
  forall strict : bool, @fix4 A OA || strict = true ->
  forall old new : val A, vwf_gen strict old = true -> vwf_gen strict new = true ->
    match VDiff old new with
    | None => vjeq (vmap f (vstrip old)) (vmap f (vstrip new))
    | Some d => vjeq (VMergeJS (vmap f (vstrip old)) (vmap f d)) (vmap f (vstrip new))
    end.
Proof. intros A B OA OB LA f H strict Hm. exact (ser_roundtrip_js_all LA f H strict Hm). Qed.
Print Assumptions roundtrip_serialised_js.

(** encoding/json on the leaves of Go-typed values is such a map, for the instances of DiffMerge/GInst.v the
    harness evaluates: [dl], [ml] are the pass-through lists of diff.markReplaced and merge.mergeReplaced, which
    the harness reads from the sources on every run; [lists_ok] (evaluated on them, component 10) says that
    whatever markReplaced sends raw arrives as a JSON leaf mergeReplaced passes through. *)
Theorem json_leaves_hom :
  forall (dl ml : list string) (f1 f5 : bool) (t : table) (f2 : bool), lists_ok dl ml = true ->
  atom_laws (sopsL dl f1 f5 t) /\ atom_laws (wopsL ml f2) /\ atom_hom (sopsL dl f1 f5 t) (wopsL ml f2) ser.
Proof. intros dl ml f1 f5 t f2 H. exact (conj (sopsL_laws dl f1 f5 t) (conj (wopsL_laws ml f2) (ser_homL dl ml f1 f5 t f2 H))). Qed.
Print Assumptions json_leaves_hom.

(** The unrepaired diffMap off the strict domain: an explicit nil "__key" facing an absent one puts the
    pseudo-field into the delta; merge.Merge then fails, or both clients keep a "__key" field. *)
Theorem roundtrip_nil_key_refuted :
  (exists old new d, vwf (O := sops false) old = true /\ vwf (O := sops false) new = true
     /\ VDiff (O := sops false) old new = Some d
     /\ VMerge (O := wops false) (vmap ser (vstrip old)) (vmap ser d) = None)
  /\ (exists old new d r, vwf (O := sops false) old = true /\ vwf (O := sops false) new = true
     /\ VDiff (O := sops false) old new = Some d
     /\ VMerge (O := wops false) (vmap ser (vstrip old)) (vmap ser d) = Some r
     /\ VMergeJS (O := wops false) (vmap ser (vstrip old)) (vmap ser d) = r
     /\ ~ vjeq r (vmap ser (vstrip new))).
Proof. exact nil_key_witness. Qed.
Print Assumptions roundtrip_nil_key_refuted.

(** "A nil diff indicates that the old and new objects are equal" - as an equivalence, keys included. *)
Theorem diff_nil_iff_equal :
  forall (A : Type) (O : atom_ops A), atom_laws O -> @guide A O = None ->
  forall old new : val A, vwf_strict old = true -> vwf_strict new = true -> (VDiff old new = None <-> vjeq old new).
Proof. intros A O L G. exact (vdiff_none_iff L G). Qed.
Print Assumptions diff_nil_iff_equal.

(** ... one direction of which holds with explicit nil keys too (self-diff, for equal values). *)
Theorem diff_equal_is_nil :
  forall (A : Type) (O : atom_ops A), atom_laws O -> @guide A O = None -> forall strict : bool,
  forall old new : val A, vwf_gen strict old = true -> vwf_gen strict new = true -> vjeq old new -> VDiff old new = None.
Proof. intros A O L G strict old new Ho Hn Hj. exact (vjeq_diff_none L G strict new old Ho Hn Hj). Qed.
Print Assumptions diff_equal_is_nil.

(** DiffMerge/Model.v - the [json] model of the first part of this file, which the Server models of C02 and C17 are
    built on - IS the generic model at the client's scalar domain: [emb : json -> val watom] commutes with
    StripKey and Diff.  So the statements of this part about [VDiff] hold of [Model.Diff]; the first of them: *)
Theorem json_model_is_an_instance :
  forall old new : json,
    VDiff (O := wops false) (emb old) (emb new) = option_map emb (Diff old new)
    /\ emb (strip old) = vstrip (emb old).
Proof. intros old new. exact (conj (emb_Diff old new) (emb_strip old)). Qed.
Print Assumptions json_model_is_an_instance.

Theorem diff_nil_iff_equal_json :
  forall old new : json, wf old = true -> wf new = true -> (Diff old new = None <-> jeq old new).
Proof. exact Diff_nil_iff_jeq. Qed.
Print Assumptions diff_nil_iff_equal_json.

(** StripKey is idempotent, leaves no "__key" anywhere, and fixes exactly the key-free values. *)
Theorem stripkey_idempotent : forall (A : Type) (v : val A), vstrip (vstrip v) = vstrip v.
Proof. intros A. exact vstrip_idem. Qed.
Print Assumptions stripkey_idempotent.

Theorem stripkey_removes_keys :
  forall (A : Type) (v : val A), vno_key (vstrip v) = true /\ (vno_key v = true -> vstrip v = v).
Proof. intros A v. exact (conj (vstrip_no_key v) (vstrip_fixed v)). Qed.
Print Assumptions stripkey_removes_keys.

(** Locality.  Two objects with the same "__key": the delta is nil or an object delta that has, for every
    field name, exactly the entry [field_delta] says (removal marker / nested delta / replacement / nothing) ... *)
Theorem object_delta_exact :
  forall (A : Type) (O : atom_ops A), atom_laws O ->
  forall o n : list (string * val A),
  vwf_strict (VObj o) = true -> vwf_strict (VObj n) = true -> veqb (vget_key o) (vget_key n) = true ->
  (VDiff (VObj o) (VObj n) = None \/ exists d, VDiff (VObj o) (VObj n) = Some (VObj d))
  /\ forall k, lookup k (entries (VDiff (VObj o) (VObj n))) = field_delta o n k.
Proof. intros A O L. exact (vobject_delta_exact L). Qed.
Print Assumptions object_delta_exact.

(** ... so a field is missing from the delta exactly when it did not change (absent from both, or equal) ... *)
Theorem object_field_absent_iff :
  forall (A : Type) (O : atom_ops A), atom_laws O -> @guide A O = None ->
  forall (o n : list (string * val A)) (k : string),
  vwf_strict (VObj o) = true -> vwf_strict (VObj n) = true -> veqb (vget_key o) (vget_key n) = true ->
  (lookup k (entries (VDiff (VObj o) (VObj n))) = None <-> orel vjeq (lookup k o) (lookup k n)).
Proof. intros A O L G. exact (vobject_field_absent_iff L G). Qed.
Print Assumptions object_field_absent_iff.

(** ... and objects with different keys are resent whole. *)
Theorem object_key_change :
  forall (A : Type) (O : atom_ops A) (o n : list (string * val A)),
  veqb (vget_key o) (vget_key n) = false -> VDiff (VObj o) (VObj n) = Some (VArr [vstrip (VObj n)]).
Proof. intros A O. exact vobject_key_change. Qed.
Print Assumptions object_key_change.

(** Lists: the "$" entry is there exactly when the index list is not the identity on the old list, and
    holds its compression; entry "i" is the delta of the i-th new element against the old element it was
    matched with (nil if none). *)
Theorem array_delta_exact :
  forall (A : Type) (O : atom_ops A) (o n : list (val A)),
  let idx := vchoose o n in
  let d := entries (VDiff (VArr o) (VArr n)) in
  (VDiff (VArr o) (VArr n) = None \/ VDiff (VArr o) (VArr n) = Some (VObj d))
  /\ lookup dollar d = (if Nat.eqb (List.length o) (List.length n) && order_is_identity 0 idx then None
                        else Some (VArr (vcompress idx)))
  /\ forall i v j, nth_error n i = Some v -> nth_error idx i = Some j -> lookup (dec i) d = VDiff (voldI o j) v.
Proof. intros A O. exact varray_delta_exact. Qed.
Print Assumptions array_delta_exact.

(** computeReorderIndices, declaratively: entry i is the least old position with the reorder key of the
    i-th new element that no earlier entry took; -1 ([None]) exactly when there is none. *)
Theorem reorder_indices_spec :
  forall (A : Type) (O : atom_ops A), atom_laws O ->
  forall (o n : list (val A)) (i : nat) (x : val A), nth_error n i = Some x ->
  match nth_error (vcompute_reorder_indices o n) i with
  | Some e => entry_ok (map vreorder_key o) (taken (vcompute_reorder_indices o n) i) (vreorder_key x) e
  | None => False
  end.
Proof. intros A O L. exact (vreorder_indices_spec L). Qed.
Print Assumptions reorder_indices_spec.

(** ... hence a matching as the documentation of computeReorderIndices promises (an index is the position of an
    old element with the same key, no position is used twice, -1 only if every old position with that key is
    used) - the property the harness checks on the implementation's own index lists, whichever valid matching
    an implementation prefers among elements with the same key. *)
Theorem reorder_indices_is_matching :
  forall (A : Type) (O : atom_ops A), atom_laws O ->
  forall o n : list (val A), is_matching o n (vcompute_reorder_indices o n).
Proof. intros A O L. exact (vreorder_indices_matching L). Qed.
Print Assumptions reorder_indices_is_matching.

(** An element matched with an old object is diffed field by field, never resent whole. *)
Theorem matched_objects_not_resent :
  forall (A : Type) (O : atom_ops A), atom_laws O ->
  forall (o n : list (val A)) (i j : nat) (a b : list (string * val A)),
  vwf_strict (VArr o) = true -> vwf_strict (VArr n) = true ->
  nth_error n i = Some (VObj b) -> nth_error (vcompute_reorder_indices o n) i = Some (Some j) ->
  nth j o VNull = VObj a ->
  VDiff (VObj a) (VObj b) = None \/ exists d, VDiff (VObj a) (VObj b) = Some (VObj d).
Proof. intros A O L. exact (vmatched_objects_not_resent L). Qed.
Print Assumptions matched_objects_not_resent.

(** compressReorderIndices: the runs expand to the index list, no run can absorb its successor, and every
    run list with these two properties is the one produced (the encoding is canonical). *)
Theorem reorder_runs_canonical :
  forall idx : list (option nat),
    expand (runs_of idx) = idx /\ Forall run_ok (runs_of idx) /\ maximal (runs_of idx)
    /\ forall rs, Forall run_ok rs -> maximal rs -> expand rs = idx -> rs = runs_of idx.
Proof.
  intros idx. exact (conj (expand_runs_of idx) (conj (runs_of_ok idx) (conj (runs_of_maximal idx)
    (fun rs Hok Hm He => eq_trans (eq_sym (runs_of_unique rs Hok Hm)) (f_equal runs_of He))))).
Qed.
Print Assumptions reorder_runs_canonical.

Theorem reorder_indices_roundtrip_atoms :
  forall (A : Type) (O : atom_ops A), atom_laws O -> forall idx : list (option nat), vuncompress (vcompress idx) = Some idx.
Proof. intros A O L. exact (vuncompress_compress L). Qed.
Print Assumptions reorder_indices_roundtrip_atoms.

(** The two clients agree on EVERY well-formed delta ([vdwf], DiffMerge/GClients.v), whoever produced it ... *)
Theorem clients_agree_on_well_formed_deltas :
  forall (A : Type) (O : atom_ops A) (d p : val A),
  vkeys_ok p = true -> vdwf d p = true ->
  exists r, VMerge p d = Some r /\ vjeq r (VMergeJS p d).
Proof. intros A O. exact vclients_agree. Qed.
Print Assumptions clients_agree_on_well_formed_deltas.

(** ... what the server sends is one (after serialisation, for what the client holds) ... *)
Theorem serialised_delta_well_formed :
  forall (A B : Type) (OA : atom_ops A) (OB : atom_ops B), atom_laws OA ->
  forall f : A -> B, atom_hom OA OB f ->
  forall strict : bool, @fix4 A OA || strict = true ->
  forall (old new d : val A), vwf_gen strict old = true -> vwf_gen strict new = true -> VDiff old new = Some d ->
  vkeys_ok (vmap f (vstrip old)) = true /\ vdwf (vmap f d) (vmap f (vstrip old)) = true.
Proof. intros A B OA OB LA f H strict Hm. exact (ser_delta_well_formed LA f H strict Hm). Qed.
Print Assumptions serialised_delta_well_formed.

(** ... and outside the well-formed deltas they differ, in each of these ways (replayed on the code by
    corpus/C03/clients-*.json). *)
Theorem clients_differ_on_ill_formed_deltas :
  (* removing a field the client does not have: merge.go rejects, merge.ts ignores *)
  (exists p d, VMerge (O := wops false) p d = None /\ VMergeJS (O := wops false) p d = p)
  (* an object delta for a scalar: merge.go answers nil, merge.ts builds an object *)
  /\ (exists p d r, VMerge (O := wops false) p d = Some VNull /\ VMergeJS (O := wops false) p d = r /\ r <> VNull)
  (* a null entry: merge.go rejects, merge.ts stores null *)
  /\ (exists p d r, VMerge (O := wops false) p d = None /\ VMergeJS (O := wops false) p d = r)
  (* an index beyond the list in "$": merge.go panics, merge.ts stores undefined *)
  /\ (exists p d r, VMerge (O := wops false) p d = None /\ VMergeJS (O := wops false) p d = r).
Proof. exact clients_differ_witness. Qed.
Print Assumptions clients_differ_on_ill_formed_deltas.

Example lists_ok_as_in_the_tree : lists_ok default_passthrough default_passthrough = true.
Proof. reflexivity. Qed.

(** Non-vacuity of the abstract part: Go-typed values (int64 and float64 ones differ for Diff, [[]byte] and a
    named string are wrapped, a fractional float), the delta, its serialisation, and both merges. *)
Definition gex_old : val satom :=
  VObj [("n", VAtom (SNum 0 (DInt 1))); ("b", VAtom (SBytes "aGk=")); ("e", VAtom (SNamed "RED"));
        ("xs", VArr [VObj [("__key", VAtom (SNum 0 (DInt 1))); ("f", VAtom (SNum 11 (DFrac 5 1)))]; VAtom (SStr "x")])].
Definition gex_new : val satom :=
  VObj [("n", VAtom (SNum 11 (DInt 1))); ("b", VAtom (SBytes "aG8=")); ("e", VAtom (SNamed "RED"));
        ("xs", VArr [VAtom (SStr "x"); VObj [("__key", VAtom (SNum 0 (DInt 1))); ("f", VAtom (SNum 11 (DFrac 7 1)))]])].
Example gex_wf : vwf_strict (O := sops false) gex_old = true /\ vwf_strict (O := sops false) gex_new = true.
Proof. split; reflexivity. Qed.
Example gex_delta :
  option_map (vmap ser) (VDiff (O := sops false) gex_old gex_new) =
  Some (VObj [("n", VAtom (WNum (DInt 1))); ("b", VArr [VAtom (WStr "aG8=")]);
              ("xs", VObj [("$", VArr [VAtom (WNum (DInt 1)); VAtom (WNum (DInt 0))]);
                           ("1", VObj [("f", VAtom (WNum (DFrac 7 1)))])])]).
Proof. vm_compute. reflexivity. Qed.
Example gex_merge :
  match VDiff (O := sops false) gex_old gex_new with
  | Some d => option_map vnorm (VMerge (O := wops false) (vmap ser (vstrip gex_old)) (vmap ser d)) = Some (vnorm (vmap ser (vstrip gex_new)))
              /\ vnorm (VMergeJS (O := wops false) (vmap ser (vstrip gex_old)) (vmap ser d)) = vnorm (vmap ser (vstrip gex_new))
              /\ vdwf (O := wops false) (vmap ser d) (vmap ser (vstrip gex_old)) = true
  | None => False
  end.
Proof. vm_compute. repeat split; reflexivity. Qed.
(** with the repaired diffMap an explicit nil key against an absent one is no change *)
Example gex_nil_key_fixed :
  VDiff (O := sops true) (VObj [("__key", VNull); ("a", VAtom (SNum 0 (DInt 1)))]) (VObj [("a", VAtom (SNum 0 (DInt 1)))]) = None
  /\ vwf (O := sops true) (VObj [("__key", VNull); ("a", VAtom (SNum 0 (DInt 1)))]) = true.
Proof. split; reflexivity. Qed.
(** reorder indices of a list with duplicate keys and unmatched elements, and their runs *)
Example gex_reorder :
  let k (z : Z) := VObj [("__key", VAtom (SNum 0 (DInt z)))] in
  vcompute_reorder_indices (O := sops false) [k 1%Z; k 1%Z; k 2%Z; VAtom (SStr "s")] [k 1%Z; k 2%Z; k 3%Z; k 1%Z; k 1%Z; VAtom (SStr "s")]
  = [Some 0; Some 2; None; Some 1; None; Some 3]
  /\ runs_of [Some 0; Some 1; Some 2; None; Some 5; Some 7; Some 8] = [RRun 0 3; RNeg; RRun 5 1; RRun 7 2].
Proof. split; reflexivity. Qed.
