(** C03 - Diff/merge round trip.  Property theorems only; proofs are in DiffMerge/Proofs*.v.

    Model: DiffMerge/Model.v ([Diff] = diff/diff.go, [Merge] = merge/merge.go, [MergeJS] =
    client/src/merge.ts, [strip] = diff.StripKey), checked against the code on every run.
    [wf]: object keys unique, a [__key] (when present) is a non-null scalar.
    [jeq]: equality of JSON values with objects read as finite maps (Go maps are unordered).
    [Diff old new = None] is Go's nil delta ("nothing to send").

    Not a theorem: "Diff never modifies its arguments" (inherent in a functional model; checked on the
    implementation by the harness) and "every delta survives JSON serialisation" (deltas are [json] terms
    by construction; the harness checks Marshal/Unmarshal on every generated delta). *)
From Coq Require Import List ZArith String.
From Thunder Require Import Lib.Json Lib.JsonNorm DiffMerge.Model DiffMerge.ProofsCompress DiffMerge.ProofsMergeGo
     DiffMerge.ProofsMain DiffMerge.ProofsSelf DiffMerge.ProofsJS.
Import ListNotations.
Open Scope string_scope.

(** Applying Diff(old,new) with thunder's Go merge to the key-stripped old value yields the key-stripped
    new value (and never fails); an empty delta means the stripped values are already equal. *)
Theorem roundtrip_go :
  forall old new, wf old = true -> wf new = true ->
    match Diff old new with
    | None => jeq (strip old) (strip new)
    | Some d => exists r, Merge (strip old) d = Some r /\ jeq r (strip new)
    end.
Proof. intros old new Ho Hn. exact (roundtrip_go_all new old Ho Hn). Qed.
Print Assumptions roundtrip_go.

(** The same for the JavaScript client's merge. *)
Theorem roundtrip_js :
  forall old new, wf old = true -> wf new = true ->
    match Diff old new with
    | None => jeq (strip old) (strip new)
    | Some d => jeq (MergeJS (strip old) d) (strip new)
    end.
Proof. intros old new Ho Hn. exact (roundtrip_js_all new old Ho Hn). Qed.
Print Assumptions roundtrip_js.

(** Diff of a value with itself is empty. *)
Theorem diff_self : forall v, wf v = true -> Diff v v = None.
Proof. exact diff_self_all. Qed.
Print Assumptions diff_self.

(** The run-length encoding of reorder indices is lossless ([start, count] runs, singletons, -1). *)
Theorem reorder_indices_roundtrip : forall idx : list (option nat), uncompress (compress idx) = Some idx.
Proof. exact uncompress_compress. Qed.
Print Assumptions reorder_indices_roundtrip.

(** What [jeq] means: values with unique object keys that are [jeq] have the same canonical form (keys
    sorted) - the comparison the correspondence check and the oracle use on the implementation's outputs. *)
Theorem jeq_canonical : forall a b, jeq a b -> keys_ok a = true -> keys_ok b = true -> norm a = norm b.
Proof. exact jeq_norm. Qed.
Print Assumptions jeq_canonical.

(** Non-vacuity: a well-formed pair with keyed objects, a reorder, an insertion, a removed field and a new
    complex field; its delta uses the "$" encoding, and both merges reproduce the new value. *)
Definition ex_old : json :=
  JObj [("xs", JArr [JObj [("__key", JNum 1); ("a", JNum 5)]; JObj [("__key", JNum 2); ("a", JNum 6)]; JNum (-1)]);
        ("gone", JStr "x")].
Definition ex_new : json :=
  JObj [("xs", JArr [JObj [("__key", JNum 2); ("a", JNum 7)]; JObj [("__key", JNum 3)]; JObj [("__key", JNum 1); ("a", JNum 5)]; JNum (-1)]);
        ("fresh", JArr [JNum 1; JNum 2])].
Example ex_wf : wf ex_old = true /\ wf ex_new = true.
Proof. split; reflexivity. Qed.
Example ex_delta :
  Diff ex_old ex_new =
  Some (JObj [("gone", JArr []);
              ("xs", JObj [("$", JArr [JNum 1; JNum (-1); JNum 0; JNum 2]); ("0", JObj [("a", JNum 7)]); ("1", JArr [JObj []])]);
              ("fresh", JArr [JArr [JNum 1; JNum 2]])]).
Proof. vm_compute. reflexivity. Qed.
Example ex_merge :
  option_map norm (match Diff ex_old ex_new with Some d => Merge (strip ex_old) d | None => None end)
  = Some (norm (strip ex_new))
  /\ norm (match Diff ex_old ex_new with Some d => MergeJS (strip ex_old) d | None => JNull end) = norm (strip ex_new).
Proof. split; vm_compute; reflexivity. Qed.
