From Thunder Require Import Lib.Json DiffMerge.Model.
Theorem placeholder : True. Proof. exact I. Qed.
Print Assumptions placeholder.
