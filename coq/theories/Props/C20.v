From Thunder Require Import Limiter.Model.
Theorem placeholder : True. Proof. exact I. Qed.
Print Assumptions placeholder.
