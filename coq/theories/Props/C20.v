(* C20 - Concurrency limiter: never more than the limit running, no token is lost.

   Model: Limiter/Model.v, a labelled transition system with one label per atomic operation of
   concurrencylimiter.go (channel send / receive, Swap, CompareAndSwap, the ctx.Done branch), and a
   maximally general client (any goroutine may call Acquire, any existing holder's release function or
   TemporarilyRelease at any time, any number of times; any Acquire's context may be cancelled at any
   time).  A schedule is a list of labels; [run fx (init n) tr = Some s] says that s is reached from the
   empty limiter of capacity n by the schedule tr.  [fx = true] is the repaired order of block()'s
   re-acquire (send, then CAS; patches/C20-fix-1.patch), [fx = false] the original order (CAS, then send).
   All statements are for every capacity n, every schedule tr and every state reached, without bound. *)
From Coq Require Import List Arith.
From Thunder Require Import Limiter.Model Limiter.Proofs Limiter.ModelMulti Limiter.ProofsMulti.
From Thunder Require Import Limiter.ModelBatch Limiter.ProofsBatch Limiter.ModelChain Limiter.ProofsChain.
Import ListNotations.

(* No token is lost or duplicated: the channel holds exactly one token per holder whose status is
   acquired, plus one per call that sits between its status change and its channel operation
   (release after Swap, block after the first CAS, re-acquire after its send). *)
Theorem token_accounting : forall n tr s,
  run true (init n) tr = Some s -> chan s = owed s /\ chan s <= n.
Proof. exact token_accounting_lemma. Qed.
Print Assumptions token_accounting.

(* At most n goroutines are between Acquire and release, not counting TemporarilyRelease.  Three counts,
   each <= n:  [believes_running] is the goroutines' own view, defined without looking at the status words
   (holders returned by Acquire whose release function has not been called and on which no
   TemporarilyRelease call is in progress);  [count is_acq] the holders whose status is acquired;
   [running] DESIGN A.1's count (status acquired and nobody inside block() on it). *)
Theorem running_le_limit : forall n tr s,
  run true (init n) tr = Some s ->
  believes_running s <= n /\ count is_acq (holders s) <= n /\ running s <= n.
Proof. exact running_le_limit_lemma. Qed.
Print Assumptions running_le_limit.

(* release is idempotent, also during a temporary release: per holder at most one release call ever takes
   a token; a call that finds the holder released changes nothing but its own program counter; released is
   final: NO step of any call (a later release, a nested or repeated TemporarilyRelease, another goroutine's
   Acquire) ever changes a released holder's status again; and TemporarilyRelease on a released holder gives
   nothing up.  The third conjunct is the statement that rules out "resurrecting" a released holder: a block()
   whose first operation is Swap(status, blocked) == acquired instead of CompareAndSwap(acquired, blocked)
   would take a released holder to blocked and, after f, to acquired, and its token would stay in the channel
   after everyone released (quiescent_full_capacity would fail as well).  In the model that code is a step
   B0 -> ... with status Rel -> Blk, which this theorem excludes; on the implementation the trace-conformance
   check rejects it (predicted pc PF, observed B1) and the oracle reports capacity-lost-at-quiescence. *)
Theorem release_idempotent : forall n tr s,
  run true (init n) tr = Some s ->
  (forall h, count (rel_took h) (threads s) <= 1) /\
  (forall t h, nth_error (threads s) t = Some (R0 h) -> nth_error (holders s) h = Some Rel ->
     step true s (LRelSwap t) = Some (set_thread s t (RDone h false))) /\
  (forall h l s', nth_error (holders s) h = Some Rel -> step true s l = Some s' ->
     nth_error (holders s') h = Some Rel) /\
  (forall t h, nth_error (threads s) t = Some (B0 h) -> nth_error (holders s) h = Some Rel ->
     step true s (LBlkCas t) = Some (set_thread s t (PF (Some h)))).
Proof. exact release_idempotent_lemma. Qed.
Print Assumptions release_idempotent.

(* Quiescence (every call has returned): the channel holds exactly one token per holder not yet released,
   no holder is left blocked, a released holder is one whose release function was called, and when all
   holders are released the channel is empty: the full capacity is available again. *)
Theorem quiescent_full_capacity : forall n tr s,
  run true (init n) tr = Some s -> quiescent s = true ->
  chan s = count is_acq (holders s) /\
  (forall h, nth_error (holders s) h <> Some Blk) /\
  (forall h, nth_error (holders s) h = Some Rel -> existsb (release_called h) (threads s) = true) /\
  ((forall h st, nth_error (holders s) h = Some st -> st = Rel) -> chan s = 0).
Proof. exact quiescent_lemma. Qed.
Print Assumptions quiescent_full_capacity.

(* Acquire on a cancelled context, or on a context without limiter, has an enabled step that returns the
   no-op release function and touches neither the channel nor any holder (in every state, hence in every
   reachable one, of either variant). *)
Theorem acquire_never_blocks_cancelled_or_unlimited : forall fx s t lim c,
  nth_error (threads s) t = Some (A0 lim c) -> lim = false \/ c = true ->
  exists l s', step fx s l = Some s' /\ nth_error (threads s') t = Some (ADone None) /\
               chan s' = chan s /\ holders s' = holders s.
Proof. exact acquire_nonblocking_lemma. Qed.
Print Assumptions acquire_never_blocks_cancelled_or_unlimited.

(* The receives of release, of block and of the repaired re-acquire never wait: the token is there. *)
Theorem receives_never_block : forall n tr s t h,
  run true (init n) tr = Some s ->
  (nth_error (threads s) t = Some (R1 h) -> exists s', step true s (LRelRecv t) = Some s') /\
  (nth_error (threads s) t = Some (B1 h) -> exists s', step true s (LBlkRecv t) = Some s') /\
  (nth_error (threads s) t = Some (B3f h) -> exists s', step true s (LBlkGiveBack t) = Some s').
Proof. exact receives_never_block_lemma. Qed.
Print Assumptions receives_never_block.

(* Swap and the CompareAndSwaps are enabled whenever a call stands before them. *)
Theorem atomics_enabled : forall n tr s t h,
  run true (init n) tr = Some s ->
  (nth_error (threads s) t = Some (R0 h) -> exists s', step true s (LRelSwap t) = Some s') /\
  (nth_error (threads s) t = Some (B0 h) -> exists s', step true s (LBlkCas t) = Some s') /\
  (nth_error (threads s) t = Some (B3s h) -> exists s', step true s (LBlkCas2 t) = Some s').
Proof. exact atomics_enabled_lemma. Qed.
Print Assumptions atomics_enabled.

(* Shared contexts - what batch.Invoke does: every waiter of a batch group calls
   TemporarilyRelease(ctx, func() { <-bg.doneCh }), and callers that share one context share one holder, so
   several block() calls run on the same holder at once.  At most one of them is between giving the token up
   and re-acquiring it; while it is, the holder is not acquired, and every further TemporarilyRelease on that
   holder runs f without touching the channel (its first CAS fails).  Together with token_accounting: sharing
   a context never gives up or re-acquires more than the holder's one token. *)
Theorem concurrent_temporary_release_on_shared_holder : forall n tr s h,
  run true (init n) tr = Some s ->
  count (blk_owner h) (threads s) <= 1 /\
  (1 <= count (blk_owner h) (threads s) -> nth_error (holders s) h = Some Blk \/ nth_error (holders s) h = Some Rel) /\
  (forall t, 1 <= count (blk_owner h) (threads s) -> nth_error (threads s) t = Some (B0 h) ->
     step true s (LBlkCas t) = Some (set_thread s t (PF (Some h)))).
Proof. exact shared_context_lemma. Qed.
Print Assumptions concurrent_temporary_release_on_shared_holder.

(* A panic in the function passed to TemporarilyRelease (label LFPanic) is followed by exactly the operations
   that follow its return: block()'s re-acquire is deferred.  Every theorem of this file quantifies over all
   label lists, LFPanic included, so a holder whose f panicked (and whose panic the client recovered further
   up) is re-acquired or found released like any other; a block() that skipped its re-acquire when f panics
   would leave the holder blocked without a token while its goroutine goes on: not a behaviour of this model,
   rejected by the trace-conformance check and reported by the oracle as over-admission. *)
Theorem panic_in_f_same_as_return : forall fx s t, step fx s (LFPanic t) = step fx s (LFRet t).
Proof. exact panic_same_as_return_lemma. Qed.
Print Assumptions panic_in_f_same_as_return.

(* Several limiters on one context chain (With on a context that already has a limiter): Limiter/ModelMulti.v,
   one component per limiter, labels tagged with their limiter; which limiter / holder a call resolves to is
   the client's context chain and is arbitrary here.  Every schedule of the chain projects, limiter by
   limiter, to a schedule of the single-limiter system that reaches that limiter's component ... *)
Theorem nested_limiters_are_independent : forall fx caps tr ms,
  mrun fx (minit caps) tr = Some ms ->
  length ms = length caps /\
  forall i n, nth_error caps i = Some n ->
    exists s, nth_error ms i = Some s /\ run fx (init n) (proj i tr) = Some s.
Proof. exact nested_limiters_lemma. Qed.
Print Assumptions nested_limiters_are_independent.

(* ... hence every limiter of the chain keeps its own accounting and its own bound, whatever happens on the others *)
Theorem nested_limiters_safe : forall caps tr ms i n s,
  mrun true (minit caps) tr = Some ms -> nth_error caps i = Some n -> nth_error ms i = Some s ->
  chan s = owed s /\ believes_running s <= n /\ count is_acq (holders s) <= n /\ running s <= n /\
  (quiescent s = true -> chan s = count is_acq (holders s)) /\
  (forall h, count (rel_took h) (threads s) <= 1) /\
  (forall h, count (blk_owner h) (threads s) <= 1).
Proof. exact nested_safety_lemma. Qed.
Print Assumptions nested_limiters_safe.

(* The same statements are false of the original order of operations (DESIGN F11): limit 1, the schedule
   [f11_trace] (8 atomic operations, plus the labels that start calls and the return of f) reaches a state
   with two holders acquired, two goroutines believing they run, and the token count broken. *)
Theorem running_le_limit_original_refuted :
  exists n tr s, run false (init n) tr = Some s /\
                 n < running s /\ n < believes_running s /\ chan s <> owed s.
Proof. exact original_refuted_lemma. Qed.
Print Assumptions running_le_limit_original_refuted.

(* ---- the context chain: which limiter an Acquire uses, which holder a TemporarilyRelease acts on (Limiter/ModelChain.v) ----

   A context is the list of its bindings, innermost first: FLim l (With) and FHold l h (a successful Acquire on
   limiter l).  Client labels name a context: KWith c n, KAcquire c cancelled, KBlock c; KOp l op is any other
   operation on limiter l.  The model resolves the context the way ctx.Value does: innermost binding of the key. *)

(* Every schedule of the chain is a schedule of the product of single-limiter systems over the limiters created so
   far (a limiter created later is one that was there from the start, untouched) ... *)
Theorem context_chain_refines_product : forall fx n tr ks, krun fx (kinit n) tr = Some ks ->
  exists caps mtr, mrun fx (minit caps) mtr = Some (km ks) /\ length caps = length (km ks) /\ nth_error caps 0 = Some n.
Proof. exact chain_refines_lemma. Qed.
Print Assumptions context_chain_refines_product.

(* ... hence, per limiter of the chain: token accounting, the three bounds, quiescence, release at most once, at most
   one TemporarilyRelease with the token given up - whatever happens on the other limiters of the chain. *)
Theorem every_limiter_of_a_context_chain_is_safe : forall n tr ks l s,
  krun true (kinit n) tr = Some ks -> nth_error (km ks) l = Some s ->
  chan s = owed s /\ chan s <= cap s /\ believes_running s <= cap s /\ count is_acq (holders s) <= cap s /\ running s <= cap s /\
  (quiescent s = true -> chan s = count is_acq (holders s)) /\
  (forall h, count (rel_took h) (threads s) <= 1) /\
  (forall h, count (blk_owner h) (threads s) <= 1) /\
  (l = 0 -> cap s = n).
Proof. exact chain_safety_lemma. Qed.
Print Assumptions every_limiter_of_a_context_chain_is_safe.

(* An inner With shadows the outer one: Acquire on a context enters the select of the context's INNERMOST limiter and
   leaves every other limiter of the chain exactly as it is. *)
Theorem acquire_uses_the_innermost_limiter : forall fx ks c b ks' cx l,
  kstep fx ks (KAcquire c b) = Some ks' -> nth_error (kctxs ks) c = Some cx -> limiter_of cx = Some l ->
  (forall j, j <> l -> nth_error (km ks') j = nth_error (km ks) j) /\
  exists s s', nth_error (km ks) l = Some s /\ nth_error (km ks') l = Some s' /\
               threads s' = threads s ++ [A0 true b] /\ chan s' = chan s /\ holders s' = holders s.
Proof. exact acquire_resolution_lemma. Qed.
Print Assumptions acquire_uses_the_innermost_limiter.

(* TemporarilyRelease acts on the innermost HOLDER of its context, of whichever limiter that holder is (an outer one
   when a With came after the Acquire), and on nothing else. *)
Theorem temporary_release_uses_the_innermost_holder : forall fx ks c ks' cx l h,
  kstep fx ks (KBlock c) = Some ks' -> nth_error (kctxs ks) c = Some cx -> holder_of cx = Some (l, h) ->
  (forall j, j <> l -> nth_error (km ks') j = nth_error (km ks) j) /\
  exists s s', nth_error (km ks) l = Some s /\ nth_error (km ks') l = Some s' /\
               threads s' = threads s ++ [B0 h] /\ chan s' = chan s /\ holders s' = holders s.
Proof. exact block_resolution_lemma. Qed.
Print Assumptions temporary_release_uses_the_innermost_holder.

(* The context With returns resolves to the new limiter and still to the old innermost holder; the context a
   successful Acquire returns resolves to the same limiter as before and to the new holder. *)
Theorem contexts_returned_by_with_and_acquire : forall fx ks,
  (forall c n cx ks', kstep fx ks (KWith c n) = Some ks' -> nth_error (kctxs ks) c = Some cx ->
     exists cx', nth_error (kctxs ks') (length (kctxs ks)) = Some cx' /\
                 limiter_of cx' = Some (length (km ks)) /\ holder_of cx' = holder_of cx /\
                 nth_error (km ks') (length (km ks)) = Some (init n)) /\
  (forall l t c cx ks', kstep fx ks (KOp l (LAcqSend t)) = Some ks' -> acq_ctx l t (kacq ks) = Some c ->
     nth_error (kctxs ks) c = Some cx ->
     exists cx', nth_error (kctxs ks') (length (kctxs ks)) = Some cx' /\
                 limiter_of cx' = limiter_of cx /\ holder_of cx' = Some (l, nholders (km ks) l)).
Proof. exact new_contexts_lemma. Qed.
Print Assumptions contexts_returned_by_with_and_acquire.

(* Acquire and TemporarilyRelease can be called on every context that exists: the bindings of a context always refer
   to limiters and holders that exist. *)
Theorem calls_enabled_on_every_context : forall fx n tr ks c cx,
  krun fx (kinit n) tr = Some ks -> nth_error (kctxs ks) c = Some cx ->
  (forall b, exists ks', kstep fx ks (KAcquire c b) = Some ks') /\ (exists ks', kstep fx ks (KBlock c) = Some ks').
Proof. exact chain_calls_enabled_lemma. Qed.
Print Assumptions calls_enabled_on_every_context.

(* ---- batch.Func.Invoke under a limiter: the composition of this system with C05's (Limiter/ModelBatch.v) ----

   batch.go: a caller that joins an existing group waits for it inside
   concurrencylimiter.TemporarilyRelease(ctx, func() { <-bg.doneCh }); the creator of the group runs it without
   touching the limiter.  The composed state is (limiter state, batch state, one link per batch caller: the holder
   of its context and the limiter thread of its TemporarilyRelease call).  Labels: CL l (any limiter operation by
   anyone - the arbitrary client stays), CJoin (Invoke's first mutex section, entering block() when a group was
   found), CB l (the other sections of Invoke).  Synchronisation: the f of a batch waiter returns exactly when its
   group is done and cannot panic; a waiter's Return follows the return of its block() call.  [L.] and [B.] are the
   two component models; [crun true (cinit n mss) tr = Some cs]: cs is reached by the composed schedule tr from the
   empty limiter of capacity n and the empty batch context with MaxSizes mss. *)

(* Every schedule of the composition is, component by component, a schedule of each system: the explicit
   projections [lproj] / [bproj] reach the component states.  Hence every theorem of this file holds of the
   limiter while batches run under it, and every theorem of Props/C05.v holds of batches run under a limiter. *)
Theorem batch_under_limiter_projects : forall fx n mss tr cs,
  crun fx (cinit n mss) tr = Some cs ->
  L.run fx (L.init n) (lproj fx (cinit n mss) tr) = Some (lim cs) /\
  B.run (B.init mss) (bproj tr) = Some (bat cs).
Proof. exact composed_projection_lemma. Qed.
Print Assumptions batch_under_limiter_projects.

(* running <= n still holds, counting batch waiters as not running: the bounds and the token accounting hold in
   every reachable state of the composition; a caller that joined a group is, until its TemporarilyRelease call has
   returned, inside block() on the holder of its own context (so that holder is not counted by believes_running,
   and is not running in DESIGN's sense once the token is given up); and it waits for its own group only. *)
Theorem batch_waiters_do_not_count_as_running : forall n mss tr cs,
  crun true (cinit n mss) tr = Some cs ->
  L.chan (lim cs) = L.owed (lim cs) /\ L.chan (lim cs) <= n /\
  L.believes_running (lim cs) <= n /\ L.count L.is_acq (L.holders (lim cs)) <= n /\ L.running (lim cs) <= n /\
  (forall ci k h t p, nth_error (links cs) ci = Some k -> k_holder k = Some h -> k_thread k = Some t ->
     nth_error (L.threads (lim cs)) t = Some p -> p <> L.BDone ->
     L.block_active h p = true /\ existsb (L.block_active h) (L.threads (lim cs)) = true) /\
  (forall ci k t p, nth_error (links cs) ci = Some k -> k_thread k = Some t ->
     nth_error (L.threads (lim cs)) t = Some p -> past_f p = true -> caller_done (bat cs) ci = true).
Proof. exact composed_safety_lemma. Qed.
Print Assumptions batch_waiters_do_not_count_as_running.

(* No token is lost through any exit of Invoke.  Whatever a caller that joined a group returns - its value, Many's
   error, the error for a panic in Many or for a wrong result length, the context error of a cancelled creator
   ([r] is arbitrary) - its TemporarilyRelease call has returned before (token re-taken, or holder found released);
   when all limiter calls have returned the channel holds exactly the unreleased holders' tokens and no holder is
   left blocked; and at the end of a cooperative continuation the whole capacity is free and everyone has returned. *)
Theorem no_token_lost_through_invoke : forall n mss tr cs,
  crun true (cinit n mss) tr = Some cs ->
  (forall ci c r k t, nth_error (B.callers (bat cs)) ci = Some c -> B.c_ret c = Some r ->
     nth_error (links cs) ci = Some k -> k_thread k = Some t -> nth_error (L.threads (lim cs)) t = Some L.BDone) /\
  (L.quiescent (lim cs) = true ->
     L.chan (lim cs) = L.count L.is_acq (L.holders (lim cs)) /\
     forall h, nth_error (L.holders (lim cs)) h <> Some L.Blk) /\
  (cterminal cs = true ->
     L.chan (lim cs) = 0 /\ (forall h st, nth_error (L.holders (lim cs)) h = Some st -> st = L.Rel) /\
     forall ci c, nth_error (B.callers (bat cs)) ci = Some c -> B.c_ret c <> None).
Proof. exact invoke_exit_lemma. Qed.
Print Assumptions no_token_lost_through_invoke.

(* Batching under a limiter cannot deadlock.  [coop cs l]: l is a step of a call already in progress (any limiter
   operation of an existing thread, any section of an existing Invoke, Many returning anything) or the first call
   of some holder's release function; nobody new arrives, nothing is cancelled.  With a limit of at least one,
   from EVERY reachable state of the composition the cooperative continuation computed by [complete] is a schedule
   ([coop_run], hence [crun]) of at most [mu cs] steps that ends with every limiter call returned, every Invoke
   returned and every holder released ([cterminal]; then the channel is empty by the previous theorem).  So no
   reachable state has waiters that wait for each other: a waiter of a group waits for the group's creator, which
   needs no token; a goroutine that waits for room in the channel waits for holders whose owners can release. *)
Theorem batch_under_limiter_cannot_deadlock : forall n mss tr cs,
  1 <= n -> crun true (cinit n mss) tr = Some cs ->
  exists tr' cs', coop_run cs tr' = Some cs' /\ length tr' <= mu cs /\ cterminal cs' = true /\
                  (tr', cs') = complete (mu cs) cs.
Proof. exact deadlock_free_lemma. Qed.
Print Assumptions batch_under_limiter_cannot_deadlock.

(* Local form: a reachable state that is not over is not stuck - some call in progress (or a first release) has an
   enabled step, and every such step decreases the measure [mu] (so the continuation cannot run forever either). *)
Theorem no_reachable_state_is_stuck : forall n mss tr cs,
  1 <= n -> crun true (cinit n mss) tr = Some cs -> cterminal cs = false ->
  exists l cs', coop cs l = true /\ cstep true cs l = Some cs' /\ mu cs' < mu cs.
Proof. exact no_stuck_state_lemma. Qed.
Print Assumptions no_reachable_state_is_stuck.

(* C05's statement about return values, of batches run under a limiter (composed, not by reference): a caller that
   returned got element [index] of what Many returned for exactly its group's arguments, or the group's error. *)
Theorem each_caller_gets_its_result_under_a_limiter : forall n mss tr cs ci cl r,
  crun true (cinit n mss) tr = Some cs -> nth_error (B.callers (bat cs)) ci = Some cl -> B.c_ret cl = Some r ->
  exists g, nth_error (B.groups (bat cs)) (B.c_gid cl) = Some g /\ B.g_done g = true /\
            nth_error (B.g_args g) (B.c_index cl) = Some ci /\
            ((exists e, B.g_err g = Some e /\ r = B.RErr e) \/
             (B.g_err g = None /\ B.g_many g = Some (B.g_args g) /\
              exists rs v, B.g_res g = Some rs /\ length rs = length (B.g_args g) /\
                           nth_error rs (B.c_index cl) = Some v /\ r = B.RVal v)).
Proof. exact composed_return_value_lemma. Qed.
Print Assumptions each_caller_gets_its_result_under_a_limiter.

(* ---- the hypotheses are satisfiable by non-trivial states ---- *)

(* limit 2: two holders acquired; one inside TemporarilyRelease with its token given up and its release
   function called meanwhile; a third goroutine acquired the freed slot: both slots used, running = 2 *)
Example ex_trace : list label :=
  [ LNewAcquire true false; LAcqSend 0; LNewAcquire true false; LAcqSend 1;
    LNewBlock (Some 0); LBlkCas 2; LBlkRecv 2;
    LNewAcquire true false; LAcqSend 3;
    LNewRelease 0; LRelSwap 4;
    LNewBlock (Some 0); LBlkCas 5 ].
Example ex_reachable :
  option_map (fun s => (chan s, owed s, running s, believes_running s, holders s)) (run true (init 2) ex_trace)
  = Some (2, 2, 2, 2, [Rel; Acq; Acq]).
Proof. vm_compute. reflexivity. Qed.

(* ... and it can be driven to quiescence with everything released: channel empty *)
Example ex_quiescent :
  option_map (fun s => (quiescent s, chan s, holders s))
    (run true (init 2) (ex_trace ++ [ LFRet 5; LFRet 2; LNewRelease 1; LRelSwap 6; LRelRecv 6;
                                      LBlkSend 2; LBlkCas2 2; LBlkGiveBack 2;
                                      LNewRelease 2; LRelSwap 7; LRelRecv 7; LNewRelease 2; LRelSwap 8 ]))
  = Some (true, 0, [Rel; Rel; Rel]).
Proof. vm_compute. reflexivity. Qed.

(* a waiting Acquire whose context gets cancelled returns; on a full channel its send is not enabled *)
Example ex_cancel :
  option_map (fun s => (chan s, threads s))
    (run true (init 1) [ LNewAcquire true false; LAcqSend 0; LNewAcquire true false; LCancel 1; LAcqCtxDone 1 ])
  = Some (1, [ADone (Some 0); ADone None])
  /\ run true (init 1) [ LNewAcquire true false; LAcqSend 0; LNewAcquire true false; LAcqSend 1 ] = None.
Proof. vm_compute. split; reflexivity. Qed.

(* batch.Invoke composed with the limiter (limit 1): goroutine G holds holder 0 and three Invoke calls share its
   context.  The creator of the batch group does not release; the two waiters call TemporarilyRelease on
   holder 0 at once: the first gives the token up (threads 1), the second runs its wait as it is (thread 2);
   K acquires the freed slot (thread 3) and releases it; doneCh is closed: both waits return, the first waiter
   re-acquires.  One token moved out and back, never more than one holder acquired. *)
Example ex_batch_shared_context :
  option_map (fun s => (chan s, owed s, holders s, count (blk_owner 0) (threads s), quiescent s))
    (run true (init 1)
       [ LNewAcquire true false; LAcqSend 0;
         LNewBlock (Some 0); LNewBlock (Some 0); LBlkCas 1; LBlkCas 2; LBlkRecv 1;
         LNewAcquire true false; LAcqSend 3; LNewRelease 1; LRelSwap 4; LRelRecv 4;
         LFRet 2; LFRet 1; LBlkSend 1; LBlkCas2 1 ])
  = Some (1, 1, [Acq; Rel], 0, true).
Proof. vm_compute. reflexivity. Qed.

(* two limiters on one chain (outer limit 1, inner limit 2): G acquires from the outer one, then twice from the
   inner one; TemporarilyRelease on the outer holder while the inner ones stay; the outer slot is taken by K *)
Example ex_nested_limiters :
  option_map (map (fun s => (cap s, chan s, owed s, holders s)))
    (mrun true (minit [1; 2])
       [ (0, LNewAcquire true false); (0, LAcqSend 0);
         (1, LNewAcquire true false); (1, LAcqSend 0); (1, LNewAcquire true false); (1, LAcqSend 1);
         (0, LNewBlock (Some 0)); (0, LBlkCas 1); (0, LBlkRecv 1);
         (0, LNewAcquire true false); (0, LAcqSend 2);
         (1, LNewRelease 0); (1, LRelSwap 2); (1, LRelRecv 2) ])
  = Some [(1, 1, 1, [Blk; Acq]); (2, 1, 1, [Rel; Acq])].
Proof. vm_compute. reflexivity. Qed.

(* batch.Invoke under a limiter of size 1.  G0 acquires (holder 0); G1 and G2 wait in Acquire.  G0 runs a batch of
   its own and releases; G1 acquires (holder 1) and creates group 1; a sibling goroutine S sharing G1's context
   joins group 1 and gives G1's token up while it waits; G2 acquires the freed slot (holder 2), joins too and gives
   its own token up.  Mid-way: both waiters have given their tokens up, the channel is empty although three holders
   exist, nobody believes it runs, never more than one holder acquired. *)
Example ex_composed_trace : list clabel :=
  [ CL (LNewAcquire true false); CL (LAcqSend 0); CL (LNewAcquire true false); CL (LNewAcquire true false);
    CJoin 0 7 0 false (Some 0); CB (B.LWake 0 B.CInterval); CB (B.LUnpublish 0); CB (B.LRun 0 (B.ORes [70]));
    CB (B.LDone 0); CB (B.LReturn 0); CL (LNewRelease 0); CL (LRelSwap 3); CL (LRelRecv 3);
    CL (LAcqSend 1); CJoin 0 8 0 false (Some 1); CJoin 0 9 0 false (Some 1); CL (LBlkCas 4); CL (LBlkRecv 4);
    CL (LAcqSend 2); CJoin 0 10 0 false (Some 2); CL (LBlkCas 5); CL (LBlkRecv 5) ].
Example ex_composed_reachable :
  option_map (fun cs => (L.chan (lim cs), L.holders (lim cs), L.believes_running (lim cs), map B.g_args (B.groups (bat cs)),
                         map k_thread (links cs), cterminal cs))
             (crun true (cinit 1 [0]) ex_composed_trace)
  = Some (0, [Rel; Blk; Blk], 0, [[0]; [1; 2; 3]], [None; None; Some 4; Some 5], false).
Proof. vm_compute. reflexivity. Qed.

(* a waiter's f cannot return before its group is done, nor panic; its Return cannot precede the end of block() *)
Example ex_composed_not_enabled :
  crun true (cinit 1 [0]) (ex_composed_trace ++ [CL (LFRet 4)]) = None /\
  crun true (cinit 1 [0]) (ex_composed_trace ++ [CL (LFPanic 4)]) = None /\
  crun true (cinit 1 [0]) (ex_composed_trace ++ [CB (B.LCtxCancel 1); CB (B.LWake 1 B.CCtxDone); CB (B.LUnpublish 1);
                                                 CB (B.LCancel 1); CB (B.LDone 1); CL (LFRet 4); CB (B.LReturn 2)]) = None.
Proof. vm_compute. repeat split; reflexivity. Qed.

(* the cooperative continuation from that state, computed by [complete]: the creator wakes, Many fails, both
   waiters re-take a token one after the other, everyone returns, everything is released: channel empty *)
Example ex_composed_completes :
  option_map (fun cs => let '(tr', e) := complete (mu cs) cs in
                        (Nat.leb (length tr') (mu cs), cterminal e, L.chan (lim e), L.holders (lim e),
                         map B.c_ret (B.callers (bat e))))
             (crun true (cinit 1 [0]) ex_composed_trace)
  = Some (true, true, 0, [Rel; Rel; Rel],
          [Some (B.RVal 70); Some (B.RErr B.EUser); Some (B.RErr B.EUser); Some (B.RErr B.EUser)]).
Proof. vm_compute. reflexivity. Qed.

(* with limit 0 the hypothesis 1 <= n is needed: an Acquire waits for ever, no cooperative step is enabled *)
Example ex_limit_zero_is_stuck :
  option_map (fun cs => (cterminal cs, find_step cs)) (crun true (cinit 0 []) [CL (LNewAcquire true false)])
  = Some (false, None).
Proof. vm_compute. reflexivity. Qed.

(* context chain: base limit 1.  G acquires from the base limiter (context 2 = [holder 0 of limiter 0; limiter 0]),
   calls With(ctx, 2) (context 3: limiter 1 shadows limiter 0, holder 0 of limiter 0 still innermost holder),
   acquires twice from the inner limiter (contexts 4 and 5), then calls TemporarilyRelease on context 3: the OUTER
   token is given up, the inner limiter is untouched; on context 4 the inner holder is the one that blocks. *)
Example ex_context_chain :
  option_map (fun ks => (map (fun s => (cap s, chan s, holders s)) (km ks), kctxs ks))
    (krun true (kinit 1)
       [ KAcquire 0 false; KOp 0 (LAcqSend 0); KWith 2 2;
         KAcquire 3 false; KOp 1 (LAcqSend 0); KAcquire 3 false; KOp 1 (LAcqSend 1);
         KBlock 3; KOp 0 (LBlkCas 1); KOp 0 (LBlkRecv 1);
         KBlock 4; KOp 1 (LBlkCas 2); KOp 1 (LBlkRecv 2) ])
  = Some ([(1, 0, [Blk]); (2, 1, [Blk; Acq])],
          [[FLim 0]; []; [FHold 0 0; FLim 0]; [FLim 1; FHold 0 0; FLim 0];
           [FHold 1 0; FLim 1; FHold 0 0; FLim 0]; [FHold 1 1; FLim 1; FHold 0 0; FLim 0]]).
Proof. vm_compute. reflexivity. Qed.

(* an operation of that Acquire on the OUTER limiter is not a step: the call went to the inner one *)
Example ex_context_chain_wrong_limiter :
  krun true (kinit 1) [ KAcquire 0 false; KOp 0 (LAcqSend 0); KWith 2 2; KAcquire 3 false; KOp 0 (LAcqSend 1) ] = None.
Proof. vm_compute. reflexivity. Qed.
