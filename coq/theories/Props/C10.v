(** C10 -- SQL batching is transparent: each query gets exactly its own rows.

    Model: Sql/Model.v.  [batched_results t fs contents] is one invocation of sqlgen's batch function on
    the callers [fs]: the combined statement of makeBatchQuery (as repaired by C10-fix-1) evaluated with
    SQL's three-valued logic on any table contents, and the rows handed back to each caller by the
    matcher (coerce + MakeHashable + Go's == on interface values).  [unbatched_result t f contents] is
    the caller's own statement.  Proofs: Sql/BatchProofs.v.

    Full statement of the property (false of the code, see [c10_full_statement_refuted]):

      forall t fs contents, table_ok t = true -> columns_ok t = true ->
        forallb (filter_sql_typed t) fs = true ->          (* any Go value that denotes a column value *)
        forallb (row_representable t) contents = true ->
        batched_results t fs contents = map (fun f => unbatched_result t f contents) fs.

    The matcher compares Go interface values, so a filter value whose Go type is not exactly the struct
    field's type (int(10) for an int64 column) is never associated with the rows fetched for it; and
    MakeHashable turns a nil slice (a NULL []byte column) and an empty []byte into the same string, so
    nil / empty []byte filter values are associated with rows of the other kind (the caller can even
    receive a row its own query does not select: corpus/C10/nil-vs-empty-bytes.json).  The
    repository's own MySQL-backed test TestBatchFilter pins that behaviour, so it is recorded as the known
    finding c10-batch-matcher-go-type rather than repaired (TestBatchFilter asserts sql.ErrNoRows for
    int32 / int16 / int8 / int / uint values on the int64 column: any matcher that compares column values
    instead of Go values breaks it).

    What is proved instead is the exact domain of the statement.  [filter_transparent] (Sql/ModelExact.v) is
    a decidable predicate on one filter -- per column, the set of stored values the caller's own WHERE atom
    selects and the set the matcher accepts coincide, or both products over the filter's columns are empty --
    and it is
      - sufficient: callers inside it get exactly their own rows, whatever the other callers of the batch are
        ([c10_transparent_filters_get_their_own_rows], [c10_any_grouping_of_callers]);
      - necessary: a filter outside it is answered differently in the company of one empty filter on a
        one-row table, which [witness_rows] computes ([c10_hypothesis_is_necessary]); so no weaker hypothesis
        on a filter makes the transparency statement true ([c10_transparency_characterised]);
      - strictly weaker than the earlier hypothesis [filter_exactly_typed], which it subsumes
        ([c10_exactly_typed_filters_are_transparent], [ex_transparent_not_exactly_typed]).
    The harness decides the predicate on its own (pkg/sqlh/transparent.go), the evaluator compares that with
    the model on every caller, the oracle's known class is exactly its complement, and the necessity
    witnesses are replayed on sqlgen. *)
From Coq Require Import List String Bool ZArith.
From Coq Require Import Permutation.
From Thunder Require Import Sql.Confine Sql.Model Sql.ModelExact Sql.BatchProofs Sql.BatchExact Sql.ModelCheck Sql.GroupOrder Sql.Matcher Sql.MatcherProofs.
Import ListNotations.
Open Scope string_scope.

(** For all tables, all sets of concurrent filters (any column sets, equal filters, empty filters, NULLs,
    pointers or values, named types) and all representable table contents: every caller of one batched
    invocation receives exactly the rows its own query selects, in the same order. *)
Theorem c10_batched_equals_unbatched_except_known :
  forall t fs contents,
    table_ok t = true -> columns_ok t = true ->
    forallb (filter_exactly_typed t) fs = true ->
    forallb (row_representable t) contents = true ->
    batched_results t fs contents = map (fun f => unbatched_result t f contents) fs.
Proof. exact batched_transparent. Qed.
Print Assumptions c10_batched_equals_unbatched_except_known.

(** The same for every way the scheduler splits the callers into invocations of the batch function. *)
Theorem c10_any_grouping_of_callers_except_known :
  forall t fs arrival contents,
    table_ok t = true -> columns_ok t = true ->
    forallb (filter_exactly_typed t) fs = true ->
    forallb (row_representable t) contents = true ->
    Forall (fun ir => snd ir = unbatched_result t (nth_filter fs (fst ir)) contents)
           (batched_by_arrival t fs arrival contents).
Proof. exact batched_transparent_any_arrival. Qed.
Print Assumptions c10_any_grouping_of_callers_except_known.

(** The exact domain.  Every caller whose filter is transparent receives exactly the rows of its own query,
    in the same order -- the other callers of the invocation may be anything (other Go types included). *)
Theorem c10_transparent_filters_get_their_own_rows :
  forall t fs f contents,
    table_ok t = true -> columns_ok t = true -> In f fs ->
    filter_transparent t f = true ->
    forallb (row_representable t) contents = true ->
    List.filter (matcher_matches t f) (select_rows (batch_wclause t fs) contents) = unbatched_result t f contents.
Proof. exact cur_one_transparent. Qed.
Print Assumptions c10_transparent_filters_get_their_own_rows.

Theorem c10_batched_equals_unbatched :
  forall t fs contents,
    table_ok t = true -> columns_ok t = true ->
    forallb (filter_transparent t) fs = true ->
    forallb (row_representable t) contents = true ->
    batched_results t fs contents = map (fun f => unbatched_result t f contents) fs.
Proof. exact cur_transparent_exact. Qed.
Print Assumptions c10_batched_equals_unbatched.

Theorem c10_any_grouping_of_callers :
  forall t fs arrival contents,
    table_ok t = true -> columns_ok t = true ->
    forallb (filter_transparent t) fs = true ->
    forallb (row_representable t) contents = true ->
    Forall (fun ir => snd ir = unbatched_result t (nth_filter fs (fst ir)) contents)
           (batched_by_arrival t fs arrival contents).
Proof. exact cur_transparent_exact_any_arrival. Qed.
Print Assumptions c10_any_grouping_of_callers.

(** The earlier hypothesis is a special case. *)
Theorem c10_exactly_typed_filters_are_transparent :
  forall t f, columns_ok t = true -> filter_exactly_typed t f = true -> filter_transparent t f = true.
Proof. exact exactly_typed_transparent. Qed.
Print Assumptions c10_exactly_typed_filters_are_transparent.

(** The hypothesis cannot be weakened: a filter outside it (whose values MySQL compares with the columns as
    the model does: [filter_comparable]) gets other rows with batching than alone -- next to one caller with
    an empty filter, on the one-row table [witness_rows] computes. *)
Theorem c10_hypothesis_is_necessary :
  forall t f,
    columns_ok t = true -> cols_distinct t = true ->
    filter_comparable t f = true -> filter_transparent t f = false ->
    exists r, In r (witness_rows t f) /\ row_representable t r = true
              /\ hd [] (batched_results t [f; []] [r]) <> unbatched_result t f [r].
Proof. exact cur_transparency_necessary. Qed.
Print Assumptions c10_hypothesis_is_necessary.

Theorem c10_transparency_characterised :
  forall t f,
    table_ok t = true -> columns_ok t = true -> cols_distinct t = true -> filter_comparable t f = true ->
    (filter_transparent t f = true <->
     forall others contents, forallb (row_representable t) contents = true ->
       hd [] (batched_results t (f :: others) contents) = unbatched_result t f contents).
Proof. exact cur_transparency_exact. Qed.
Print Assumptions c10_transparency_characterised.

(** * The proposed repair C10-fix-2 (patches/C10-fix-2.patch)

    The open finding has two directions.  A caller may LOSE rows of its own query (int(10) on an int64 column):
    TestBatchFilter pins that, it stays.  A caller may also RECEIVE a row its own query does not select (an
    empty []byte filter is handed the NULL rows fetched for another caller; a pointer to "" on an implicitnull
    column likewise): nothing pins that, and on a handle with a shard limit it is a row of another shard.  The
    repair makes the batch function ask the query's row tester (Schema.MakeTester: both sides serialized by the
    column's Valuer, driverValuesEqual) before it hands a row over.  [matcher_matches_fixed] is the repaired
    function; the harness probes which of the two the tree under test has and the model follows it. *)

(** For EVERY filter -- no hypothesis on the Go types of its values -- and every set of other callers: what the
    repaired batch function hands a caller are rows of the caller's own query (those the matcher keeps, in
    order). *)
Theorem c10_repaired_never_hands_foreign_rows :
  forall t fs f contents,
    table_ok t = true -> columns_ok t = true -> In f fs ->
    forallb (row_representable t) contents = true ->
    List.filter (matcher_matches_fixed t f) (select_rows (batch_wclause t fs) contents)
    = List.filter (matcher_matches_fixed t f) (unbatched_result t f contents).
Proof. exact fixed_never_hands_foreign_rows. Qed.
Print Assumptions c10_repaired_never_hands_foreign_rows.

(** The code as it is does hand out foreign rows ([ex_empty_bytes_gains_a_row] below is the witness). *)

(** The repair takes nothing away where the earlier theorem applied: on exactly typed filters the repaired
    function decides as the matcher does, so they keep getting exactly their own rows. *)
Theorem c10_repair_keeps_exactly_typed_filters :
  forall t f r,
    columns_ok t = true -> filter_exactly_typed t f = true -> row_representable t r = true ->
    matcher_matches_fixed t f r = matcher_matches t f r.
Proof. exact fix_keeps_exactly_typed. Qed.
Print Assumptions c10_repair_keeps_exactly_typed_filters.

(** The exact domain of full transparency for the repaired code: [filter_transparent_fixed], again sufficient
    and necessary. *)
Theorem c10_repaired_transparency_characterised :
  forall t f,
    table_ok t = true -> columns_ok t = true -> cols_distinct t = true -> filter_comparable t f = true ->
    (filter_transparent_fixed t f = true <->
     forall others contents, forallb (row_representable t) contents = true ->
       hd [] (batched_results_fixed t (f :: others) contents) = unbatched_result t f contents).
Proof. exact fix_transparency_exact. Qed.
Print Assumptions c10_repaired_transparency_characterised.

Theorem c10_repaired_batched_equals_unbatched :
  forall t fs contents,
    table_ok t = true -> columns_ok t = true ->
    forallb (filter_transparent_fixed t) fs = true ->
    forallb (row_representable t) contents = true ->
    batched_results_fixed t fs contents = map (fun f => unbatched_result t f contents) fs.
Proof. exact fix_transparent_exact. Qed.
Print Assumptions c10_repaired_batched_equals_unbatched.

Theorem c10_exactly_typed_filters_are_transparent_after_the_repair :
  forall t f, columns_ok t = true -> filter_exactly_typed t f = true -> filter_transparent_fixed t f = true.
Proof. exact exactly_typed_transparent_fixed. Qed.
Print Assumptions c10_exactly_typed_filters_are_transparent_after_the_repair.

(** The full statement is false: witness F18 (id = int(10) on an int64 column gets no rows when batched). *)
Theorem c10_full_statement_refuted :
  exists t fs contents,
    table_ok t = true /\ columns_ok t = true /\
    forallb (filter_sql_typed t) fs = true /\ forallb (row_representable t) contents = true /\
    batched_results t fs contents <> map (fun f => unbatched_result t f contents) fs.
Proof. exact full_statement_refuted. Qed.
Print Assumptions c10_full_statement_refuted.

(** Before C10-fix-1 the statement failed on exactly typed filters too: a NULL filter became
    [nick IN (?)] with a NULL argument (F19). *)
Theorem c10_null_filter_refuted_before_fix :
  exists t fs contents,
    table_ok t = true /\ columns_ok t = true /\
    forallb (filter_exactly_typed t) fs = true /\ forallb (row_representable t) contents = true /\
    batched_results_orig t fs contents <> map (fun f => unbatched_result t f contents) fs.
Proof. exact null_filter_refuted_before_fix. Qed.
Print Assumptions c10_null_filter_refuted_before_fix.

(** Fewer statements: one statement per invocation of the batch function however many callers it
    combines, and inside it one group per distinct column set. *)
Theorem c10_one_statement_per_invocation :
  forall h t fs arrival, List.length (fst (run_batched h t fs arrival)) = List.length arrival.
Proof. exact one_statement_per_invocation. Qed.
Print Assumptions c10_one_statement_per_invocation.

Theorem c10_one_group_per_shape :
  forall fs gs, make_batch_query fs = Some gs ->
    List.length gs <= List.length fs /\ NoDup (map fst (group_filters fs)).
Proof. exact batch_groups_bound. Qed.
Print Assumptions c10_one_group_per_shape.

(** * The matcher as the code computes it (sqlgen/matcher.go, internal.MakeHashable, the dispatch loop of db.go)

    [matcher_matches] above is the specification: caller f is handed row r iff the coerced, hashed values agree
    on every column of f.  Sql/Matcher.v follows the code: groups keyed by the joined column names, inside a
    group a map from the hashed value tuple to the set of query ids, [add] per item, [match] per fetched row,
    one append per id returned.  The data structures compute exactly the specification, for every set of callers
    (keys that collide, equal filters, tuples that are == across Go types or not ...) -- the evaluator of the
    correspondence runs the data-structure model on every batch. *)
Theorem c10_matcher_data_structures_compute_the_matcher :
  forall t fs rows,
    table_ok t = true -> cols_distinct t = true -> forallb (filter_known t) fs = true ->
    dispatch t fs rows = map (fun f => List.filter (matcher_matches t f) rows) fs.
Proof. exact dispatch_refines. Qed.
Print Assumptions c10_matcher_data_structures_compute_the_matcher.

Theorem c10_batch_function_through_the_matcher :
  forall t fs contents,
    table_ok t = true -> cols_distinct t = true -> forallb (filter_known t) fs = true ->
    batched_results_struct false t fs contents = batched_results t fs contents
    /\ batched_results_struct true t fs contents = batched_results_fixed t fs contents.
Proof. exact batched_results_struct_both. Qed.
Print Assumptions c10_batch_function_through_the_matcher.

(** The key that names a column set (columnsKey: the sorted names joined with ";"; it keys makeBatchQuery's groups
    and the matcher's groups alike) is injective on lists of column names (non-empty, without ";"): two different
    column sets never share a group.  The separator is what makes it so: the plain concatenation of {namespace}
    and of {name, space} is the same text ([ex_key_needs_the_separator]); the harness's table "tags" has such
    column sets, and [c10_matcher_data_structures_compute_the_matcher] rests on this lemma. *)
Theorem c10_group_key_is_injective :
  forall l1 l2,
    forallb name_ok l1 = true -> forallb name_ok l2 = true -> columns_key l1 = columns_key l2 -> l1 = l2.
Proof. exact columns_key_inj. Qed.
Print Assumptions c10_group_key_is_injective.

(** matcher.remove undoes matcher.add (what a fetcher that recycles its matcher relies on; the tuple must be
    equal to itself as a map key). *)
Theorem c10_matcher_remove_undoes_add :
  forall m id f,
    mfull m -> mbound id m ->
    tuple_eqb (m_tuple f (extract_columns f)) (m_tuple f (extract_columns f)) = true ->
    matcher_remove (matcher_add m id f) id f = m.
Proof. exact matcher_remove_add. Qed.
Print Assumptions c10_matcher_remove_undoes_add.

(** The order in which makeBatchQuery ORs its groups is irrelevant to what is fetched; the evaluator of the
    correspondence therefore accepts the combined statement with its groups in any order -- and nothing else:
    what it accepts is the statement of a permutation of the model's groups. *)
Theorem c10_group_order_is_irrelevant :
  forall gs gs' contents, Permutation gs gs' ->
    select_rows (WBatch gs) contents = select_rows (WBatch gs') contents.
Proof. exact select_rows_perm. Qed.
Print Assumptions c10_group_order_is_irrelevant.

Theorem c10_evaluator_accepts_only_permutations_of_the_groups :
  forall tbl cols gs text args,
    batch_stmt_matches tbl cols gs text args = true ->
    exists gs', Permutation gs gs'
                /\ text = sql_text (SSelect tbl cols (WBatch gs') None)
                /\ args = sql_args (SSelect tbl cols (WBatch gs') None).
Proof. exact batch_stmt_matches_sound. Qed.
Print Assumptions c10_evaluator_accepts_only_permutations_of_the_groups.

(** Which calls are batched at all: a call with SelectOptions (Limit, OrderBy, AllowNoIndex, ForUpdate, index
    hints, free text -- any options value, FullScanQuery always passes one) is answered by a statement of
    its own carrying those options, on every context; only a call without options, outside a transaction,
    on a batching context goes to the batch function.  (The harness compares, per call and for every
    options value, the result on a batching context with the result without.) *)
Theorem c10_call_with_options_has_its_own_statement :
  forall h t c f o w,
    make_where t f = Some w -> check_filter_limits h f = true ->
    run h t c (OQuery f (Some o))
    = ([EStmt (SSelect (t_name t) (col_names t) (WSimple w) (Some o))], Proceeds).
Proof. exact options_own_statement. Qed.
Print Assumptions c10_call_with_options_has_its_own_statement.

Theorem c10_call_without_options_is_batched :
  forall h t f w,
    make_where t f = Some w -> check_filter_limits h f = true ->
    run h t (mk_ctx false true) (OQuery f None) = ([EStmt (batch_stmt t [f])], Proceeds).
Proof. exact no_options_batched. Qed.
Print Assumptions c10_call_without_options_is_batched.

(** * Non-vacuity *)
Example ex_hypotheses_hold :
  table_ok w_users = true /\ columns_ok w_users = true
  /\ forallb (filter_exactly_typed w_users)
       [[("id", GInt KI64 "" 10%Z)]; [("nick", GNil)]; [("name", GStr "" "al"); ("nick", GPtr 1 (GStr "" "a"))]; []] = true
  /\ forallb (row_representable w_users) w_contents = true.
Proof. repeat split; reflexivity. Qed.

(** The exact hypothesis: F18's filter is outside it and [witness_rows] separates it; a filter that is not
    exactly typed can be inside (a pointer to "" on the implicitnull column means IS NULL since 3e2535a, and the
    matcher compares the "" it points to with the "" a NULL scans into). *)
Definition ex_items : table :=
  mk_table "items" false
    [mk_col "id" true false (TyInt KI64 ""); mk_col "note" false true (TyStr ""); mk_col "data" false false TyBytes].

Example ex_f18_outside :
  filter_comparable ex_items [("id", GInt KI "" 10%Z)] = true
  /\ filter_transparent ex_items [("id", GInt KI "" 10%Z)] = false
  /\ witness_rows ex_items [("id", GInt KI "" 10%Z)]
     = [[("id", DInt 0%Z); ("note", DNull); ("data", DNull)]; [("id", DInt 10%Z); ("note", DNull); ("data", DNull)]]
  /\ batched_results ex_items [[("id", GInt KI "" 10%Z)]; []] [[("id", DInt 10%Z); ("note", DNull); ("data", DNull)]]
     = [[]; [[("id", DInt 10%Z); ("note", DNull); ("data", DNull)]]]
  /\ unbatched_result ex_items [("id", GInt KI "" 10%Z)] [[("id", DInt 10%Z); ("note", DNull); ("data", DNull)]]
     = [[("id", DInt 10%Z); ("note", DNull); ("data", DNull)]].
Proof. repeat split; vm_compute; reflexivity. Qed.

(** An empty []byte filter is handed the NULL row fetched for the other caller, which its own query does not select. *)
Example ex_empty_bytes_gains_a_row :
  filter_transparent ex_items [("data", GBytes "")] = false
  /\ hd [] (batched_results ex_items [[("data", GBytes "")]; []] [[("id", DInt 0%Z); ("note", DNull); ("data", DNull)]])
     = [[("id", DInt 0%Z); ("note", DNull); ("data", DNull)]]
  /\ unbatched_result ex_items [("data", GBytes "")] [[("id", DInt 0%Z); ("note", DNull); ("data", DNull)]] = [].
Proof. repeat split; vm_compute; reflexivity. Qed.

(** After the repair the empty []byte filter gets exactly its own rows (it is inside the repaired domain), and
    F18's filter still loses its row (TestBatchFilter's behaviour is unchanged). *)
Example ex_repaired :
  filter_transparent_fixed ex_items [("data", GBytes "")] = true
  /\ hd [] (batched_results_fixed ex_items [[("data", GBytes "")]; []] [[("id", DInt 0%Z); ("note", DNull); ("data", DNull)]]) = []
  /\ filter_transparent_fixed ex_items [("id", GInt KI "" 10%Z)] = false
  /\ batched_results_fixed ex_items [[("id", GInt KI "" 10%Z)]; []] [[("id", DInt 10%Z); ("note", DNull); ("data", DNull)]]
     = [[]; [[("id", DInt 10%Z); ("note", DNull); ("data", DNull)]]].
Proof. repeat split; vm_compute; reflexivity. Qed.

Example ex_transparent_not_exactly_typed :
  filter_exactly_typed ex_items [("note", GPtr 1 (GStr "" ""))] = false
  /\ filter_transparent ex_items [("note", GPtr 1 (GStr "" ""))] = true
  /\ filter_exactly_typed ex_items [("id", GCustom "Shifted" (GInt KI64 "" 9223372036854775807%Z) (DInt 9223372036854775808%Z)); ("data", GStr "" "a")] = false
  /\ filter_transparent ex_items [("id", GCustom "Shifted" (GInt KI64 "" 9223372036854775807%Z) (DInt 9223372036854775808%Z)); ("data", GStr "" "a")] = true
  /\ table_ok ex_items = true /\ columns_ok ex_items = true /\ cols_distinct ex_items = true.
Proof. repeat split; reflexivity. Qed.

Example ex_batched_rows :
  batched_results w_users
    [[("id", GInt KI64 "" 10%Z)]; [("nick", GNil)]; [("name", GStr "" "al"); ("nick", GPtr 1 (GStr "" "a"))]]
    w_contents
  = [[[("id", DInt 10%Z); ("name", DStr "bob"); ("nick", DNull)]];
     [[("id", DInt 10%Z); ("name", DStr "bob"); ("nick", DNull)]];
     [[("id", DInt 20%Z); ("name", DStr "al"); ("nick", DStr "a")]]].
Proof. vm_compute. reflexivity. Qed.

Example ex_matcher :
  matcher_of [[("id", GInt KI64 "" 10%Z)]; [("nick", GNil)]; [("id", GPtr 1 (GInt KI64 "" 10%Z))]; [("id", GInt KI "" 10%Z)]]
  = [("id", mk_mgroup ["id"] [([GInt KI64 "" 10%Z], [0; 2]); ([GInt KI "" 10%Z], [3])]);
     ("nick", mk_mgroup ["nick"] [([GNil], [1])])]
  /\ matcher_match (matcher_of [[("id", GInt KI64 "" 10%Z)]; [("nick", GNil)]; [("id", GPtr 1 (GInt KI64 "" 10%Z))]; [("id", GInt KI "" 10%Z)]])
       (coerce_map (extract_row w_users [("id", DInt 10%Z); ("name", DStr "bob"); ("nick", DNull)])) = [0; 2; 1].
Proof. split; vm_compute; reflexivity. Qed.

Example ex_key_needs_the_separator :
  String.concat "" ["namespace"] = String.concat "" ["name"; "space"]
  /\ columns_key ["namespace"] <> columns_key ["name"; "space"]
  /\ List.length (matcher_of [[("namespace", GStr "" "x")]; [("name", GStr "" "x"); ("space", GStr "" "y")]]) = 2.
Proof. repeat split; try reflexivity. vm_compute. discriminate. Qed.

Example ex_group_order :
  batch_stmt_matches "users" ["id"; "name"; "nick"]
    [(["name"; "nick"], [[DStr "al"; DNull]]); (["id"], [[DInt 10%Z]; [DInt 20%Z]])]
    "SELECT id, name, nick FROM users WHERE id IN (?, ?) OR (name=? AND nick IS NULL)" [DInt 10%Z; DInt 20%Z; DStr "al"] = true
  /\ batch_stmt_matches "users" ["id"; "name"; "nick"]
    [(["name"; "nick"], [[DStr "al"; DNull]]); (["id"], [[DInt 10%Z]; [DInt 20%Z]])]
    "SELECT id, name, nick FROM users WHERE id IN (?, ?) OR (name=? AND nick IS NULL)" [DStr "al"; DInt 10%Z; DInt 20%Z] = false.
Proof. split; vm_compute; reflexivity. Qed.

Example ex_batched_statement :
  sql_text (batch_stmt w_users [[("id", GInt KI64 "" 10%Z)]; [("nick", GNil)]; [("id", GInt KI64 "" 20%Z)]; [("nick", GStr "" "a")]])
  = "SELECT id, name, nick FROM users WHERE id IN (?, ?) OR nick IN (?) OR nick IS NULL".
Proof. vm_compute. reflexivity. Qed.
