(** C07 - Live SQL: every committed write that changes the rows a live query returns invalidates it,
    so that once writes stop every live query holds exactly the rows the database now returns for
    its filter, for any interleaving of registration, reads, commits and binlog delivery; an event
    that cannot be decoded invalidates every live query on its table.
    Model: Sql/Live.v on top of the row codec Sql/Codec.v; proofs: Sql/LiveProofs.v. *)
From Coq Require Import List ZArith String.
From Thunder Require Import Sql.Codec Sql.CodecProofs Sql.Live Sql.LiveProofs.
Import ListNotations.

(** Key lemma: the in-memory row tester agrees with SQL WHERE (three-valued logic, [IS NULL] for NULL
    filter values) for every column kind, NULLs, pointer, tagged and implicitnull columns, for filter
    values of the column's Go base type. *)
Theorem tester_agrees_with_where :
  forall e t f row,
    Forall2 (fun nd v => desc_ok (snd nd) = true /\ fval_ok e (snd nd) v = true) t row ->
    filter_based e t f = true ->
    tester t f (Some row) = sql_where t f row.
Proof. exact LiveProofs.tester_agrees_with_where. Qed.
Print Assumptions tester_agrees_with_where.

(** A write that changes what a query returns is matched by the tester on its before or after image:
    the delivered update invalidates the query. *)
Theorem write_changes_result_is_seen :
  forall schema n tbl f d w,
    select_by (fun f r => tst schema tbl f (Some r)) tbl f (apply_write d w) <>
    select_by (fun f r => tst schema tbl f (Some r)) tbl f d ->
    should_invalidate (schema tbl) (mk_resource n tbl f) (update_of w) = true.
Proof. exact LiveProofs.write_changes_result_is_seen. Qed.
Print Assumptions write_changes_result_is_seen.

(** Every interleaving (list of labels) of Register / Read / Rerun / Commit / Deliver /
    DeliverUndecodable from any initial database and any set of live queries: at quiescence (all
    events delivered, every query has completed a run whose registration has not been invalidated)
    each live query holds what the tester-based SELECT returns on the final database ... *)
Theorem quiescent_live_queries_are_current :
  forall schema d qs ls s,
    run schema true (initial d qs) ls = Some s -> quiescent s = true ->
    Forall (fun q => q_held q = sel schema q (s_db s)) (s_queries s).
Proof. exact LiveProofs.quiescent_current. Qed.
Print Assumptions quiescent_live_queries_are_current.

(** ... which is what SQL returns for the filter on a database of typed rows. *)
Theorem tester_select_is_sql_select :
  forall e schema tbl f d,
    filter_based e (schema tbl) f = true ->
    Forall (fun x => fst x = tbl -> row_typed e (schema tbl) (snd x)) d ->
    select_by (fun f r => tst schema tbl f (Some r)) tbl f d =
    select_by (fun f r => sql_where (schema tbl) f r) tbl f d.
Proof. exact LiveProofs.select_tester_is_select_sql. Qed.
Print Assumptions tester_select_is_sql_select.

(** An undecodable event invalidates every registered live query on its table (after C07-fix-1). *)
Theorem undecodable_event_invalidates_table :
  forall schema s s' w i q,
    nth_error (s_log s) (s_delivered s) = Some (w, false) ->
    step schema true s DeliverUndecodable = Some s' ->
    nth_error (s_queries s) i = Some q -> registered q = true -> q_table q = w_table w ->
    exists q', nth_error (s_queries s') i = Some q' /\ q_invalid q' = true.
Proof. exact LiveProofs.undecodable_invalidates. Qed.
Print Assumptions undecodable_event_invalidates_table.

(** F20, the code before C07-fix-1: the event is dropped, the system is quiescent and the live query
    holds rows the database no longer returns. *)
Theorem undecodable_event_dropped_refuted_before_fix :
  exists d qs ls s,
    run toy_schema false (initial d qs) ls = Some s /\ quiescent s = true /\
    exists q, In q (s_queries s) /\ q_held q <> sel toy_schema q (s_db s).
Proof. exact LiveProofs.undecodable_dropped_refuted. Qed.
Print Assumptions undecodable_event_dropped_refuted_before_fix.

(** Link to the row codec (C13): the rows event MySQL produces for a committed write (images in MySQL
    column order, any representation the binlog decoder hands back) decodes, through the column map,
    to exactly the update the transition system delivers. *)
Theorem faithful_event_decodes_to_the_write :
  forall fx e t cols w k rows,
    env_laws e -> event_of e t cols w k rows ->
    poll_loop_update fx e (t, fst (column_map t cols), snd (column_map t cols)) (w_table w) k rows = Some (update_of w).
Proof. exact LiveProofs.faithful_event_decodes. Qed.
Print Assumptions faithful_event_decodes_to_the_write.

(** Non-vacuity: a history with a write committed between registration and read, delayed delivery, a
    re-run, and quiescence at the end. *)
Example quiescent_history_exists :
  match run toy_schema true
            (initial [("users"%string, [FVal (GInt 1)])]
                     [("users"%string, [("id"%string, Dyn (BInt 64) false (FVal (GInt 2)))])])
            [Register 0; Commit (mk_write "users" None (Some [FVal (GInt 2)])) true; Read 0; Deliver; Rerun 0;
             Commit (mk_write "users" (Some [FVal (GInt 2)]) (Some [FVal (GInt 3)])) true; Register 0; Read 0;
             Deliver; Rerun 0; Register 0; Read 0] with
  | Some s => quiescent s = true /\ map q_held (s_queries s) = [[]] /\ List.length (s_db s) = 2
  | None => False
  end.
Proof. vm_compute. repeat split; reflexivity. Qed.
