(** C07 - Live SQL: every committed write that changes the rows a live query returns invalidates it,
    so that once writes stop every live query holds exactly the rows the database now returns for
    its filter, for any interleaving of registration, reads, commits and binlog delivery; an event
    that cannot be decoded invalidates every live query on its table.
    Model: Sql/Live.v on top of the row codec Sql/Codec.v; proofs: Sql/LiveProofs.v. *)
From Coq Require Import List ZArith String.
From Thunder Require Import Sql.Codec Sql.CodecProofs Sql.Live Sql.LiveProofs Sql.LiveTx Sql.LiveTxProofs.
Import ListNotations.

(** Key lemma: the in-memory row tester agrees with SQL WHERE (three-valued logic, [IS NULL] for NULL
    filter values) for every column kind, NULLs, pointer, tagged and implicitnull columns, for filter
    values of the column's Go base type. *)
Theorem tester_agrees_with_where :
  forall e t f row,
    Forall2 (fun nd v => desc_ok (snd nd) = true /\ fval_ok e (snd nd) v = true) t row ->
    filter_based e t f = true ->
    tester t f (Some row) = sql_where t f row.
Proof. exact LiveProofs.tester_agrees_with_where. Qed.
Print Assumptions tester_agrees_with_where.

(** A write that changes what a query returns is matched by the tester on its before or after image:
    the delivered update invalidates the query. *)
Theorem write_changes_result_is_seen :
  forall schema n tbl f d w,
    select_by (fun f r => tst schema tbl f (Some r)) tbl f (apply_write d w) <>
    select_by (fun f r => tst schema tbl f (Some r)) tbl f d ->
    should_invalidate (schema tbl) (mk_resource n tbl f) (update_of w) = true.
Proof. exact LiveProofs.write_changes_result_is_seen. Qed.
Print Assumptions write_changes_result_is_seen.

(** Every interleaving (list of labels) of Register / Read / Rerun / Commit / Deliver /
    DeliverUndecodable from any initial database and any set of live queries: at quiescence (all
    events delivered, every query has completed a run whose registration has not been invalidated)
    each live query holds what the tester-based SELECT returns on the final database ... *)
Theorem quiescent_live_queries_are_current :
  forall schema d qs ls s,
    run schema true (initial d qs) ls = Some s -> quiescent s = true ->
    Forall (fun q => q_held q = sel schema q (s_db s)) (s_queries s).
Proof. exact LiveProofs.quiescent_current. Qed.
Print Assumptions quiescent_live_queries_are_current.

(** ... which is what SQL returns for the filter on a database of typed rows. *)
Theorem tester_select_is_sql_select :
  forall e schema tbl f d,
    filter_based e (schema tbl) f = true ->
    Forall (fun x => fst x = tbl -> row_typed e (schema tbl) (snd x)) d ->
    select_by (fun f r => tst schema tbl f (Some r)) tbl f d =
    select_by (fun f r => sql_where (schema tbl) f r) tbl f d.
Proof. exact LiveProofs.select_tester_is_select_sql. Qed.
Print Assumptions tester_select_is_sql_select.

(** An undecodable event invalidates every registered live query on its table (after C07-fix-1). *)
Theorem undecodable_event_invalidates_table :
  forall schema s s' w i q,
    nth_error (s_log s) (s_delivered s) = Some (w, false) ->
    step schema true s DeliverUndecodable = Some s' ->
    nth_error (s_queries s) i = Some q -> registered q = true -> q_table q = w_table w ->
    exists q', nth_error (s_queries s') i = Some q' /\ q_invalid q' = true.
Proof. exact LiveProofs.undecodable_invalidates. Qed.
Print Assumptions undecodable_event_invalidates_table.

(** F20, the code before C07-fix-1: the event is dropped, the system is quiescent and the live query
    holds rows the database no longer returns. *)
Theorem undecodable_event_dropped_refuted_before_fix :
  exists d qs ls s,
    run toy_schema false (initial d qs) ls = Some s /\ quiescent s = true /\
    exists q, In q (s_queries s) /\ q_held q <> sel toy_schema q (s_db s).
Proof. exact LiveProofs.undecodable_dropped_refuted. Qed.
Print Assumptions undecodable_event_dropped_refuted_before_fix.

(** Link to the row codec (C13): the rows event MySQL produces for a committed write (images in MySQL
    column order, any representation the binlog decoder hands back) decodes, through the column map,
    to exactly the update the transition system delivers. *)
Theorem faithful_event_decodes_to_the_write :
  forall fx e t cols w k rows,
    env_laws e -> event_of e t cols w k rows ->
    poll_loop_update fx e (t, fst (column_map t cols), snd (column_map t cols)) (w_table w) k rows = Some (update_of w).
Proof. exact LiveProofs.faithful_event_decodes. Qed.
Print Assumptions faithful_event_decodes_to_the_write.

(** * Transactions, multi-row events, the update queue, table versions and schema changes (Sql/LiveTx.v)

    Every interleaving (list of labels) of Register / Read / Rerun, Commit of a transaction (a list of
    rows events, each a list of inserts / deletes / updates, each well-formed or not), binlog noise,
    ALTER TABLE, Poll (one iteration of RunPollLoop: table-map items forget cached column maps, rows
    items are decoded with the cached map or the one information_schema gives at that moment, the update
    is queued) and Apply (the tracker takes the queue's head): if tables are altered only while
    RunPollLoop has read the whole binlog ([safe = true], what livesql asks of its users), then once
    the binlog is read and applied and every live query has completed a run whose registration stands,
    each holds what the database now returns for its filter. *)
Theorem quiescent_live_queries_are_current_across_transactions_and_schema_changes :
  forall schema layout d qs ls s,
    trun schema layout true (tinitial d qs) ls = Some s -> tquiescent s = true ->
    Forall (fun q => q_held q = tsel schema q (t_db s)) (t_queries s).
Proof. exact tquiescent_current. Qed.
Print Assumptions quiescent_live_queries_are_current_across_transactions_and_schema_changes.

(** Without that discipline the statement is false, as binlog.go l.405-416 says: an event written before
    an ALTER that keeps the column count and read after it is decoded with the new column order. *)
Theorem alter_with_unread_events_refuted :
  exists s, trun toy2_schema toy2_layout false
                 (tinitial [] [("users"%string, [("id"%string, Dyn (BInt 64) false (FVal (GInt 1)))])]) race_run = Some s /\
            tquiescent s = true /\
            exists q, In q (t_queries s) /\ q_held q <> tsel toy2_schema q (t_db s).
Proof. exact LiveTxProofs.alter_with_unread_events_refuted. Qed.
Print Assumptions alter_with_unread_events_refuted.

(** The abstract decoding of that system is what the function-level model of RunPollLoop / getColumnMap /
    parseBinlogRowsEvent (Sql/Live.v [poll_event], run against the code on every history) does: a
    well-formed multi-row event whose images are those of the row changes [ds] under the column list
    [cols] yields exactly [ds], with the column map of [cols] cached or fetched on a miss ... *)
Theorem faithful_rows_event_decodes_to_its_row_changes :
  forall fx e db schema st ans tbl t cols k ds rows,
    env_laws e -> slookup tbl schema = Some t -> rows_of e t cols k ds rows ->
    (slookup tbl (p_cmaps st) = Some (column_map t cols) \/
     (slookup tbl (p_cmaps st) = None /\ exists ans', ans = (tbl, cols) :: ans')) ->
    exists st' ans', poll_event fx e db schema st ans (PRows db tbl k rows) = (st', ans', PUpdate (mk_update tbl ds false)) /\
                     slookup tbl (p_cmaps st') = Some (column_map t cols).
Proof. exact faithful_rows_event_decodes. Qed.
Print Assumptions faithful_rows_event_decodes_to_its_row_changes.

(** ... an event the cached column map cannot decode reaches the tracker with [err] set (C07-fix-1) ... *)
Theorem undecodable_rows_event_reaches_the_tracker_as_error :
  forall e db schema st ans tbl t cm k rows,
    slookup tbl schema = Some t -> slookup tbl (p_cmaps st) = Some cm ->
    parse_rows_event e (t, fst cm, snd cm) k rows = Err ->
    poll_event true e db schema st ans (PRows db tbl k rows) = (st, ans, PUpdate (mk_update tbl [] true)).
Proof. exact undecodable_rows_event_is_err. Qed.
Print Assumptions undecodable_rows_event_reaches_the_tracker_as_error.

(** ... and a table map with a new table id drops the table's column map, one with the remembered id
    changes nothing. *)
Theorem table_map_with_new_id_flushes_the_column_map :
  forall e db schema st ans tbl id,
    let '(st', _, _) := poll_event true e db schema st ans (PTableMap db tbl id) in
    (slookup tbl (p_versions st) = Some id -> st' = st) /\
    (slookup tbl (p_versions st) <> Some id -> slookup tbl (p_cmaps st') = None /\ slookup tbl (p_versions st') = Some id).
Proof. exact table_map_flushes_column_map. Qed.
Print Assumptions table_map_with_new_id_flushes_the_column_map.

(** Non-vacuity: a history with a write committed between registration and read, delayed delivery, a
    re-run, and quiescence at the end. *)
Example quiescent_history_exists :
  match run toy_schema true
            (initial [("users"%string, [FVal (GInt 1)])]
                     [("users"%string, [("id"%string, Dyn (BInt 64) false (FVal (GInt 2)))])])
            [Register 0; Commit (mk_write "users" None (Some [FVal (GInt 2)])) true; Read 0; Deliver; Rerun 0;
             Commit (mk_write "users" (Some [FVal (GInt 2)]) (Some [FVal (GInt 3)])) true; Register 0; Read 0;
             Deliver; Rerun 0; Register 0; Read 0] with
  | Some s => quiescent s = true /\ map q_held (s_queries s) = [[]] /\ List.length (s_db s) = 2
  | None => False
  end.
Proof. vm_compute. repeat split; reflexivity. Qed.

(** Non-vacuity of the second system: a transaction of two events (one with two row changes), reads between
    polling and applying, noise, an ALTER once the binlog is read, an event under the new version (cached
    column map dropped by the new table id), an undecodable event, re-runs; quiescent at the end. *)
Example transaction_history_exists :
  match trun toy2_schema toy2_layout true
             (tinitial [] [("users"%string, [("id"%string, Dyn (BInt 64) false (FVal (GInt 1)))])]) long_run with
  | Some s => tquiescent s = true /\ map q_held (t_queries s) = [[[FVal (GInt 1); FVal (GInt 9)]]] /\
              t_cmaps s = [("users"%string, 1); ("other"%string, 0)]
  | None => False
  end.
Proof. exact long_run_quiescent. Qed.

(** The refuting history is not a run of the safe system: its ALTER is not enabled. *)
Example racing_alter_is_not_safe :
  trun toy2_schema toy2_layout true
       (tinitial [] [("users"%string, [("id"%string, Dyn (BInt 64) false (FVal (GInt 1)))])]) race_run = None.
Proof. exact race_run_not_safe. Qed.
