From Thunder Require Import Sql.Codec Sql.Live.
Theorem placeholder : True. Proof. exact I. Qed.
Print Assumptions placeholder.
