(** C02 - live subscriptions converge: client state equals the current query result.

    Model: Server/Model.v (the connection: one rerunner per subscription with its `previous` value, the
    envelopes it writes) + DiffMerge/Model.v (diff.Diff, client/src/merge.ts, diff.StripKey).
    [client_state rid s] folds, from nothing, every update message subscription [rid] sent in the history
    leading to [s] with merge.ts; [r_prev] is `previous`, the result of the subscription's last successful
    computation ([run_stores_result]).  [good_label]: successful computations return well-formed JSON
    objects (Execute returns a map; unique keys; scalar __key).  [jeq]: equal as JSON values, objects read
    as finite maps (Props/C03.v, [jeq_canonical]).

    That the last computation read the final data - so that "the result of the last run" is "the result of
    the query on the final data" - is the quiescence theorem of the reactive package (C04); on the
    implementation it is checked by the harness on every run (version stamp on every resolver read, fresh
    Execute at every quiescent point).  The convergence theorem is proved in Server/ProofsConv.v inside a
    Section whose only hypothesis is the round trip of C03; it is instantiated here with C03's proof. *)
From Coq Require Import List ZArith String Bool Arith.
From Thunder Require Import Lib.Json DiffMerge.Model Server.Model Server.Spec Server.Proofs Server.ProofsLife
     Server.ProofsConv Server.Witness Server.Queries Server.ProofsC02
     Server.Product Server.ProductDrive Server.ProductWitness Server.ProofsProduct Server.ProofsAnyDiff.
Import ListNotations.

(** Convergence.  After any history in which no socket write has failed ([st_wfail s = false]: the client is
    still there to receive), the client of a subscription that has completed at least one computation holds
    the key-stripped result of the last successful one. *)
Theorem convergence : forall cfg h s rid r,
  forallb good_label h = true -> run cfg init h = Some s -> st_wfail s = false ->
  st_runners s rid = Some r -> r_kind r = KSub -> r_initial r = false ->
  jeq (client_state rid s) (strip (r_prev r)).
Proof. exact ProofsC02.convergence_l. Qed.
Print Assumptions convergence.

(** [r_prev] is what it is said to be. *)
Theorem run_stores_result : forall cfg s rid r v s',
  st_runners s rid = Some r -> r_kind r = KSub -> step cfg s (LRun rid (OOk v)) = Some s' ->
  exists r', st_runners s' rid = Some r' /\ r_prev r' = v /\ r_initial r' = false /\ r_kind r' = KSub.
Proof. exact ProofsC02.run_stores_result_l. Qed.
Print Assumptions run_stores_result.

(** The first envelope a subscription writes is a full update [[v]] (or the error that ends it). *)
Theorem first_message_full : forall cfg h s rid r,
  forallb good_label h = true -> run cfg init h = Some s -> st_wfail s = false ->
  st_runners s rid = Some r -> r_kind r = KSub ->
  match writes_of rid s with [] => True | e :: _ => is_full e \/ e_type e = EError end.
Proof. exact ProofsC02.first_message_full_l. Qed.
Print Assumptions first_message_full.

(** Updates of different subscriptions never mix: every envelope written by a computation carries the id
    its rerunner was created for. *)
Theorem updates_carry_own_id : forall cfg h s e rid,
  run cfg init h = Some s -> In e (st_out s) -> e_src e = Some rid ->
  exists r, st_runners s rid = Some r /\ e_id e = r_sub r.
Proof. exact ProofsC02.updates_carry_own_id_l. Qed.
Print Assumptions updates_carry_own_id.

(** After the unsubscribe for [id] was processed no update for [id] is written, until a subscribe or mutate
    message with that id arrives. *)
Theorem no_update_after_unsubscribe : forall cfg s id s1 h s2,
  c_fix_mutdup cfg = true -> reachable cfg s -> step cfg s (LUnsubscribe id) = Some s1 ->
  forallb (fun l => negb (accepts_for id l)) h = true -> run cfg s1 h = Some s2 ->
  forall e, In e (st_out s2) -> e_id e = id -> e_type e = EUpdate -> In e (st_out s1).
Proof. exact ProofsC02.no_update_after_unsubscribe_l. Qed.
Print Assumptions no_update_after_unsubscribe.

(** Own query, own variables (Server/Queries.v: histories annotated with query tokens, one token per
    (query text, variables) pair; [qs] maps every rerunner to the token of the message that created it).
    The rerunner created by an accepted subscribe / mutate records the token of that message, *)
Theorem subscribe_records_its_query : forall cfg h s qs l tok s' qs',
  runQ cfg (init, []) h = Some (s, qs) -> creates l = true -> stepQ cfg (s, qs) (l, tok) = Some (s', qs') ->
  st_next s < st_next s' -> qlookup (st_next s) qs' = Some tok.
Proof. exact ProofsC02.subscribe_records_its_query_l. Qed.
Print Assumptions subscribe_records_its_query.

(** and every computation of that rerunner, whatever happens in between (other subscriptions with the same
    text and other variables, unsubscribe and re-subscribe of the id), executes exactly that query. *)
Theorem computations_execute_own_query : forall cfg h1 s1 qs1 rid t h2 s2 qs2 o tok p3,
  runQ cfg (init, []) h1 = Some (s1, qs1) -> qlookup rid qs1 = Some t ->
  runQ cfg (s1, qs1) h2 = Some (s2, qs2) -> stepQ cfg (s2, qs2) (LRun rid o, tok) = Some p3 -> tok = t.
Proof. exact ProofsC02.computations_execute_own_query_l. Qed.
Print Assumptions computations_execute_own_query.

Example variables_example :
  exists s qs, runQ (repaired 3) (init, []) h_vars = Some (s, qs) /\ qs = [(2, 73); (1, 72); (0, 71)]
  /\ stepQ (repaired 3) (s, qs) (LRun 2 (OOk v2), 71) = None.
Proof. exact ProofsC02.vars_example_l. Qed.

(** F13: with the original handleMutate (no duplicate-id check) an update for id 0 is written after the
    unsubscribe for 0 was processed. *)
Theorem no_update_after_unsubscribe_refuted :
  exists s s1 s2 e, run (only_mutdup_missing 3) init h_f13_c02 = Some s
    /\ step (only_mutdup_missing 3) s (LUnsubscribe 0) = Some s1
    /\ step (only_mutdup_missing 3) s1 (LRun 0 (OOk v2)) = Some s2
    /\ In e (st_out s2) /\ e_id e = 0 /\ e_type e = EUpdate /\ ~ In e (st_out s1).
Proof. exact ProofsC02.no_update_after_unsubscribe_refuted_l. Qed.
Print Assumptions no_update_after_unsubscribe_refuted.

(** Non-vacuity: a keyed list that is reordered and changed, a new field, a run without change; two
    updates are sent and the client ends with the stripped last result. *)
Example convergence_example :
  forallb good_label h_conv = true /\
  exists s, run (repaired 3) init h_conv = Some s /\ List.length (updates_of 0 s) = 2
            /\ norm (client_state 0 s) = JObj [("a", JNum 3); ("items", JArr [JObj [("n", JNum 7)]; JObj [("n", JNum 5)]])].
Proof. exact ProofsC02.conv_example_l. Qed.

(** * Whatever delta the diff chooses

    diff.go is free in how it matches the items of a keyed list that share a key, hence in the index list and
    the sub-deltas of a "$" delta; the connection model fixes one choice ([Diff]), and the correspondence check
    compares update messages by the client state they lead to, not by their text.  The convergence argument
    does not depend on the choice either: a client that folds from nothing ANY sequence of update messages,
    each of which takes the stripped previous value to the stripped new one, holds the stripped last value. *)
Theorem any_diff_converges : forall l prev st,
  good_run prev l -> jeq st (strip prev) -> jeq (fold_client st l) (strip (last_value prev l)).
Proof. exact ProofsAnyDiff.any_diff_converges_l. Qed.
Print Assumptions any_diff_converges.

(** ... and the deltas of the model's own diff are of that kind (C03's round trip, instantiated). *)
Theorem model_diff_is_good : forall prev v, wf prev = true -> wf v = true -> good_delta prev v (Diff prev v).
Proof. exact (ProofsAnyDiff.model_diff_good ProofsC02.roundtrip_js_fact). Qed.
Print Assumptions model_diff_is_good.

Example any_diff_example :
  good_run JNull run_a /\ good_run JNull run_b /\ run_a <> run_b
  /\ norm (fold_client JNull run_a) = norm (strip w2) /\ norm (fold_client JNull run_b) = norm (strip w2).
Proof. exact ProofsAnyDiff.any_diff_example. Qed.

(** * End to end: the connection composed with the reactive package

    Server/Product.v runs the connection model side by side with Reactive/Rerunner.v, the model of
    reactive/graph.go + reactive/rerunner.go that C04 and C08 are proved about: the rerunner the connection
    creates as number [rid] is rerunner [rid] of the reactive state; data changes are Strobe / Invalidate of
    slots; a reactive step that publishes a computation of [rid] with recorded reads [out] is the
    connection's [LRun rid (OOk (w_render w rid out))] (Execute's result is a function of what the resolvers
    read), a run that returns a non-retry error is the connection's failing [LRun]; a connection step that
    stops rerunners performs Rerunner.Stop on them.  A product history [h : list plabel] is an arbitrary
    interleaving of client messages, asynchronous closes, socket failure / close, data changes, timers,
    cache purges, cancellations and the critical sections of every goroutine of the reactive package. *)

(** Every product history is a history of the connection model and a schedule of the reactive model (so every
    theorem above, and every theorem of Props/C04.v and Props/C08.v, holds of the product's states); the
    rerunners the connection created are rerunners of the pool. *)
Theorem product_projects : forall w p, preachable w p ->
  reachable (w_cfg w) (fst p) /\ RB.reachable (RR.init (w_slots w) (w_progs w)) (snd p)
  /\ List.length (RR.s_rrs (snd p)) = pool w /\ st_next (fst p) <= pool w.
Proof. exact ProofsProduct.product_projects_l. Qed.
Print Assumptions product_projects.

(** `previous` is the result of the computation the rerunner has published: in every state of the product the
    value the connection diffs against is [w_render] of the reads of the reactive package's current output
    (nil before the first successful computation). *)
Theorem previous_is_published : forall w p rid ru, preachable w p ->
  st_runners (fst p) rid = Some ru -> r_kind ru = KSub ->
  match RR.r_out (RR.getr (snd p) rid) with
  | Some out => r_initial ru = false /\ r_prev ru = w_render w rid out
  | None => r_initial ru = true /\ r_prev ru = JNull
  end.
Proof. exact ProofsProduct.previous_is_published_l. Qed.
Print Assumptions previous_is_published.

(** LIVE CONVERGENCE.  For every world (pool of queries, their read scripts and result functions), every
    history of client messages, data changes and schedules: when the reactive package has come to rest
    (no goroutine left) and the client is still there, a live subscription whose context was not cancelled
    has published a computation [out], every version that computation read is the slot's current version,
    and the merge.ts client that folded the subscription's update messages from nothing holds the
    key-stripped result of that computation - the result of running the query against the final data.
    Proof: [convergence] (C02 over C03's round trip) for the connection, C04's
    [published_output_is_current] for the reactive package, and the coherence invariant of the product. *)
Theorem live_convergence : forall w h sv rx rid ru,
  good_world w -> forallb pgood h = true -> prun w (pinit w) h = Some (sv, rx) ->
  RR.quiescent rx -> st_wfail sv = false ->
  st_runners sv rid = Some ru -> r_kind ru = KSub -> r_stat ru = Live -> RR.r_cancel (RR.getr rx rid) = false ->
  exists out,
    RR.r_out (RR.getr rx rid) = Some out
    /\ (forall sl v, In (sl, v) out -> v = RR.slot_ver rx sl)
    /\ jeq (client_state rid sv) (strip (w_render w rid out)).
Proof. exact ProofsProduct.live_convergence_l. Qed.
Print Assumptions live_convergence.

(** The same with the final data written out: [on_current rx out] is the read path of the last computation
    with every version replaced by the slot's version in the final state. *)
Theorem live_convergence_current : forall w h sv rx rid ru,
  good_world w -> forallb pgood h = true -> prun w (pinit w) h = Some (sv, rx) ->
  RR.quiescent rx -> st_wfail sv = false ->
  st_runners sv rid = Some ru -> r_kind ru = KSub -> r_stat ru = Live -> RR.r_cancel (RR.getr rx rid) = false ->
  exists out, RR.r_out (RR.getr rx rid) = Some out
    /\ jeq (client_state rid sv) (strip (w_render w rid (on_current rx out))).
Proof. exact ProofsProduct.live_convergence_current_l. Qed.
Print Assumptions live_convergence_current.

(** Non-vacuity (Server/ProductWitness.v): three rerunners (a subscription reading slot 0 through a
    reactive.Cache entry and slot 1 directly, a mutation, a subscription with a non-spawning handler), 136
    labels: subscribe, slot 0 invalidated, a mutation runs to its result and is closed asynchronously, a
    second subscribe, slot 0 strobed and slot 1 invalidated, all goroutines run to rest.  The premises of
    [live_convergence] hold for subscription 0; it sent three updates and its client holds the result on
    versions (2, 1). *)
Example live_convergence_example :
  good_world wx /\ forallb pgood h_live = true /\
  exists sv rx ru, prun wx (pinit wx) h_live = Some (sv, rx) /\ RR.quiescent rx /\ st_wfail sv = false
    /\ st_runners sv 0 = Some ru /\ r_kind ru = KSub /\ r_stat ru = Live /\ RR.r_cancel (RR.getr rx 0) = false
    /\ RR.slot_ver rx 0 = 2 /\ RR.slot_ver rx 1 = 1 /\ RR.r_out (RR.getr rx 0) = Some [(0, 2); (1, 1)]
    /\ List.length (updates_of 0 sv) = 3 /\ List.length h_live = 136
    /\ norm (client_state 0 sv) = JObj [("a", JNum 2); ("items", JArr [JObj [("n", JNum 1)]])].
Proof. split; [exact wx_good | exact live_example]. Qed.
