(** C02 - live subscriptions converge: client state equals the current query result.

    Model: Server/Model.v (the connection: one rerunner per subscription with its `previous` value, the
    envelopes it writes) + DiffMerge/Model.v (diff.Diff, client/src/merge.ts, diff.StripKey).
    [client_state rid s] folds, from nothing, every update message subscription [rid] sent in the history
    leading to [s] with merge.ts; [r_prev] is `previous`, the result of the subscription's last successful
    computation ([run_stores_result]).  [good_label]: successful computations return well-formed JSON
    objects (Execute returns a map; unique keys; scalar __key).  [jeq]: equal as JSON values, objects read
    as finite maps (Props/C03.v, [jeq_canonical]).

    That the last computation read the final data - so that "the result of the last run" is "the result of
    the query on the final data" - is the quiescence theorem of the reactive package (C04); on the
    implementation it is checked by the harness on every run (version stamp on every resolver read, fresh
    Execute at every quiescent point).  The convergence theorem is proved in Server/ProofsConv.v inside a
    Section whose only hypothesis is the round trip of C03; it is instantiated here with C03's proof. *)
From Coq Require Import List ZArith String Bool Arith.
From Thunder Require Import Lib.Json DiffMerge.Model Server.Model Server.Spec Server.Proofs Server.ProofsLife
     Server.ProofsConv Server.Witness Server.Queries Server.ProofsC02.
Import ListNotations.

(** Convergence.  After any history in which no socket write has failed ([st_wfail s = false]: the client is
    still there to receive), the client of a subscription that has completed at least one computation holds
    the key-stripped result of the last successful one. *)
Theorem convergence : forall cfg h s rid r,
  forallb good_label h = true -> run cfg init h = Some s -> st_wfail s = false ->
  st_runners s rid = Some r -> r_kind r = KSub -> r_initial r = false ->
  jeq (client_state rid s) (strip (r_prev r)).
Proof. exact ProofsC02.convergence_l. Qed.
Print Assumptions convergence.

(** [r_prev] is what it is said to be. *)
Theorem run_stores_result : forall cfg s rid r v s',
  st_runners s rid = Some r -> r_kind r = KSub -> step cfg s (LRun rid (OOk v)) = Some s' ->
  exists r', st_runners s' rid = Some r' /\ r_prev r' = v /\ r_initial r' = false /\ r_kind r' = KSub.
Proof. exact ProofsC02.run_stores_result_l. Qed.
Print Assumptions run_stores_result.

(** The first envelope a subscription writes is a full update [[v]] (or the error that ends it). *)
Theorem first_message_full : forall cfg h s rid r,
  forallb good_label h = true -> run cfg init h = Some s -> st_wfail s = false ->
  st_runners s rid = Some r -> r_kind r = KSub ->
  match writes_of rid s with [] => True | e :: _ => is_full e \/ e_type e = EError end.
Proof. exact ProofsC02.first_message_full_l. Qed.
Print Assumptions first_message_full.

(** Updates of different subscriptions never mix: every envelope written by a computation carries the id
    its rerunner was created for. *)
Theorem updates_carry_own_id : forall cfg h s e rid,
  run cfg init h = Some s -> In e (st_out s) -> e_src e = Some rid ->
  exists r, st_runners s rid = Some r /\ e_id e = r_sub r.
Proof. exact ProofsC02.updates_carry_own_id_l. Qed.
Print Assumptions updates_carry_own_id.

(** After the unsubscribe for [id] was processed no update for [id] is written, until a subscribe or mutate
    message with that id arrives. *)
Theorem no_update_after_unsubscribe : forall cfg s id s1 h s2,
  c_fix_mutdup cfg = true -> reachable cfg s -> step cfg s (LUnsubscribe id) = Some s1 ->
  forallb (fun l => negb (accepts_for id l)) h = true -> run cfg s1 h = Some s2 ->
  forall e, In e (st_out s2) -> e_id e = id -> e_type e = EUpdate -> In e (st_out s1).
Proof. exact ProofsC02.no_update_after_unsubscribe_l. Qed.
Print Assumptions no_update_after_unsubscribe.

(** Own query, own variables (Server/Queries.v: histories annotated with query tokens, one token per
    (query text, variables) pair; [qs] maps every rerunner to the token of the message that created it).
    The rerunner created by an accepted subscribe / mutate records the token of that message, *)
Theorem subscribe_records_its_query : forall cfg h s qs l tok s' qs',
  runQ cfg (init, []) h = Some (s, qs) -> creates l = true -> stepQ cfg (s, qs) (l, tok) = Some (s', qs') ->
  st_next s < st_next s' -> qlookup (st_next s) qs' = Some tok.
Proof. exact ProofsC02.subscribe_records_its_query_l. Qed.
Print Assumptions subscribe_records_its_query.

(** and every computation of that rerunner, whatever happens in between (other subscriptions with the same
    text and other variables, unsubscribe and re-subscribe of the id), executes exactly that query. *)
Theorem computations_execute_own_query : forall cfg h1 s1 qs1 rid t h2 s2 qs2 o tok p3,
  runQ cfg (init, []) h1 = Some (s1, qs1) -> qlookup rid qs1 = Some t ->
  runQ cfg (s1, qs1) h2 = Some (s2, qs2) -> stepQ cfg (s2, qs2) (LRun rid o, tok) = Some p3 -> tok = t.
Proof. exact ProofsC02.computations_execute_own_query_l. Qed.
Print Assumptions computations_execute_own_query.

Example variables_example :
  exists s qs, runQ (repaired 3) (init, []) h_vars = Some (s, qs) /\ qs = [(2, 73); (1, 72); (0, 71)]
  /\ stepQ (repaired 3) (s, qs) (LRun 2 (OOk v2), 71) = None.
Proof. exact ProofsC02.vars_example_l. Qed.

(** F13: with the original handleMutate (no duplicate-id check) an update for id 0 is written after the
    unsubscribe for 0 was processed. *)
Theorem no_update_after_unsubscribe_refuted :
  exists s s1 s2 e, run (only_mutdup_missing 3) init h_f13_c02 = Some s
    /\ step (only_mutdup_missing 3) s (LUnsubscribe 0) = Some s1
    /\ step (only_mutdup_missing 3) s1 (LRun 0 (OOk v2)) = Some s2
    /\ In e (st_out s2) /\ e_id e = 0 /\ e_type e = EUpdate /\ ~ In e (st_out s1).
Proof. exact ProofsC02.no_update_after_unsubscribe_refuted_l. Qed.
Print Assumptions no_update_after_unsubscribe_refuted.

(** Non-vacuity: a keyed list that is reordered and changed, a new field, a run without change; two
    updates are sent and the client ends with the stripped last result. *)
Example convergence_example :
  forallb good_label h_conv = true /\
  exists s, run (repaired 3) init h_conv = Some s /\ List.length (updates_of 0 s) = 2
            /\ norm (client_state 0 s) = JObj [("a", JNum 3); ("items", JArr [JObj [("n", JNum 7)]; JObj [("n", JNum 5)]])].
Proof. exact ProofsC02.conv_example_l. Qed.
