(** C02 - live subscriptions converge.  Model: Server/Model.v + DiffMerge/Model.v. *)
From Coq Require Import List String.
From Thunder Require Import Lib.Json DiffMerge.Model Server.Model Server.Proofs.
Import ListNotations.

(** Updates of different subscriptions never mix: what a computation writes carries the id its
    rerunner was created for. *)
Theorem run_writes_own_id : forall s rid r o e,
  In e (st_out (do_run s rid r o)) -> In e (st_out s) \/ (e_id e = r_sub r /\ e_src e = Some rid).
Proof. exact Proofs.run_writes_own_id. Qed.
Print Assumptions run_writes_own_id.
