From Thunder Require Import Sql.Model.
Theorem placeholder : True. Proof. exact I. Qed.
Print Assumptions placeholder.
