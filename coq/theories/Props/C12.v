(** C12 -- a shard-limited DB handle can never read or write outside its shard.

    Model: Sql/Model.v ([run]: every method of sqlgen.DB as handle -> table -> context -> operation ->
    (events sent to the database, outcome); [run_batched]: concurrent Query calls under
    batch.WithBatching).  Definitions of confinement and all proofs: Sql/Confine.v.

    [enforced_limits h] = the shard limit of the handle, and its dynamic limit when the
    ShouldContinueOnError callback rejects.  [confined t l s]: a SELECT / COUNT constrains every limit
    column to the limit's value in every disjunct of its WHERE, an INSERT / UPSERT carries the value in
    every tuple, an UPDATE carries it in its WHERE or SET, a DELETE in its WHERE.  Hypotheses, all
    boolean and evaluated on every generated case ([op_wfb], [batched_wfb]): column names are
    identifiers, a pointer has one pointee, rows have one value per column. *)
From Coq Require Import List String Bool ZArith.
From Thunder Require Import Sql.Model Sql.Confine.
Import ListNotations.
Open Scope string_scope.

(** Whatever a DB method of a limited handle sends to the database is confined to every enforced limit
    -- for every handle, table, context (in / out of a transaction, batching on / off) and operation
    (Query, QueryRow, FullScanQuery, Count, InsertRow(s), UpsertRow(s), UpdateRow, DeleteRow), whether the
    call finally proceeds or is rejected half way (bulk methods). *)
Theorem c12_every_statement_confined :
  forall h t c o ev out l,
    op_wfb h t o = true ->
    run h t c o = (ev, out) -> In l (enforced_limits h) ->
    Forall (event_confined t l) ev.
Proof. exact c12_confined_b. Qed.
Print Assumptions c12_every_statement_confined.

(** A call that does not comply (what it would send on an unrestricted handle is not confined) returns an
    error; a single-statement method sends nothing, a bulk method never commits. *)
Theorem c12_noncomplying_call_rejected :
  forall h t c o l,
    op_wfb h t o = true -> In l (enforced_limits h) ->
    ~ Forall (event_confined t l) (fst (run no_limits t c o)) ->
    snd (run h t c o) <> Proceeds
    /\ (single_statement o -> fst (run h t c o) = [])
    /\ ~ In ECommit (fst (run h t c o)).
Proof. exact c12_noncomplying_b. Qed.
Print Assumptions c12_noncomplying_call_rejected.

(** A call that violates the SHARD limit is rejected for every dynamic-limit configuration: whatever filter
    GetLimitFilter returns (none, the same, another, a contradicting one), with or without
    ShouldContinueOnError, and whatever that callback answers ("continue" = report-only mode included). *)
Theorem c12_shard_violation_rejected_whatever_the_dynamic_limit :
  forall shard dyn cb cont t c o,
    op_wfb (mk_handle (Some shard) dyn cb cont) t o = true ->
    ~ Forall (event_confined t shard) (fst (run no_limits t c o)) ->
    snd (run (mk_handle (Some shard) dyn cb cont) t c o) <> Proceeds
    /\ (single_statement o -> fst (run (mk_handle (Some shard) dyn cb cont) t c o) = [])
    /\ ~ In ECommit (fst (run (mk_handle (Some shard) dyn cb cont) t c o)).
Proof. exact shard_violation_rejected. Qed.
Print Assumptions c12_shard_violation_rejected_whatever_the_dynamic_limit.

(** The decision functions take both limits and the callback's answer; the shard check alone decides "no". *)
Theorem c12_shard_check_is_not_overridable :
  forall shard dyn cb cont,
    (forall f, check_filter_against_limit f shard = false ->
               check_filter_limits (mk_handle (Some shard) dyn cb cont) f = false)
    /\ (forall cvs, check_column_values_against_limit cvs shard = false ->
                   check_values_limits (mk_handle (Some shard) dyn cb cont) cvs = false).
Proof. exact shard_check_not_overridable. Qed.
Print Assumptions c12_shard_check_is_not_overridable.

(** Batched fetches: for every set of concurrent callers and every way the Go scheduler groups the ones
    that pass their check into invocations of the batch function, every combined statement is confined. *)
Theorem c12_batched_statements_confined :
  forall h t fs arrival l,
    batched_wfb h t fs = true ->
    arrival_consistent h t fs arrival = true -> In l (enforced_limits h) ->
    Forall (event_confined t l) (fst (run_batched h t fs arrival)).
Proof. exact c12_batched_confined_b. Qed.
Print Assumptions c12_batched_statements_confined.

(** A batched caller that does not comply is answered with an error and is not part of any batch. *)
Theorem c12_batched_noncomplying_rejected :
  forall h t fs arrival l i,
    batched_wfb h t fs = true -> i < List.length fs ->
    arrival_consistent h t fs arrival = true -> In l (enforced_limits h) ->
    ~ Forall (event_confined t l) (fst (run no_limits t (mk_ctx false false) (OQuery (nth_filter fs i) None))) ->
    nth i (snd (run_batched h t fs arrival)) Proceeds <> Proceeds /\ ~ In i (List.concat arrival).
Proof. exact c12_batched_noncomplying_b. Qed.
Print Assumptions c12_batched_noncomplying_rejected.

(** Batches that mix handles sharing one batch function (an unrestricted and a restricted handle, two shard
    limits, on one batching context): every value tuple of every combined statement is the tuple of a
    caller of that invocation who passed the checks of its own handle, and it pins every limit column of
    that handle; a statement without WHERE is only sent when a caller with an empty filter passed. *)
Theorem c12_mixed_handle_batches_justified :
  forall t cs arrival b,
    batched_multi_wfb t cs = true -> arrival_consistent_multi t cs arrival = true -> In b arrival ->
    match make_batch_query (map (dfilter_of t) (map (nth_filter (map snd cs)) b)) with
    | Some gs => Forall (fun g => Forall (tuple_justified t cs b (fst g)) (snd g)) gs
    | None => exists i, In i b
                /\ caller_outcome (fst (nth_caller cs i)) t (snd (nth_caller cs i)) = Proceeds
                /\ dfilter_of t (snd (nth_caller cs i)) = []
    end.
Proof. exact c12_multi_justified_b. Qed.
Print Assumptions c12_mixed_handle_batches_justified.

Theorem c12_mixed_handle_noncomplying_rejected :
  forall t cs arrival i l,
    batched_multi_wfb t cs = true -> i < List.length cs ->
    arrival_consistent_multi t cs arrival = true ->
    In l (enforced_limits (fst (nth_caller cs i))) ->
    ~ Forall (event_confined t l) (fst (run no_limits t (mk_ctx false false) (OQuery (snd (nth_caller cs i)) None))) ->
    nth i (snd (run_batched_multi t cs arrival)) Proceeds <> Proceeds /\ ~ In i (List.concat arrival).
Proof. exact c12_multi_noncomplying_b. Qed.
Print Assumptions c12_mixed_handle_noncomplying_rejected.

(** Any sequence of operations inside one transaction of the caller. *)
Theorem c12_transaction_sequence_confined :
  forall h t bt ops l,
    Forall (fun o => op_wfb h t o = true) ops -> In l (enforced_limits h) ->
    Forall (event_confined t l) (fst (run_seq h t bt ops)).
Proof. exact run_seq_confined. Qed.
Print Assumptions c12_transaction_sequence_confined.

(** SelectOptions.Where is opaque: whatever truth value the free text takes on a row, a row selected by
    "(filter) AND (free text)" satisfies the filter part and therefore lies in the shard. *)
Theorem c12_free_text_cannot_widen_the_filter :
  forall w k d r (free_text : tri),
    where_pins w k d -> tri_and (eval_wclause w r) free_text = TT -> in_shard (cell r k) d.
Proof. exact where_pins_sound_with_free_text. Qed.
Print Assumptions c12_free_text_cannot_widen_the_filter.

(** Meaning of the syntactic predicate under SQL's three-valued semantics: a row that satisfies a WHERE
    clause which pins column k to d has d in column k (NULL for a NULL limit value). *)
Theorem c12_confined_where_selects_only_shard_rows :
  forall w k d r, where_pins w k d -> eval_wclause w r = TT -> in_shard (cell r k) d.
Proof. exact where_pins_sound. Qed.
Print Assumptions c12_confined_where_selects_only_shard_rows.

(** UPDATE: when the limit column belongs to the primary key, the WHERE clause itself is restricted
    (otherwise the row is only required to carry the value: see the report). *)
Theorem c12_update_where_restricted_on_pk_columns :
  forall h t c r ev l k v,
    run h t c (OUpdateRow r) = (ev, Proceeds) -> In l (enforced_limits h) -> In (k, v) l ->
    In k (map fst (pk_cvs t r)) ->
    exists d, write_value v d /\ In (k, d) (pk_cvs t r).
Proof. exact update_where_pins_pk. Qed.
Print Assumptions c12_update_where_restricted_on_pk_columns.

(** Reads and writes agree on the column value a limit entry denotes, whenever a write can pass at all. *)
Theorem c12_read_and_write_values_agree :
  forall i v d,
    write_value v d -> (i && is_zero v = false) ->
    match d with DInt z => (- 2 ^ 63 <= z < 2 ^ 63)%Z | _ => True end ->
    valuer i v = d.
Proof. exact read_write_agree. Qed.
Print Assumptions c12_read_and_write_values_agree.

(** * The hypotheses are satisfiable by non-trivial states *)
Definition ex_users : table :=
  mk_table "users" true
    [mk_col "id" true false (TyInt KI64 ""); mk_col "shard" false false (TyInt KI64 "");
     mk_col "name" false false (TyStr ""); mk_col "nick" false false (TyPtr (TyStr ""))].
Definition ex_handle : handle := mk_handle (Some [("shard", GInt KI64 "" 7)]) None false false.
Definition ex_filter : filter := [("name", GStr "" "bob"); ("shard", GInt KI64 "" 7)].

Example ex_wf : op_wfb ex_handle ex_users (OQuery ex_filter None) = true.
Proof. reflexivity. Qed.

Example ex_complying_query_proceeds :
  run ex_handle ex_users (mk_ctx false false) (OQuery ex_filter None)
  = ([EStmt (SSelect "users" ["id"; "shard"; "name"; "nick"]
                     (WSimple [("shard", DInt 7); ("name", DStr "bob")]) None)], Proceeds).
Proof. vm_compute. reflexivity. Qed.

Example ex_text :
  sql_text (SSelect "users" ["id"; "shard"; "name"; "nick"] (WSimple [("shard", DInt 7); ("name", DStr "bob")]) None)
  = "SELECT id, shard, name, nick FROM users WHERE shard = ? AND name = ?".
Proof. vm_compute. reflexivity. Qed.

(** The same filter with int(7) instead of int64(7) is rejected (Go's != compares dynamic types). *)
Example ex_other_go_type_rejected :
  run ex_handle ex_users (mk_ctx false false) (OQuery [("name", GStr "" "bob"); ("shard", GInt KI "" 7)] None)
  = ([], Rejected).
Proof. vm_compute. reflexivity. Qed.

Example ex_batched :
  run_batched ex_handle ex_users
    [ex_filter; [("shard", GInt KI64 "" 7)]; [("shard", GInt KI64 "" 8)]; [("shard", GInt KI64 "" 7); ("nick", GNil)]]
    [[1; 0; 3]]
  = ([EStmt (SSelect "users" ["id"; "shard"; "name"; "nick"]
        (WBatch [(["name"; "shard"], [[DStr "bob"; DInt 7]]);
                 (["nick"; "shard"], [[DNull; DInt 7]]);
                 (["shard"], [[DInt 7]])]) None)],
     [Proceeds; Proceeds; Rejected; Proceeds]).
Proof. vm_compute. reflexivity. Qed.

Example ex_batched_text :
  batch_text [(["name"; "shard"], [[DStr "bob"; DInt 7]]); (["nick"; "shard"], [[DNull; DInt 7]]); (["shard"], [[DInt 7]])]
  = "(name=? AND shard=?) OR (nick IS NULL AND shard=?) OR shard IN (?)".
Proof. vm_compute. reflexivity. Qed.

Example ex_bulk_insert_rolls_back :
  run ex_handle ex_users (mk_ctx false false)
      (OInsertRows [[GInt KI64 "" 0; GInt KI64 "" 7; GStr "" "a"; GNilPtr (TyStr "")];
                    [GInt KI64 "" 0; GInt KI64 "" 8; GStr "" "b"; GNilPtr (TyStr "")]] 1)
  = ([EBegin; EStmt (SInsert "users" ["shard"; "name"; "nick"] [[DInt 7; DStr "a"; DNull]]); ERollback], Rejected).
Proof. vm_compute. reflexivity. Qed.

Example ex_mixed_batch :
  run_batched_multi ex_users
    [(ex_handle, ex_filter); (unrestricted, [("name", GStr "" "al")]); (ex_handle, [("name", GStr "" "al")])]
    [[1; 0]]
  = ([EStmt (SSelect "users" ["id"; "shard"; "name"; "nick"]
        (WBatch [(["name"], [[DStr "al"]]); (["name"; "shard"], [[DStr "bob"; DInt 7]])]) None)],
     [Proceeds; Proceeds; Rejected]).
Proof. vm_compute. reflexivity. Qed.
