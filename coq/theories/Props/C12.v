(** C12 -- a shard-limited DB handle can never read or write outside its shard.

    Model: Sql/Model.v ([run]: every method of sqlgen.DB as handle -> table -> context -> operation ->
    (events sent to the database, outcome); [run_batched]: concurrent Query calls under
    batch.WithBatching).  Definitions of confinement and all proofs: Sql/Confine.v.

    [enforced_limits h] = the shard limit of the handle, and its dynamic limit when the
    ShouldContinueOnError callback rejects.  [confined t l s]: a SELECT / COUNT constrains every limit
    column to the limit's value in every disjunct of its WHERE, an INSERT / UPSERT carries the value in
    every tuple, an UPDATE carries it in its WHERE or SET, a DELETE in its WHERE.  Hypotheses, all
    boolean and evaluated on every generated case ([op_wfb], [batched_wfb]): column names are
    identifiers, a pointer has one pointee, rows have one value per column. *)
From Coq Require Import List String Bool ZArith.
From Coq Require Import Permutation.
From Thunder Require Import Sql.GroupOrder Sql.Model Sql.ModelExact Sql.Confine Sql.BatchProofs Sql.ShardRows Sql.Methods Sql.MethodsProofs Gen.DbMethods.
Import ListNotations.
Open Scope string_scope.

(** Whatever a DB method of a limited handle sends to the database is confined to every enforced limit
    -- for every handle, table, context (in / out of a transaction, batching on / off) and operation
    (Query, QueryRow, FullScanQuery, Count, InsertRow(s), UpsertRow(s), UpdateRow, DeleteRow), whether the
    call finally proceeds or is rejected half way (bulk methods). *)
Theorem c12_every_statement_confined :
  forall h t c o ev out l,
    op_wfb h t o = true ->
    run h t c o = (ev, out) -> In l (enforced_limits h) ->
    Forall (event_confined t l) ev.
Proof. exact c12_confined_b. Qed.
Print Assumptions c12_every_statement_confined.

(** A call that does not comply (what it would send on an unrestricted handle is not confined) returns an
    error; a single-statement method sends nothing, a bulk method never commits. *)
Theorem c12_noncomplying_call_rejected :
  forall h t c o l,
    op_wfb h t o = true -> In l (enforced_limits h) ->
    ~ Forall (event_confined t l) (fst (run no_limits t c o)) ->
    snd (run h t c o) <> Proceeds
    /\ (single_statement o -> fst (run h t c o) = [])
    /\ ~ In ECommit (fst (run h t c o)).
Proof. exact c12_noncomplying_b. Qed.
Print Assumptions c12_noncomplying_call_rejected.

(** A call that violates the SHARD limit is rejected for every dynamic-limit configuration: whatever filter
    GetLimitFilter returns (none, the same, another, a contradicting one), with or without
    ShouldContinueOnError, and whatever that callback answers ("continue" = report-only mode included). *)
Theorem c12_shard_violation_rejected_whatever_the_dynamic_limit :
  forall shard dyn cb cont t c o,
    op_wfb (mk_handle (Some shard) dyn cb cont) t o = true ->
    ~ Forall (event_confined t shard) (fst (run no_limits t c o)) ->
    snd (run (mk_handle (Some shard) dyn cb cont) t c o) <> Proceeds
    /\ (single_statement o -> fst (run (mk_handle (Some shard) dyn cb cont) t c o) = [])
    /\ ~ In ECommit (fst (run (mk_handle (Some shard) dyn cb cont) t c o)).
Proof. exact shard_violation_rejected. Qed.
Print Assumptions c12_shard_violation_rejected_whatever_the_dynamic_limit.

(** The decision functions take both limits and the callback's answer; the shard check alone decides "no". *)
Theorem c12_shard_check_is_not_overridable :
  forall shard dyn cb cont,
    (forall f, check_filter_against_limit f shard = false ->
               check_filter_limits (mk_handle (Some shard) dyn cb cont) f = false)
    /\ (forall cvs, check_column_values_against_limit cvs shard = false ->
                   check_values_limits (mk_handle (Some shard) dyn cb cont) cvs = false).
Proof. exact shard_check_not_overridable. Qed.
Print Assumptions c12_shard_check_is_not_overridable.

(** Batched fetches: for every set of concurrent callers and every way the Go scheduler groups the ones
    that pass their check into invocations of the batch function, every combined statement is confined. *)
Theorem c12_batched_statements_confined :
  forall h t fs arrival l,
    batched_wfb h t fs = true ->
    arrival_consistent h t fs arrival = true -> In l (enforced_limits h) ->
    Forall (event_confined t l) (fst (run_batched h t fs arrival)).
Proof. exact c12_batched_confined_b. Qed.
Print Assumptions c12_batched_statements_confined.

(** A batched caller that does not comply is answered with an error and is not part of any batch. *)
Theorem c12_batched_noncomplying_rejected :
  forall h t fs arrival l i,
    batched_wfb h t fs = true -> i < List.length fs ->
    arrival_consistent h t fs arrival = true -> In l (enforced_limits h) ->
    ~ Forall (event_confined t l) (fst (run no_limits t (mk_ctx false false) (OQuery (nth_filter fs i) None))) ->
    nth i (snd (run_batched h t fs arrival)) Proceeds <> Proceeds /\ ~ In i (List.concat arrival).
Proof. exact c12_batched_noncomplying_b. Qed.
Print Assumptions c12_batched_noncomplying_rejected.

(** Confinement of a combined statement does not depend on the order of its OR-ed groups (the evaluator of the
    correspondence accepts them in any order). *)
Theorem c12_confinement_does_not_depend_on_group_order :
  forall t l tbl cols gs gs' o, Permutation gs gs' ->
    confined t l (SSelect tbl cols (WBatch gs) o) -> confined t l (SSelect tbl cols (WBatch gs') o).
Proof. exact confined_perm. Qed.
Print Assumptions c12_confinement_does_not_depend_on_group_order.

(** Batches that mix handles sharing one batch function (an unrestricted and a restricted handle, two shard
    limits, on one batching context): every value tuple of every combined statement is the tuple of a
    caller of that invocation who passed the checks of its own handle, and it pins every limit column of
    that handle; a statement without WHERE is only sent when a caller with an empty filter passed. *)
Theorem c12_mixed_handle_batches_justified :
  forall t cs arrival b,
    batched_multi_wfb t cs = true -> arrival_consistent_multi t cs arrival = true -> In b arrival ->
    match make_batch_query (map (dfilter_of t) (map (nth_filter (map snd cs)) b)) with
    | Some gs => Forall (fun g => Forall (tuple_justified t cs b (fst g)) (snd g)) gs
    | None => exists i, In i b
                /\ caller_outcome (fst (nth_caller cs i)) t (snd (nth_caller cs i)) = Proceeds
                /\ dfilter_of t (snd (nth_caller cs i)) = []
    end.
Proof. exact c12_multi_justified_b. Qed.
Print Assumptions c12_mixed_handle_batches_justified.

Theorem c12_mixed_handle_noncomplying_rejected :
  forall t cs arrival i l,
    batched_multi_wfb t cs = true -> i < List.length cs ->
    arrival_consistent_multi t cs arrival = true ->
    In l (enforced_limits (fst (nth_caller cs i))) ->
    ~ Forall (event_confined t l) (fst (run no_limits t (mk_ctx false false) (OQuery (snd (nth_caller cs i)) None))) ->
    nth i (snd (run_batched_multi t cs arrival)) Proceeds <> Proceeds /\ ~ In i (List.concat arrival).
Proof. exact c12_multi_noncomplying_b. Qed.
Print Assumptions c12_mixed_handle_noncomplying_rejected.

(** C12 composed with C10 (the rows RECEIVED, not only the statements sent): in any batch -- one handle or
    several handles sharing the batch function, any grouping of the callers into invocations, any other callers,
    any representable table contents -- a caller that passed the limit check of its own handle and whose filter
    lies in the exact domain of the transparency theorem is handed rows of its shard only.  (Outside that
    domain the matcher may hand a caller a row fetched for another one: open finding c10-batch-matcher-go-type.) *)
Theorem c12_batched_rows_lie_in_the_shard :
  forall h t fs arrival contents i rows l k v,
    table_ok t = true -> columns_ok t = true ->
    filter_transparent t (nth_filter fs i) = true ->
    forallb (row_representable t) contents = true ->
    In (i, rows) (batched_by_arrival t fs arrival contents) ->
    caller_outcome h t (nth_filter fs i) = Proceeds ->
    filter_ptrs_okb (nth_filter fs i) l = true ->
    In l (enforced_limits h) -> In (k, v) l ->
    exists d, read_value t k v d /\ Forall (fun r => in_shard (cell r k) d) rows.
Proof. exact batched_rows_in_shard. Qed.
Print Assumptions c12_batched_rows_lie_in_the_shard.

(** With the proposed repair C10-fix-2 (the batch function asks the query's row tester before it hands a row
    over; Props/C10.v) the hypothesis on the filter disappears: EVERY batched caller that passed the limit check
    of its own handle receives rows of its shard only, whatever the Go types of its filter values and whatever
    the other callers of the batch fetched.  (The harness probes which batch function the tree has.) *)
Theorem c12_batched_rows_lie_in_the_shard_repaired :
  forall h t fs arrival contents i rows l k v,
    table_ok t = true -> columns_ok t = true ->
    forallb (row_representable t) contents = true ->
    In (i, rows) (batched_by_arrival_g matcher_matches_fixed t fs arrival contents) ->
    caller_outcome h t (nth_filter fs i) = Proceeds ->
    filter_ptrs_okb (nth_filter fs i) l = true ->
    In l (enforced_limits h) -> In (k, v) l ->
    exists d, read_value t k v d /\ Forall (fun r => in_shard (cell r k) d) rows.
Proof. exact fixed_batched_rows_in_shard. Qed.
Print Assumptions c12_batched_rows_lie_in_the_shard_repaired.

(** Without the repair the hypothesis is needed: a caller of a shard-limited handle whose filter is outside it
    can be handed a row of another shard ([ex_foreign_shard_row]). *)

(** Any sequence of operations inside one transaction of the caller. *)
Theorem c12_transaction_sequence_confined :
  forall h t bt ops l,
    Forall (fun o => op_wfb h t o = true) ops -> In l (enforced_limits h) ->
    Forall (event_confined t l) (fst (run_seq h t bt ops)).
Proof. exact run_seq_confined. Qed.
Print Assumptions c12_transaction_sequence_confined.

(** SelectOptions.Where is opaque: whatever truth value the free text takes on a row, a row selected by
    "(filter) AND (free text)" satisfies the filter part and therefore lies in the shard. *)
Theorem c12_free_text_cannot_widen_the_filter :
  forall w k d r (free_text : tri),
    where_pins w k d -> tri_and (eval_wclause w r) free_text = TT -> in_shard (cell r k) d.
Proof. exact where_pins_sound_with_free_text. Qed.
Print Assumptions c12_free_text_cannot_widen_the_filter.

(** Meaning of the syntactic predicate under SQL's three-valued semantics: a row that satisfies a WHERE
    clause which pins column k to d has d in column k (NULL for a NULL limit value). *)
Theorem c12_confined_where_selects_only_shard_rows :
  forall w k d r, where_pins w k d -> eval_wclause w r = TT -> in_shard (cell r k) d.
Proof. exact where_pins_sound. Qed.
Print Assumptions c12_confined_where_selects_only_shard_rows.

(** UPDATE: when the limit column belongs to the primary key, the WHERE clause itself is restricted
    (otherwise the row is only required to carry the value: see the report). *)
Theorem c12_update_where_restricted_on_pk_columns :
  forall h t c r ev l k v,
    run h t c (OUpdateRow r) = (ev, Proceeds) -> In l (enforced_limits h) -> In (k, v) l ->
    In k (map fst (pk_cvs t r)) ->
    exists d, write_value v d /\ In (k, d) (pk_cvs t r).
Proof. exact update_where_pins_pk. Qed.
Print Assumptions c12_update_where_restricted_on_pk_columns.

(** Reads and writes agree on the column value a limit entry denotes, whenever a write can pass at all. *)
Theorem c12_read_and_write_values_agree :
  forall i v d,
    write_value v d -> (i && is_zero v = false) ->
    match d with DInt z => (- 2 ^ 63 <= z < 2 ^ 63)%Z | _ => True end ->
    valuer i v = d.
Proof. exact read_write_agree. Qed.
Print Assumptions c12_read_and_write_values_agree.

(** * Every exported method of sqlgen.DB, by name

    The exported methods of DB with the kind of database call each can reach (query, exec, begin) are extracted
    from sqlgen/*.go of the tree under test on every run (go/ast; [Gen.DbMethods.db_methods] is the committed
    snapshot).  [call] (Sql/Methods.v) has one constructor per method and [run_call] says what it
    sends: the row-level methods through [run], FullScanQuery with its options rewrite, BaseQuery's EXPLAIN on
    a WithPanicOnNoIndex handle, and the methods that only derive handles and contexts. *)

(** For any table of exported methods the evaluator accepts -- every run extracts the table of its own tree
    (go/ast, pkg/sqlh/methods.go) and evaluates [methods_covered] on it; a table it does not accept is reported
    as "method outside the model" --: every extracted method that can reach a database/sql call is a constructor
    of [call] with that kind of access (a method added to DB that reaches the database, or an existing one that
    starts to send another kind of statement, is not accepted), every constructor of [call] is an extracted
    method, and the extracted methods without a case in the model reach no database call at all (an accessor
    cannot send a statement; they are listed in the histogram, not an error). *)
Theorem c12_every_exported_method_is_modelled :
  forall gen,
    methods_covered gen = true ->
    (forall m a, In (m, a) gen -> a <> (false, false, false) -> (exists cl, call_name cl = m) /\ access_of m = a)
    /\ (forall cl, In (call_name cl) (map fst gen))
    /\ (forall m, In m (methods_without_access gen) -> In (m, (false, false, false)) gen).
Proof. exact covered_table_is_modelled. Qed.
Print Assumptions c12_every_exported_method_is_modelled.

(** Whatever any of these methods sends -- the EXPLAIN of a statement included -- is confined to every
    enforced limit. *)
Theorem c12_every_method_confined :
  forall x t c cl l,
    call_wfb x t cl = true -> In l (enforced_limits (x_h x)) ->
    Forall (xevent_confined t l) (fst (run_call x t c cl)).
Proof. exact run_call_confined. Qed.
Print Assumptions c12_every_method_confined.

(** A row-level call that does not comply is refused; nothing is sent, not even the EXPLAIN. *)
Theorem c12_noncomplying_method_call_rejected :
  forall x t c cl o l,
    op_of_call cl = Some o -> op_wfb (x_h x) t o = true -> In l (enforced_limits (x_h x)) ->
    ~ Forall (event_confined t l) (fst (run no_limits t c o)) ->
    snd (run_call x t c cl) <> 0
    /\ (single_statement o -> fst (run_call x t c cl) = [])
    /\ ~ In (XEv ECommit) (fst (run_call x t c cl)).
Proof. exact run_call_noncomplying. Qed.
Print Assumptions c12_noncomplying_method_call_rejected.

(** The access table is what the model does: a method listed as sending no query / no write / beginning no
    transaction never does (so the derived-handle and context methods send nothing but WithTx's BEGIN). *)
Theorem c12_method_access_is_sound :
  forall x t c cl, forallb (xevent_allowed (access_of (call_name cl))) (fst (run_call x t c cl)) = true.
Proof. exact method_access_sound. Qed.
Print Assumptions c12_method_access_is_sound.

(** Handles derived by any chain of WithShardLimit / WithDynamicLimit / WithPanicOnNoIndex calls (accepted or
    refused, in any order) keep every limit of the handle they come from, and a shard limit is never replaced:
    so every call on every derived handle stays confined to the original limits. *)
Theorem c12_derived_handles_keep_their_limits :
  forall steps x, xwf x ->
    incl (enforced_limits (x_h x)) (enforced_limits (x_h (fst (derive x steps))))
    /\ (forall l, h_shard (x_h x) = Some l -> h_shard (x_h (fst (derive x steps))) = Some l).
Proof. exact derive_keeps_limits_only. Qed.
Print Assumptions c12_derived_handles_keep_their_limits.

Theorem c12_calls_on_derived_handles_confined :
  forall x steps t c cl l,
    xwf x -> call_wfb (fst (derive x steps)) t cl = true -> In l (enforced_limits (x_h x)) ->
    Forall (xevent_confined t l) (fst (run_call (fst (derive x steps)) t c cl)).
Proof. exact derived_call_confined. Qed.
Print Assumptions c12_calls_on_derived_handles_confined.

(** * The hypotheses are satisfiable by non-trivial states *)
Definition ex_users : table :=
  mk_table "users" true
    [mk_col "id" true false (TyInt KI64 ""); mk_col "shard" false false (TyInt KI64 "");
     mk_col "name" false false (TyStr ""); mk_col "nick" false false (TyPtr (TyStr ""))].
Definition ex_handle : handle := mk_handle (Some [("shard", GInt KI64 "" 7)]) None false false.
Definition ex_filter : filter := [("name", GStr "" "bob"); ("shard", GInt KI64 "" 7)].

Example ex_wf : op_wfb ex_handle ex_users (OQuery ex_filter None) = true.
Proof. reflexivity. Qed.

Example ex_complying_query_proceeds :
  run ex_handle ex_users (mk_ctx false false) (OQuery ex_filter None)
  = ([EStmt (SSelect "users" ["id"; "shard"; "name"; "nick"]
                     (WSimple [("shard", DInt 7); ("name", DStr "bob")]) None)], Proceeds).
Proof. vm_compute. reflexivity. Qed.

Example ex_text :
  sql_text (SSelect "users" ["id"; "shard"; "name"; "nick"] (WSimple [("shard", DInt 7); ("name", DStr "bob")]) None)
  = "SELECT id, shard, name, nick FROM users WHERE shard = ? AND name = ?".
Proof. vm_compute. reflexivity. Qed.

(** The same filter with int(7) instead of int64(7) is rejected (Go's != compares dynamic types). *)
Example ex_other_go_type_rejected :
  run ex_handle ex_users (mk_ctx false false) (OQuery [("name", GStr "" "bob"); ("shard", GInt KI "" 7)] None)
  = ([], Rejected).
Proof. vm_compute. reflexivity. Qed.

Example ex_batched :
  run_batched ex_handle ex_users
    [ex_filter; [("shard", GInt KI64 "" 7)]; [("shard", GInt KI64 "" 8)]; [("shard", GInt KI64 "" 7); ("nick", GNil)]]
    [[1; 0; 3]]
  = ([EStmt (SSelect "users" ["id"; "shard"; "name"; "nick"]
        (WBatch [(["name"; "shard"], [[DStr "bob"; DInt 7]]);
                 (["nick"; "shard"], [[DNull; DInt 7]]);
                 (["shard"], [[DInt 7]])]) None)],
     [Proceeds; Proceeds; Rejected; Proceeds]).
Proof. vm_compute. reflexivity. Qed.

Example ex_batched_text :
  batch_text [(["name"; "shard"], [[DStr "bob"; DInt 7]]); (["nick"; "shard"], [[DNull; DInt 7]]); (["shard"], [[DInt 7]])]
  = "(name=? AND shard=?) OR (nick IS NULL AND shard=?) OR shard IN (?)".
Proof. vm_compute. reflexivity. Qed.

Example ex_bulk_insert_rolls_back :
  run ex_handle ex_users (mk_ctx false false)
      (OInsertRows [[GInt KI64 "" 0; GInt KI64 "" 7; GStr "" "a"; GNilPtr (TyStr "")];
                    [GInt KI64 "" 0; GInt KI64 "" 8; GStr "" "b"; GNilPtr (TyStr "")]] 1)
  = ([EBegin; EStmt (SInsert "users" ["shard"; "name"; "nick"] [[DInt 7; DStr "a"; DNull]]); ERollback], Rejected).
Proof. vm_compute. reflexivity. Qed.

(** WithShardLimit, then a second (looser) WithShardLimit that is refused, then WithPanicOnNoIndex: the
    handle keeps the first limit and FullScanQuery is not EXPLAINed, Query is. *)
Definition ex_x : xhandle :=
  fst (derive x_base [StShard [("shard", GInt KI64 "" 7)]; StShard []; StExplain]).

Example ex_chain :
  derive x_base [StShard [("shard", GInt KI64 "" 7)]; StShard []; StExplain]
  = (mk_xhandle ex_handle false true, [false; true; false]) /\ xwf x_base.
Proof. split; [vm_compute; reflexivity|intros _; reflexivity]. Qed.

Example ex_explain :
  map (fun e => match e with XExplain s => "EXPLAIN " ++ sql_text s | XEv (EStmt s) => sql_text s | _ => "" end)
      (fst (run_call ex_x ex_users (mk_ctx false false) (CQuery ex_filter None)))
  = ["EXPLAIN SELECT id, shard, name, nick FROM users WHERE shard = ? AND name = ?";
     "SELECT id, shard, name, nick FROM users WHERE shard = ? AND name = ?"]
  /\ List.length (fst (run_call ex_x ex_users (mk_ctx false false) (CFullScanQuery ex_filter None))) = 1
  /\ run_call ex_x ex_users (mk_ctx false false) (CQuery [("name", GStr "" "bob")] None) = ([], 1)
  /\ run_call ex_x ex_users (mk_ctx true false) CWithTx = ([], 1)
  /\ run_call ex_x ex_users (mk_ctx false false) CWithTx = ([XEv EBegin], 0).
Proof. repeat split; vm_compute; reflexivity. Qed.

(** Two handles in one batch, rows of both shards fetched by the one statement: each caller gets its own. *)
Example ex_rows_in_shard :
  batched_by_arrival ex_users [[("shard", GInt KI64 "" 7)]; [("shard", GInt KI64 "" 8)]] [[1; 0]]
    [[("id", DInt 1); ("shard", DInt 7); ("name", DStr "a"); ("nick", DNull)];
     [("id", DInt 2); ("shard", DInt 8); ("name", DStr "b"); ("nick", DNull)]]
  = [(1, [[("id", DInt 2); ("shard", DInt 8); ("name", DStr "b"); ("nick", DNull)]]);
     (0, [[("id", DInt 1); ("shard", DInt 7); ("name", DStr "a"); ("nick", DNull)]])]
  /\ filter_transparent ex_users [("shard", GInt KI64 "" 7)] = true
  /\ caller_outcome ex_handle ex_users [("shard", GInt KI64 "" 7)] = Proceeds.
Proof. repeat split; vm_compute; reflexivity. Qed.

(** The leak the repair closes: the handle is limited to shard 7 and its caller asks for shard = 7, data = ''
    (an empty, non-nil []byte); another caller of the same batch, on an unrestricted handle, fetches everything;
    the matcher hands the first caller the shard-7 row whose data is NULL (fine: same shard) -- and with a limit
    on data itself, a row outside the limit: *)
Definition ex_blobs : table :=
  mk_table "blobs" false [mk_col "id" true false (TyInt KI64 ""); mk_col "data" false false TyBytes].
Definition ex_blob_handle : handle := mk_handle (Some [("data", GBytes "")]) None false false.

Example ex_foreign_shard_row :
  caller_outcome ex_blob_handle ex_blobs [("data", GBytes "")] = Proceeds
  /\ batched_by_arrival ex_blobs [[("data", GBytes "")]; []] [[0; 1]] [[("id", DInt 1); ("data", DNull)]]
     = [(0, [[("id", DInt 1); ("data", DNull)]]); (1, [[("id", DInt 1); ("data", DNull)]])]
  /\ batched_by_arrival_g matcher_matches_fixed ex_blobs [[("data", GBytes "")]; []] [[0; 1]] [[("id", DInt 1); ("data", DNull)]]
     = [(0, []); (1, [[("id", DInt 1); ("data", DNull)]])].
Proof. repeat split; vm_compute; reflexivity. Qed.

(** The committed snapshot of the table is accepted; so is one with an accessor added; one with a method that
    writes without a case in the model, or with a method whose kind changed, is not. *)
Example ex_tables :
  methods_covered db_methods = true
  /\ methods_covered (("ShardLimit", (false, false, false)) :: db_methods) = true
  /\ methods_without_access (("ShardLimit", (false, false, false)) :: db_methods) = ["ShardLimit"]
  /\ methods_covered (("DeleteAll", (false, true, false)) :: db_methods) = false
  /\ methods_outside (("DeleteAll", (false, true, false)) :: db_methods) = ["DeleteAll"]
  /\ methods_outside (("HasTx", (true, false, false)) :: List.filter (fun ma => negb (String.eqb (fst ma) "HasTx")) db_methods) = ["HasTx"].
Proof. repeat split; vm_compute; reflexivity. Qed.

Example ex_mixed_batch :
  run_batched_multi ex_users
    [(ex_handle, ex_filter); (unrestricted, [("name", GStr "" "al")]); (ex_handle, [("name", GStr "" "al")])]
    [[1; 0]]
  = ([EStmt (SSelect "users" ["id"; "shard"; "name"; "nick"]
        (WBatch [(["name"], [[DStr "al"]]); (["name"; "shard"], [[DStr "bob"; DInt 7]])]) None)],
     [Proceeds; Proceeds; Rejected]).
Proof. vm_compute. reflexivity. Qed.
