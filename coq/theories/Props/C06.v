(** C06 -- federation is transparent: the gateway answers like one combined server.

    Model: Federation/Normalize.v (flattenFragments, mergeSameAlias as repaired and as it was, flatten),
    Federation/Planner.v (selectService, planObject, planUnion, key selections, paths),
    Federation/Executor.v (extractKeys as repaired and as it was, the sub-query a service answers, stitching
    result i into target i, deleteKey; [fed_exec] = the whole gateway; [eval_ref] = GraphQL's reference
    semantics on one combined server).  On every run the model's normalised query, plan and answer are
    compared with the gateway's, and [eval_ref] with the harness' reference evaluator (Federation/Check06.v).

    FULL STATEMENT of the property (NOT proved as one theorem):

      forall w g pick q, fed_ok g -> valid g q -> covers_unions q ->
        option_map norm (fed_exec w g pick false true q) =
        option_map (fun r => norm (add_union_typenames g q r)) (eval_ref w g fuel "Query" 0 q)

    for every world [w] (every resolver a function of object, field and arguments), every federation [g]
    (partition of the fields over services, federated keys, ServiceSelector), every resolution [pick] of the
    "some service that has the field" choice; in particular independent of [pick].
    Proved below: the parts of that refinement named in the property text -- (1) every sub-query sent to a
    service uses only fields of that service, at every depth, for every choice ([subquery_closed]);
    (2) normalisation keeps every selection: flattenFragments collects exactly GraphQL's CollectFields, and the
    repaired mergeSameAlias gives every alias exactly its sub-selections, in order
    ([normalisation_keeps_every_selection_partial]); (3) stitching hands result i to target i
    ([stitching_consumes_in_order]); and the two defects of the unrepaired code as refutations with witnesses
    that were replayed on the implementation (corpus/C06).  Missing for the full theorem: the induction that
    composes (1)-(3) through the plan tree (a sub-plan's answer for key i is the reference answer of the
    selections moved to that service, evaluated at the object key i identifies), the union expansion of
    [flatten], and independence of [pick]; the harness checks those end to end on every run instead. *)
From Coq Require Import List String Bool ZArith Permutation.
From Thunder Require Import Lib.Json Federation.Merge Federation.Normalize Federation.Planner Federation.Executor
  Federation.NormalizeProofs Federation.PlannerProofs Federation.ExecutorProofs Federation.FedWitness.
Import ListNotations.
Open Scope string_scope.

(** (1) Each sub-query sent to a service only uses fields that service exposes.
    [fed_ok g] is decidable and evaluated on every generated federation: a service serving a field of a type
    has _federation on that type and on the objects the field returns; whoever has _federation on a type
    serves the fields other services use as its federated keys (what validateFederatedObjects /
    validateFederationKeys enforce).  Arguments are not part of the model's schema; the harness checks them on
    every recorded sub-request. *)
Theorem subquery_closed :
  forall g pick fuel flat p,
    fed_ok g = true -> (forall l s, pick l = Some s -> In s l) ->
    forallb not_fed flat = true ->
    plan_root g pick fuel flat = Some p -> forallb (plan_closed g) (p_after p) = true.
Proof. exact PlannerProofs.subquery_closed. Qed.
Print Assumptions subquery_closed.

(** (2) Normalisation keeps every selection (one level of [flatten]; see the header for what is missing).
    a: flattenFragments, after the @skip/@include filter planObject applies, is exactly CollectFields;
    b: mergeSameAlias (as repaired) gives each alias exactly the sub-selections the query gave it, in order. *)
Theorem normalisation_keeps_every_selection_partial :
  (forall g obj l flat, flatten_frags g obj l = Some flat ->
     filter incl_node flat = collect_all g obj l) /\
  (forall l r, Forall hs_ok l -> merge_same_alias false l = Some r -> forall a, subs_of a r = subs_of a l).
Proof. split; [exact NormalizeProofs.flatten_frags_collects | exact NormalizeProofs.merge_same_alias_keeps_subs]. Qed.
Print Assumptions normalisation_keeps_every_selection_partial.

(** ... which the code before the repair violated (DESIGN F15). *)
Theorem merge_same_alias_original_refuted :
  exists l r a, Forall hs_ok l /\ merge_same_alias true l = Some r /\ subs_of a r <> subs_of a l.
Proof. exact NormalizeProofs.merge_same_alias_original_loses. Qed.
Print Assumptions merge_same_alias_original_refuted.

(** (3) Stitching: [graft] walks the result exactly as extractKeys does and consumes, from the front, exactly
    as many sub-results as extractKeys returned keys -- result i goes to target i. *)
Theorem stitching_consumes_in_order :
  forall path node ks rs extra node' rest,
    extract_keys true path node = Some ks -> List.length rs = List.length ks ->
    graft path node (rs ++ extra) = Some (node', rest) -> rest = extra.
Proof. exact ExecutorProofs.graft_consumes. Qed.
Print Assumptions stitching_consumes_in_order.

(** End to end on a concrete two-service federation: the gateway as repaired agrees with the reference
    semantics where the code as it was did not.  F15: { self{p} self{ self{p} self{q} } } lost q. *)
Theorem gateway_loses_repeated_alias_refuted :
  exists w g pick q,
    option_map norm (fed_exec w g pick true true q) <> option_map norm (eval_ref w g false 9 "Query" 0%Z q) /\
    option_map norm (fed_exec w g pick false true q) = option_map norm (eval_ref w g false 9 "Query" 0%Z q).
Proof.
  exists ww, wg, pick1, q15. destruct f15_repaired as [H1 H2]. split.
  - rewrite f15_original, H2. intros H. discriminate.
  - rewrite H1, H2. reflexivity.
Qed.
Print Assumptions gateway_loses_repeated_alias_refuted.

(** F16: a null element at a service hop made extractKeys fail the whole request. *)
Theorem gateway_fails_on_null_at_hop_refuted :
  exists w g pick q r,
    fed_exec w g pick false false q = None /\
    option_map norm (eval_ref w g false 9 "Query" 0%Z q) = Some r /\
    option_map norm (fed_exec w g pick false true q) = Some r.
Proof.
  exists ww, wg, pick1, q16, ans16. destruct f16_repaired as [H1 H2].
  split; [exact f16_original | split; [exact H2 | exact H1]].
Qed.
Print Assumptions gateway_fails_on_null_at_hop_refuted.

(** Non-vacuity of (1): the witness federation satisfies [fed_ok], the F15 query normalises and plans, and
    its plan has a hop (a sub-plan under the sub-plan of s1). *)
Example subquery_closed_nonvacuous :
  fed_ok wg = true /\
  exists flat p, flatten 10 false wg (RObj "Query") (Some q16) = Some (Some flat) /\
                 forallb not_fed flat = true /\
                 plan_root wg pick1 10 flat = Some p /\
                 match p_after p with [s1] => List.length (p_after s1) = 1 | _ => False end.
Proof.
  split; [vm_compute; reflexivity|].
  eexists. eexists. split; [vm_compute; reflexivity|]. split; [vm_compute; reflexivity|].
  split; [vm_compute; reflexivity|]. vm_compute. reflexivity.
Qed.
